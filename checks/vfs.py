"""VFS engine: C07 (routing), C14 (uid/gid mapping), C19 (save/restore).

spec/Vfs.tla      A level: slots, mount points, pseudo tree, issued numbers, mappings given to the
                  mounts, negotiated options; SaveRestore = stuttering step
spec/VfsImpl.tla  I level, transcribed from src/api/vfs + pseudo_fs.rs + server remap_ctx_ids; checked
                  against A by TLC (MC_Vfs.tla + configs generated here from one template)
spec/Trace_Vfs.tla  judge of the logs of harness/src/bin/vfs.rs (real Server<Arc<Vfs>>, ScriptedFs)

Flow of every check:
  1. the I model transcribes the code as it is: CODE_BUGS = the two restore findings (S6a, S6b, RM are
     fixed in /repo). C19: for each of them TLC with Bugs = {d}, Known = {} finds the counterexample;
     it is replayed on the real code (the harness makes the 256-entry table behave like the model's
     4-entry one by a prologue of filler mounts) and the trace spec flags it (-> KNOWN-FINDING).
     Anti-vacuity: TLC with one fixed defect switched back on must find a counterexample again
     (exit 2 otherwise); these runs are not counted as evidence;
  2. TLC checks I => A exhaustively with Bugs = Known = CODE_BUGS;
  3. behaviours sampled from I by TLC (-simulate) and histories of the seeded generator are executed
     on the real code and validated by the trace spec (C19: each history once unsaved and once with a
     save -> fresh Vfs -> restore -> re-attach after every prefix);
  4. binding demonstration and coverage gate.
"""
import json
import os
import random
import re
import threading

from . import common as C
from . import wire

LEVEL = {"C07": "model_checking", "C14": "model_checking", "C19": "model_checking"}

SCALE = 1 << 28      # model ids 0..15 -> 32-bit ids (multiples of 2^28: the arithmetic is linear)
MODEL_N = 4

# defect id -> (property, regex its violation signatures match, observable invariants are all used)
DEFECTS = {
    "S6a": ("C14", r"C14\|lookup-mountpoint\|root-[ug]id\|translated-twice\|(own|global)-map"),
    "S6b": ("C14", r"C14\|[a-z0-9_-]+\|[a-z-]+\|stale-slot-mapping\|(global|no)-map"),
    "RM": ("C14", r"C14\|[a-z0-9_]+-root-mount\|ctx-[ug]id\|global-instead-of-mount-mapping\|own-map"),
    "S7a": ("C19", r"C19\|after-restore\|C14\|[a-z0-9_-]+\|[a-z-]+\|not-translated\|global-map"),
    "S7b": ("C19", r"C19\|after-restore\|C19\|(init\|second-init-accepted\|first-init-offered-no-capability|mount\|negotiated-options-not-passed-to-backend\|init-offered-no-capability)"),
}
INV = {
    "C07": ["TypeOK", "AllocSame", "AOK", "Routing", "MountTable", "OneSlot", "PseudoNumbers"],
    "C14": ["TypeOK", "AOK", "MountTable", "EffRight", "CtxRight", "RootOnce", "RootPlus"],
    "C19": ["TypeOK", "AOK", "Routing", "MountTable", "OneSlot", "PseudoNumbers", "EffRight", "CtxRight", "RootOnce", "RootPlus",
            "InitRight", "RestoreStutters"],
}
OBSERVABLE = ["AOK", "Routing", "MountTable", "OneSlot", "EffRight", "CtxRight", "RootOnce", "RootPlus"]


DORDER = ["S6a", "S6b", "S7a", "S7b", "RM", "XU"]
# the defect shapes the code has NOW: the two restore findings (not fixed); S6a, S6b, RM were fixed in /repo
CODE_BUGS = ["S7a", "S7b"]
FIXED = {"S6a": "c658da2", "S6b": "09b3f38", "RM": "5f19fd8"}
# anti-vacuity: per check one defect switched back on in the model (XU: seeded, umount leaves the superblock)
ANTI = {"C07": "XU", "C14": "S6a", "C19": "S6b"}


def dset(xs):
    """name of the constant of MC_Vfs.tla denoting this set of defects"""
    return "D_" + "".join("1" if d in xs else "0" for d in DORDER)


def write_cfg(ctx, name, bugs, known, invariants, persist, keephist, maxops, emul=False, paths="MC_Paths2", maps="MC_Maps",
              gmaps="MC_GMaps", alias=False, n=MODEL_N, refuse_before_init=None):
    """One MC configuration of MC_Vfs (written to the work directory)."""
    mod = "MC_Vfs"
    cfg = ctx.path(name + ".cfg")
    lines = ["SPECIFICATION Spec", "CONSTANTS", "  N = %d" % n, "  B = 4", "  Paths <- %s" % paths, "  BadPath <- MC_BadPath",
             "  Backends <- MC_Backends", "  Maps <- %s" % maps, "  GMaps <- %s" % gmaps, "  RootUid <- MC_RootUid", "  TestUid <- MC_TestUid",
             "  MaxOps = %d" % maxops, "  Bugs <- %s" % dset(bugs), "  Known <- %s" % dset(known), "  WithPersist = %s" % ("TRUE" if persist else "FALSE"),
             "  KeepHist = %s" % ("TRUE" if keephist else "FALSE"),
             # before INIT a refusing backend makes INIT fail: with save/restore that meets the restore-initialized finding
             # from the other side (an un-negotiated VFS is restored as negotiated), kept out of the C19 histories
             "  RefuseBeforeInit = %s" % ("TRUE" if (refuse_before_init if refuse_before_init is not None else not persist) else "FALSE")]
    if emul:
        lines += ["  Wrap = 256", "  LoopAlloc = FALSE", "  NextSuper0 = 0", "  NextIno0 = 258"]
    else:
        lines += ["  Wrap = %d" % n, "  LoopAlloc = TRUE", "  NextSuper0 = 1", "  NextIno0 = 2"]
    lines += ["VIEW View", "CHECK_DEADLOCK FALSE"]
    if invariants:
        lines += ["INVARIANTS " + " ".join(invariants)]
    if alias:
        lines += ["ALIAS Alias"]
    with open(cfg, "w") as f:
        f.write("\n".join(lines) + "\n")
    return mod, cfg


_HIST = re.compile(r'hist = "((?:[^"\\]|\\.)*)"')


def unescape(s):
    return s.replace('\\"', '"').replace("\\\\", "\\")


def counterexample(out):
    """The scenario of a TLC error trace printed through ALIAS Alias (last state's hist)."""
    hs = _HIST.findall(out)
    return json.loads(unescape(hs[-1])) if hs else None


def scan_tuples(out, heads):
    """Tuples <<"HEAD", "sig", idx, "detail">> printed by the trace spec (possibly over several lines)."""
    res = []
    for m in re.finditer(r'<<\s*"(%s)"\s*,' % "|".join(heads), out):
        i = m.end()
        toks = []
        while len(toks) < 3 and i < len(out):
            c = out[i]
            if c == '"':
                j = i + 1
                buf = []
                while j < len(out) and out[j] != '"':
                    if out[j] == "\\" and j + 1 < len(out):
                        buf.append(out[j + 1])
                        j += 2
                    else:
                        buf.append(out[j])
                        j += 1
                toks.append("".join(buf))
                i = j + 1
            elif c.isdigit():
                j = i
                while j < len(out) and out[j].isdigit():
                    j += 1
                toks.append(int(out[i:j]))
                i = j
            else:
                i += 1
        if len(toks) == 3:
            res.append((m.group(1), toks[0], toks[1], " ".join(str(toks[2]).split())[:700]))
    return res


# ------------------------------------------------------------------------------------------------
# scenarios

def concretise(sc, sid, src, seed, autoprobe=2, emul=True, nopred=False, idpred=True):
    """A TLC history (model numbers) as a harness scenario."""
    paths = sorted({s["path"] for s in sc["steps"] if s.get("op") in ("mount", "umount") and s["path"].startswith("/")})
    steps = []
    for s in sc["steps"]:
        s = dict(s)
        if s.get("path") == "bad":
            s["path"] = "relative/path"
        if not idpred and "obs" in s:
            # keep the predicted shape (which paths are mounted where), drop the predicted ids
            s["obs"] = [{k: v for k, v in o.items() if k not in ("lk", "ga", "rp", "cx")} for o in s["obs"]]
        if nopred:
            s["nopred"] = True
            s.pop("idx", None)
            s.pop("ok", None)
        steps.append(s)
    out = {"id": sid, "src": src, "kind": "plain", "seed": seed, "g": sc["g"], "scale": SCALE, "autoprobe": autoprobe,
           "paths": paths, "opts": {"no_open": False, "no_opendir": False}, "steps": steps}
    if emul:
        out["emul"] = MODEL_N
    return out


def persist_variants(sc, pair, cuts=None, ver=2):
    """control run + one run per cut with a save/restore after that many state-changing steps. The control has
    a "nop" step at every cut (the probe battery runs there too), each persist run the save/restore at its cut."""
    base = [s for s in sc["steps"] if s.get("op") not in ("saverestore", "nop")]
    marks = [i for i, s in enumerate(base) if s.get("op") != "req"]
    if cuts is None:
        cuts = list(range(0, len(marks) + 1))
    pos = {c: (0 if c == 0 else marks[c - 1] + 1) for c in cuts if c <= len(marks)}

    def build(which):
        steps = []
        hit = False
        for i in range(len(base) + 1):
            for c, p in sorted(pos.items()):
                if p == i:
                    if c == which:
                        steps.append({"op": "saverestore", "ver": ver, "obs": last_obs(base, i)})
                        hit = True
                    else:
                        steps.append({"op": "nop", "obs": last_obs(base, i), "nopred": hit})
            if i < len(base):
                s2 = dict(base[i])
                if hit:
                    s2["nopred"] = True
                    s2.pop("idx", None)
                    s2.pop("ok", None)
                steps.append(s2)
        return steps
    res = [dict(sc, kind="control", pair=pair, id=sc["id"] + "/ctl", steps=build(None))]
    for c in sorted(pos):
        res.append(dict(sc, kind="persist", pair=pair, cut=c, id="%s/cut%d/v%d" % (sc["id"], c, ver), steps=build(c)))
    return res


def last_obs(base, i):
    """the model's observations in force before step i (those of the last state-changing step)"""
    for s in reversed(base[:i]):
        if "obs" in s:
            return s["obs"]
    return []


def tlc_walks(ctx, name, n, depth, bugs, persist, maps="MC_Maps", gmaps="MC_GMaps", paths="MC_Paths", refuse_before_init=None):
    """n behaviours of I sampled by TLC (-simulate), exported through the Export invariant."""
    import time
    t0 = time.time()
    mod, cfg = write_cfg(ctx, name, bugs, bugs, ["Export"], persist, True, depth, emul=True, paths=paths, maps=maps, gmaps=gmaps,
                         refuse_before_init=refuse_before_init)
    # the Export invariant prints every candidate successor of the last step: far more behaviours than walks
    r = C.tlc_mc(ctx, mod, cfg=cfg, workers=4, simulate="num=%d" % max(3, n // 30), depth=depth + 2, coverage=False, must_cover=False, timeout=900)
    seen = {}
    for m in re.finditer(r'<<\s*"REPLAY"\s*,\s*"((?:[^"\\]|\\.)*)"\s*>>', r["output"]):
        s = unescape(m.group(1))
        seen.setdefault(s, None)
    out = [json.loads(s) for s in seen]
    if len(out) > n:
        out = random.Random(ctx.seed).sample(out, n)
    if not out:
        C.log(r["output"][-3000:])
        raise C.ToolError("TLC exported no behaviour (%s)" % name)
    C.log("vfs %s: %d behaviours exported by TLC in %.1fs" % (name, len(out), time.time() - t0))
    return out


def bindir(ctx):
    return C.build_harness(bins=["vfs"])


def gen_random(ctx, bd, abi, nsc, nmounts, shape, tag):
    out = ctx.path("gen_%s.ndjson" % tag)
    C.run_bin(bd, "vfs", [abi, out, "gen", nsc, nmounts, shape], env={"VERIF_SEED": ctx.seed + sum(map(ord, tag))}, timeout=600)
    return C.read_ndjson(out)


def execute(ctx, bd, abi, scenarios, tag):
    """Run scenarios on the real code, validate the trace. Returns (rows, viols, drifts)."""
    import time
    t0 = time.time()
    scf = ctx.path("sc_%s.ndjson" % tag)
    trf = ctx.path("tr_%s.ndjson" % tag)
    C.write_ndjson(scf, scenarios)
    C.run_bin(bd, "vfs", [abi, trf, "replay", scf], env={"VERIF_SEED": ctx.seed}, timeout=1800)
    res = C.tlc_trace(ctx, "Trace_Vfs", trf, timeout=3000, xmx="8g")
    if not res["accepted"]:
        raise C.ToolError("vfs trace %s not consumed: %s" % (tag, res["stuck"]))
    rows = C.read_ndjson(trf)
    keep = os.environ.get("VERIF_VFS_KEEP")          # development: keep scenarios, trace and TLC output
    if keep:
        import shutil
        os.makedirs(keep, exist_ok=True)
        shutil.copy(scf, keep)
        shutil.copy(trf, keep)
        with open(os.path.join(keep, "tlc_%s.out" % tag), "w") as f:
            f.write(res["output"])
    ctx.traces += len(scenarios)
    ctx.events += len(rows)
    tup = scan_tuples(res["output"], ["VIOL", "DRIFTV"])
    viols = [(s, i, d) for h, s, i, d in tup if h == "VIOL"]
    drifts = [(s, i, d) for h, s, i, d in tup if h == "DRIFTV"]
    C.log("vfs %s: %d scenarios, %d events validated in %.1fs (TLC %.1fs)" % (tag, len(scenarios), len(rows), time.time() - t0, res["wall_s"]))
    return rows, viols, drifts, trf


_SEGIDS = {}


def seg_of(rows, idx):
    """scenario id of the segment containing event number idx (1-based)"""
    key = id(rows)
    if key not in _SEGIDS:
        _SEGIDS.clear()
        _SEGIDS[key] = {r.get("seg"): r.get("id") for r in rows if r.get("e") == "Reset"}
    seg = rows[idx - 1].get("seg") if 0 < idx <= len(rows) else None
    return _SEGIDS[key].get(seg), seg


def report(ctx, pid, rows, viols, scenarios, tag):
    byid = {s["id"]: s for s in scenarios}
    n = 0
    for sig, idx, detail in viols:
        if not sig.startswith(pid + "|"):
            continue
        sid, seg = seg_of(rows, idx)
        ev = rows[idx - 1] if 0 < idx <= len(rows) else None
        sc = byid.get(sid)
        group = [sc] if sc else []
        if sc and sc.get("kind") == "persist":      # a persist run is judged against its control run
            group = [s for s in scenarios if s.get("kind") == "control" and s.get("pair") == sc.get("pair")] + group
        ctx.violation(sig, {"scenario": sid, "event_index": idx, "event": ev, "got_vs_expected": detail},
                      replay_src={"scenarios": group, "seed": ctx.seed, "source": tag})
        n += 1
    return n


def note_drift(ctx, drifts, rows, tag):
    for sig, idx, detail in drifts[:50]:
        sid, _ = seg_of(rows, idx)
        ctx.drift.append({"what": sig, "scenario": sid, "detail": detail, "source": tag})
    if drifts:
        C.log("MODEL-DRIFT: %d prediction(s) of VfsImpl differ from the code in %s (first: %s %s)" % (len(drifts), tag, drifts[0][0], drifts[0][2][:200]))


# ------------------------------------------------------------------------------------------------
# step 1: which defects does the code have

def uncount(ctx, r):
    """TLC runs on a model that is deliberately not the code (litmus / anti-vacuity) are not evidence"""
    ctx.states -= r["distinct"]
    ctx.transitions -= r["generated"]
    ctx.mc_runs = [x for x in ctx.mc_runs if x.get("cfg") != r["cfg"]]


def detect(ctx, bd, abi, pid, persist):
    """(a) C19: for each defect the code still has (CODE_BUGS) TLC finds the counterexample with only that defect
    in the model; it is replayed on the real code and judged by the trace spec (a defect that does not reproduce
    is model drift and is taken out of the model for this run).
    (b) anti-vacuity: TLC with the code's shapes plus one fixed defect switched back on must find a counterexample
    again (exit 2 otherwise); for C14 that behaviour is replayed too: the code must no longer show it.
    None of these TLC runs counts as evidence."""
    mine = list(CODE_BUGS) if pid == "C19" else []
    anti = ANTI[pid]
    results = {}

    def one(key, bugs, known, pers):
        try:
            mod, cfg = write_cfg(ctx, "lit_" + key, bugs, known, OBSERVABLE, pers, True, 5, emul=True, alias=True)
            results[key] = C.tlc_mc(ctx, mod, cfg=cfg, workers=2, coverage=False, must_cover=False, expect_violation=True, timeout=600)
        except Exception as e:      # noqa
            results[key] = e
    ths = [threading.Thread(target=one, args=(d, [d], [], True)) for d in mine]
    ths.append(threading.Thread(target=one, args=("anti", CODE_BUGS + [anti], CODE_BUGS, persist)))
    for t in ths:
        t.start()
    for t in ths:
        t.join()
    for r in results.values():
        if isinstance(r, Exception):
            raise r
        uncount(ctx, r)
    # (b)
    ra = results["anti"]
    if not ra["violated"]:
        raise C.ToolError("anti-vacuity: the model with the fixed defect %s switched back on satisfies every invariant" % anti)
    sca = counterexample(ra["output"])
    ctx.extra["anti_vacuity"] = {"defect_switched_on": anti, "fixed_by": FIXED.get(anti, "(seeded in the model only)"),
                                 "invariants_violated": ra["violated"], "states_not_counted": ra["distinct"],
                                 "steps": [x.get("op") + ":" + str(x.get("path", "")) for x in (sca or {}).get("steps", [])]}
    present, info, scs = [], [], []
    if pid == "C14" and sca is not None:
        scs.append(concretise(sca, "fixed-" + anti, "tlc-counterexample-of-fixed-defect:" + ",".join(ra["violated"]), ctx.seed, autoprobe=1, nopred=True))
    # (a)
    for d in mine:
        r = results[d]
        if not r["violated"]:
            raise C.ToolError("the model with defect %s satisfies A: the litmus run found no counterexample" % d)
        sc = counterexample(r["output"])
        if sc is None:
            raise C.ToolError("could not read the counterexample for %s" % d)
        s = concretise(sc, "litmus-" + d, "tlc-counterexample:" + ",".join(r["violated"]), ctx.seed, autoprobe=1, nopred=True)
        # the model's own saverestore step stays where TLC put it; control: the same with "nop" in its place
        steps = s["steps"]
        pos = [i for i, x in enumerate(steps) if x.get("op") == "saverestore"]
        ctl = dict(s, kind="control", pair=1000 + len(scs), id=s["id"] + "/ctl",
                   steps=[({"op": "nop", "obs": x.get("obs", []), "nopred": True} if x.get("op") == "saverestore" else x) for x in steps])
        per = dict(s, kind="persist", pair=ctl["pair"], id=s["id"] + "/persist", cut=pos[0] if pos else -1)
        scs += [ctl, per]
        info.append({"defect": d, "invariant": r["violated"], "steps": [x.get("op") + ":" + str(x.get("path", "")) for x in sc["steps"]],
                     "states_not_counted": r["distinct"]})
    ctx.extra["defect_litmus"] = info
    if not scs:
        return list(CODE_BUGS), []
    rows, viols, drifts, trf = execute(ctx, bd, abi, scs, "litmus")
    for d, inf in zip(mine, info):
        rx = DEFECTS[d][1]
        sid = "litmus-" + d
        hit = sorted({s for s, i, _ in viols if (seg_of(rows, i)[0] or "").startswith(sid) and re.fullmatch(rx, s)})
        inf["reproduced_on_code"] = bool(hit)
        inf["signatures"] = hit[:6]
        if hit:
            present.append(d)
        else:
            ctx.drift.append({"what": "defect %s of VfsImpl does not reproduce on the code" % d})
            C.log("MODEL-DRIFT: the code no longer shows defect %s that VfsImpl transcribes (CODE_BUGS in checks/vfs.py)" % d)
    if pid == "C14":
        hit = sorted({s for s, i, _ in viols if (seg_of(rows, i)[0] or "") == "fixed-" + anti and re.fullmatch(DEFECTS[anti][1], s)})
        ctx.extra["anti_vacuity"]["reproduced_on_code"] = bool(hit)
    # everything the trace spec found in these replays is reported like any other violation
    report(ctx, pid, rows, viols, scs, "tlc-counterexample")
    note_drift(ctx, [x for x in drifts], rows, "litmus")
    if pid != "C19":
        return list(CODE_BUGS), rows
    C.log("%s: defects of the model reproduced on the code: %s" % (pid, present or "none"))
    return present, rows


def main_mc(ctx, pid, bugs, persist):
    quick = ctx.quick
    name = "main_%s" % pid
    # quick: refusing backends only once the VFS is negotiated (the exhaustive run with refusals before INIT, which make
    # INIT fail, is three times larger: thorough tier; the sampled behaviours replayed on the code include them in both tiers)
    mod, cfg = write_cfg(ctx, name, bugs, bugs, INV[pid], persist, False, 4 if quick else 6, paths="MC_Paths2" if quick else "MC_Paths",
                         maps="MC_Maps", gmaps="MC_GMaps", refuse_before_init=False if (quick or persist) else True)
    r = C.tlc_mc(ctx, mod, cfg=cfg, workers=8, timeout=1500, ignore_uncovered=() if persist else ("DoSaveRestore",))
    C.log("vfs %s: I => A checked on %d distinct states (%d generated) in %.1fs" % (name, r["distinct"], r["generated"], r["wall_s"]))
    if r["violated"]:
        # not explained by a known finding: get the behaviour, replay it, let the trace spec decide
        mod2, cfg2 = write_cfg(ctx, name + "_cx", bugs, bugs, r["violated"], persist, True, 6, emul=True, alias=True)
        r2 = C.tlc_mc(ctx, mod2, cfg=cfg2, workers=4, coverage=False, must_cover=False, expect_violation=True, timeout=900)
        return r, counterexample(r2["output"])
    return r, None


# ------------------------------------------------------------------------------------------------
# coverage of the validated traces

def coverage(rows):
    cov = {"mounts_ok": 0, "mounts_refused": 0, "overmounts": 0, "root_mounts": 0, "nested_mounts": 0, "umounts": 0, "wraparounds": 0,
           "table_full": 0, "requests": 0, "vacant_slot_requests": 0, "pseudo_requests": 0, "cross_mount_two_inode": 0,
           "mountpoint_lookups": 0, "with_own_mapping": 0, "with_global_mapping": 0, "saverestore": 0, "saverestore_v1": 0, "saved_after_wrap_with_mapping_above_next_super": 0, "saved_with_empty_pseudo_fs_after_allocations": 0, "remounts_in_place": 0, "mounts_refused_backend_init": 0, "overmounts_refused_backend_init": 0, "inits_refused_by_backend": 0,
           "with_own_empty_range_mapping": 0, "with_own_empty_range_mapping_under_global": 0,
           "requests_on_empty_range_mount_under_global": 0,
           "requests_after_remount": 0, "umounts_refused": 0, "umounts_refused_with_remove_pseudo_root": 0, "umounts_with_remove_pseudo_root": 0, "ops": {}}
    mounted = {}
    lastidx = 0
    nocc = 0
    gm = False
    wrapped, nexts, mapped = False, 1, {}
    rm, remounted, emptyown = False, set(), set()
    npseudo_made, pseudo_live = 0, 0
    for r in rows:
        e = r.get("e")
        if e == "Reset":
            rm = bool(r["opts"].get("remove_pseudo_root"))
            npseudo_made, pseudo_live = 0, 0
            remounted = set()
            emptyown = set()
            mounted = {}
            lastidx = 0
            wrapped, nexts, mapped = False, 1, {}
            gm = r["gmap"]["r"] != {"h": 0, "l": 0}
        elif e == "Prefill":
            lastidx = 255
            wrapped, nexts = True, 0                   # 255 allocations: the counter is back at 0
            mounted.update({"/fill/%d" % k: k for k in range(r["first"], r["last"] + 1)})
        elif e == "Mount":
            if r["ret"] == "ok":
                cov["mounts_ok"] += 1
                p = "/" + "/".join(c for c in r["comps"] if c not in ("", "."))
                if p in mounted:
                    cov["overmounts"] += 1
                elif p != "/":
                    npseudo_made += 1
                    pseudo_live += p.count("/")        # directories made on the way
                if p == "/":
                    cov["root_mounts"] += 1
                if any(p.startswith(q + "/") for q in mounted if q != "/"):
                    cov["nested_mounts"] += 1
                mounted[p] = r["idx"]
                nexts = (r["idx"] + 1) % 256           # where the index counter stands after this allocation
                mapped = {q: i for q, i in mapped.items() if q != p}
                if r["some"]:
                    mapped[p] = r["idx"]
                if r["idx"] < lastidx:
                    wrapped = True
                    cov["wraparounds"] += 1
                lastidx = r["idx"]
                if r["some"] and r["map"]["r"] == {"h": 0, "l": 0}:
                    cov["with_own_empty_range_mapping"] += 1
                    if gm:
                        cov["with_own_empty_range_mapping_under_global"] += 1
                        emptyown.add(r["idx"])
                else:
                    emptyown.discard(r["idx"])
                if r["some"]:
                    cov["with_own_mapping"] += 1
                elif gm:
                    cov["with_global_mapping"] += 1
            else:
                cov["mounts_refused"] += 1
                if r.get("init_ok") is False and r.get("abs") and r.get("backend_ok"):
                    cov["mounts_refused_backend_init"] += 1
                    if "/" + "/".join(c for c in r["comps"] if c not in ("", ".")) in mounted:
                        cov["overmounts_refused_backend_init"] += 1
                if r.get("abs") and r.get("backend_ok") and "maximum mountpoints" in r.get("err", ""):
                    cov["table_full"] += 1
        elif e == "Init" and r.get("backend_refuses") and r.get("status") != 0:
            cov["inits_refused_by_backend"] += 1
        elif e == "Remount":
            if r["ret"] == "ok":
                cov["remounts_in_place"] += 1
                remounted.add(r["idx"])
        elif e == "Umount" and r["ret"] != "ok":
            cov["umounts_refused"] += 1
            if rm:
                cov["umounts_refused_with_remove_pseudo_root"] += 1
        elif e == "Umount" and r["ret"] == "ok":
            cov["umounts"] += 1
            if rm:
                cov["umounts_with_remove_pseudo_root"] += 1
                pseudo_live -= 1                       # the mount point's directory goes, its parents stay
            mounted.pop("/" + "/".join(c for c in r["comps"] if c not in ("", ".")), None)
            mapped.pop("/" + "/".join(c for c in r["comps"] if c not in ("", ".")), None)
        elif e == "SaveRestore" and r.get("ret") == "ok":
            cov["saverestore"] += 1
            if rm and npseudo_made > 0 and not [q for q in mounted if q != "/"] and pseudo_live == 0:
                cov["saved_with_empty_pseudo_fs_after_allocations"] += 1
            if wrapped and any(i >= nexts for i in mapped.values()):
                cov["saved_after_wrap_with_mapping_above_next_super"] += 1
            if r.get("version") == 1:
                cov["saverestore_v1"] += 1
        elif e == "Req":
            cov["requests"] += 1
            cov["ops"][r["op"]] = cov["ops"].get(r["op"], 0) + 1
            i = r["ino"]["idx"]
            if i in remounted:
                cov["requests_after_remount"] += 1
            if i in emptyown:
                cov["requests_on_empty_range_mount_under_global"] += 1
            if i == 0:
                cov["pseudo_requests"] += 1
            elif i not in mounted.values():
                cov["vacant_slot_requests"] += 1
            if "ino2" in r and r["ino2"]["idx"] != i:
                cov["cross_mount_two_inode"] += 1
            if r["op"] == "lookup" and i == 0:
                cov["mountpoint_lookups"] += 1
    return cov


def gate(ctx, cov, need):
    if ctx.violations:          # a failing run is reported as such; the gate guards the meaning of a passing one
        return
    missing = [k for k in need if not cov.get(k)]
    if missing:
        raise C.ToolError("coverage gate: the validated traces never exercised %s" % missing)


def corrupt_demo(ctx, rows, mutate, want_prefix, what):
    """binding demonstration: a corrupted copy of a real trace must be flagged"""
    bad = [json.loads(json.dumps(r)) for r in rows]
    if not mutate(bad):
        raise C.ToolError("binding demo: nothing to corrupt (%s)" % what)
    bf = ctx.path("corrupt.ndjson")
    C.write_ndjson(bf, bad)
    res = C.tlc_trace(ctx, "Trace_Vfs", bf, timeout=1200, xmx="6g")
    sigs = sorted({s for h, s, i, d in scan_tuples(res["output"], ["VIOL"]) if s.startswith(want_prefix)})
    if not sigs:
        raise C.ToolError("binding demo failed: corrupted trace accepted (%s)" % what)
    return {"corruption": what, "rejected_with": sigs[:8]}


def first_segments(rows, nseg):
    out = []
    segs = []
    for r in rows:
        s = r.get("seg")
        if s not in segs:
            segs.append(s)
        if len(segs) > nseg:
            break
        out.append(r)
    return out


# ------------------------------------------------------------------------------------------------

def replay(ctx, pid):
    """./check <pid> --replay FILE: re-execute the scenario(s) of a replay file and judge them again"""
    with open(ctx.replay) as f:
        rp = json.load(f)
    scs = (rp.get("scenario") or {}).get("scenarios") or []
    if not scs:
        raise C.ToolError("replay file %s holds no scenario" % ctx.replay)
    bd = bindir(ctx)
    abi = wire.export_abi(ctx)
    rows, viols, drifts, trf = execute(ctx, bd, abi, scs, "replay")
    n = report(ctx, pid, rows, viols, scs, "replay-file")
    C.log("replayed %d scenario(s) of %s: %d event(s), %d failed obligation(s) of %s (known findings included)" % (len(scs), ctx.replay, len(rows), n, pid))
    ctx.extra["rule"] = "replay of " + ctx.replay


def export_abi(ctx):
    """the ABI table exported from the wire spec (one retry: the JVM start can fail on an overloaded machine)"""
    try:
        return wire.export_abi(ctx)
    except C.ToolError:
        return wire.export_abi(ctx)


def common_run(ctx, pid, persist):
    bd = bindir(ctx)
    abi = export_abi(ctx)
    try:
        present, lit_rows = detect(ctx, bd, abi, pid, persist)
        r, cx = main_mc(ctx, pid, present, persist)
        ctx.extra["action_coverage"] = {k: v for k, v in r.get("actions", {}).items() if k.startswith("VfsImpl!Do")}
        ctx.extra["model_defects_in_force"] = present
        extra_sc = []
        if r["violated"]:
            C.log("%s: I => A fails outside the known findings: %s (the behaviour is replayed on the code as scenario mc-counterexample: "
                  "a VIOLATION below if the code has it, else MODEL-DRIFT: VfsImpl does something the code does not)" % (pid, r["violated"]))
            ctx.drift.append({"what": "TLC: I => A violated outside the known findings", "invariants": r["violated"]})
            if cx:
                extra_sc.append(concretise(cx, "mc-counterexample", "tlc-counterexample:" + ",".join(r["violated"]), ctx.seed))
        return bd, abi, present, r, extra_sc, lit_rows
    finally:
        pass


NOMAP = {"i": 0, "e": 0, "r": 0, "some": False}


def _req(rop, path, seed, **kw):
    return dict({"op": "req", "rop": rop, "seed": seed, "t": {"t": "mpath", "path": path}, "fail": False}, **kw)


def directed_c07(seed):
    """Targeted histories behind the coverage gates of C07 (independent of the seed): nested / root / over-mount, full
    table, refused mounts (relative path, backend refusing init() after INIT, also as an over-mount), re-attach in
    place, vacant index, cross-mount link/rename, and - with set_remove_pseudo_root() - refused umounts of an
    intermediate pseudo directory, of "/" and of unknown paths."""
    d1 = {"id": "directed-c07-table", "src": "directed", "kind": "plain", "seed": seed * 11 + 1, "g": {"i": 0, "e": 0, "r": 0}, "scale": 1,
          "emul": MODEL_N, "autoprobe": 2, "paths": ["/x", "/x/y", "/q"], "opts": {"no_open": False, "no_opendir": False},
          "steps": [{"op": "mount", "path": "/x", "b": "b1", "m": NOMAP}, {"op": "mount", "path": "/x/y", "b": "b2", "m": NOMAP},
                    {"op": "mount", "path": "/", "b": "b1", "m": NOMAP},
                    {"op": "mount", "path": "/z", "b": "b2", "m": NOMAP},                       # table full
                    {"op": "mount", "path": "relative/path", "b": "b2", "m": NOMAP},
                    _req("link", "/x", 1, t2={"t": "mpath", "path": "/x/y"}), _req("rename", "/x/y", 2, t2={"t": "mpath", "path": "/"}),
                    {"op": "remount", "path": "/x", "b": "b2"}, _req("getattr", "/x", 3), _req("lookup", "/x", 4), _req("readdirplus", "/x", 5),
                    {"op": "umount", "path": "/x/y"},
                    {"op": "req", "rop": "getattr", "seed": 6, "t": {"t": "ino", "idx": 2, "low": "5"}},      # vacant index
                    {"op": "mount", "path": "/x", "b": "b2", "m": NOMAP},                      # over-mount
                    {"op": "umount", "path": "/"},
                    {"op": "init", "empty": False, "zmo": False, "zmod": False},
                    {"op": "mount", "path": "/q", "b": "b1", "m": NOMAP, "init_fail": True},   # refused: nothing changes
                    {"op": "mount", "path": "/x", "b": "b1", "m": NOMAP, "init_fail": True},   # refused over-mount: /x stays
                    _req("getattr", "/x", 7), _req("lookup", "/x", 8),
                    {"op": "umount", "path": "/x"}, {"op": "umount", "path": "/q"}]}
    d2 = {"id": "directed-c07-rmroot", "src": "directed", "kind": "plain", "seed": seed * 11 + 2, "g": {"i": 0, "e": 0, "r": 0}, "scale": 1,
          "autoprobe": 1, "paths": ["/x/y", "/w"], "opts": {"no_open": False, "no_opendir": False, "remove_pseudo_root": True},
          "steps": [{"op": "mount", "path": "/x/y", "b": "b1", "m": NOMAP}, {"op": "mount", "path": "/w", "b": "b2", "m": NOMAP},
                    {"op": "umount", "path": "/x"}, {"op": "umount", "path": "/"}, {"op": "umount", "path": "/q"}, {"op": "umount", "path": "/x/never"},
                    {"op": "umount", "path": "/x/y"}, {"op": "mount", "path": "/x/y", "b": "b2", "m": NOMAP},
                    {"op": "remount", "path": "/w", "b": "b1"}, _req("getattr", "/w", 9),
                    {"op": "umount", "path": "/w"}, {"op": "umount", "path": "/x/y"}]}
    # a backend that refuses init() mounted BEFORE the negotiation: the mount succeeds, INIT fails as long as it is mounted
    d3 = {"id": "directed-c07-init-refused", "src": "directed", "kind": "plain", "seed": seed * 11 + 3, "g": {"i": 0, "e": 0, "r": 0}, "scale": 1,
          "autoprobe": 1, "paths": ["/p", "/r"], "opts": {"no_open": False, "no_opendir": False},
          "steps": [{"op": "mount", "path": "/p", "b": "b1", "m": NOMAP, "init_fail": True}, {"op": "mount", "path": "/r", "b": "b2", "m": NOMAP},
                    {"op": "init", "empty": False, "zmo": True, "zmod": False}, _req("getattr", "/p", 10), _req("open", "/r", 11),
                    {"op": "umount", "path": "/p"}, {"op": "init", "empty": False, "zmo": False, "zmod": True}, _req("open", "/r", 12),
                    {"op": "mount", "path": "/p", "b": "b1", "m": NOMAP, "init_fail": True}, {"op": "init", "empty": False, "zmo": True, "zmod": True}]}
    return [d1, d2, d3]


def directed_c14(seed):
    """Targeted history behind the coverage gates of C14: a global mapping, mounts with their own mapping, with an own
    EMPTY-RANGE mapping, with none, on "/", over-mounted; every id-carrying operation on each of them."""
    g = {"i": 0, "e": 1000, "r": 65536}
    own = {"i": 0, "e": 100000, "r": 65536, "some": True}
    empty = {"i": 5, "e": 7, "r": 0, "some": True}
    steps = [{"op": "mount", "path": "/a", "b": "b1", "m": own, "ruid": 3, "rgid": 70000},
             {"op": "mount", "path": "/b", "b": "b2", "m": empty, "ruid": 0, "rgid": 1000},
             {"op": "mount", "path": "/", "b": "b1", "m": NOMAP, "ruid": 65535, "rgid": 65536}]
    n = 0
    for path in ("/a", "/b", "/"):
        for rop in ("lookup", "getattr", "setattr", "create", "mkdir", "mknod", "symlink", "link", "readdirplus"):
            n += 1
            steps.append(_req(rop, path, seed * 100 + n, **({"t2": {"t": "mpath", "path": path}} if rop == "link" else {})))
    steps += [{"op": "mount", "path": "/a", "b": "b2", "m": NOMAP, "ruid": 1, "rgid": 2}, _req("getattr", "/a", 91), _req("setattr", "/a", 92),
              {"op": "umount", "path": "/"}, {"op": "mount", "path": "/c", "b": "b1", "m": empty}, _req("create", "/c", 93)]
    return [{"id": "directed-c14-maps", "src": "directed", "kind": "plain", "seed": seed * 13 + 1, "g": g, "scale": 1, "emul": MODEL_N,
             "autoprobe": 2, "paths": ["/a", "/b", "/c"], "opts": {"no_open": False, "no_opendir": False}, "steps": steps}]


def plain_sources(ctx, bd, abi, present, tag, idpred=True):
    quick = ctx.quick
    walks = tlc_walks(ctx, "walk_" + tag, 120 if quick else 600, 6 if quick else 8, present, False)
    scs = [concretise(w, "tlc-%s-%d" % (tag, i), "tlc-simulate", ctx.seed * 1000 + i, autoprobe=2, idpred=idpred) for i, w in enumerate(walks)]
    rnd = gen_random(ctx, bd, abi, 2 if quick else 10, 300 if quick else 600, "mix", tag)
    rnd += gen_random(ctx, bd, abi, 1 if quick else 3, 330 if quick else 600, "fill", tag + "f")
    # set_remove_pseudo_root(): leaf mount points, refused umounts of intermediate directories / "/" / unknown paths,
    # walks to every mount path after every step, every mount unmounted by path at the end
    rnd += gen_random(ctx, bd, abi, 2 if quick else 12, 25 if quick else 80, "rmroot", tag + "r")
    rnd += directed_c07(ctx.seed) + directed_c14(ctx.seed)
    return scs, rnd


def run_c07(ctx):
    if getattr(ctx, "replay", None):
        return replay(ctx, "C07")
    bd, abi, present, r, extra_sc, _ = common_run(ctx, "C07", False)
    try:
        scs, rnd = plain_sources(ctx, bd, abi, present, "c07")
        allsc = extra_sc + scs + rnd
        rows, viols, drifts, trf = execute(ctx, bd, abi, allsc, "c07")
        report(ctx, "C07", rows, viols, allsc, "replay")
        note_drift(ctx, drifts, rows, "c07")
        cov = coverage(rows)
        gate(ctx, cov, ["mounts_ok", "mounts_refused", "overmounts", "root_mounts", "nested_mounts", "umounts", "wraparounds", "table_full",
                        "vacant_slot_requests", "pseudo_requests", "cross_mount_two_inode", "mountpoint_lookups", "remounts_in_place",
                        "requests_after_remount", "umounts_refused_with_remove_pseudo_root", "umounts_with_remove_pseudo_root",
                        "mounts_refused_backend_init", "overmounts_refused_backend_init", "inits_refused_by_backend"])

        def mut(bad):
            n = 0
            drop = []
            for i, x in enumerate(bad):
                if x.get("e") == "BackendCall" and x.get("m") == "getattr" and n == 0:
                    x["backend"] = "nobody"
                    n += 1
                elif x.get("e") == "Reply" and "entry" in x and x["entry"]["ino"]["idx"] > 0 and n == 1:
                    x["entry"]["ino"]["idx"] = (x["entry"]["ino"]["idx"] % 250) + 1
                    n += 1
                elif x.get("e") == "BackendCall" and x.get("m") == "mkdir" and x["ret"]["kind"] == "entry" and n == 2:
                    drop.append(i)
                    n += 1
            for i in drop:
                del bad[i]
            return n == 3
        demo = corrupt_demo(ctx, first_segments(rows, 40), mut, "C07|", "backend of a getattr call renamed; index bits of a returned inode changed; a mkdir call event dropped")
        ctx.extra.update({
            "distinct_nontrivial": cov["mounts_ok"] + cov["umounts"],
            "rule": "mount/umount/over-mount steps executed on the real Vfs and validated against Vfs.tla (each followed by request batteries on live, stale, vacant and never-issued numbers); scenarios = %d TLC behaviours + %d seeded histories" % (len(scs), len(rnd)),
            "trace_coverage": cov, "binding_demo": [demo], "drift_count": len(drifts),
        })
        for s in (extra_sc + scs)[:2]:
            ctx.sample({"scenario": s["id"], "steps": s["steps"][:6]})
        ctx.assumptions += ["backends are ScriptedFs instances (own inode numbering, consistent dirent/entry numbers); pseudo inode numbers are allocated sequentially from 2 (the number scheme C19 relies on)",
                            "requests of operations the Vfs does not implement (ioctl, lseek, locks, bmap, poll, copy_file_range) are not driven",
                            "with set_remove_pseudo_root() the mount points of the histories are leaves of the pseudo tree (a successful umount of a directory that has mounts below it evicts the directory: those mounts are no longer reachable by path; not judged here)",
                            "restore_mount on a live instance is driven only in place (same index, same path as a current mount)"]
    finally:
        pass


def run_c14(ctx):
    if getattr(ctx, "replay", None):
        return replay(ctx, "C14")
    bd, abi, present, r, extra_sc, _ = common_run(ctx, "C14", False)
    try:
        scs, rnd = plain_sources(ctx, bd, abi, present, "c14")
        allsc = extra_sc + scs + rnd
        rows, viols, drifts, trf = execute(ctx, bd, abi, allsc, "c14")
        report(ctx, "C14", rows, viols, allsc, "replay")
        note_drift(ctx, drifts, rows, "c14")
        cov = coverage(rows)
        gate(ctx, cov, ["with_own_mapping", "with_global_mapping", "overmounts", "wraparounds", "root_mounts", "mountpoint_lookups",
                        "with_own_empty_range_mapping_under_global", "requests_on_empty_range_mount_under_global"])
        for op in ("lookup", "getattr", "setattr", "create", "mkdir", "mknod", "symlink", "link", "readdirplus"):
            if not cov["ops"].get(op) and not ctx.violations:
                raise C.ToolError("coverage gate: no %s request in the validated traces" % op)

        def mut(bad):
            n = 0
            for x in bad:
                if x.get("e") == "BackendCall" and x.get("m") == "setattr" and "owner" in x and n == 0:
                    x["owner"]["uid"]["l"] = (x["owner"]["uid"]["l"] + 1) % 65536
                    n += 1
                elif x.get("e") == "Reply" and "attr" in x and n == 1:
                    x["attr"]["gid"]["h"] = (x["attr"]["gid"]["h"] + 1) % 65536
                    n += 1
                elif x.get("e") == "BackendCall" and "ctx" in x and x.get("m") == "lookup" and n == 2:
                    x["ctx"]["uid"], x["ctx"]["gid"] = {"h": 1, "l": 2}, {"h": 3, "l": 4}
                    n += 1
            return n == 3
        demo = corrupt_demo(ctx, first_segments(rows, 40), mut, "C14|", "owner uid of a logged setattr call +1; gid of a getattr reply +65536; caller ids of a lookup call replaced")
        ctx.extra.update({
            "distinct_nontrivial": cov["with_own_mapping"] + cov["with_global_mapping"],
            "rule": "every request that reached a backend is judged: caller ids and setattr owner ids = In(Eff(mount)), every returned owner id = Out(Eff(mount)) exactly once; ids drawn from {0, base-1, base, base+range-1, base+range, 2^32-1, random} of the mappings in play; mappings disjoint/reversed/overlapping/at 2^32",
            "trace_coverage": cov, "binding_demo": [demo], "drift_count": len(drifts),
        })
        for s in (extra_sc + scs)[:2]:
            ctx.sample({"scenario": s["id"], "g": s["g"], "steps": s["steps"][:5]})
        ctx.assumptions += ["mappings satisfy internal+range <= 2^32 and external+range <= 2^32 (otherwise the library's arithmetic overflows)",
                            "per-mount mappings include empty ranges (Some((i, e, 0)) translates nothing and replaces the global mapping), single ids and ranges ending at 2^32-1", "owner ids of pseudo directories are not constrained"]
    finally:
        pass


def run_c19(ctx):
    if getattr(ctx, "replay", None):
        return replay(ctx, "C19")
    bd, abi, present, r, extra_sc, _ = common_run(ctx, "C19", True)
    try:
        quick = ctx.quick
        rnd_py = random.Random(ctx.seed)
        # histories of the model: with per-mount/global mappings (format 2) and without any (format 1 too)
        walks = tlc_walks(ctx, "walk_c19", 10 if quick else 60, 5 if quick else 7, present, False, refuse_before_init=False)
        walks1 = tlc_walks(ctx, "walk_c19v1", 4 if quick else 30, 5 if quick else 7, present, False, maps="MC_NoMaps", gmaps="MC_NoGMaps", refuse_before_init=False)
        scs = []
        pair = 1
        for i, w in enumerate(walks):
            scs += persist_variants(concretise(w, "tlc-c19-%d" % i, "tlc-simulate", ctx.seed * 1000 + i, autoprobe=1), pair)
            pair += 1
        for i, w in enumerate(walks1):
            scs += persist_variants(concretise(w, "tlc-c19v1-%d" % i, "tlc-simulate", ctx.seed * 2000 + i, autoprobe=1), pair, ver=1)
            pair += 1
        # the model's own behaviours with save/restore steps (predictions after the restore included)
        walksp = tlc_walks(ctx, "walk_c19p", 10 if quick else 100, 6 if quick else 8, present, True)
        for i, w in enumerate(walksp):
            if any(s.get("op") == "saverestore" for s in w["steps"]):
                c = concretise(w, "tlc-c19p-%d" % i, "tlc-simulate", ctx.seed * 3000 + i, autoprobe=1)
                # control: the same history with the save/restore steps replaced by "nop"; the predictions are those
                # of the model *with* the restores, so the control carries none after the first one
                cs, seen_sr = [], False
                for x in c["steps"]:
                    if x.get("op") == "saverestore":
                        seen_sr = True
                        cs.append({"op": "nop", "obs": x.get("obs", []), "nopred": True})
                    else:
                        y = dict(x)
                        if seen_sr:
                            y["nopred"] = True
                            y.pop("idx", None)
                            y.pop("ok", None)
                        cs.append(y)
                scs += [dict(c, kind="control", pair=pair, id=c["id"] + "/ctl", steps=cs), dict(c, kind="persist", pair=pair, cut=-2)]
                pair += 1
        # directed: a save after the index counter wrapped around, while mounts with their own mapping sit at
        # indices at and above next_super (x, y, z take 1, 2, 3; x is unmounted and mounted again: the counter
        # wraps and stands at 2 with y and z, both with a mapping, above it); requests with ids follow
        m1, m2 = {"i": 0, "e": 100000, "r": 65536}, {"i": 70000, "e": 5000, "r": 1000}
        wrap = {"id": "wrap-saved", "src": "directed", "kind": "plain", "seed": ctx.seed * 7 + 1, "g": {"i": 0, "e": 0, "r": 0}, "scale": 1,
                "emul": MODEL_N, "autoprobe": 3, "paths": ["/x", "/y", "/z"], "opts": {"no_open": False, "no_opendir": False},
                "steps": [{"op": "mount", "path": "/x", "b": "b1", "m": m1, "ruid": 5, "rgid": 70001},
                          {"op": "mount", "path": "/y", "b": "b2", "m": m2, "ruid": 70000, "rgid": 0},
                          {"op": "mount", "path": "/z", "b": "b1", "m": m1, "ruid": 65535, "rgid": 3},
                          {"op": "umount", "path": "/x"},
                          {"op": "mount", "path": "/x", "b": "b2", "m": {"i": 0, "e": 0, "r": 0}},
                          {"op": "umount", "path": "/y"},
                          {"op": "mount", "path": "/y", "b": "b1", "m": m2, "ruid": 70999, "rgid": 70000}]}
        wrap["steps"] += [{"op": "remount", "path": "/z", "b": "b2"}, _req("getattr", "/z", 5), {"op": "umount", "path": "/z"}]
        scs += persist_variants(wrap, pair, cuts=[3, 5, 7, 8])
        pair += 1
        # directed: a state a version-1 writer could have produced (no per-mount mapping anywhere), saved in format 1
        v1 = {"id": "v1-saved", "src": "directed", "kind": "plain", "seed": ctx.seed * 7 + 2, "g": {"i": 0, "e": 0, "r": 0}, "scale": 1,
              "autoprobe": 2, "paths": ["/p", "/p/q", "/r"], "opts": {"no_open": False, "no_opendir": False},
              "steps": [{"op": "mount", "path": "/p/q", "b": "b1", "m": NOMAP}, {"op": "mount", "path": "/r", "b": "b2", "m": NOMAP},
                        {"op": "init", "empty": False, "zmo": True, "zmod": False}, {"op": "umount", "path": "/r"},
                        {"op": "mount", "path": "/p", "b": "b2", "m": NOMAP}, {"op": "remount", "path": "/p/q", "b": "b1"},
                        {"op": "mount", "path": "/r", "b": "b1", "m": NOMAP, "init_fail": True}, {"op": "mount", "path": "/r", "b": "b1", "m": NOMAP}]}
        scs += persist_variants(v1, pair, cuts=[2, 4, 6, 8], ver=1)
        pair += 1
        # directed: set_remove_pseudo_root(), every mount unmounted before the save: the pseudo file system is empty but has
        # handed out numbers; directories made after the restore must get the numbers the unsaved instance gives them
        for tag, pre in (("empty-pseudo-saved", []), ("empty-pseudo-root-mounted-saved", [{"op": "mount", "path": "/", "b": "b2", "m": NOMAP}])):
            post = [{"op": "umount", "path": "/"}] if pre else []
            ep = {"id": tag, "src": "directed", "kind": "plain", "seed": ctx.seed * 7 + 3, "g": {"i": 0, "e": 0, "r": 0}, "scale": 1,
                  "autoprobe": 1, "paths": ["/p/q", "/s"], "opts": {"no_open": False, "no_opendir": False, "remove_pseudo_root": True},
                  "steps": [{"op": "mount", "path": "/a", "b": "b1", "m": NOMAP}, {"op": "mount", "path": "/b", "b": "b2", "m": NOMAP},
                            {"op": "umount", "path": "/a"}, {"op": "umount", "path": "/b"}] + pre + post +
                           [{"op": "mount", "path": "/p/q", "b": "b1", "m": NOMAP}, {"op": "mount", "path": "/s", "b": "b2", "m": NOMAP},
                            {"op": "umount", "path": "/p/q"}, {"op": "mount", "path": "/p/t", "b": "b1", "m": NOMAP}]}
            scs += persist_variants(ep, pair, cuts=[2, 4, 4 + len(pre), 6 + len(pre) + len(post)])
            pair += 1
        # seeded histories, a few cuts each
        rnd = gen_random(ctx, bd, abi, 1 if quick else 4, 100 if quick else 300, "churn", "c19")
        rnd1 = gen_random(ctx, bd, abi, 1 if quick else 2, 60 if quick else 200, "nomap", "c19n")
        for s in rnd + rnd1:
            # a backend refusing init() is mounted only once the VFS is negotiated (see RefuseBeforeInit in write_cfg)
            done_init = False
            for x in s["steps"]:
                if x.get("op") == "init":
                    # ... with a non-empty capability set (an empty one is what the restore-initialized finding is about:
                    # the restored instance would accept the mount the unsaved one refuses)
                    if not done_init and x.get("empty"):
                        done_init = None
                    elif done_init is False:
                        done_init = True
                elif x.get("op") == "mount" and x.get("init_fail") and done_init is not True:
                    x.pop("init_fail")
            nm = sum(1 for x in s["steps"] if x.get("op") != "req")
            cuts = sorted(set(rnd_py.sample(range(1, nm + 1), min(2 if quick else 6, nm))))
            scs += persist_variants(s, pair, cuts=cuts, ver=1 if s.get("nomap") else 2)
            pair += 1
        allsc = extra_sc + scs
        rows, viols, drifts, trf = execute(ctx, bd, abi, allsc, "c19")
        report(ctx, "C19", rows, viols, allsc, "replay")
        note_drift(ctx, drifts, rows, "c19")
        cov = coverage(rows)
        gate(ctx, cov, ["saverestore", "saverestore_v1", "mounts_ok", "umounts", "with_own_mapping", "saved_after_wrap_with_mapping_above_next_super",
                        "remounts_in_place", "saved_with_empty_pseudo_fs_after_allocations"])
        skipped = sum(1 for x in rows if x.get("e") == "SaveRestore" and x.get("ret") == "skipped")

        def mut(bad):
            # change an inode number in a reply after a restore of a persist segment
            kind = {}
            after = set()
            n = 0
            for x in bad:
                if x.get("e") == "Reset":
                    kind[x["seg"]] = x["kind"]
                elif x.get("e") == "SaveRestore" and x.get("ret") == "ok":
                    after.add(x["seg"])
                elif x.get("e") == "Reply" and x.get("seg") in after and kind.get(x["seg"]) == "persist" and "entry" in x and n == 0:
                    x["entry"]["ino"]["low"] = "123456789"
                    x["entry"]["attr_ino"]["low"] = "123456789"
                    n += 1
                elif x.get("e") == "Mount" and x.get("seg") in after and kind.get(x["seg"]) == "persist" and x.get("ret") == "ok" and n == 1:
                    x["calls"] = [c for c in x["calls"] if c.get("m") != "mount"]
                    n += 1
            return n >= 1
        demo = corrupt_demo(ctx, first_segments(rows, 60), mut, "C19|", "inode number of an entry reply after the restore changed; a backend call of a later mount removed")
        ctx.extra.update({
            "distinct_nontrivial": cov["saverestore"],
            "rule": "every history is executed unsaved (control) and with save_to_bytes -> Vfs::new(default) -> restore_from_bytes -> restore_mount after a prefix; after the restore every obligation of Vfs.tla must hold as in the control and every reply/backend call must equal the control's; previous format: version-1 images built from the version-2 bytes (no per-mount mapping, data_version 1, tail removed, crc64 recomputed)",
            "trace_coverage": cov, "binding_demo": [demo], "drift_count": len(drifts), "v1_not_expressible_skipped": skipped,
            "hook_H3": "not needed: version-1 images are constructed from the saved bytes (hooks/vfs-save-version.diff is provided for cross-checking)",
        })
        for s in scs[:2]:
            ctx.sample({"scenario": s["id"], "kind": s["kind"], "steps": [x.get("op") for x in s["steps"]][:12]})
        ctx.assumptions += ["the restored instance is Vfs::new(VfsOptions::default()) as in the documented example; backends are re-attached at the indices mount() returned",
                            "version-1 images exist only for states without per-mount mappings (a version-1 writer had none)"]
    finally:
        pass


PROPS = {"C07": run_c07, "C14": run_c14, "C19": run_c19}
