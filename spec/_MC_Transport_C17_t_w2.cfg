SPECIFICATION Spec
CONSTANTS
  P = 2
  M = 100000
  MaxSegs = 2
  MaxLen = 3
  Bases <- MC_Bases4
  FLens <- MC_FLens
  Kinds <- MC_KindsW
  MaxOps = 3
  MaxN = 4
  FileSize = 3
  Chunks <- MC_Chunks
  MaxAddr = 7
VIEW View
INVARIANTS DirtyExact FlatAgree Export
CHECK_DEADLOCK FALSE
