SPECIFICATION Spec
CONSTANTS
  PlainNames <- MC_Names2
  HostileNames <- MC_HostileL
  MaxOps = 2
  MaxIno = 10
  Cfg <- MC_Cfg_plain
  AsFound <- MC_AF_none
  Mode = "c06"
  InitS <- MC_S_links
  ScenCfg <- MC_Scen_plain
  ScenTree <- MC_Tree_links
VIEW View
INVARIANTS TreeOK HandlesOK SwitchesOK ContainedOK OutsideFrozen NameGateOK MirrorOK Report
CHECK_DEADLOCK FALSE
