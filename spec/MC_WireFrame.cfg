SPECIFICATION Spec
CONSTANT Async = FALSE
INVARIANT NoCrash
INVARIANT AtMostOne
INVARIANT ForgetSilent
INVARIANT Answered
INVARIANT OneOperation
INVARIANT NegativeEntry
CHECK_DEADLOCK FALSE
