SPECIFICATION Spec
CONSTANTS
  Ops <- Ops_B_GG
  Held0Set <- H_0
  Names <- NamesAll
  Mounts <- MountsAll
  MountOf <- MountOfAll
  Ctx = FALSE
  DropAlways = FALSE
  NoReprobe = TRUE
  LeakProbe = FALSE
INVARIANTS S1 Refines LiveRegistered S2 S3 LockSane ResOK 
VIEW View
