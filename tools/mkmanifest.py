#!/usr/bin/env python3
"""Assemble /verif/MANIFEST.json from checks/*.manifest.json fragments (each a list of check entries
or {"engine": {...}, "checks": [...]}) plus tools/manifest_base.json. Properties without a check are
listed under not_applicable with the reason given in tools/not_applicable.json (or a default)."""
import glob
import json
import os

V = os.path.dirname(os.path.dirname(os.path.abspath(__file__)))
base = json.load(open(os.path.join(V, "tools", "manifest_base.json")))
checks, engines = [], []
for f in sorted(glob.glob(os.path.join(V, "checks", "*.manifest.json"))):
    d = json.load(open(f))
    if isinstance(d, list):
        d = {"checks": d}
    checks += d.get("checks", [])
    if "engine" in d:
        engines.append(d["engine"])
checks.sort(key=lambda c: c["property_id"])
na_file = os.path.join(V, "tools", "not_applicable.json")
na_reason = json.load(open(na_file)) if os.path.exists(na_file) else {}
props = [json.loads(l)["id"] for l in open(os.path.join(V, "properties.jsonl"))]
claimed = {c["property_id"] for c in checks}
m = dict(base)
m["engines"] = engines
m["checks"] = checks
m["not_applicable"] = [{"property_id": p, "reason": na_reason.get(p, "check not built yet (work in progress; see DESIGN.md appendix D)")}
                       for p in props if p not in claimed]
json.dump(m, open(os.path.join(V, "MANIFEST.json"), "w"), indent=1)
print("MANIFEST.json: %d checks, %d not_applicable" % (len(checks), len(m["not_applicable"])))
