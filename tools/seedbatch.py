#!/usr/bin/env python3
"""seedbatch.py <base-dir> <tag> [--jobs N]

Processes every <base-dir>/out/<PROPERTY>-<n>/ (patch.diff, demo.rs, meta.json) delivered by a seeding sub-agent:
confirms it independently (tools/confirm_seed.py, with the features / RUSTFLAGS named in meta.json), runs the property's
quick check against it (tools/mutant.py) and stores it as /verif/seeded/<PROPERTY>-<tag>-<n>/ with the results in
meta.json. Prints one summary line per change."""
import json
import os
import re
import shutil
import subprocess
import sys
from concurrent.futures import ThreadPoolExecutor

V = os.path.dirname(os.path.dirname(os.path.abspath(__file__)))


def one(base, tag, d):
    src = os.path.join(base, "out", d)
    m = re.match(r"(C\d+)-(\d+)$", d)
    if not m or not os.path.exists(os.path.join(src, "patch.diff")):
        return "%s: skipped (not a delivery)" % d
    prop, n = m.group(1), m.group(2)
    try:
        meta = json.load(open(os.path.join(src, "meta.json")))
    except Exception:
        meta = {}
    env = dict(os.environ)
    feats = (meta.get("features") or "").strip()
    feats = re.sub(r"[^a-z,\-]", "", feats.replace(" ", ","))
    if feats and feats not in ("none", "default"):
        env["SEED_FEATURES"] = feats
    rf = meta.get("rustflags") or ""
    if "fuse_backend_rs_verif" in rf or prop == "C09":
        env["SEED_RUSTFLAGS"] = "--cfg fuse_backend_rs_verif"
    os.makedirs(os.path.join(base, "tmp"), exist_ok=True)
    name = "%s_%s_%s" % (prop.lower(), tag, n)
    r = subprocess.run([sys.executable, os.path.join(V, "tools", "confirm_seed.py"), src, "seed_" + name], env=env, stdout=subprocess.PIPE, stderr=subprocess.STDOUT, text=True)
    confirmed = "CONFIRMED" in r.stdout
    conf_line = (r.stdout.strip().splitlines() or ["?"])[-1][:300]
    r2 = subprocess.run([sys.executable, os.path.join(V, "tools", "mutant.py"), "%s-%s-%s" % (prop.lower(), tag, n), os.path.join(src, "patch.diff"), prop],
                        stdout=subprocess.PIPE, stderr=subprocess.STDOUT, text=True, cwd=V)
    res_line = next((l for l in r2.stdout.splitlines() if l.startswith(("DETECTED", "MISSED", "TOOL-ERROR", "PATCH-DOES"))), "?")[:400]
    dst = os.path.join(V, "seeded", "%s-%s-%s" % (prop, tag, n))
    os.makedirs(dst, exist_ok=True)
    for f in ("patch.diff", "demo.rs"):
        if os.path.exists(os.path.join(src, f)):
            shutil.copy(os.path.join(src, f), os.path.join(dst, f))
    out = {"property": prop, "summary": meta.get("summary"), "needs_to_manifest": meta.get("needs_to_manifest"), "files_touched": meta.get("files_touched"),
           "author": "independent sub-agent (%s round: given the property texts, the list of earlier seeds to avoid, and a scratch worktree)" % {"r2": "second", "r3": "third", "r4": "fourth"}.get(tag, tag),
           "confirmed_by_lead": {"cmd": "tools/confirm_seed.py" + (" SEED_FEATURES=" + env["SEED_FEATURES"] if "SEED_FEATURES" in env else "") + (" SEED_RUSTFLAGS set" if "SEED_RUSTFLAGS" in env else ""),
                                 "confirmed": confirmed, "line": conf_line},
           "checks_run": "tools/mutant.py (quick tier) for " + prop, "result": res_line}
    json.dump(out, open(os.path.join(dst, "meta.json"), "w"), indent=1)
    return "%s: %s | %s" % (d, "CONFIRMED" if confirmed else "NOT-CONFIRMED(" + conf_line[:120] + ")", res_line)


def main():
    base, tag = sys.argv[1], sys.argv[2]
    jobs = int(sys.argv[sys.argv.index("--jobs") + 1]) if "--jobs" in sys.argv else 2
    ds = sorted(os.listdir(os.path.join(base, "out")))
    with ThreadPoolExecutor(max_workers=jobs) as ex:
        for line in ex.map(lambda d: one(base, tag, d), ds):
            print(line, flush=True)


if __name__ == "__main__":
    main()
