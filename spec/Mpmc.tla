-------------------------------- MODULE Mpmc --------------------------------
(* X02, A level: fuse_backend_rs::common::mpmc::Channel<T> as a SEQUENTIAL object.

   State the API talks about:  q (the queued messages, oldest first)  and  closed.
   Every public method of src/common/mpmc.rs is one atomic operation with its result:

     send(m)      closed -> Err(m), nothing changes           else q' = q \o <<m>>, Ok
     try_recv     q empty -> None                             else Some(Head(q)), q' = Tail(q)
     recv         q non-empty -> Ok(Head(q)), q' = Tail(q)    q empty and closed -> Err(closed)
                  q empty and open -> NOT ENABLED (the caller waits); a recv whose future is dropped
                  while it waits ("cancelled") has no effect
     close        closed' = TRUE (idempotent); the queue is kept: receivers drain it, then get the error
     flush_pending_prefetch_requests(f)    q' = the messages of q that f rejects (order kept), returns ()
     lock_channel                          the caller sees the queue under the lock: result = Len(q)
                                           (the harness only reads the length through the guard)
     notify_waiters                        no effect on the object (it may only cause spurious wake-ups)

   What the code's doc comments say and what the code does (read 2026-09): the comments promise nothing
   about close beyond "Close the channel"; the unit test test_new_channel fixes "send after close fails".
   `recv` tries the queue BEFORE it looks at the flag, so messages queued at close time are still
   delivered ("remaining messages, then the error"): that is what this module prescribes. The comment of
   flush_pending_prefetch_requests says "Flush all pending requests specified by the predicator": the
   code REMOVES (discards) those requests, it does not deliver them; modelled as removal.

   Obligations that follow (checked on this module by MC_Mpmc.cfg over all histories of <= MaxOps
   operations, and inherited by everything that refines it):
     AtMostOnce   a message accepted by send is handed out by (try_)recv at most once
     NoInvention  only accepted messages are handed out
     Fifo         messages are handed out in the order in which they were accepted
     AfterClose   after close every send fails; recv fails only when closed and drained
   (messages are assumed distinct: the harness sends each value once per channel)

   The operators below are shared by the I level (MpmcImpl.tla: abstract state at the linearisation
   points) and by the judge of recorded concurrent histories (Trace_Mpmc.tla). *)
EXTENDS Naturals, Sequences, FiniteSets

Chan0 == [q |-> <<>>, closed |-> FALSE]

\* results are records of one shape: [k |-> kind, m |-> message or length or 0]
Res(k, m) == [k |-> k, m |-> m]
ROk == Res("ok", 0)
RNone == Res("none", 0)
RClosed == Res("closed", 0)
RUnit == Res("unit", 0)
RCancelled == Res("cancelled", 0)

Keep(q, S) == SelectSeq(q, LAMBDA x : x \notin S)

(* the sequential object: is operation o enabled on S, its result, its successor state.
   o = [op |-> "send" | "try" | "recv" | "close" | "flush" | "len" | "notifyw", m |-> message (send), set |-> set (flush)] *)
OpEnabled(S, o) == o.op # "recv" \/ S.q # <<>> \/ S.closed
OpRes(S, o) ==
  CASE o.op = "send" -> IF S.closed THEN Res("err", o.m) ELSE ROk
    [] o.op = "try" -> IF S.q = <<>> THEN RNone ELSE Res("some", Head(S.q))
    [] o.op = "recv" -> IF S.q # <<>> THEN Res("msg", Head(S.q)) ELSE RClosed
    [] o.op = "len" -> Res("len", Len(S.q))
    [] OTHER -> RUnit
OpNext(S, o) ==
  CASE o.op = "send" -> IF S.closed THEN S ELSE [S EXCEPT !.q = Append(@, o.m)]
    [] o.op \in {"try", "recv"} -> IF S.q = <<>> THEN S ELSE [S EXCEPT !.q = Tail(@)]
    [] o.op = "close" -> [S EXCEPT !.closed = TRUE]
    [] o.op = "flush" -> [S EXCEPT !.q = Keep(@, o.set)]
    [] OTHER -> S

(* ------------------------------------------------------------------------------------------------
   Linearisation of a pending operation (shared by the monitors of MpmcImpl.tla and the judge Trace_Mpmc.tla).
   The status of a process is [st |-> "idle" | "inv" | "mid" | "done", r |-> result]. LinSucc gives the
   (channel, status) pairs reachable by letting operation o of a process with status s take effect on S.
   Strict reading: the whole operation is one atomic action of the object above ("inv" -> "done").
   Weak readings, used ONLY to classify a history the strict object rejects (never to accept it):
     wsend   send = two atomic actions: "chk" (closed? -> Err | "mid") then "enq" (append, Ok): the message
             may be accepted although close took effect in between
     wrecv   recv's Err = two atomic actions: "emp" (the queue is empty: "mid") then "cls" (closed -> Err):
             the error may be reported although a message was accepted in between; from "mid" the loop may
             also go round and behave like a fresh recv *)
StIdle == [st |-> "idle", r |-> RUnit]
StInv == [st |-> "inv", r |-> RUnit]
StMid == [st |-> "mid", r |-> RUnit]
StDone(r) == [st |-> "done", r |-> r]
LinSucc(S, s, o, wsend, wrecv) ==
  LET whole == IF OpEnabled(S, o) THEN {[S |-> OpNext(S, o), s |-> StDone(OpRes(S, o))]} ELSE {}
      strict == IF s.st = "inv" THEN whole ELSE {}
      ws == IF wsend /\ o.op = "send"
            THEN (IF s.st = "inv" /\ ~S.closed THEN {[S |-> S, s |-> StMid]} ELSE {})
                 \cup (IF s.st = "mid" THEN {[S |-> [S EXCEPT !.q = Append(@, o.m)], s |-> StDone(ROk)]} ELSE {})
            ELSE {}
      wr == IF wrecv /\ o.op = "recv"
            THEN (IF s.st = "inv" /\ S.q = <<>> THEN {[S |-> S, s |-> StMid]} ELSE {})
                 \cup (IF s.st = "mid" /\ S.closed THEN {[S |-> S, s |-> StDone(RClosed)]} ELSE {})
                 \cup (IF s.st = "mid" THEN whole ELSE {})
            ELSE {}
  IN strict \cup ws \cup wr

(* ------------------------------------------------------------------------------------------------
   The obligations, over a sequential history h = sequence of [o |-> operation, res |-> result]
   (MC_Mpmc.tla checks them on every history of the object above; MpmcImpl.tla checks them on the order
   of its linearisation points). *)
Accepted(h) == {i \in 1..Len(h) : h[i].o.op = "send" /\ h[i].res.k = "ok"}
HandedOut(h) == {i \in 1..Len(h) : h[i].res.k \in {"some", "msg"}}
AccIdx(h, m) == {i \in Accepted(h) : h[i].o.m = m}

AtMostOnce(h) == \A i, j \in HandedOut(h) : h[i].res.m = h[j].res.m => i = j
NoInvention(h) == \A i \in HandedOut(h) : \E j \in Accepted(h) : j < i /\ h[j].o.m = h[i].res.m
Fifo(h) == \A i, j \in HandedOut(h) : i < j =>
             \A a \in AccIdx(h, h[i].res.m), b \in AccIdx(h, h[j].res.m) : a < b
AfterClose(h) == \A c \in 1..Len(h) : h[c].o.op = "close" =>
                   \A i \in (c + 1)..Len(h) : h[i].o.op = "send" => h[i].res.k = "err"
\* recv fails only when closed and every accepted, not flushed message was handed out before
RecvErrOnlyDrained(h) ==
  \A i \in 1..Len(h) : h[i].res = RClosed =>
     /\ \E c \in 1..(i - 1) : h[c].o.op = "close"
     /\ \A a \in Accepted(h) : a < i =>
          \/ \E g \in HandedOut(h) : g < i /\ h[g].res.m = h[a].o.m
          \/ \E f \in (a + 1)..(i - 1) : h[f].o.op = "flush" /\ h[a].o.m \in h[f].o.set
ErrReturnsMessage(h) == \A i \in 1..Len(h) : h[i].o.op = "send" /\ h[i].res.k = "err" => h[i].res.m = h[i].o.m
Obligations(h) == AtMostOnce(h) /\ NoInvention(h) /\ Fifo(h) /\ AfterClose(h) /\ RecvErrOnlyDrained(h) /\ ErrReturnsMessage(h)
=============================================================================
