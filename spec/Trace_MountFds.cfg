SPECIFICATION Spec
CHECK_DEADLOCK FALSE
