----------------------------- MODULE MC_VfsAsync -----------------------------
(* Model-checking instance of VfsAsyncImpl (AsyncImpl => A). Constants as in MC_Vfs (ids are pairs to base 4). *)
EXTENDS VfsAsyncImpl
MCA_Paths2 == {<<"">>, <<"", "a">>}
MCA_Paths3 == {<<"">>, <<"", "a">>, <<"", "a", "b">>}
MCA_BadPath == <<"bad">>
MCA_Backends == {"b1", "b2"}
MA1 == [i |-> Id(0, 0), e |-> Id(0, 1), r |-> Id(2, 0)]      \* overlapping: internal 0..7 <-> external 1..8
MA2 == [i |-> Id(2, 0), e |-> Id(1, 0), r |-> Id(1, 0)]      \* reversed, disjoint: internal 8..11 <-> external 4..7
MA0r == [i |-> Id(0, 2), e |-> Id(1, 1), r |-> Zero]         \* own mapping with an empty range
MCA_Maps == {MA1, MA2, MA0r}
MCA_GMaps == {NoMap, MA1}
MCA_RootUid == Zero
MCA_TestUid == Id(0, 1)
MCA_OwnerUid == Id(1, 1)      \* 5: inside MA1's and MA2's external ranges
MCA_BackUid == Id(2, 1)       \* 9: inside MA2's internal range; Id(0,3) would be inside MA1's
MCA_Bugs == {"S7a", "S7b"}    \* the code as it is (the two restore findings; no restore happens here)
=============================================================================
