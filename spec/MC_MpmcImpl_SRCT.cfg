SPECIFICATION Spec
CONSTANTS
  Prog <- P_SRCT
  Procs = {1,2,3}
  Fixed = FALSE
  EnableFirst = TRUE
  Mon = TRUE
INVARIANTS LinWeak QuiescentAgrees AtMostOnceI NoInventionI NoLostWakeupQ ParkedRegistered WaitersSane
