SPECIFICATION Spec
VIEW StateView
CHECK_DEADLOCK FALSE
CONSTANTS
  Names = {"a", "b"}
  UpperNames = {"b"}
  LowerNames = {"a"}
  MaxOps = 4
  MaxIno = 6
  Allowed = {}
  AsFound = {"DELGET", "OVERF"}
INVARIANT OnlyAllowed
