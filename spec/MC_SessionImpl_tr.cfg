SPECIFICATION Spec
CONSTANTS
  Readers = {1, 2}
  Late = {}
  NReq = 2
  Interrupts = TRUE
  FuseFdEdge = FALSE
  UmountWaits = FALSE
INVARIANTS TypeOK DeliveredOnce BufferIsRequest ExitWins NoneJustified NoLostWake NoLostReadiness ResultsAllowed NothingLost
PROPERTIES WakeWorks UmountWorks Termination
