//! A filesystem that records every call it receives (method, context, arguments) and returns a
//! result scripted in advance. Used behind `Server` (wire family) and as VFS backend.
use fuse_backend_rs::abi::fuse_abi::{stat64, statvfs64, CreateIn, FsOptions, OpenOptions, SetattrValid};
use fuse_backend_rs::abi::virtio_fs::RemovemappingOne;
use fuse_backend_rs::api::filesystem::{
    Context, DirEntry, Entry, FileLock, FileSystem, GetxattrReply, IoctlData, ListxattrReply, ZeroCopyReader, ZeroCopyWriter,
};
use fuse_backend_rs::transport::FsCacheReqHandler;
use serde_json::{json, Value};
use std::ffi::CStr;
use std::io;
use std::sync::{Arc, Mutex};
use std::time::Duration;

use crate::wirecodec::pay;

#[derive(Clone, Debug)]
pub struct OwnedDirent {
    pub ino: u64,
    pub offset: u64,
    pub type_: u32,
    pub name: Vec<u8>,
    pub entry: Entry,
}

/// What the next filesystem call returns.
#[derive(Clone)]
pub enum Ret {
    Err { os: i32, kind: Option<io::ErrorKind> },
    Entry(Entry),
    Attr(stat64, Duration),
    Bytes(Vec<u8>),
    Open { handle: Option<u64>, opts: u32, passthrough: Option<u32> },
    Create { entry: Entry, handle: Option<u64>, opts: u32, passthrough: Option<u32> },
    Count(usize),
    Statfs(statvfs64),
    XCount(u32),
    Lock(FileLock),
    U64(u64),
    U32(u32),
    Ioctl { result: i32, data: Vec<u8> },
    Unit,
    Dirents(Vec<OwnedDirent>),
    /// offer the entries, then fail (an error half way through a directory)
    DirentsErr(Vec<OwnedDirent>, i32),
    Init(u64),
}

pub fn s64(v: u64) -> Value {
    json!(v.to_string())
}
pub fn opt64(v: Option<u64>) -> Value {
    match v {
        Some(x) => json!(["some", x.to_string()]),
        None => json!(["none"]),
    }
}
/// Names cross into the trace byte-exactly: printable ASCII names as they are, anything else as "hex:<bytes>".
pub fn name_json(n: &[u8]) -> Value {
    if n.iter().all(|b| (0x20..0x7f).contains(b) && *b != b'"' && *b != b'\\') && !n.starts_with(b"hex:") {
        json!(String::from_utf8_lossy(n).to_string())
    } else {
        json!(format!("hex:{}", n.iter().map(|b| format!("{b:02x}")).collect::<String>()))
    }
}
/// A list of (u64, u64) records: written out when short, as length + digest of the little-endian bytes when long
/// (the largest legal BATCH_FORGET carries 65789 records).
pub fn pairs_json(rows: &[(u64, u64)]) -> Value {
    if rows.len() <= 64 {
        Value::Array(rows.iter().map(|(a, b)| json!([s64(*a), s64(*b)])).collect())
    } else {
        let mut bytes = Vec::with_capacity(rows.len() * 16);
        for (a, b) in rows {
            bytes.extend_from_slice(&a.to_le_bytes());
            bytes.extend_from_slice(&b.to_le_bytes());
        }
        json!({"n": rows.len(), "sum": crate::wirecodec::fnv(&bytes)})
    }
}
pub fn dur_json(d: &Duration) -> Value {
    json!({"s": d.as_secs().to_string(), "ns": d.subsec_nanos().to_string()})
}
pub fn stat_json(st: &stat64) -> Value {
    json!({
        "st_ino": s64(st.st_ino), "st_size": s64(st.st_size as u64), "st_blocks": s64(st.st_blocks as u64),
        "st_atime": s64(st.st_atime as u64), "st_mtime": s64(st.st_mtime as u64), "st_ctime": s64(st.st_ctime as u64),
        "st_atime_nsec": s64(st.st_atime_nsec as u64), "st_mtime_nsec": s64(st.st_mtime_nsec as u64),
        "st_ctime_nsec": s64(st.st_ctime_nsec as u64), "st_mode": s64(st.st_mode as u64), "st_nlink": s64(st.st_nlink as u64),
        "st_uid": s64(st.st_uid as u64), "st_gid": s64(st.st_gid as u64), "st_rdev": s64(st.st_rdev as u64),
        "st_blksize": s64(st.st_blksize as u64), "st_dev": s64(st.st_dev as u64),
    })
}
pub fn entry_json(e: &Entry) -> Value {
    json!({"kind": "entry", "inode": s64(e.inode), "generation": s64(e.generation), "attr": stat_json(&e.attr),
           "attr_flags": s64(e.attr_flags as u64), "attr_timeout": dur_json(&e.attr_timeout), "entry_timeout": dur_json(&e.entry_timeout)})
}
pub fn lock_json(l: &FileLock) -> Value {
    json!({"start": s64(l.start), "end": s64(l.end), "lock_type": s64(l.lock_type as u64), "pid": s64(l.pid as u64)})
}
fn err_json(os: i32, kind: &Option<io::ErrorKind>) -> Value {
    json!({"kind": "err", "os": os, "ekind": kind.map(|k| format!("{k:?}")).unwrap_or_default()})
}
fn mkerr(os: i32, kind: &Option<io::ErrorKind>) -> io::Error {
    match kind {
        Some(k) => io::Error::new(*k, "scripted"),
        None => io::Error::from_raw_os_error(os),
    }
}

/// Cloning yields another handle on the same log/script (so that a boxed clone can be handed to
/// `Vfs::mount` while the harness keeps access).
#[derive(Clone)]
pub struct ScriptedFs {
    pub id: String,
    pub log: Arc<Mutex<Vec<Value>>>,
    pub next: Arc<Mutex<Ret>>,
    /// id translation performed by id_remap: uid/gid are XOR-ed with this value
    pub remap_xor: u32,
    /// while set, `id_remap_with_nodeid` refuses (a file system that cannot translate the caller's ids)
    pub remap_refuse: Arc<std::sync::atomic::AtomicBool>,
    /// FsOptions returned by init
    pub want: Arc<Mutex<u64>>,
    /// what `BackendFileSystem::mount` returns: root entry and largest inode number
    pub root: Arc<Mutex<(Entry, u64)>>,
}

impl ScriptedFs {
    pub fn new(id: &str) -> Self {
        ScriptedFs {
            id: id.to_string(),
            log: Arc::new(Mutex::new(Vec::new())),
            next: Arc::new(Mutex::new(Ret::Unit)),
            remap_xor: 0,
            remap_refuse: Arc::new(std::sync::atomic::AtomicBool::new(false)),
            want: Arc::new(Mutex::new(0)),
            root: Arc::new(Mutex::new((Entry { inode: 1, ..Entry::default() }, 1))),
        }
    }
    pub fn set(&self, r: Ret) {
        *self.next.lock().unwrap() = r;
    }
    pub fn take_log(&self) -> Vec<Value> {
        std::mem::take(&mut *self.log.lock().unwrap())
    }
    fn ctxj(ctx: &Context) -> Value {
        json!({"uid": s64(ctx.uid as u64), "gid": s64(ctx.gid as u64), "pid": s64(ctx.pid as u32 as u64)})
    }
    fn rec(&self, m: &str, ctx: Option<&Context>, args: Value, ret: Value) {
        let mut o = json!({"m": m, "fs": self.id, "args": args, "ret": ret});
        if let Some(c) = ctx {
            o["ctx"] = Self::ctxj(c);
        }
        self.log.lock().unwrap().push(o);
    }
    fn ret(&self) -> Ret {
        self.next.lock().unwrap().clone()
    }
    fn unit(&self, m: &str, ctx: &Context, args: Value) -> io::Result<()> {
        match self.ret() {
            Ret::Err { os, kind } => {
                self.rec(m, Some(ctx), args, err_json(os, &kind));
                Err(mkerr(os, &kind))
            }
            _ => {
                self.rec(m, Some(ctx), args, json!({"kind": "unit"}));
                Ok(())
            }
        }
    }
    fn entry(&self, m: &str, ctx: &Context, args: Value) -> io::Result<Entry> {
        match self.ret() {
            Ret::Err { os, kind } => {
                self.rec(m, Some(ctx), args, err_json(os, &kind));
                Err(mkerr(os, &kind))
            }
            Ret::Entry(e) => {
                self.rec(m, Some(ctx), args, entry_json(&e));
                Ok(e)
            }
            _ => {
                let e = Entry::default();
                self.rec(m, Some(ctx), args, entry_json(&e));
                Ok(e)
            }
        }
    }
    fn attr(&self, m: &str, ctx: &Context, args: Value) -> io::Result<(stat64, Duration)> {
        match self.ret() {
            Ret::Err { os, kind } => {
                self.rec(m, Some(ctx), args, err_json(os, &kind));
                Err(mkerr(os, &kind))
            }
            Ret::Attr(st, d) => {
                self.rec(m, Some(ctx), args, json!({"kind": "attr", "attr": stat_json(&st), "timeout": dur_json(&d)}));
                Ok((st, d))
            }
            _ => {
                let st: stat64 = unsafe { std::mem::zeroed() };
                let d = Duration::default();
                self.rec(m, Some(ctx), args, json!({"kind": "attr", "attr": stat_json(&st), "timeout": dur_json(&d)}));
                Ok((st, d))
            }
        }
    }
}

fn ino(i: u64) -> Value {
    s64(i)
}

impl FileSystem for ScriptedFs {
    type Inode = u64;
    type Handle = u64;

    fn init(&self, capable: FsOptions) -> io::Result<FsOptions> {
        match self.ret() {
            Ret::Err { os, kind } => {
                self.rec("init", None, json!({"capable": s64(capable.bits())}), err_json(os, &kind));
                Err(mkerr(os, &kind))
            }
            Ret::Init(w) => {
                self.rec("init", None, json!({"capable": s64(capable.bits())}), json!({"kind": "init", "want": s64(w)}));
                Ok(FsOptions::from_bits_truncate(w))
            }
            _ => {
                let w = *self.want.lock().unwrap();
                self.rec("init", None, json!({"capable": s64(capable.bits())}), json!({"kind": "init", "want": s64(w)}));
                Ok(FsOptions::from_bits_truncate(w))
            }
        }
    }
    fn destroy(&self) {
        self.log.lock().unwrap().push(json!({"m": "destroy", "fs": self.id, "args": {}, "ret": {"kind": "unit"}}));
    }
    fn lookup(&self, ctx: &Context, parent: u64, name: &CStr) -> io::Result<Entry> {
        self.entry("lookup", ctx, json!({"parent": ino(parent), "name": name_json(name.to_bytes())}))
    }
    fn forget(&self, ctx: &Context, inode: u64, count: u64) {
        self.rec("forget", Some(ctx), json!({"inode": ino(inode), "count": s64(count)}), json!({"kind": "unit"}));
    }
    fn batch_forget(&self, ctx: &Context, requests: Vec<(u64, u64)>) {
        self.rec("batch_forget", Some(ctx), json!({"requests": pairs_json(&requests)}), json!({"kind": "unit"}));
    }
    fn getattr(&self, ctx: &Context, inode: u64, handle: Option<u64>) -> io::Result<(stat64, Duration)> {
        self.attr("getattr", ctx, json!({"inode": ino(inode), "handle": opt64(handle)}))
    }
    fn setattr(&self, ctx: &Context, inode: u64, attr: stat64, handle: Option<u64>, valid: SetattrValid) -> io::Result<(stat64, Duration)> {
        self.attr("setattr", ctx, json!({"inode": ino(inode), "attr": stat_json(&attr), "handle": opt64(handle), "valid": s64(valid.bits() as u64)}))
    }
    fn readlink(&self, ctx: &Context, inode: u64) -> io::Result<Vec<u8>> {
        let args = json!({"inode": ino(inode)});
        match self.ret() {
            Ret::Err { os, kind } => {
                self.rec("readlink", Some(ctx), args, err_json(os, &kind));
                Err(mkerr(os, &kind))
            }
            Ret::Bytes(b) => {
                self.rec("readlink", Some(ctx), args, json!({"kind": "bytes", "data": pay(&b)}));
                Ok(b)
            }
            _ => {
                self.rec("readlink", Some(ctx), args, json!({"kind": "bytes", "data": pay(&[])}));
                Ok(vec![])
            }
        }
    }
    fn symlink(&self, ctx: &Context, linkname: &CStr, parent: u64, name: &CStr) -> io::Result<Entry> {
        self.entry("symlink", ctx, json!({"linkname": name_json(linkname.to_bytes()), "parent": ino(parent), "name": name_json(name.to_bytes())}))
    }
    fn mknod(&self, ctx: &Context, inode: u64, name: &CStr, mode: u32, rdev: u32, umask: u32) -> io::Result<Entry> {
        self.entry("mknod", ctx, json!({"inode": ino(inode), "name": name_json(name.to_bytes()), "mode": s64(mode as u64), "rdev": s64(rdev as u64), "umask": s64(umask as u64)}))
    }
    fn mkdir(&self, ctx: &Context, parent: u64, name: &CStr, mode: u32, umask: u32) -> io::Result<Entry> {
        self.entry("mkdir", ctx, json!({"parent": ino(parent), "name": name_json(name.to_bytes()), "mode": s64(mode as u64), "umask": s64(umask as u64)}))
    }
    fn unlink(&self, ctx: &Context, parent: u64, name: &CStr) -> io::Result<()> {
        self.unit("unlink", ctx, json!({"parent": ino(parent), "name": name_json(name.to_bytes())}))
    }
    fn rmdir(&self, ctx: &Context, parent: u64, name: &CStr) -> io::Result<()> {
        self.unit("rmdir", ctx, json!({"parent": ino(parent), "name": name_json(name.to_bytes())}))
    }
    fn rename(&self, ctx: &Context, olddir: u64, oldname: &CStr, newdir: u64, newname: &CStr, flags: u32) -> io::Result<()> {
        self.unit("rename", ctx, json!({"olddir": ino(olddir), "oldname": name_json(oldname.to_bytes()), "newdir": ino(newdir),
                                       "newname": name_json(newname.to_bytes()), "flags": s64(flags as u64)}))
    }
    fn link(&self, ctx: &Context, inode: u64, newparent: u64, newname: &CStr) -> io::Result<Entry> {
        self.entry("link", ctx, json!({"inode": ino(inode), "newparent": ino(newparent), "newname": name_json(newname.to_bytes())}))
    }
    fn open(&self, ctx: &Context, inode: u64, flags: u32, fuse_flags: u32) -> io::Result<(Option<u64>, OpenOptions, Option<u32>)> {
        let args = json!({"inode": ino(inode), "flags": s64(flags as u64), "fuse_flags": s64(fuse_flags as u64)});
        match self.ret() {
            Ret::Err { os, kind } => {
                self.rec("open", Some(ctx), args, err_json(os, &kind));
                Err(mkerr(os, &kind))
            }
            Ret::Open { handle, opts, passthrough } => {
                let o = OpenOptions::from_bits_truncate(opts);
                self.rec("open", Some(ctx), args, json!({"kind": "open", "handle": opt64(handle), "opts": s64(o.bits() as u64), "passthrough": opt64(passthrough.map(|x| x as u64))}));
                Ok((handle, o, passthrough))
            }
            _ => {
                self.rec("open", Some(ctx), args, json!({"kind": "open", "handle": opt64(None), "opts": "0", "passthrough": opt64(None)}));
                Ok((None, OpenOptions::empty(), None))
            }
        }
    }
    fn create(&self, ctx: &Context, parent: u64, name: &CStr, a: CreateIn) -> io::Result<(Entry, Option<u64>, OpenOptions, Option<u32>)> {
        let args = json!({"parent": ino(parent), "name": name_json(name.to_bytes()),
            "args": {"flags": s64(a.flags as u64), "mode": s64(a.mode as u64), "umask": s64(a.umask as u64), "fuse_flags": s64(a.fuse_flags as u64)}});
        match self.ret() {
            Ret::Err { os, kind } => {
                self.rec("create", Some(ctx), args, err_json(os, &kind));
                Err(mkerr(os, &kind))
            }
            Ret::Create { entry, handle, opts, passthrough } => {
                let o = OpenOptions::from_bits_truncate(opts);
                let mut ej = entry_json(&entry);
                ej.as_object_mut().unwrap().remove("kind");
                self.rec("create", Some(ctx), args, json!({"kind": "create", "entry": ej, "handle": opt64(handle), "opts": s64(o.bits() as u64),
                    "passthrough": opt64(passthrough.map(|x| x as u64))}));
                Ok((entry, handle, o, passthrough))
            }
            _ => {
                let entry = Entry::default();
                let mut ej = entry_json(&entry);
                ej.as_object_mut().unwrap().remove("kind");
                self.rec("create", Some(ctx), args, json!({"kind": "create", "entry": ej, "handle": opt64(None), "opts": "0", "passthrough": opt64(None)}));
                Ok((entry, None, OpenOptions::empty(), None))
            }
        }
    }
    fn read(&self, ctx: &Context, inode: u64, handle: u64, w: &mut dyn ZeroCopyWriter, size: u32, offset: u64, lock_owner: Option<u64>, flags: u32) -> io::Result<usize> {
        let args = json!({"inode": ino(inode), "handle": s64(handle), "size": s64(size as u64), "offset": s64(offset), "lock_owner": opt64(lock_owner), "flags": s64(flags as u64)});
        match self.ret() {
            Ret::Err { os, kind } => {
                self.rec("read", Some(ctx), args, err_json(os, &kind));
                Err(mkerr(os, &kind))
            }
            Ret::Bytes(b) => {
                let n = b.len().min(size as usize).min(w.available_bytes());
                // produce the payload the way real filesystems do: partly with plain writes, partly zero-copy from a
                // file in several chunks (which path is taken for which part is derived from the data itself)
                let res = (|| -> io::Result<()> {
                    let mode = b.first().copied().unwrap_or(0) % 3;
                    if mode == 0 || n == 0 {
                        return w.write_all(&b[..n]);
                    }
                    let fd = unsafe { libc::memfd_create(b"scripted-read\0".as_ptr() as *const libc::c_char, 0) };
                    if fd < 0 {
                        return w.write_all(&b[..n]);
                    }
                    let mut file = unsafe { <std::fs::File as std::os::unix::io::FromRawFd>::from_raw_fd(fd) };
                    std::io::Write::write_all(&mut file, &b[..n])?;
                    let cut1 = if mode == 1 { n } else { (b[n / 2] as usize * n / 256).max(1).min(n) };
                    let mut off = 0usize;
                    for end in [cut1 / 2, cut1] {
                        while off < end {
                            let k = w.write_from(&mut file, end - off, off as u64)?;
                            if k == 0 {
                                return Err(io::Error::from_raw_os_error(libc::EIO));
                            }
                            off += k;
                        }
                    }
                    w.write_all(&b[off..n])
                })();
                match res {
                    Ok(()) => {
                        self.rec("read", Some(ctx), args, json!({"kind": "bytes", "data": pay(&b[..n])}));
                        Ok(n)
                    }
                    Err(e) => {
                        self.rec("read", Some(ctx), args, json!({"kind": "err", "os": e.raw_os_error().unwrap_or(5), "ekind": ""}));
                        Err(io::Error::from_raw_os_error(e.raw_os_error().unwrap_or(5)))
                    }
                }
            }
            _ => {
                self.rec("read", Some(ctx), args, json!({"kind": "bytes", "data": pay(&[])}));
                Ok(0)
            }
        }
    }
    fn write(&self, ctx: &Context, inode: u64, handle: u64, r: &mut dyn ZeroCopyReader, size: u32, offset: u64, lock_owner: Option<u64>, delayed_write: bool, flags: u32, fuse_flags: u32) -> io::Result<usize> {
        let mut data = vec![0u8; (size as usize).min(4 << 20)];
        let mut got = 0;
        while got < data.len() {
            match r.read(&mut data[got..]) {
                Ok(0) => break,
                Ok(n) => got += n,
                Err(_) => break,
            }
        }
        data.truncate(got);
        let args = json!({"inode": ino(inode), "handle": s64(handle), "size": s64(size as u64), "offset": s64(offset), "lock_owner": opt64(lock_owner),
            "delayed_write": delayed_write, "flags": s64(flags as u64), "fuse_flags": s64(fuse_flags as u64), "data": pay(&data)});
        match self.ret() {
            Ret::Err { os, kind } => {
                self.rec("write", Some(ctx), args, err_json(os, &kind));
                Err(mkerr(os, &kind))
            }
            Ret::Count(n) => {
                self.rec("write", Some(ctx), args, json!({"kind": "count", "count": s64(n as u64)}));
                Ok(n)
            }
            _ => {
                self.rec("write", Some(ctx), args, json!({"kind": "count", "count": s64(got as u64)}));
                Ok(got)
            }
        }
    }
    fn flush(&self, ctx: &Context, inode: u64, handle: u64, lock_owner: u64) -> io::Result<()> {
        self.unit("flush", ctx, json!({"inode": ino(inode), "handle": s64(handle), "lock_owner": s64(lock_owner)}))
    }
    fn fsync(&self, ctx: &Context, inode: u64, datasync: bool, handle: u64) -> io::Result<()> {
        self.unit("fsync", ctx, json!({"inode": ino(inode), "datasync": datasync, "handle": s64(handle)}))
    }
    fn fallocate(&self, ctx: &Context, inode: u64, handle: u64, mode: u32, offset: u64, length: u64) -> io::Result<()> {
        self.unit("fallocate", ctx, json!({"inode": ino(inode), "handle": s64(handle), "mode": s64(mode as u64), "offset": s64(offset), "length": s64(length)}))
    }
    fn release(&self, ctx: &Context, inode: u64, flags: u32, handle: u64, flush: bool, flock_release: bool, lock_owner: Option<u64>) -> io::Result<()> {
        self.unit("release", ctx, json!({"inode": ino(inode), "flags": s64(flags as u64), "handle": s64(handle), "flush": flush,
            "flock_release": flock_release, "lock_owner": opt64(lock_owner)}))
    }
    fn statfs(&self, ctx: &Context, inode: u64) -> io::Result<statvfs64> {
        let args = json!({"inode": ino(inode)});
        match self.ret() {
            Ret::Err { os, kind } => {
                self.rec("statfs", Some(ctx), args, err_json(os, &kind));
                Err(mkerr(os, &kind))
            }
            Ret::Statfs(st) => {
                self.rec("statfs", Some(ctx), args, json!({"kind": "statfs", "st": {
                    "f_bsize": s64(st.f_bsize), "f_frsize": s64(st.f_frsize), "f_blocks": s64(st.f_blocks), "f_bfree": s64(st.f_bfree),
                    "f_bavail": s64(st.f_bavail), "f_files": s64(st.f_files), "f_ffree": s64(st.f_ffree), "f_namemax": s64(st.f_namemax)}}));
                Ok(st)
            }
            _ => {
                let st: statvfs64 = unsafe { std::mem::zeroed() };
                self.rec("statfs", Some(ctx), args, json!({"kind": "statfs", "st": {
                    "f_bsize": "0", "f_frsize": "0", "f_blocks": "0", "f_bfree": "0", "f_bavail": "0", "f_files": "0", "f_ffree": "0", "f_namemax": "0"}}));
                Ok(st)
            }
        }
    }
    fn setxattr(&self, ctx: &Context, inode: u64, name: &CStr, value: &[u8], flags: u32) -> io::Result<()> {
        self.unit("setxattr", ctx, json!({"inode": ino(inode), "name": name_json(name.to_bytes()), "value": pay(value), "flags": s64(flags as u64)}))
    }
    fn getxattr(&self, ctx: &Context, inode: u64, name: &CStr, size: u32) -> io::Result<GetxattrReply> {
        let args = json!({"inode": ino(inode), "name": name_json(name.to_bytes()), "size": s64(size as u64)});
        match self.ret() {
            Ret::Err { os, kind } => {
                self.rec("getxattr", Some(ctx), args, err_json(os, &kind));
                Err(mkerr(os, &kind))
            }
            Ret::Bytes(b) => {
                self.rec("getxattr", Some(ctx), args, json!({"kind": "bytes", "data": pay(&b)}));
                Ok(GetxattrReply::Value(b))
            }
            Ret::XCount(n) => {
                self.rec("getxattr", Some(ctx), args, json!({"kind": "xcount", "count": s64(n as u64)}));
                Ok(GetxattrReply::Count(n))
            }
            _ => {
                self.rec("getxattr", Some(ctx), args, json!({"kind": "xcount", "count": "0"}));
                Ok(GetxattrReply::Count(0))
            }
        }
    }
    fn listxattr(&self, ctx: &Context, inode: u64, size: u32) -> io::Result<ListxattrReply> {
        let args = json!({"inode": ino(inode), "size": s64(size as u64)});
        match self.ret() {
            Ret::Err { os, kind } => {
                self.rec("listxattr", Some(ctx), args, err_json(os, &kind));
                Err(mkerr(os, &kind))
            }
            Ret::Bytes(b) => {
                self.rec("listxattr", Some(ctx), args, json!({"kind": "bytes", "data": pay(&b)}));
                Ok(ListxattrReply::Names(b))
            }
            Ret::XCount(n) => {
                self.rec("listxattr", Some(ctx), args, json!({"kind": "xcount", "count": s64(n as u64)}));
                Ok(ListxattrReply::Count(n))
            }
            _ => {
                self.rec("listxattr", Some(ctx), args, json!({"kind": "xcount", "count": "0"}));
                Ok(ListxattrReply::Count(0))
            }
        }
    }
    fn removexattr(&self, ctx: &Context, inode: u64, name: &CStr) -> io::Result<()> {
        self.unit("removexattr", ctx, json!({"inode": ino(inode), "name": name_json(name.to_bytes())}))
    }
    fn opendir(&self, ctx: &Context, inode: u64, flags: u32) -> io::Result<(Option<u64>, OpenOptions)> {
        let args = json!({"inode": ino(inode), "flags": s64(flags as u64)});
        match self.ret() {
            Ret::Err { os, kind } => {
                self.rec("opendir", Some(ctx), args, err_json(os, &kind));
                Err(mkerr(os, &kind))
            }
            Ret::Open { handle, opts, .. } => {
                let o = OpenOptions::from_bits_truncate(opts);
                self.rec("opendir", Some(ctx), args, json!({"kind": "open", "handle": opt64(handle), "opts": s64(o.bits() as u64), "passthrough": opt64(None)}));
                Ok((handle, o))
            }
            _ => {
                self.rec("opendir", Some(ctx), args, json!({"kind": "open", "handle": opt64(None), "opts": "0", "passthrough": opt64(None)}));
                Ok((None, OpenOptions::empty()))
            }
        }
    }
    fn readdir(&self, ctx: &Context, inode: u64, handle: u64, size: u32, offset: u64, add_entry: &mut dyn FnMut(DirEntry) -> io::Result<usize>) -> io::Result<()> {
        let args = json!({"inode": ino(inode), "handle": s64(handle), "size": s64(size as u64), "offset": s64(offset)});
        match self.ret() {
            Ret::Err { os, kind } => {
                self.rec("readdir", Some(ctx), args, err_json(os, &kind));
                Err(mkerr(os, &kind))
            }
            Ret::DirentsErr(list, os) => {
                for d in list.iter() {
                    if !matches!(add_entry(DirEntry { ino: d.ino, offset: d.offset, type_: d.type_, name: &d.name }), Ok(n) if n > 0) {
                        break;
                    }
                }
                self.rec("readdir", Some(ctx), args, err_json(os, &None));
                Err(mkerr(os, &None))
            }
            Ret::Dirents(list) => {
                let mut offered = Vec::new();
                for d in list.iter() {
                    let r = add_entry(DirEntry { ino: d.ino, offset: d.offset, type_: d.type_, name: &d.name });
                    let rv = match &r {
                        Ok(n) => *n as i64,
                        Err(_) => -1,
                    };
                    offered.push(json!({"ino": s64(d.ino), "off": s64(d.offset), "type": s64(d.type_ as u64), "name": name_json(&d.name),
                                        "namelen": d.name.len(), "ret": rv}));
                    if rv <= 0 {
                        break;
                    }
                }
                self.rec("readdir", Some(ctx), args, json!({"kind": "dirents", "offered": offered}));
                Ok(())
            }
            _ => {
                self.rec("readdir", Some(ctx), args, json!({"kind": "dirents", "offered": []}));
                Ok(())
            }
        }
    }
    fn readdirplus(&self, ctx: &Context, inode: u64, handle: u64, size: u32, offset: u64, add_entry: &mut dyn FnMut(DirEntry, Entry) -> io::Result<usize>) -> io::Result<()> {
        let args = json!({"inode": ino(inode), "handle": s64(handle), "size": s64(size as u64), "offset": s64(offset)});
        match self.ret() {
            Ret::Err { os, kind } => {
                self.rec("readdirplus", Some(ctx), args, err_json(os, &kind));
                Err(mkerr(os, &kind))
            }
            Ret::DirentsErr(list, os) => {
                for d in list.iter() {
                    if !matches!(add_entry(DirEntry { ino: d.ino, offset: d.offset, type_: d.type_, name: &d.name }, d.entry), Ok(n) if n > 0) {
                        break;
                    }
                }
                self.rec("readdirplus", Some(ctx), args, err_json(os, &None));
                Err(mkerr(os, &None))
            }
            Ret::Dirents(list) => {
                let mut offered = Vec::new();
                for d in list.iter() {
                    let r = add_entry(DirEntry { ino: d.ino, offset: d.offset, type_: d.type_, name: &d.name }, d.entry);
                    let rv = match &r {
                        Ok(n) => *n as i64,
                        Err(_) => -1,
                    };
                    let mut ej = entry_json(&d.entry);
                    ej.as_object_mut().unwrap().remove("kind");
                    offered.push(json!({"ino": s64(d.ino), "off": s64(d.offset), "type": s64(d.type_ as u64), "name": name_json(&d.name),
                                        "namelen": d.name.len(), "ret": rv, "entry": ej}));
                    if rv <= 0 {
                        break;
                    }
                }
                self.rec("readdirplus", Some(ctx), args, json!({"kind": "dirents", "offered": offered}));
                Ok(())
            }
            _ => {
                self.rec("readdirplus", Some(ctx), args, json!({"kind": "dirents", "offered": []}));
                Ok(())
            }
        }
    }
    fn fsyncdir(&self, ctx: &Context, inode: u64, datasync: bool, handle: u64) -> io::Result<()> {
        self.unit("fsyncdir", ctx, json!({"inode": ino(inode), "datasync": datasync, "handle": s64(handle)}))
    }
    fn releasedir(&self, ctx: &Context, inode: u64, flags: u32, handle: u64) -> io::Result<()> {
        self.unit("releasedir", ctx, json!({"inode": ino(inode), "flags": s64(flags as u64), "handle": s64(handle)}))
    }
    fn setupmapping(&self, ctx: &Context, inode: u64, handle: u64, foffset: u64, len: u64, flags: u64, moffset: u64, _vu_req: &mut dyn FsCacheReqHandler) -> io::Result<()> {
        self.unit("setupmapping", ctx, json!({"inode": ino(inode), "handle": s64(handle), "foffset": s64(foffset), "len": s64(len), "flags": s64(flags), "moffset": s64(moffset)}))
    }
    fn removemapping(&self, ctx: &Context, _inode: u64, requests: Vec<RemovemappingOne>, _vu_req: &mut dyn FsCacheReqHandler) -> io::Result<()> {
        let rows: Vec<(u64, u64)> = requests.iter().map(|r| (r.moffset, r.len)).collect();
        self.unit("removemapping", ctx, json!({"requests": pairs_json(&rows)}))
    }
    fn access(&self, ctx: &Context, inode: u64, mask: u32) -> io::Result<()> {
        self.unit("access", ctx, json!({"inode": ino(inode), "mask": s64(mask as u64)}))
    }
    fn lseek(&self, ctx: &Context, inode: u64, handle: u64, offset: u64, whence: u32) -> io::Result<u64> {
        let args = json!({"inode": ino(inode), "handle": s64(handle), "offset": s64(offset), "whence": s64(whence as u64)});
        match self.ret() {
            Ret::Err { os, kind } => {
                self.rec("lseek", Some(ctx), args, err_json(os, &kind));
                Err(mkerr(os, &kind))
            }
            Ret::U64(v) => {
                self.rec("lseek", Some(ctx), args, json!({"kind": "lseek", "val": s64(v)}));
                Ok(v)
            }
            _ => {
                self.rec("lseek", Some(ctx), args, json!({"kind": "lseek", "val": "0"}));
                Ok(0)
            }
        }
    }
    fn getlk(&self, ctx: &Context, inode: u64, handle: u64, owner: u64, lock: FileLock, flags: u32) -> io::Result<FileLock> {
        let args = json!({"inode": ino(inode), "handle": s64(handle), "owner": s64(owner), "lock": lock_json(&lock), "flags": s64(flags as u64)});
        match self.ret() {
            Ret::Err { os, kind } => {
                self.rec("getlk", Some(ctx), args, err_json(os, &kind));
                Err(mkerr(os, &kind))
            }
            Ret::Lock(l) => {
                self.rec("getlk", Some(ctx), args, json!({"kind": "lock", "lock": lock_json(&l)}));
                Ok(l)
            }
            _ => {
                self.rec("getlk", Some(ctx), args, json!({"kind": "lock", "lock": lock_json(&lock)}));
                Ok(lock)
            }
        }
    }
    fn setlk(&self, ctx: &Context, inode: u64, handle: u64, owner: u64, lock: FileLock, flags: u32) -> io::Result<()> {
        self.unit("setlk", ctx, json!({"inode": ino(inode), "handle": s64(handle), "owner": s64(owner), "lock": lock_json(&lock), "flags": s64(flags as u64)}))
    }
    fn setlkw(&self, ctx: &Context, inode: u64, handle: u64, owner: u64, lock: FileLock, flags: u32) -> io::Result<()> {
        self.unit("setlkw", ctx, json!({"inode": ino(inode), "handle": s64(handle), "owner": s64(owner), "lock": lock_json(&lock), "flags": s64(flags as u64)}))
    }
    fn ioctl(&self, ctx: &Context, inode: u64, handle: u64, flags: u32, cmd: u32, data: IoctlData, out_size: u32) -> io::Result<IoctlData<'_>> {
        let d = data.data.unwrap_or(&[]);
        let args = json!({"inode": ino(inode), "handle": s64(handle), "flags": s64(flags as u64), "cmd": s64(cmd as u64), "data": pay(d),
            "data_some": data.data.is_some(), "out_size": s64(out_size as u64)});
        match self.ret() {
            Ret::Err { os, kind } => {
                self.rec("ioctl", Some(ctx), args, err_json(os, &kind));
                Err(mkerr(os, &kind))
            }
            Ret::Ioctl { result, data } => {
                self.rec("ioctl", Some(ctx), args, json!({"kind": "ioctl", "result": s64(result as u32 as u64), "data": pay(&data)}));
                let leaked: &'static [u8] = Box::leak(data.into_boxed_slice());
                Ok(IoctlData { result, data: if leaked.is_empty() { None } else { Some(leaked) } })
            }
            _ => {
                self.rec("ioctl", Some(ctx), args, json!({"kind": "ioctl", "result": "0", "data": pay(&[])}));
                Ok(IoctlData { result: 0, data: None })
            }
        }
    }
    fn bmap(&self, ctx: &Context, inode: u64, block: u64, blocksize: u32) -> io::Result<u64> {
        let args = json!({"inode": ino(inode), "block": s64(block), "blocksize": s64(blocksize as u64)});
        match self.ret() {
            Ret::Err { os, kind } => {
                self.rec("bmap", Some(ctx), args, err_json(os, &kind));
                Err(mkerr(os, &kind))
            }
            Ret::U64(v) => {
                self.rec("bmap", Some(ctx), args, json!({"kind": "bmap", "val": s64(v)}));
                Ok(v)
            }
            _ => {
                self.rec("bmap", Some(ctx), args, json!({"kind": "bmap", "val": "0"}));
                Ok(0)
            }
        }
    }
    fn poll(&self, ctx: &Context, inode: u64, handle: u64, khandle: u64, flags: u32, events: u32) -> io::Result<u32> {
        let args = json!({"inode": ino(inode), "handle": s64(handle), "khandle": s64(khandle), "flags": s64(flags as u64), "events": s64(events as u64)});
        match self.ret() {
            Ret::Err { os, kind } => {
                self.rec("poll", Some(ctx), args, err_json(os, &kind));
                Err(mkerr(os, &kind))
            }
            Ret::U32(v) => {
                self.rec("poll", Some(ctx), args, json!({"kind": "poll", "val": s64(v as u64)}));
                Ok(v)
            }
            _ => {
                self.rec("poll", Some(ctx), args, json!({"kind": "poll", "val": "0"}));
                Ok(0)
            }
        }
    }
    fn notify_reply(&self) -> io::Result<()> {
        match self.ret() {
            Ret::Err { os, kind } => {
                self.log.lock().unwrap().push(json!({"m": "notify_reply", "fs": self.id, "args": {}, "ret": err_json(os, &kind)}));
                Err(mkerr(os, &kind))
            }
            _ => {
                self.log.lock().unwrap().push(json!({"m": "notify_reply", "fs": self.id, "args": {}, "ret": {"kind": "unit"}}));
                Ok(())
            }
        }
    }
    fn id_remap_with_nodeid(&self, ctx: &mut Context, nodeid: u64) -> io::Result<()> {
        let before = Self::ctxj(ctx);
        if self.remap_refuse.load(std::sync::atomic::Ordering::SeqCst) {
            self.log.lock().unwrap().push(json!({"m": "id_remap", "fs": self.id, "nodeid": s64(nodeid), "in": before, "out": Self::ctxj(ctx), "refused": true}));
            return Err(io::Error::from_raw_os_error(libc::EPERM));
        }
        ctx.uid ^= self.remap_xor;
        ctx.gid ^= self.remap_xor;
        self.log.lock().unwrap().push(json!({"m": "id_remap", "fs": self.id, "nodeid": s64(nodeid), "in": before, "out": Self::ctxj(ctx)}));
        Ok(())
    }
}

impl fuse_backend_rs::api::BackendFileSystem for ScriptedFs {
    fn mount(&self) -> io::Result<(Entry, u64)> {
        let (e, max) = *self.root.lock().unwrap();
        let mut ej = entry_json(&e);
        ej.as_object_mut().unwrap().remove("kind");
        self.log.lock().unwrap().push(json!({"m": "mount", "fs": self.id, "args": {}, "ret": {"kind": "mount", "entry": ej, "max": s64(max)}}));
        Ok((e, max))
    }
    fn as_any(&self) -> &dyn std::any::Any {
        self
    }
}

/// DAX window handler that accepts everything (SETUPMAPPING / REMOVEMAPPING need one).
pub struct NullCache;
impl FsCacheReqHandler for NullCache {
    fn map(&mut self, _foffset: u64, _moffset: u64, _len: u64, _flags: u64, _fd: std::os::unix::io::RawFd) -> io::Result<()> {
        Ok(())
    }
    fn unmap(&mut self, _requests: Vec<RemovemappingOne>) -> io::Result<()> {
        Ok(())
    }
}

/// With fuse-backend-rs's async-io feature every asynchronous operation of the scripted filesystem is
/// the synchronous one (same log entry, same scripted result), so that the two request paths of the
/// server can be compared on equal terms.
#[cfg(feature = "async")]
mod async_impl {
    use super::*;
    use async_trait::async_trait;
    use fuse_backend_rs::api::filesystem::{AsyncFileSystem, AsyncZeroCopyReader, AsyncZeroCopyWriter};

    #[async_trait]
    impl AsyncFileSystem for ScriptedFs {
        async fn async_lookup(&self, ctx: &Context, parent: u64, name: &CStr) -> io::Result<Entry> {
            self.lookup(ctx, parent, name)
        }
        async fn async_getattr(&self, ctx: &Context, inode: u64, handle: Option<u64>) -> io::Result<(stat64, Duration)> {
            self.getattr(ctx, inode, handle)
        }
        async fn async_setattr(&self, ctx: &Context, inode: u64, attr: stat64, handle: Option<u64>, valid: SetattrValid) -> io::Result<(stat64, Duration)> {
            self.setattr(ctx, inode, attr, handle, valid)
        }
        async fn async_open(&self, ctx: &Context, inode: u64, flags: u32, fuse_flags: u32) -> io::Result<(Option<u64>, OpenOptions)> {
            self.open(ctx, inode, flags, fuse_flags).map(|(h, o, _)| (h, o))
        }
        async fn async_create(&self, ctx: &Context, parent: u64, name: &CStr, args: CreateIn) -> io::Result<(Entry, Option<u64>, OpenOptions)> {
            self.create(ctx, parent, name, args).map(|(e, h, o, _)| (e, h, o))
        }
        async fn async_read(&self, ctx: &Context, inode: u64, handle: u64, w: &mut (dyn AsyncZeroCopyWriter + Send), size: u32, offset: u64,
                            lock_owner: Option<u64>, flags: u32) -> io::Result<usize> {
            let w2: &mut dyn ZeroCopyWriter = w;
            self.read(ctx, inode, handle, w2, size, offset, lock_owner, flags)
        }
        async fn async_write(&self, ctx: &Context, inode: u64, handle: u64, r: &mut (dyn AsyncZeroCopyReader + Send), size: u32, offset: u64,
                             lock_owner: Option<u64>, delayed_write: bool, flags: u32, fuse_flags: u32) -> io::Result<usize> {
            let r2: &mut dyn ZeroCopyReader = r;
            self.write(ctx, inode, handle, r2, size, offset, lock_owner, delayed_write, flags, fuse_flags)
        }
        async fn async_fsync(&self, ctx: &Context, inode: u64, datasync: bool, handle: u64) -> io::Result<()> {
            self.fsync(ctx, inode, datasync, handle)
        }
        async fn async_fallocate(&self, ctx: &Context, inode: u64, handle: u64, mode: u32, offset: u64, length: u64) -> io::Result<()> {
            self.fallocate(ctx, inode, handle, mode, offset, length)
        }
        async fn async_fsyncdir(&self, ctx: &Context, inode: u64, datasync: bool, handle: u64) -> io::Result<()> {
            self.fsyncdir(ctx, inode, datasync, handle)
        }
    }
}
