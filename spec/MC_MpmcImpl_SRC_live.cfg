SPECIFICATION FairSpec
CONSTANTS
  Prog <- P_SRC
  Procs = {1,2,3}
  Fixed = FALSE
  EnableFirst = TRUE
  Mon = TRUE
INVARIANTS LinWeak
PROPERTY NoLostWakeup
PROPERTY Progress
