----------------------------- MODULE MC_VfsRace -----------------------------
(* Instances of VfsRace: all mounter programs of one or two operations over {mount p, mount p with a mapping,
   umount p} x p in {/a, /}, five initial tables, one or two requesters. *)
EXTENDS VfsRace, Json
Empty == [sb |-> [i \in 1..NIdx |-> NoFs], mp |-> [n \in {R, A} |-> NoMp], map |-> [i \in 0..NIdx |-> NoTok], nexts |-> 1]
Mounted(p, m) == [sb |-> [i \in 1..NIdx |-> IF i = 1 THEN "b0" ELSE NoFs],
                  mp |-> [n \in {R, A} |-> IF n = p THEN [idx |-> 1, b |-> "b0", rtok |-> IF m = NoTok THEN GTok ELSE m] ELSE NoMp],
                  map |-> [i \in 0..NIdx |-> IF i = 1 THEN m ELSE NoTok], nexts |-> 2]
MC_Inits == {Empty, Mounted(A, "M0"), Mounted(A, NoTok), Mounted(R, "M0"), Mounted(R, NoTok)}
Ops(b) == {[k |-> "mount", p |-> p, b |-> b, m |-> m] : p \in {R, A}, m \in {NoTok, "M1"}} \cup
          {[k |-> "umount", p |-> p, b |-> NoFs, m |-> NoTok] : p \in {R, A}}
MC_Programs == {<<x>> : x \in Ops("b1")} \cup {<<x1, x2>> : x1 \in Ops("b1"), x2 \in Ops("b2")}
MC_Programs1 == {<<x>> : x \in Ops("b1")}
ReqKinds == {"lookup_a", "getattr_root", "getattr_in", "rdp_root"}
MC_Req1 == {<<a>> : a \in ReqKinds}
MC_Req2 == {<<a, b>> : a, b \in ReqKinds}
MC_Req2same == {<<a, a>> : a \in ReqKinds}       \* what the replay can script (one script per backend instance)
\* a request on an inode of a mount makes sense only if something was mounted at the start (the client got the number from it)
Valid == \A r \in Reqs : ReqOps[r] = "getattr_in" => B0(Init0) # NoFs
AllDone == \A t \in {0} \cup Reqs : pc[t] = "Done"
\* the view for checking the obligations: the interleaving itself does not matter
NoHist == <<Init0, Program, ReqOps, sb, mp, map, nexts, started, done, res, cd, rs, pc, pi, o, idx, old, sb1, mp1, cidx, ctok, tgt, fs>>
\* export of every complete interleaving with what the model observed and its verdicts
Verdict == [lin |-> Lin, strict |-> StrictLin, foreign |-> ~NoForeign, mapsome |-> MapOfSome]
Export == AllDone => PrintT(<<"SCHED", ToJson([init |-> Init0, prog |-> Program, reqs |-> ReqOps, s |-> hist, res |-> res, v |-> Verdict])>>)
=============================================================================
