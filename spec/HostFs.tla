------------------------------ MODULE HostFs ------------------------------
(* Environment model: a POSIX/Linux directory tree with open file descriptions, as far as the
   properties C05 / C06 / C18 talk about it.  Pure operators over a state record

       S = [ino  |-> [id -> inode],        live inodes (linked, or orphaned but still referenced)
            dent |-> [dir id -> [name -> id]],
            of   |-> [key -> description]] open file descriptions, including O_PATH references

   inode = [t, perm, uid, gid, data, size, tgt, nlink, xa, rdev, par]
       t     "dir" | "reg" | "lnk" | "fifo" | "chr" | "blk" | "sock"
       data  content of a regular file as a sequence of byte tokens (size of a "reg" = Len(data))
       size  size of a symlink (length of its target); 0 for the other types (directory and
             device sizes are file-system specific and never compared)
       tgt   symlink target: opaque in traces (a string), a sequence of components in the
             model-checking configurations (first component "/" = absolute) -- only Walk looks inside
       xa    extended attributes (user.NAME): [name -> sequence of byte tokens]
       par   for directories: the parent directory (".."); 0 otherwise
   description = [i, acc, app, pos]   acc \in {"PATH","RD","WR","RDWR"}, app = O_APPEND, pos = file offset

   Every system call is an operator  Call(S, args) = [ok, errs, S, ret]:
       ok    success or failure is always determined by the state
       errs  on failure: the set of errno names Linux may answer; {} = "some error" (the errno is
             only pinned in the robust cases of DESIGN Appendix C)
       S     successor state (= S on failure: a failing call has no effect)
       ret   a record with the values the call returns
   The module is calibrated against the host on every run (the same histories executed with
   plain system calls, judged by Trace_Passthrough in CAL mode) and carries the structural
   self-invariant TreeOK, model-checked by MC_HostFs. *)
EXTENDS Integers, Sequences, FiniteSets, TLC

NoRet == [none |-> TRUE]
Fail(S, es) == [ok |-> FALSE, errs |-> es, S |-> S, ret |-> NoRet]
Succ(S, r) == [ok |-> TRUE, errs |-> {}, S |-> S, ret |-> r]
AnyErr == {}

Ids(S) == DOMAIN S.ino
IsDir(S, i) == i \in Ids(S) /\ S.ino[i].t = "dir"
IsReg(S, i) == i \in Ids(S) /\ S.ino[i].t = "reg"
Special == {"fifo", "chr", "blk", "sock"}
Names(S, d) == DOMAIN S.dent[d]
Dead(S, d) == S.ino[d].nlink = 0          \* removed but still referenced: nothing can be created in it
SizeOf(n) == IF n.t = "reg" THEN Len(n.data) ELSE n.size
Referenced(S, i) == \E k \in DOMAIN S.of : S.of[k].i = i

\* attributes as compared with stat(2): type, permission bits, owner, size (reg/lnk), link count, rdev
Attr(S, i) == LET n == S.ino[i] IN
  [id |-> i, t |-> n.t, perm |-> n.perm, uid |-> n.uid, gid |-> n.gid, size |-> SizeOf(n), nlink |-> n.nlink, rdev |-> n.rdev]

(* ---------------- permission checks (only create-type calls run with the caller's ids) -------- *)
\* c = [uid, gid, groups]; bit: 4 read, 2 write, 1 execute/search
PermBits(c, n) == IF n.uid = c.uid THEN (n.perm \div 64) % 8
                  ELSE IF n.gid = c.gid \/ n.gid \in c.groups THEN (n.perm \div 8) % 8
                  ELSE n.perm % 8
HasBit(v, b) == (v \div b) % 2 = 1
May(c, n, b) == IF c.uid = 0 THEN (b # 1 \/ n.t = "dir" \/ n.perm % 2 = 1 \/ (n.perm \div 8) % 2 = 1 \/ (n.perm \div 64) % 2 = 1)
                ELSE HasBit(PermBits(c, n), b)
Root0 == [uid |-> 0, gid |-> 0, groups |-> {}]

(* ---------------- garbage collection of unreferenced orphans ---------------- *)
Restrict(f, D) == [x \in D |-> f[x]]
Gc(S) == LET gone == {i \in Ids(S) : S.ino[i].nlink = 0 /\ ~Referenced(S, i)} IN
  IF gone = {} THEN S
  ELSE [S EXCEPT !.ino = Restrict(S.ino, Ids(S) \ gone),
                 !.dent = Restrict(S.dent, DOMAIN S.dent \ gone)]

(* ---------------- name kinds ---------------- *)
\* k \in {"plain","dot","dotdot","slash","empty","long"}: the model never inspects characters;
\* traces carry the kind next to the string, the model-checking configurations define it.
\* a name under something that is not a directory: ENOTDIR, except that the empty name is refused first (ENOENT)
\* and the order of the length check is not pinned
NotDirErr(k) == IF k \in {"empty", "long"} THEN AnyErr ELSE {"ENOTDIR"}
\* the empty name and over-long names always fail; which check answers first (ENOENT / ENAMETOOLONG / EACCES /
\* ENOTDIR) depends on the call and the caller, and is not among the robust cases
NameErr(S, k) == Fail(S, AnyErr)

(* ---------------- lookup: fstatat/openat(O_PATH|O_NOFOLLOW) of one component ---------------- *)
Lookup(S, d, name, k) ==
  IF d \notin Ids(S) THEN Fail(S, {"EBADF"})
  ELSE IF ~IsDir(S, d) THEN Fail(S, NotDirErr(k))
  ELSE IF k = "dot" THEN Succ(S, [id |-> d])
  ELSE IF k = "dotdot" THEN Succ(S, [id |-> S.ino[d].par])
  ELSE IF k # "plain" THEN (IF Dead(S, d) THEN Fail(S, AnyErr) ELSE NameErr(S, k))
  ELSE IF name \notin Names(S, d) THEN Fail(S, {"ENOENT"})
  ELSE Succ(S, [id |-> S.dent[d][name]])

\* references (O_PATH descriptors): pin an inode
OpenPath(S, i, key) == [S EXCEPT !.of = (key :> [i |-> i, acc |-> "PATH", app |-> FALSE, pos |-> 0]) @@ S.of]
Close(S, key) == IF key \notin DOMAIN S.of THEN S ELSE Gc([S EXCEPT !.of = Restrict(S.of, DOMAIN S.of \ {key})])

(* ---------------- creating objects ---------------- *)
NewInode(t, c, mode, rdev, tgt, tsize, par) ==
  [t |-> t, perm |-> mode % 4096, uid |-> c.uid, gid |-> c.gid, data |-> <<>>, size |-> tsize, tgt |-> tgt,
   nlink |-> IF t = "dir" THEN 2 ELSE 1, xa |-> <<>>, rdev |-> rdev, par |-> par]
\* common precondition of mkdirat / mknodat / symlinkat / openat(O_CREAT|O_EXCL) / linkat / rename target
CreateErr(S, c, d, name, k) ==
  IF d \notin Ids(S) THEN {"EBADF"}
  ELSE IF ~IsDir(S, d) THEN (IF k \in {"empty", "long"} THEN {"EGEN"} ELSE {"ENOTDIR"})
  ELSE IF Dead(S, d) /\ k # "plain" THEN {"EGEN"}      \* removed directory: which check comes first is not pinned
  ELSE IF k \in {"dot", "dotdot"} THEN {"EEXIST", "EINVAL", "ENOTEMPTY", "EBUSY", "EISDIR", "EPERM"}   \* gated by the A level anyway
  ELSE IF k # "plain" THEN {"EGEN"}
  ELSE IF ~May(c, S.ino[d], 1) THEN {"EACCES"}
  ELSE IF name \in Names(S, d) THEN {"EEXIST"}
  ELSE IF Dead(S, d) THEN {"ENOENT"}
  ELSE IF ~May(c, S.ino[d], 2) THEN {"EACCES"}
  ELSE {"OK"}
ErrSet(es) == IF es = {"EGEN"} THEN AnyErr ELSE es
MkNode(S, c, d, name, k, t, mode, rdev, tgt, tsize, nid) ==
  LET e == CreateErr(S, c, d, name, k) IN
  IF e # {"OK"} THEN Fail(S, ErrSet(e))
  ELSE LET S1 == [S EXCEPT !.ino = (nid :> NewInode(t, c, mode, rdev, tgt, tsize, IF t = "dir" THEN d ELSE 0)) @@
                                    [S.ino EXCEPT ![d].nlink = IF t = "dir" THEN @ + 1 ELSE @],
                           !.dent = IF t = "dir" THEN (nid :> <<>>) @@ [S.dent EXCEPT ![d] = (name :> nid) @@ @]
                                    ELSE [S.dent EXCEPT ![d] = (name :> nid) @@ @]]
       IN Succ(S1, [id |-> nid])
Mkdir(S, c, d, name, k, mode, nid) == MkNode(S, c, d, name, k, "dir", mode, 0, "", 0, nid)
Mknod(S, c, d, name, k, t, mode, rdev, nid) ==
  IF t \notin {"reg", "fifo", "chr", "blk", "sock"} THEN Fail(S, AnyErr)
  ELSE MkNode(S, c, d, name, k, t, mode, IF t \in {"chr", "blk"} THEN rdev ELSE 0, "", 0, nid)
Symlink(S, c, d, name, k, tgt, tsize, nid) ==
  IF tsize = 0 THEN Fail(S, {"ENOENT"}) ELSE MkNode(S, c, d, name, k, "lnk", 511, 0, tgt, tsize, nid)

(* ---------------- removing names ---------------- *)
DropName(S, d, name) == [S.dent EXCEPT ![d] = Restrict(@, DOMAIN @ \ {name})]
Unlink(S, d, name, k) ==
  IF d \notin Ids(S) THEN Fail(S, {"EBADF"})
  ELSE IF ~IsDir(S, d) THEN Fail(S, NotDirErr(k))
  ELSE IF k # "plain" THEN (IF k \in {"dot", "dotdot"} \/ Dead(S, d) THEN Fail(S, AnyErr) ELSE NameErr(S, k))
  ELSE IF name \notin Names(S, d) THEN Fail(S, {"ENOENT"})
  ELSE LET x == S.dent[d][name] IN
       IF IsDir(S, x) THEN Fail(S, {"EISDIR"})
       ELSE Succ(Gc([S EXCEPT !.dent = DropName(S, d, name), !.ino[x].nlink = @ - 1]), NoRet)
Rmdir(S, d, name, k) ==
  IF d \notin Ids(S) THEN Fail(S, {"EBADF"})
  ELSE IF ~IsDir(S, d) THEN Fail(S, NotDirErr(k))
  ELSE IF k # "plain" THEN (IF k \in {"dot", "dotdot"} \/ Dead(S, d) THEN Fail(S, AnyErr) ELSE NameErr(S, k))
  ELSE IF name \notin Names(S, d) THEN Fail(S, {"ENOENT"})
  ELSE LET x == S.dent[d][name] IN
       IF ~IsDir(S, x) THEN Fail(S, {"ENOTDIR"})
       ELSE IF Names(S, x) # {} THEN Fail(S, {"ENOTEMPTY"})
       ELSE Succ(Gc([S EXCEPT !.dent = DropName(S, d, name), !.ino[x].nlink = 0, !.ino[d].nlink = @ - 1]), NoRet)

(* ---------------- linkat(fd, "", AT_EMPTY_PATH) ---------------- *)
Link(S, i, d, name, k) ==
  IF i \notin Ids(S) THEN Fail(S, {"EBADF"})
  ELSE LET e == CreateErr(S, Root0, d, name, k) IN
  IF e \in {{"EBADF"}, {"ENOTDIR"}, {"EGEN"}} THEN Fail(S, ErrSet(e))
  ELSE IF k = "plain" /\ name \in Names(S, d) THEN Fail(S, {"EEXIST"})
  ELSE IF e # {"OK"} THEN Fail(S, ErrSet(e))
  ELSE IF IsDir(S, i) THEN Fail(S, {"EPERM"})
  ELSE IF S.ino[i].nlink = 0 THEN Fail(S, {"ENOENT"})
  ELSE Succ([S EXCEPT !.dent[d] = (name :> i) @@ @, !.ino[i].nlink = @ + 1], [id |-> i])

(* ---------------- renameat2 ---------------- *)
RECURSIVE Under(_, _, _, _)
\* is directory x inside the subtree of directory d (depth-bounded by k)?
Under(S, d, x, k) == k > 0 /\ \E n \in Names(S, d) :
                       LET c == S.dent[d][n] IN c = x \/ (IsDir(S, c) /\ Under(S, c, x, k - 1))
MaxDepth == 6
RenFlags == {"", "NOREPLACE", "EXCHANGE"}
Rename(S, od, on, ok_, nd, nn, nk, fl) ==
  IF od \notin Ids(S) \/ nd \notin Ids(S) THEN Fail(S, {"EBADF"})
  ELSE IF (~IsDir(S, od) \/ ~IsDir(S, nd)) /\ (ok_ # "plain" \/ nk # "plain") THEN Fail(S, AnyErr)
  ELSE IF ~IsDir(S, od) \/ ~IsDir(S, nd) THEN Fail(S, {"ENOTDIR"})
  ELSE IF fl \notin RenFlags THEN Fail(S, {"EINVAL"})
  ELSE IF ok_ # "plain" \/ nk # "plain" THEN Fail(S, AnyErr)
  ELSE IF on \notin Names(S, od) THEN Fail(S, {"ENOENT"})
  ELSE LET s == S.dent[od][on]
           has == nn \in Names(S, nd)
           t == IF has THEN S.dent[nd][nn] ELSE 0 IN
    IF ~has /\ Dead(S, nd) THEN Fail(S, {"ENOENT"})
    ELSE IF fl = "NOREPLACE" /\ has THEN Fail(S, {"EEXIST"})
    ELSE IF fl = "EXCHANGE" /\ ~has THEN Fail(S, {"ENOENT"})
    ELSE IF s = t THEN Succ(S, NoRet)
    ELSE IF IsDir(S, s) /\ (nd = s \/ Under(S, s, nd, MaxDepth)) THEN Fail(S, {"EINVAL"})
    ELSE IF fl = "EXCHANGE" THEN
         IF IsDir(S, t) /\ (od = t \/ Under(S, t, od, MaxDepth)) THEN Fail(S, AnyErr)
         ELSE LET d1 == [S.dent EXCEPT ![od] = [@ EXCEPT ![on] = t]]
                  d2 == [d1 EXCEPT ![nd] = [@ EXCEPT ![nn] = s]]
                  dn(i, x) == IF IsDir(S, x) THEN i ELSE 0       \* contribution of x to its parent's link count
                  i1 == [S.ino EXCEPT ![od].nlink = (@ + dn(1, t)) - dn(1, s)]
                  i2 == [i1 EXCEPT ![nd].nlink = (@ + dn(1, s)) - dn(1, t)]
                  i3 == IF IsDir(S, s) THEN [i2 EXCEPT ![s].par = nd] ELSE i2
                  i4 == IF IsDir(S, t) THEN [i3 EXCEPT ![t].par = od] ELSE i3
              IN Succ([S EXCEPT !.dent = d2, !.ino = i4], NoRet)
    ELSE IF has /\ IsDir(S, t) /\ (od = t \/ Under(S, t, od, MaxDepth)) THEN Fail(S, {"ENOTEMPTY", "EEXIST"})   \* target is an ancestor of the source
    ELSE IF has /\ IsDir(S, s) /\ ~IsDir(S, t) THEN Fail(S, {"ENOTDIR"})
    ELSE IF has /\ ~IsDir(S, s) /\ IsDir(S, t) THEN Fail(S, {"EISDIR"})
    ELSE IF has /\ IsDir(S, t) /\ Names(S, t) # {} THEN Fail(S, {"ENOTEMPTY", "EEXIST"})
    ELSE LET d1 == [S.dent EXCEPT ![od] = Restrict(@, DOMAIN @ \ {on})]
             d2 == [d1 EXCEPT ![nd] = IF has THEN [@ EXCEPT ![nn] = s] ELSE (nn :> s) @@ @]
             i1 == IF ~has THEN S.ino
                   ELSE IF IsDir(S, t) THEN [S.ino EXCEPT ![t].nlink = 0, ![nd].nlink = @ - 1]
                   ELSE [S.ino EXCEPT ![t].nlink = @ - 1]
             i2 == IF IsDir(S, s) THEN [[i1 EXCEPT ![od].nlink = @ - 1] EXCEPT ![nd].nlink = @ + 1, ![s].par = nd] ELSE i1
         IN Succ(Gc([S EXCEPT !.dent = d2, !.ino = i2]), NoRet)

(* ---------------- open file descriptions ---------------- *)
\* fl: set of flag names out of {"WR","RDWR","APPEND","TRUNC","DIRECTORY","EXCL","CREAT"}; neither WR nor RDWR = O_RDONLY
AccOf(fl) == IF "RDWR" \in fl THEN "RDWR" ELSE IF "WR" \in fl THEN "WR" ELSE "RD"
Writes(acc) == acc \in {"WR", "RDWR"}
Reads(acc) == acc \in {"RD", "RDWR"}
\* open(2) of an existing inode by reference (re-open of /proc/self/fd/N, or the final step of openat)
OpenIno(S, c, i, fl, key) ==
  IF i \notin Ids(S) THEN Fail(S, {"EBADF"})
  ELSE LET n == S.ino[i]  acc == AccOf(fl) IN
  IF n.t = "lnk" THEN Fail(S, {"ELOOP"})
  ELSE IF "DIRECTORY" \in fl /\ n.t # "dir" THEN Fail(S, {"ENOTDIR"})
  ELSE IF n.t = "dir" /\ (Writes(acc) \/ "TRUNC" \in fl) THEN Fail(S, {"EISDIR"})
  ELSE IF (Reads(acc) /\ ~May(c, n, 4)) \/ ((Writes(acc) \/ "TRUNC" \in fl) /\ ~May(c, n, 2)) THEN Fail(S, {"EACCES"})
  ELSE LET S1 == IF "TRUNC" \in fl /\ n.t = "reg" THEN [S EXCEPT !.ino[i].data = <<>>] ELSE S
       IN Succ([S1 EXCEPT !.of = (key :> [i |-> i, acc |-> acc, app |-> "APPEND" \in fl, pos |-> 0]) @@ S1.of], [id |-> i])
\* openat(dir, name, O_CREAT | O_NOFOLLOW | fl, mode): creates, or opens the existing object
OpenCreate(S, c, d, name, k, fl, mode, nid, key) ==
  IF d \notin Ids(S) THEN Fail(S, {"EBADF"})
  ELSE IF ~IsDir(S, d) THEN Fail(S, {"ENOTDIR"})
  ELSE IF k = "plain" /\ name \in Names(S, d) /\ "EXCL" \notin fl /\ May(c, S.ino[d], 1)
  THEN LET x == S.dent[d][name] IN
       IF "DIRECTORY" \in fl THEN Fail(S, AnyErr)
       ELSE IF IsDir(S, x) THEN Fail(S, {"EISDIR"})
       ELSE OpenIno(S, c, x, fl, key)
  ELSE IF "DIRECTORY" \in fl THEN Fail(S, AnyErr)
  ELSE LET r == MkNode(S, c, d, name, k, "reg", mode, 0, "", 0, nid) IN
       IF ~r.ok THEN r
       ELSE Succ([r.S EXCEPT !.of = (key :> [i |-> nid, acc |-> AccOf(fl), app |-> "APPEND" \in fl, pos |-> 0]) @@ r.S.of], [id |-> nid])

HasOf(S, key) == key \in DOMAIN S.of
SetFl(S, key, app) == IF ~HasOf(S, key) THEN Fail(S, {"EBADF"})
                      ELSE IF S.of[key].acc = "PATH" THEN Fail(S, {"EBADF"})
                      ELSE Succ([S EXCEPT !.of[key].app = app], NoRet)
Min(a, b) == IF a < b THEN a ELSE b
Max(a, b) == IF a > b THEN a ELSE b
PRead(S, key, off, len) ==
  IF ~HasOf(S, key) THEN Fail(S, {"EBADF"})
  ELSE LET o == S.of[key] IN
  IF ~Reads(o.acc) THEN Fail(S, {"EBADF"})
  ELSE IF S.ino[o.i].t = "dir" THEN Fail(S, {"EISDIR"})
  ELSE IF S.ino[o.i].t # "reg" THEN Fail(S, AnyErr)
  ELSE LET d == S.ino[o.i].data IN Succ(S, [data |-> SubSeq(d, off + 1, Min(Len(d), off + len))])
\* content after writing w at offset off (0-based), zero-filling a gap
Overlay(d, off, w) ==
  LET e == off + Len(w)  nl == Max(e, Len(d)) IN
  [x \in 1..nl |-> IF x > off /\ x <= e THEN w[x - off] ELSE IF x <= Len(d) THEN d[x] ELSE 0]
\* pwrite(2): an O_APPEND description ignores the offset (Linux)
PWrite(S, key, off, w) ==
  IF ~HasOf(S, key) THEN Fail(S, {"EBADF"})
  ELSE LET o == S.of[key] IN
  IF ~Writes(o.acc) THEN Fail(S, {"EBADF"})
  ELSE IF S.ino[o.i].t # "reg" THEN Fail(S, AnyErr)
  ELSE IF Len(w) = 0 THEN Succ(S, [n |-> 0])
  ELSE LET d == S.ino[o.i].data
           at == IF o.app THEN Len(d) ELSE off
       IN Succ([S EXCEPT !.ino[o.i].data = Overlay(d, at, w)], [n |-> Len(w)])
Resize(d, sz) == [x \in 1..sz |-> IF x <= Len(d) THEN d[x] ELSE 0]
FTruncate(S, key, sz) ==
  IF ~HasOf(S, key) THEN Fail(S, {"EBADF"})
  ELSE LET o == S.of[key] IN
  IF ~Writes(o.acc) \/ S.ino[o.i].t # "reg" THEN Fail(S, AnyErr)
  ELSE Succ([S EXCEPT !.ino[o.i].data = Resize(@, sz)], NoRet)
\* fallocate(2). mode: set of {"KEEP","PUNCH","ZERO","COLLAPSE","INSERT","UNSHARE"}; collapse/insert need
\* block-aligned ranges: the model covers unaligned (byte-sized) ranges only, where Linux fails.
Zeroed(d, off, len) == [x \in 1..Len(d) |-> IF x > off /\ x <= off + len THEN 0 ELSE d[x]]
Fallocate(S, key, mode, off, len) ==
  IF ~HasOf(S, key) THEN Fail(S, {"EBADF"})
  ELSE LET o == S.of[key]  op == mode \ {"KEEP", "UNSHARE"}
           \* vfs_fallocate: argument and mode-combination checks come before the descriptor's access mode
           modeErr == IF len = 0 THEN {"EINVAL"}
                      ELSE IF "UNSHARE" \in mode THEN {"EGEN"}
                      ELSE IF op = {"PUNCH"} /\ "KEEP" \notin mode THEN {"EOPNOTSUPP", "EINVAL"}
                      ELSE IF op \in {{}, {"PUNCH"}, {"ZERO"}} THEN {}
                      ELSE IF op \in {{"COLLAPSE"}, {"INSERT"}} /\ "KEEP" \notin mode THEN {}
                      ELSE {"EINVAL", "EOPNOTSUPP"} IN
  IF modeErr # {} THEN Fail(S, ErrSet(modeErr))
  ELSE IF ~Writes(o.acc) THEN Fail(S, {"EBADF"})
  ELSE IF S.ino[o.i].t # "reg" THEN Fail(S, AnyErr)
  ELSE LET d == S.ino[o.i].data
           grown == IF "KEEP" \in mode THEN d ELSE Resize(d, Max(Len(d), off + len)) IN
       IF op = {} THEN Succ([S EXCEPT !.ino[o.i].data = grown], NoRet)
       ELSE IF op = {"PUNCH"} THEN Succ([S EXCEPT !.ino[o.i].data = Zeroed(d, off, len)], NoRet)
       ELSE IF op = {"ZERO"} THEN Succ([S EXCEPT !.ino[o.i].data = Zeroed(grown, off, len)], NoRet)
       ELSE Fail(S, {"EINVAL", "EOPNOTSUPP"})          \* collapse / insert of a range that is not block-aligned
\* lseek(2): SET / CUR / END (DATA and HOLE are file-system specific and not modelled)
Lseek(S, key, off, wh) ==
  IF ~HasOf(S, key) THEN Fail(S, {"EBADF"})
  ELSE LET o == S.of[key] IN
  IF o.acc = "PATH" THEN Fail(S, {"EBADF"})
  ELSE IF S.ino[o.i].t # "reg" THEN Fail(S, AnyErr)
  ELSE LET p == IF wh = "SET" THEN off ELSE IF wh = "CUR" THEN o.pos + off ELSE Len(S.ino[o.i].data) + off
       IN Succ([S EXCEPT !.of[key].pos = p], [pos |-> p])
Fsync(S, key) == IF ~HasOf(S, key) THEN Fail(S, {"EBADF"})
                 ELSE IF S.of[key].acc = "PATH" THEN Fail(S, {"EBADF"}) ELSE Succ(S, NoRet)

(* ---------------- attributes ---------------- *)
Stat(S, i) == IF i \notin Ids(S) THEN Fail(S, {"EBADF"}) ELSE Succ(S, Attr(S, i))
\* chmod through the /proc link of a reference; Linux refuses to change the mode of a symlink
Chmod(S, i, mode) == IF i \notin Ids(S) THEN Fail(S, {"EBADF"})
                     ELSE IF S.ino[i].t = "lnk" THEN Fail(S, {"EOPNOTSUPP"})
                     ELSE Succ([S EXCEPT !.ino[i].perm = mode % 4096], NoRet)
\* fchownat(AT_EMPTY_PATH) as root; keep = do not change
Chown(S, i, uid, gid, setu, setg) ==
  IF i \notin Ids(S) THEN Fail(S, {"EBADF"})
  ELSE Succ([S EXCEPT !.ino[i].uid = IF setu THEN uid ELSE @, !.ino[i].gid = IF setg THEN gid ELSE @], NoRet)
Readlink(S, i) == IF i \notin Ids(S) THEN Fail(S, {"EBADF"})
                  ELSE IF S.ino[i].t # "lnk" THEN Fail(S, {"EINVAL", "ENOENT"})
                  ELSE Succ(S, [tgt |-> S.ino[i].tgt])

(* ---------------- extended attributes (user.NAME), by reference through /proc ---------------- *)
XaOK(S, i) == S.ino[i].t \in {"reg", "dir"}     \* user.NAME attributes exist on regular files and directories only
SetXattr(S, i, name, val, fl) ==
  IF i \notin Ids(S) THEN Fail(S, {"EBADF"})
  ELSE IF ~XaOK(S, i) THEN Fail(S, {"EPERM"})
  ELSE LET x == S.ino[i].xa IN
       IF fl = "CREATE" /\ name \in DOMAIN x THEN Fail(S, {"EEXIST"})
       ELSE IF fl = "REPLACE" /\ name \notin DOMAIN x THEN Fail(S, {"ENODATA"})
       ELSE IF fl \notin {"", "CREATE", "REPLACE"} THEN Fail(S, {"EINVAL"})
       ELSE Succ([S EXCEPT !.ino[i].xa = (name :> val) @@ [k \in DOMAIN x \ {name} |-> x[k]]], NoRet)
GetXattr(S, i, name, size) ==
  IF i \notin Ids(S) THEN Fail(S, {"EBADF"})
  ELSE LET x == S.ino[i].xa IN
       IF name \notin DOMAIN x THEN Fail(S, {"ENODATA"})
       ELSE IF size = 0 THEN Succ(S, [n |-> Len(x[name])])
       ELSE IF size < Len(x[name]) THEN Fail(S, {"ERANGE"})
       ELSE Succ(S, [val |-> x[name]])
ListXattr(S, i) == IF i \notin Ids(S) THEN Fail(S, {"EBADF"}) ELSE Succ(S, [names |-> DOMAIN S.ino[i].xa])
RemoveXattr(S, i, name) ==
  IF i \notin Ids(S) THEN Fail(S, {"EBADF"})
  ELSE LET x == S.ino[i].xa IN
       IF ~XaOK(S, i) THEN Fail(S, {"EPERM", "ENODATA"})
       ELSE IF name \notin DOMAIN x THEN Fail(S, {"ENODATA"})
       ELSE Succ([S EXCEPT !.ino[i].xa = [k \in DOMAIN x \ {name} |-> x[k]]], NoRet)

(* ---------------- multi-component resolution (model-checking configurations only) ---------------- *)
\* path = sequence of components; "/" as first component = absolute. Symlinks in the middle are
\* always followed, the last one unless nofollow. Returns [ok, i] (i = 0: not found / loop / not a directory).
RECURSIVE Walk(_, _, _, _, _, _)
Walk(S, root, cur, path, nofollow, fuel) ==
  IF fuel = 0 THEN [ok |-> FALSE, i |-> 0]
  ELSE IF path = <<>> THEN [ok |-> TRUE, i |-> cur]
  ELSE LET c == Head(path)  rest == Tail(path) IN
    IF c = "/" THEN Walk(S, root, root, rest, nofollow, fuel - 1)
    ELSE IF ~IsDir(S, cur) THEN [ok |-> FALSE, i |-> 0]
    ELSE IF c = "." THEN Walk(S, root, cur, rest, nofollow, fuel - 1)
    ELSE IF c = ".." THEN Walk(S, root, S.ino[cur].par, rest, nofollow, fuel - 1)
    ELSE IF c \notin Names(S, cur) THEN [ok |-> FALSE, i |-> 0]
    ELSE LET x == S.dent[cur][c] IN
         IF S.ino[x].t = "lnk" /\ ~(rest = <<>> /\ nofollow)
         THEN Walk(S, root, cur, S.ino[x].tgt \o rest, nofollow, fuel - 1)
         ELSE Walk(S, root, x, rest, nofollow, fuel - 1)

(* ---------------- structural self-invariant ---------------- *)
Linked(S, i) == \E d \in DOMAIN S.dent : \E n \in Names(S, d) : S.dent[d][n] = i
NLinks(S, i) == LET pairs == UNION {{<<d, n>> : n \in {m \in Names(S, d) : S.dent[d][m] = i}} : d \in DOMAIN S.dent}
                IN Cardinality(pairs)
SubDirs(S, d) == Cardinality({n \in Names(S, d) : IsDir(S, S.dent[d][n])})
TreeOKOf(S, root) ==
  /\ DOMAIN S.dent = {i \in Ids(S) : S.ino[i].t = "dir"}
  /\ \A d \in DOMAIN S.dent : \A n \in Names(S, d) : S.dent[d][n] \in Ids(S)
  /\ \A i \in Ids(S) :
       IF S.ino[i].t = "dir"
       THEN /\ (i = root \/ Linked(S, i)) => S.ino[i].nlink = 2 + SubDirs(S, i)
            /\ i # root => NLinks(S, i) <= 1
            /\ (i # root /\ Linked(S, i)) => (S.ino[i].par \in Ids(S) /\ \E n \in Names(S, S.ino[i].par) : S.dent[S.ino[i].par][n] = i)
            /\ ~(i = root \/ Linked(S, i)) => (S.ino[i].nlink = 0 /\ Names(S, i) = {})
       ELSE S.ino[i].nlink = NLinks(S, i)
  /\ \A i \in Ids(S) : S.ino[i].nlink = 0 => Referenced(S, i)
  /\ \A k \in DOMAIN S.of : S.of[k].i \in Ids(S)
=============================================================================
