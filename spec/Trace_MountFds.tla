--------------------------- MODULE Trace_MountFds ---------------------------
(* Judge of specification extension X07: recorded concurrent histories of lookup / forget / getattr
   on a real PassthroughFs in file-handle mode (harness/src/bin/mountfds.rs; names "m", "a", "b" on
   mount 1, "n" on mount 2) against the A level MountFds.tla.

   Client level: held[x] = lookup references the client holds on name x. The inode object of a name
   owns exactly one reference of the registry: a lookup that takes held[x] from 0 to 1 is a Get on
   the mount of x, a forget that takes it to 0 is a Put; the registry state is the record of
   MountFds.tla, advanced with MfGet / MfPut.

   MONITOR mode (deterministic, one behaviour): linearisability is decided by a subset construction -
   `poss` is the set of all abstract configurations reachable by SOME order of the atomic effects of
   the operations that is compatible with the Call/Ret order and the returned values. A Ret that no
   configuration explains, and every obligation that fails at a quiescent Probe, prints
   <<"VIOL", signature, event index, detail>> and the run goes on:
     X07|<cfg>|lin|..          no order of the operations explains a returned value / the inode table
     X07|<cfg>|lookup|failed   a lookup failed although no failure was injected
     X07|<cfg>|S1|..           a reference the client holds is not usable (getattr fails)
     X07|<cfg>|S2|map-entries / open-descriptors   (quiescent, references outstanding) entries of the
                               MountFds map / descriptors on the mount points differ from the
                               number of registered mounts of the A level
     X07|<cfg>|S3|..           the same with no reference outstanding (must be the baseline)
     X07|<cfg>|hang            an operation never returned. *)
EXTENDS MountFds, Naturals, Sequences, FiniteSets, TLC, Json, IOUtils

Rec == ndJsonDeserialize(IOEnv.TRACE)
N == Len(Rec)
TIds == 0..4
Names == {"m", "n", "a", "b"}
Mounts == {1, 2}
Mnt(x) == IF x = "n" THEN 2 ELSE 1

VARIABLES l, cfg, poss, pend, base
vars == <<l, cfg, poss, pend, base>>

Idle == [op |-> "", nm |-> "", n |-> 0, inject |-> ""]
C0 == [held |-> [x \in Names |-> 0], a |-> MfInit(Mounts), nd |-> 0, ap |-> [t \in TIds |-> "-"]]
Dec(r, k) == IF r > k THEN r - k ELSE 0

\* the configurations after the atomic effect of t's pending operation p in configuration c
ApplySet(c, t, p) ==
  CASE p.op = "lookup" ->
         {[c EXCEPT !.held[p.nm] = @ + 1,
                    !.a = IF c.held[p.nm] = 0 THEN MfGet(c.a, Mnt(p.nm), c.nd + 1) ELSE c.a,
                    !.nd = IF c.held[p.nm] = 0 THEN c.nd + 1 ELSE c.nd,
                    !.ap[t] = "ok"]}
         \cup (IF p.inject # "none" THEN {[c EXCEPT !.ap[t] = "err"]} ELSE {})
    [] p.op = "forget" ->
         {[c EXCEPT !.held[p.nm] = Dec(@, p.n),
                    !.a = IF c.held[p.nm] > 0 /\ Dec(c.held[p.nm], p.n) = 0 THEN MfPut(c.a, Mnt(p.nm)) ELSE c.a,
                    !.ap[t] = "ok"]}
    [] p.op = "getattr" ->
         {[c EXCEPT !.ap[t] = IF c.held[p.nm] > 0 THEN "ok" ELSE "any"]}
    [] OTHER -> {}

StepSet(P) == P \cup UNION {ApplySet(c, t, pend[t]) : <<c, t>> \in {ct \in P \X TIds : pend[ct[2]].op # "" /\ ct[1].ap[ct[2]] = "-"}}
Close(P) == StepSet(StepSet(StepSet(StepSet(StepSet(P)))))

Viol(sig, detail) == PrintT(<<"VIOL", "X07|" \o cfg \o "|" \o sig, l, detail>>)
Chk(ok, sig, detail) == IF ok THEN TRUE ELSE Viol(sig, detail)

AllIdle == \A t \in TIds : pend[t].op = ""
Ev(e) == l <= N /\ Rec[l].e = e

Init == l = 1 /\ cfg = "" /\ poss = {C0} /\ pend = [t \in TIds |-> Idle] /\ base = [map |-> 0, nfd |-> 0]

Reset == /\ Ev("Reset")
         /\ TRUE = Chk(AllIdle, "hang", "operation still pending at the end of the segment")
         /\ cfg' = Rec[l].cfg
         /\ poss' = {C0}
         /\ pend' = [t \in TIds |-> Idle]
         /\ base' = [map |-> Rec[l].base_map, nfd |-> Rec[l].base_nfd]
         /\ l' = l + 1

Call == /\ Ev("Call")
        /\ LET r == Rec[l] IN
           pend' = [pend EXCEPT ![r.t] = [op |-> r.op, nm |-> r.nm, n |-> r.n, inject |-> r.inject]]
        /\ l' = l + 1 /\ UNCHANGED <<cfg, poss, base>>

Match(c, t, r) ==
  CASE r.op = "lookup" -> (r.kind = "ino" /\ c.ap[t] = "ok") \/ (r.kind = "err" /\ c.ap[t] = "err")
    [] r.op = "forget" -> r.kind = "none" /\ c.ap[t] = "ok"
    [] r.op = "getattr" -> IF r.val = "ok" THEN c.ap[t] \in {"ok", "any"} ELSE c.ap[t] = "any"
    [] OTHER -> FALSE

Ret == /\ Ev("Ret")
       /\ LET r == Rec[l]
              P1 == Close(poss)
              done == {c \in P1 : c.ap[r.t] # "-"}
              good == {c \in done : Match(c, r.t, r)}
              sig == IF r.op = "lookup" /\ r.kind = "err" /\ pend[r.t].inject = "none" THEN "lookup|failed"
                     ELSE IF r.op = "getattr" THEN "S1|getattr-on-held-reference-failed"
                     ELSE "lin|returned-value-not-explained"
              keep == IF good # {} THEN good ELSE done
          IN /\ TRUE = Chk(good # {}, sig, [op |-> pend[r.t], val |-> r.val])
             /\ poss' = {[c EXCEPT !.ap[r.t] = "-"] : c \in keep}
             /\ pend' = [pend EXCEPT ![r.t] = Idle]
       /\ l' = l + 1 /\ UNCHANGED <<cfg, base>>

NameOK(c, o) == c.held[o.nm] = o.count /\ o.present = (o.count > 0)

Probe == /\ Ev("Probe")
         /\ LET r == Rec[l]
                obs == {r.names[i] : i \in 1..Len(r.names)}
                Q == {c \in poss : \A o \in obs : NameOK(c, o)}
                keep == IF Q # {} THEN Q ELSE poss
                c == CHOOSE x \in keep : TRUE
                none == \A m \in Mounts : c.a.refs[m] = 0
                S == IF none THEN "S3|" ELSE "S2|"
                nreg == Cardinality(Registered(c.a))
                nopen == Cardinality(c.a.open)
            IN /\ TRUE = Chk(AllIdle, "hang", "probe while an operation is pending")
               /\ TRUE = Chk(Q # {}, "lin|inode-table-not-explained", [at |-> r.at, names |-> r.names])
               /\ TRUE = Chk(\A o \in obs : c.held[o.nm] > 0 => o.getattr = "ok", "S1|held-reference-unusable", [at |-> r.at, names |-> r.names])
               /\ TRUE = Chk(MfS1(c.a) /\ MfS2(c.a) /\ MfS3(c.a), "A|judge-inconsistent", c.a)
               /\ TRUE = Chk(r.map = base.map + nreg /\ r.live = r.map, S \o "map-entries",
                             [at |-> r.at, map |-> r.map, live |-> r.live, baseline |-> base.map, registered_mounts |-> nreg])
               /\ TRUE = Chk(r.mfds = nopen /\ r.nfd = base.nfd + nopen, S \o "open-descriptors",
                             [at |-> r.at, mount_fds |-> r.mfds, all_fds |-> r.nfd, baseline |-> base.nfd, expected_open |-> nopen])
               /\ poss' = {c}
         /\ l' = l + 1 /\ UNCHANGED <<cfg, pend, base>>

Hang == /\ Ev("Hang")
        /\ Viol("hang", "an operation never returned")
        /\ pend' = [t \in TIds |-> Idle]
        /\ l' = l + 1 /\ UNCHANGED <<cfg, poss, base>>

Done == /\ l = N + 1
        /\ TRUE = Chk(AllIdle, "hang", "operation still pending at the end of the log")
        /\ PrintT(<<"ACCEPTED", N>>)
        /\ l' = l + 1 /\ UNCHANGED <<cfg, poss, pend, base>>

Next == Reset \/ Call \/ Ret \/ Probe \/ Hang \/ Done
Spec == Init /\ [][Next]_vars
=============================================================================
