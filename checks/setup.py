"""setup: build the harness crates once and parse every spec module with SANY."""
import glob
import os
import sys

from . import common as C


def main():
    try:
        C.build_harness("main")
        if os.path.isdir(C.HARNESS_ASYNC):
            C.build_harness("async")
        # the async-io build of the library lives in its own target directory; building it here keeps the
        # first quick run of C04 / C17 / C20 after a fresh restore short
        C.build_harness("main", bins=["asyncx", "transport"], features="async", target="target-async")
    except C.ToolError as e:
        print("setup: %s" % e)
        return 2
    bad = 0
    for f in sorted(glob.glob(os.path.join(C.SPEC, "*.tla"))):
        m = os.path.splitext(os.path.basename(f))[0]
        ok, out = C.sany(m)
        if not ok:
            bad += 1
            print("SANY failed for %s\n%s" % (m, out[-1500:]))
    print("setup: specs parsed, %d failure(s)" % bad)
    return 2 if bad else 0


if __name__ == "__main__":
    sys.exit(main())
