------------------------------ MODULE MpmcImpl ------------------------------
(* X02, I level: src/common/mpmc.rs step by step, over a model of tokio::sync::Notify (tokio 1.53).

   One action per atomic step of the Rust code (pc values):
     send        start   closed.load(Acquire)                     -> Err(m) | "push"
                 push    requests.lock().push_back(msg)
                 notify1 notifier.notify_one()                    -> Ok
     try_recv    start   requests.lock().pop_front()
     close       start   closed.store(true)
                 closenw notifier.notify_waiters()
     recv        start   let future = notifier.notified()         (snapshots the notify_waiters counter)
                 enable  future.as_mut().enable()                 (consumes a permit or registers the waiter)
                 tryrecv self.try_recv()                          -> Ok(msg): "dropfut"
                 ldclosed closed.load(Acquire)                    -> Err: "dropfut"
                 await   first poll of future.as_mut().await      Ready -> "renew" | Pending -> "parked"
                 parked  the task sleeps until its waker is called (fnote # none), then polls: Ready
                 renew   future.set(notifier.notified())
                 dropfut the Notified future is dropped on return (a waiter that was notified by notify_one
                         but returns without consuming it hands the notification on: tokio drop_notified)
     recvc       as recv, but the caller may drop the recv() future while it is parked (cancel)
     flush_pending_prefetch_requests / lock_channel (length read) / notify_waiters: one step each
   With Fixed = TRUE the flag is read and written under the queue lock (findings/mpmc-close-race.diff):
   send = one step (check + push), then notify1; close = store under the lock; recv's tryrecv reads the flag in
   the same critical section.

   tokio Notify (each API call is one atomic step; tokio serialises them by its waiter mutex and CAS loops):
     nstate  EMPTY | WAITING | NOTIFIED (a stored permit)      ncalls  number of notify_waiters calls
     waiters registered Notified futures, oldest first
     per future: fst (none|init|waiting|done), fcalls (snapshot taken by notified()), fnote (none|one|all)
     notify_one      EMPTY/NOTIFIED -> NOTIFIED; WAITING -> oldest waiter gets fnote = one (last one: EMPTY)
     notify_waiters  ncalls + 1; WAITING -> every waiter gets fnote = all, EMPTY; a permit is neither stored nor taken
     enable / first poll (fst = init): ncalls # fcalls -> done | NOTIFIED -> EMPTY, done | register: WAITING, waiting
     poll (fst = waiting): fnote # none -> done, Ready | else Pending
     drop (fst = waiting): unregister; last waiter -> EMPTY; fnote = one -> notify_one again

   Ghost state (never read by the steps):
     Ls / Lw    exact online linearisability monitors against Mpmc.tla: the set of all (abstract channel,
                per-process status) configurations that explain the history of calls and returns so far;
                Ls = strict object, Lw = weak readings of Mpmc.tla (send = chk;enq, recv-Err = emp;cls).
                An operation is called at its first step and returns at its last step (the tightest interval).
                Ls = {} : the history is not linearisable.
     pushed/got accepted and handed-out messages (AtMostOnce / NoInvention directly) *)
EXTENDS Mpmc, Integers, TLC

CONSTANTS Procs,         \* process ids (a set of integers)
          Prog,          \* [Procs -> Seq(operation)]   operation = [op, m, set] as in Mpmc.tla, plus op = "recvc"
          Fixed,         \* FALSE = the code as it is; TRUE = flag accessed under the queue lock (proposed patch)
          EnableFirst,   \* TRUE = the code as it is; FALSE = mutant without `future.as_mut().enable()`
          Mon            \* TRUE = keep the linearisability monitors; FALSE = larger programs, the other obligations only

VARIABLES q, closed,                     \* the channel
          nstate, ncalls, waiters,       \* tokio Notify
          fst, fcalls, fnote,            \* per process: its Notified future
          pc, ip, res,                   \* per process: program counter, index of the operation, result to return
          Ls, Lw, pushed, got            \* ghosts
cvars == <<q, closed, nstate, ncalls, waiters, fst, fcalls, fnote, pc, ip, res>>
gvars == <<Ls, Lw, pushed, got>>
vars == <<cvars, gvars>>

Op(p) == Prog[p][ip[p]]
Finished(p) == ip[p] > Len(Prog[p])
IsRecv(o) == o.op \in {"recv", "recvc"}
Blocked(p) == ~Finished(p) /\ pc[p] = "parked" /\ fnote[p] = "none"
SeqRemove(s, x) == SelectSeq(s, LAMBDA y : y # x)

(* ---------------------------------------------------------------- linearisability monitor ---- *)
AOp(o) == IF o.op = "recvc" THEN [o EXCEPT !.op = "recv"] ELSE o        \* the A-level operation
\* configurations reachable from c by letting process p's pending operation take (one step of) its effect
LinSteps(c, p, weak) ==
  {[S |-> x.S, ps |-> [c.ps EXCEPT ![p] = x.s]] : x \in LinSucc(c.S, c.ps[p], AOp(Prog[p][ip[p]]), weak, weak)}
RECURSIVE Closure(_, _)
Closure(L, weak) ==
  LET new == UNION {UNION {LinSteps(c, p, weak) : p \in {x \in Procs : c.ps[x].st \in {"inv", "mid"}}} : c \in L} \ L
  IN IF new = {} THEN L ELSE Closure(L \cup new, weak)
\* ip is read unprimed in LinSteps: calls and returns are applied while ip[p] still points at the operation
MCall(L, p, weak) == Closure({[c EXCEPT !.ps[p] = StInv] : c \in L}, weak)
MRet(L, p, r) ==
  IF r = RCancelled
  THEN {[c EXCEPT !.ps[p] = StIdle] : c \in {c \in L : c.ps[p].st \in {"inv", "mid"}}}       \* a cancelled recv took nothing
  ELSE {[c EXCEPT !.ps[p] = StIdle] : c \in {c \in L : c.ps[p].st = "done" /\ c.ps[p].r = r}}
Monitors(calls, rets) ==        \* calls: set of processes called in this step; rets: set of <<process, result>>
  LET f(L, weak) ==
        LET a == IF calls = {} THEN L ELSE MCall(L, CHOOSE p \in calls : TRUE, weak)
        IN IF rets = {} THEN a ELSE LET pr == CHOOSE x \in rets : TRUE IN MRet(a, pr[1], pr[2])
  IN IF Mon THEN /\ Ls' = f(Ls, FALSE)
                 /\ Lw' = f(Lw, TRUE)
            ELSE UNCHANGED <<Ls, Lw>>

(* ---------------------------------------------------------------- tokio Notify ---- *)
\* notify_one / the hand-on in drop_notified: returns [ns, ws, note] = new nstate, waiters, fnote
NotifyOne(ns, ws, note) ==
  IF ns \in {"EMPTY", "NOTIFIED"} THEN [ns |-> "NOTIFIED", ws |-> ws, note |-> note]
  ELSE LET w == Head(ws) IN
       [ns |-> IF Tail(ws) = <<>> THEN "EMPTY" ELSE "WAITING", ws |-> Tail(ws), note |-> [note EXCEPT ![w] = "one"]]
NotifyWaiters ==
  /\ ncalls' = ncalls + 1
  /\ IF nstate = "WAITING"
     THEN /\ nstate' = "EMPTY" /\ waiters' = <<>>
          /\ fnote' = [x \in Procs |-> IF \E i \in 1..Len(waiters) : waiters[i] = x THEN "all" ELSE fnote[x]]
     ELSE UNCHANGED <<nstate, waiters, fnote>>
\* poll_notified in state Init (enable(), or the first poll if enable() was skipped)
InitPoll(p) ==
  IF ncalls # fcalls[p] THEN /\ fst' = [fst EXCEPT ![p] = "done"] /\ UNCHANGED <<nstate, waiters>>
  ELSE IF nstate = "NOTIFIED" THEN /\ nstate' = "EMPTY" /\ fst' = [fst EXCEPT ![p] = "done"] /\ UNCHANGED waiters
  ELSE /\ nstate' = "WAITING" /\ waiters' = Append(waiters, p) /\ fst' = [fst EXCEPT ![p] = "waiting"]

(* ---------------------------------------------------------------- the steps ---- *)
NextOp(p) == /\ ip' = [ip EXCEPT ![p] = @ + 1] /\ pc' = [pc EXCEPT ![p] = "start"]
Goto(p, l) == /\ pc' = [pc EXCEPT ![p] = l] /\ UNCHANGED ip
AtStart(p) == ~Finished(p) /\ pc[p] = "start"

SendLoad(p) ==                   \* closed.load; with Fixed: lock, check, push, unlock
  /\ AtStart(p) /\ Op(p).op = "send"
  /\ IF closed
     THEN /\ NextOp(p) /\ Monitors({p}, {<<p, Res("err", Op(p).m)>>}) /\ UNCHANGED <<q, pushed>>
     ELSE /\ Monitors({p}, {})
          /\ IF Fixed THEN /\ q' = Append(q, Op(p).m) /\ pushed' = pushed \cup {Op(p).m} /\ Goto(p, "notify1")
                      ELSE /\ Goto(p, "push") /\ UNCHANGED <<q, pushed>>
  /\ UNCHANGED <<closed, nstate, ncalls, waiters, fst, fcalls, fnote, res, got>>
SendPush(p) ==
  /\ pc[p] = "push"
  /\ q' = Append(q, Op(p).m) /\ pushed' = pushed \cup {Op(p).m}
  /\ Goto(p, "notify1")
  /\ UNCHANGED <<closed, nstate, ncalls, waiters, fst, fcalls, fnote, res, got, Ls, Lw>>
SendNotify(p) ==
  /\ pc[p] = "notify1"
  /\ LET n == NotifyOne(nstate, waiters, fnote) IN nstate' = n.ns /\ waiters' = n.ws /\ fnote' = n.note
  /\ NextOp(p) /\ Monitors({}, {<<p, ROk>>})
  /\ UNCHANGED <<q, closed, ncalls, fst, fcalls, res, pushed, got>>
TryRecv(p) ==
  /\ AtStart(p) /\ Op(p).op = "try"
  /\ IF q = <<>> THEN /\ Monitors({p}, {<<p, RNone>>}) /\ UNCHANGED <<q, got>>
                 ELSE /\ Monitors({p}, {<<p, Res("some", Head(q))>>}) /\ q' = Tail(q) /\ got' = got \cup {Head(q)}
  /\ NextOp(p)
  /\ UNCHANGED <<closed, nstate, ncalls, waiters, fst, fcalls, fnote, res, pushed>>
CloseStore(p) ==
  /\ AtStart(p) /\ Op(p).op = "close"
  /\ closed' = TRUE /\ Goto(p, "closenw") /\ Monitors({p}, {})
  /\ UNCHANGED <<q, nstate, ncalls, waiters, fst, fcalls, fnote, res, pushed, got>>
CloseNotify(p) ==
  /\ pc[p] = "closenw"
  /\ NotifyWaiters /\ NextOp(p) /\ Monitors({}, {<<p, RUnit>>})
  /\ UNCHANGED <<q, closed, fst, fcalls, res, pushed, got>>
NotifyW(p) ==
  /\ AtStart(p) /\ Op(p).op = "notifyw"
  /\ NotifyWaiters /\ NextOp(p) /\ Monitors({p}, {<<p, RUnit>>})
  /\ UNCHANGED <<q, closed, fst, fcalls, res, pushed, got>>
Flush(p) ==
  /\ AtStart(p) /\ Op(p).op = "flush"
  /\ q' = Keep(q, Op(p).set) /\ NextOp(p) /\ Monitors({p}, {<<p, RUnit>>})
  /\ UNCHANGED <<closed, nstate, ncalls, waiters, fst, fcalls, fnote, res, pushed, got>>
LenRead(p) ==
  /\ AtStart(p) /\ Op(p).op = "len"
  /\ NextOp(p) /\ Monitors({p}, {<<p, Res("len", Len(q))>>})
  /\ UNCHANGED <<q, closed, nstate, ncalls, waiters, fst, fcalls, fnote, res, pushed, got>>

RecvNotified(p) ==               \* let future = self.notifier.notified()
  /\ AtStart(p) /\ IsRecv(Op(p))
  /\ fst' = [fst EXCEPT ![p] = "init"] /\ fcalls' = [fcalls EXCEPT ![p] = ncalls]
  /\ Goto(p, "enable") /\ Monitors({p}, {})
  /\ UNCHANGED <<q, closed, nstate, ncalls, waiters, fnote, res, pushed, got>>
RecvEnable(p) ==
  /\ pc[p] = "enable"
  /\ IF EnableFirst THEN InitPoll(p) ELSE UNCHANGED <<nstate, waiters, fst>>
  /\ Goto(p, "tryrecv")
  /\ UNCHANGED <<q, closed, ncalls, fcalls, fnote, res, Ls, Lw, pushed, got>>
RecvTry(p) ==                    \* self.try_recv(); with Fixed the flag is read in the same critical section
  /\ pc[p] = "tryrecv"
  /\ IF q # <<>>
     THEN /\ q' = Tail(q) /\ got' = got \cup {Head(q)} /\ res' = [res EXCEPT ![p] = Res("msg", Head(q))] /\ Goto(p, "dropfut")
     ELSE /\ UNCHANGED <<q, got>>
          /\ IF Fixed
             THEN IF closed THEN /\ res' = [res EXCEPT ![p] = RClosed] /\ Goto(p, "dropfut")
                            ELSE /\ Goto(p, "await") /\ UNCHANGED res
             ELSE /\ Goto(p, "ldclosed") /\ UNCHANGED res
  /\ UNCHANGED <<closed, nstate, ncalls, waiters, fst, fcalls, fnote, Ls, Lw, pushed>>
RecvLoadClosed(p) ==
  /\ pc[p] = "ldclosed"
  /\ IF closed THEN /\ res' = [res EXCEPT ![p] = RClosed] /\ Goto(p, "dropfut")
               ELSE /\ Goto(p, "await") /\ UNCHANGED res
  /\ UNCHANGED <<q, closed, nstate, ncalls, waiters, fst, fcalls, fnote, Ls, Lw, pushed, got>>
RecvAwait(p) ==                  \* the first poll of `future.as_mut().await` in this round of the loop
  /\ pc[p] = "await"
  /\ CASE fst[p] = "done" -> /\ Goto(p, "renew") /\ UNCHANGED <<nstate, waiters, fst, fnote>>
       [] fst[p] = "waiting" ->
            IF fnote[p] # "none"
            THEN /\ fst' = [fst EXCEPT ![p] = "done"] /\ fnote' = [fnote EXCEPT ![p] = "none"] /\ Goto(p, "renew")
                 /\ UNCHANGED <<nstate, waiters>>
            ELSE /\ Goto(p, "parked") /\ UNCHANGED <<nstate, waiters, fst, fnote>>
       [] fst[p] = "init" ->            \* only without enable(): the poll itself does the Init transition
            /\ InitPoll(p) /\ UNCHANGED fnote
            /\ IF fst'[p] = "done" THEN Goto(p, "renew") ELSE Goto(p, "parked")
  /\ UNCHANGED <<q, closed, ncalls, fcalls, res, Ls, Lw, pushed, got>>
RecvWake(p) ==                   \* the waker was called: the task is polled again and finds its notification
  /\ pc[p] = "parked" /\ fnote[p] # "none"
  /\ fst' = [fst EXCEPT ![p] = "done"] /\ fnote' = [fnote EXCEPT ![p] = "none"]
  /\ Goto(p, "renew")
  /\ UNCHANGED <<q, closed, nstate, ncalls, waiters, fcalls, res, Ls, Lw, pushed, got>>
RecvRenew(p) ==                  \* future.set(self.notifier.notified())  (the old future is done: its drop does nothing)
  /\ pc[p] = "renew"
  /\ fst' = [fst EXCEPT ![p] = "init"] /\ fcalls' = [fcalls EXCEPT ![p] = ncalls]
  /\ Goto(p, "enable")
  /\ UNCHANGED <<q, closed, nstate, ncalls, waiters, fnote, res, Ls, Lw, pushed, got>>
RecvCancel(p) ==                 \* the caller drops the recv() future while it is parked
  /\ pc[p] = "parked" /\ Op(p).op = "recvc"
  /\ res' = [res EXCEPT ![p] = RCancelled] /\ Goto(p, "dropfut")
  /\ UNCHANGED <<q, closed, nstate, ncalls, waiters, fst, fcalls, fnote, Ls, Lw, pushed, got>>
RecvDrop(p) ==                   \* return: drop_notified
  /\ pc[p] = "dropfut"
  /\ IF fst[p] = "waiting"
     THEN LET ws1 == SeqRemove(waiters, p)
              ns1 == IF ws1 = <<>> /\ nstate = "WAITING" THEN "EMPTY" ELSE nstate
              n0 == [fnote EXCEPT ![p] = "none"]
              n == IF fnote[p] = "one" THEN NotifyOne(ns1, ws1, n0) ELSE [ns |-> ns1, ws |-> ws1, note |-> n0]
          IN nstate' = n.ns /\ waiters' = n.ws /\ fnote' = n.note
     ELSE /\ fnote' = [fnote EXCEPT ![p] = "none"] /\ UNCHANGED <<nstate, waiters>>
  /\ fst' = [fst EXCEPT ![p] = "none"] /\ fcalls' = [fcalls EXCEPT ![p] = 0]
  /\ NextOp(p) /\ Monitors({}, {<<p, res[p]>>})
  /\ res' = [res EXCEPT ![p] = RUnit]
  /\ UNCHANGED <<q, closed, ncalls, pushed, got>>

Step(p) == \/ SendLoad(p) \/ SendPush(p) \/ SendNotify(p) \/ TryRecv(p) \/ CloseStore(p) \/ CloseNotify(p)
           \/ NotifyW(p) \/ Flush(p) \/ LenRead(p)
           \/ RecvNotified(p) \/ RecvEnable(p) \/ RecvTry(p) \/ RecvLoadClosed(p) \/ RecvAwait(p) \/ RecvWake(p)
           \/ RecvRenew(p) \/ RecvCancel(p) \/ RecvDrop(p)

ps0 == [p \in Procs |-> StIdle]
Init == /\ q = <<>> /\ closed = FALSE /\ nstate = "EMPTY" /\ ncalls = 0 /\ waiters = <<>>
        /\ fst = [p \in Procs |-> "none"] /\ fcalls = [p \in Procs |-> 0] /\ fnote = [p \in Procs |-> "none"]
        /\ pc = [p \in Procs |-> "start"] /\ ip = [p \in Procs |-> 1] /\ res = [p \in Procs |-> RUnit]
        /\ Ls = {[S |-> Chan0, ps |-> ps0]} /\ Lw = {[S |-> Chan0, ps |-> ps0]}
        /\ pushed = {} /\ got = {}

Quiescent == \A p \in Procs : Finished(p) \/ Blocked(p)
\* nothing can move any more: the only states without a successor; kept as an explicit stuttering step so that
\* TLC's deadlock check stays on (a state with no enabled step that is not Quiescent would be a modelling hole)
Rest == Quiescent /\ UNCHANGED vars
Next == (\E p \in Procs : Step(p)) \/ Rest
Fairness == \A p \in Procs : WF_vars(Step(p) /\ ~(pc[p] = "parked" /\ Op(p).op = "recvc" /\ fnote[p] = "none"))
Spec == Init /\ [][Next]_vars
FairSpec == Spec /\ Fairness

(* ---------------------------------------------------------------- what TLC checks ---- *)
LinStrict == Ls # {}                               \* every history is linearisable against Mpmc.tla
LinWeak == Lw # {}                                 \* ... at least under the weak readings (close races only)
\* the abstract queue of every explanation that has no operation half-way is the concrete queue at quiescence
QuiescentAgrees == Quiescent /\ Ls # {} => \E c \in Ls : c.S.q = q /\ c.S.closed = closed
\* what is queued was not handed out before and is queued once: no message can be handed out twice
AtMostOnceI == /\ \A i \in 1..Len(q) : q[i] \notin got
               /\ \A i, j \in 1..Len(q) : q[i] = q[j] => i = j
NoInventionI == got \subseteq pushed
\* NO LOST WAKEUP, safety form: when nothing can move any more, a parked receiver has nothing to receive
NoLostWakeupQ == Quiescent => \A p \in Procs : Blocked(p) => q = <<>> /\ ~closed
\* tokio bookkeeping: a parked, un-notified receiver is registered, and then no permit is stored
ParkedRegistered == \A p \in Procs : Blocked(p) => /\ \E i \in 1..Len(waiters) : waiters[i] = p
                                                    /\ nstate = "WAITING"
WaitersSane == /\ (nstate = "WAITING") = (waiters # <<>>)
               /\ \A i, j \in 1..Len(waiters) : waiters[i] = waiters[j] => i = j
               /\ \A i \in 1..Len(waiters) : fst[waiters[i]] = "waiting" /\ fnote[waiters[i]] = "none"
\* NO LOST WAKEUP, liveness form (under weak fairness of every process): no receiver stays parked for ever
\* while there is something to receive or the channel is closed
NoLostWakeup == \A p \in Procs : ~<>[](pc[p] = "parked" /\ ~Finished(p) /\ (q # <<>> \/ closed))
\* every operation of a program that does not wait for ever for a message completes
Progress == <>[]Quiescent
=============================================================================
