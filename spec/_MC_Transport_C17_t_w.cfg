SPECIFICATION Spec
CONSTANTS
  P = 2
  M = 100000
  MaxSegs = 3
  MaxLen = 2
  Bases <- MC_Bases4
  FLens <- MC_FLens
  Kinds <- MC_KindsW
  MaxOps = 3
  MaxN = 3
  FileSize = 2
  Chunks <- MC_Chunks
  MaxAddr = 6
VIEW View
INVARIANTS DirtyExact FlatAgree Export
CHECK_DEADLOCK FALSE
