------------------------------ MODULE MC_Mpmc ------------------------------
(* The sequential object of Mpmc.tla as a state machine with its history: every history of <= MaxOps
   operations over the messages Msgs (each sent at most once) satisfies the obligations of Mpmc.tla. *)
EXTENDS Mpmc
CONSTANTS Msgs, MaxOps
VARIABLES ch, hist
avars == <<ch, hist>>

SentOnce(m) == \A i \in 1..Len(hist) : ~(hist[i].o.op = "send" /\ hist[i].o.m = m)
AOps == [op : {"send"}, m : Msgs, set : {{}}] \cup [op : {"try", "recv", "close", "len", "notifyw"}, m : {0}, set : {{}}]
          \cup [op : {"flush"}, m : {0}, set : SUBSET Msgs \ {{}}]
Init == ch = Chan0 /\ hist = <<>>
Do(o) == /\ Len(hist) < MaxOps
         /\ o.op = "send" => SentOnce(o.m)
         /\ OpEnabled(ch, o)
         /\ ch' = OpNext(ch, o)
         /\ hist' = Append(hist, [o |-> o, res |-> OpRes(ch, o)])
Send == \E o \in AOps : o.op = "send" /\ Do(o)
TryRecv == \E o \in AOps : o.op = "try" /\ Do(o)
Recv == \E o \in AOps : o.op = "recv" /\ Do(o)
Close == \E o \in AOps : o.op = "close" /\ Do(o)
Flush == \E o \in AOps : o.op = "flush" /\ Do(o)
Len_ == \E o \in AOps : o.op = "len" /\ Do(o)
NotifyW == \E o \in AOps : o.op = "notifyw" /\ Do(o)
Next == Send \/ TryRecv \/ Recv \/ Close \/ Flush \/ Len_ \/ NotifyW
Spec == Init /\ [][Next]_avars

InvAtMostOnce == AtMostOnce(hist)
InvNoInvention == NoInvention(hist)
InvFifo == Fifo(hist)
InvAfterClose == AfterClose(hist)
InvRecvErrOnlyDrained == RecvErrOnlyDrained(hist)
InvErrReturnsMessage == ErrReturnsMessage(hist)
InvType == ch.closed \in BOOLEAN /\ \A i \in 1..Len(ch.q) : ch.q[i] \in Msgs
\* the queue is exactly the accepted messages that were neither handed out nor flushed, in acceptance order
=============================================================================
