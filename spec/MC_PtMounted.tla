------------------------------ MODULE MC_PtMounted ------------------------------
(* The accounting object of PtMounted against a small kernel: a client that keeps the FUSE reference protocol
   (uses only inodes it holds, forgets at most what it was given, releases what it opened) never trips an obligation,
   and the server's inode table equals the set of inodes the client still holds (+ the root). With Misbehave the
   client may break the protocol: the obligations must then be reachable as broken (anti-vacuity of the judge). *)
EXTENDS PtMounted
CONSTANTS Inos, Handles, MaxOps, Misbehave
VARIABLES A, tab, hopen, nops
vars == <<A, tab, hopen, nops>>
Init == A = Acct0 /\ tab = {"1"} /\ hopen = {} /\ nops = 0
Cnt(i) == IF i \in DOMAIN A.refs THEN A.refs[i] ELSE 0
Do(e) == A' = AcctStep(A, e) /\ nops' = nops + 1
Next ==
  /\ nops < MaxOps
  /\ \/ \E p \in tab, i \in Inos : (Misbehave \/ Held(A, p)) /\ Do(<<"ent", "lookup", p, i>>) /\ tab' = tab \cup {i} /\ UNCHANGED hopen
     \/ \E i \in Inos, c \in 1..2 : (Misbehave \/ Cnt(i) >= c) /\ Do(<<"fgt", i, c>>) /\ tab' = (IF Cnt(i) <= c THEN tab \ {i} ELSE tab) /\ UNCHANGED hopen
     \/ \E i \in Inos \cup {"1"} : (Misbehave \/ Held(A, i)) /\ Do(<<"use", "getattr", i>>) /\ UNCHANGED <<tab, hopen>>
     \/ \E i \in Inos, h \in Handles : (Misbehave \/ (Held(A, i) /\ h \notin hopen)) /\ Do(<<"opn", i, h>>) /\ hopen' = hopen \cup {h} /\ UNCHANGED tab
     \/ \E i \in Inos, h \in Handles : (Misbehave \/ (h \in DOMAIN A.opens /\ A.opens[h] = i)) /\ Do(<<"rel", i, h, TRUE>>) /\ hopen' = hopen \ {h} /\ UNCHANGED tab
Spec == Init /\ [][Next]_vars
NoFalseAlarm == A.bad = {}
TableIsHeld == tab = DOMAIN A.refs \cup {"1"}
HandlesAgree == DOMAIN A.opens = hopen
=============================================================================
