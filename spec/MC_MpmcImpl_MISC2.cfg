SPECIFICATION Spec
CONSTANTS
  Prog <- P_MISC2
  Procs = {1,2,3,4}
  Fixed = FALSE
  EnableFirst = TRUE
  Mon = TRUE
INVARIANTS LinStrict LinWeak QuiescentAgrees AtMostOnceI NoInventionI NoLostWakeupQ ParkedRegistered WaitersSane
