------------------------------ MODULE Overlay ------------------------------
(* A-level specification for C10/C11: what the properties talk about and nothing else.

   * A layer is a tree: a function from Paths (non-empty name sequences of bounded depth) to nodes.
     A node has a type (none, dir, file, sym, fifo, and in layers also wh = whiteout), permission
     bits m, a content c (sequence of block tokens), a link target tg, visible extended attributes
     x (set of <<name, value>>), the opaque mark o (directories in layers) and a file identity id
     (hard links share it; identities are never compared with the implementation).
   * ViewOf(L) is the overlayfs union of the layer sequence L (topmost first): topmost entry wins,
     directories merge while every contributing entry is a directory, a whiteout hides everything
     below it and itself, an opaque directory cuts off the layers below it, a non-directory
     terminates merging.
   * AOp(v, o, hasUpper, fid) is the effect of one client operation on the view v as on an ordinary
     file system. It returns [ok, free, v, errs]: ok = the operation must succeed; free = the
     property does not determine success (then: success => v, failure => no change); v = the view
     after a success; errs = the errno required for a failure (only the robust cases of DESIGN
     Appendix C; {} = any error). Without an upper layer every operation fails and changes nothing.
   Weaker readings chosen: inode numbers, link counts, times, owners are not part of a node; the
   permission bits and xattrs of symbolic links are not compared; rename is outside the property. *)
EXTENDS Naturals, Sequences, FiniteSets, TLC

CONSTANTS Names, MaxDepth

Root == <<>>
Paths == UNION {[1..n -> Names] : n \in 1..MaxDepth}
Parent(p) == SubSeq(p, 1, Len(p) - 1)
IsAncestor(a, p) == Len(a) < Len(p) /\ SubSeq(p, 1, Len(a)) = a      \* proper ancestor
ChildrenOf(p) == {q \in Paths : Len(q) = Len(p) + 1 /\ Parent(q) = p}

NoneN == [t |-> "none", m |-> 0, c |-> <<>>, tg |-> "", x |-> {}, o |-> FALSE, id |-> <<>>]
EmptyTree == [p \in Paths |-> NoneN]
NonDirTypes == {"file", "sym", "fifo"}

\* a layer is well formed when entries exist only inside directories
WFLayer(T) == \A p \in Paths : (T[p].t # "none" /\ Len(p) > 1) => T[Parent(p)].t = "dir"

(* ------------------------------- the union ------------------------------- *)
RECURSIVE TakeDirs(_, _, _)
\* E: layer indices (topmost first) having an entry at p, Head(E) a directory. The layers whose
\* directories merge: stop below an opaque directory, at a whiteout, at a non-directory.
TakeDirs(L, p, E) ==
  IF E = <<>> THEN <<>>
  ELSE LET n == L[Head(E)][p] IN
       IF n.t # "dir" THEN <<>>
       ELSE IF n.o THEN <<Head(E)>>
       ELSE <<Head(E)>> \o TakeDirs(L, p, Tail(E))

RECURSIVE MergeStack(_, _)
\* layer indices merged into the visible directory p (<<>> when p is not a visible directory)
MergeStack(L, p) ==
  IF p = Root THEN [i \in 1..Len(L) |-> i]
  ELSE LET E == SelectSeq(MergeStack(L, Parent(p)), LAMBDA l : L[l][p].t # "none")
       IN IF E = <<>> THEN <<>> ELSE TakeDirs(L, p, E)

VisibleNode(L, p) ==
  LET E == SelectSeq(MergeStack(L, Parent(p)), LAMBDA l : L[l][p].t # "none")
  IN IF E = <<>> THEN NoneN
     ELSE LET n == L[Head(E)][p] IN
          IF n.t = "wh" THEN NoneN ELSE [n EXCEPT !.o = FALSE]

ViewOf(L) == [p \in Paths |-> VisibleNode(L, p)]

\* what is compared with the implementation
Proj(n) == [t |-> n.t, m |-> IF n.t = "sym" THEN 0 ELSE n.m, c |-> n.c, tg |-> n.tg,
            x |-> IF n.t \in {"file", "dir"} THEN n.x ELSE {}]
ProjView(v) == [p \in Paths |-> Proj(v[p])]

(* ------------------------ operations on the view ------------------------- *)
EPERM == 1  ENOENT == 2  EEXIST == 17  ENOTDIR == 20  EISDIR == 21  ENOTEMPTY == 39  ENODATA == 61

IsDirV(v, p) == p = Root \/ (p \in Paths /\ v[p].t = "dir")
Exists(v, p) == p \in Paths /\ v[p].t # "none"
ParentOK(v, p) == p \in Paths /\ IsDirV(v, Parent(p))
HasKids(v, p) == \E q \in ChildrenOf(p) : v[q].t # "none"

Zeros(n) == [i \in 1..n |-> "Z"]
WriteContent(c, off, data) ==
  LET pad == IF off > Len(c) THEN c \o Zeros(off - Len(c)) ELSE c
  IN SubSeq(pad, 1, off) \o data \o SubSeq(pad, off + Len(data) + 1, Len(pad))
Resize(c, n) == IF n <= Len(c) THEN SubSeq(c, 1, n) ELSE c \o Zeros(n - Len(c))

\* apply f to every name of the file identified like v[p] (hard links)
OnFile(v, p, f(_)) == [q \in Paths |-> IF v[q].t # "none" /\ v[q].id = v[p].id THEN f(v[q]) ELSE v[q]]

\* alt: a second view a success may also produce (only for combinations POSIX leaves unspecified)
Ok(v)          == [ok |-> TRUE,  free |-> FALSE, v |-> v, errs |-> {}, alt |-> v]
Fail(v, es)    == [ok |-> FALSE, free |-> FALSE, v |-> v, errs |-> es, alt |-> v]
Free(v)        == [ok |-> FALSE, free |-> TRUE,  v |-> v, errs |-> {}, alt |-> v]
FreeAlt(v, w)  == [ok |-> FALSE, free |-> TRUE,  v |-> v, errs |-> {}, alt |-> w]

NewNode(t, m, tg, fid) == [t |-> t, m |-> m % 4096, c |-> <<>>, tg |-> tg, x |-> {}, o |-> FALSE, id |-> fid]

Has(r, k) == k \in DOMAIN r

AMake(v, o, t, tg, fid) ==
  IF ~ParentOK(v, o.p) THEN Fail(v, {})
  ELSE IF Exists(v, o.p) THEN
         \* an open(O_CREAT) without O_EXCL of an existing name is not determined here
         (IF o.op = "create" /\ ~(Has(o, "excl") /\ o.excl) THEN Free(v) ELSE Fail(v, {EEXIST}))
  \* a symbolic link to a target that is not valid UTF-8 (flag tgx of the request): refusing is accepted
  ELSE IF t = "sym" /\ Has(o, "tgx") /\ o.tgx THEN Free([v EXCEPT ![o.p] = NewNode(t, 511, tg, fid)])
  ELSE Ok([v EXCEPT ![o.p] = NewNode(t, IF t = "sym" THEN 511 ELSE o.m, tg, fid)])

AOp(v, o, hasUpper, fid) ==
  IF o.op \in {"rename", "nprobe"} THEN Free(v)   \* rename: outside the property (effect not judged); nprobe: handle-less
                                                  \* READ / FSYNC / GETATTR, changes nothing whatever it answers
  ELSE IF ~hasUpper THEN Fail(v, {})
  ELSE IF o.p \notin Paths THEN Fail(v, {})
  ELSE
  CASE o.op = "create"  -> AMake(v, o, "file", "", fid)
    [] o.op = "mknod"   -> AMake(v, o, IF Has(o, "kind") /\ o.kind = "fifo" THEN "fifo" ELSE "file", "", fid)
    [] o.op = "mkdir"   -> AMake(v, o, "dir", "", fid)
    [] o.op = "symlink" -> AMake(v, o, "sym", o.tg, fid)
    [] o.op = "link" ->
         IF o.src \notin Paths \/ ~Exists(v, o.src) THEN Fail(v, {})
         ELSE IF v[o.src].t = "dir" THEN (IF ParentOK(v, o.p) /\ ~Exists(v, o.p) THEN Fail(v, {EPERM}) ELSE Fail(v, {}))
         ELSE IF ~ParentOK(v, o.p) THEN Fail(v, {})
         \* a symbolic link whose target is not valid UTF-8 (marked in x by the trace spec): refusing is accepted,
         \* with any errno
         ELSE IF v[o.src].t = "sym" /\ v[o.src].x # {} THEN
                (IF Exists(v, o.p) THEN Fail(v, {}) ELSE Free([v EXCEPT ![o.p] = v[o.src]]))
         ELSE IF Exists(v, o.p) THEN Fail(v, {EEXIST})
         ELSE Ok([v EXCEPT ![o.p] = v[o.src]])
    [] o.op = "unlink" ->
         IF ~ParentOK(v, o.p) THEN Fail(v, {})
         ELSE IF ~Exists(v, o.p) THEN Fail(v, {ENOENT})
         ELSE IF v[o.p].t = "dir" THEN Fail(v, {EISDIR, EPERM})
         ELSE Ok([v EXCEPT ![o.p] = NoneN])
    [] o.op = "rmdir" ->
         IF ~ParentOK(v, o.p) THEN Fail(v, {})
         ELSE IF ~Exists(v, o.p) THEN Fail(v, {ENOENT})
         ELSE IF v[o.p].t # "dir" THEN Fail(v, {ENOTDIR})
         ELSE IF HasKids(v, o.p) THEN Fail(v, {ENOTEMPTY})
         ELSE Ok([v EXCEPT ![o.p] = NoneN])
    [] o.op = "write" ->
         IF ~Exists(v, o.p) \/ v[o.p].t = "dir" THEN Fail(v, {})
         ELSE IF v[o.p].t # "file" THEN Free(v)
         ELSE Ok(OnFile(v, o.p, LAMBDA n : [n EXCEPT !.c = WriteContent(n.c, o.off, o.c)]))
    [] o.op = "truncate" ->
         IF ~Exists(v, o.p) \/ v[o.p].t = "dir" THEN Fail(v, {})
         ELSE IF v[o.p].t # "file" THEN Free(v)
         ELSE Ok(OnFile(v, o.p, LAMBDA n : [n EXCEPT !.c = Resize(n.c, o.len)]))
    [] o.op = "fallocate" ->         \* mode 0: the file covers at least off + len blocks afterwards
         IF ~Exists(v, o.p) \/ v[o.p].t = "dir" THEN Fail(v, {})
         ELSE IF v[o.p].t # "file" THEN Free(v)
         ELSE LET ext == OnFile(v, o.p, LAMBDA n : [n EXCEPT !.c = IF Len(n.c) >= o.off + o.len THEN n.c ELSE Resize(n.c, o.off + o.len)])
              \* handle-less (no_open negotiated): whether a file that was never opened for writing may be
              \* extended is not determined here; what the lower layers look like afterwards is (LowersFrozen)
              IN IF Has(o, "noopen") /\ o.noopen THEN Free(ext) ELSE Ok(ext)
    [] o.op = "chmod" ->
         IF ~Exists(v, o.p) THEN Fail(v, {})
         ELSE IF v[o.p].t = "sym" THEN Free(v)
         ELSE Ok(OnFile(v, o.p, LAMBDA n : [n EXCEPT !.m = o.m % 4096]))
    [] o.op = "setxattr" ->
         IF ~Exists(v, o.p) THEN Fail(v, {})
         ELSE IF v[o.p].t \notin {"file", "dir"} THEN Free(v)
         ELSE Ok(OnFile(v, o.p, LAMBDA n : [n EXCEPT !.x = {e \in n.x : e[1] # o.n} \cup {<<o.n, o.v>>}]))
    [] o.op = "removexattr" ->
         IF ~Exists(v, o.p) THEN Fail(v, {})
         ELSE IF v[o.p].t \notin {"file", "dir"} THEN Free(v)
         ELSE IF ~\E e \in v[o.p].x : e[1] = o.n THEN Fail(v, {ENODATA})
         ELSE Ok(OnFile(v, o.p, LAMBDA n : [n EXCEPT !.x = {e \in n.x : e[1] # o.n}]))
    [] OTHER -> Free(v)

(* ------------- OPEN with a full flag word, and operations through kept handles ------------- *)
\* o.acc \in {"r", "w", "rw"}, o.trunc, o.app: BOOLEAN. An open handle (slot) remembers the identity of the file
\* it was opened on and its access mode; what is done through it applies to that file under all its names.
NoSlot == [id |-> <<>>, acc |-> ""]
OnId(v, id, f(_)) == [q \in Paths |-> IF v[q].t # "none" /\ v[q].id = id THEN f(v[q]) ELSE v[q]]
IdVisible(v, id) == \E q \in Paths : v[q].t # "none" /\ v[q].id = id

AOpen(v, o, hasUpper) ==
  IF o.p \notin Paths \/ ~Exists(v, o.p) THEN Fail(v, {})
  ELSE IF v[o.p].t # "file" THEN (IF v[o.p].t = "dir" /\ o.acc # "r" THEN Fail(v, {}) ELSE Free(v))
  ELSE IF ~hasUpper THEN (IF o.acc # "r" \/ o.trunc \/ o.app THEN Fail(v, {}) ELSE Free(v))
  ELSE IF ~o.trunc THEN Ok(v)
  \* O_RDONLY|O_TRUNC is unspecified (Linux truncates when the caller may write the file): either result
  ELSE IF o.acc = "r" THEN FreeAlt(OnFile(v, o.p, LAMBDA n : [n EXCEPT !.c = <<>>]), v)
  ELSE Ok(OnFile(v, o.p, LAMBDA n : [n EXCEPT !.c = <<>>]))

\* slots: [0..2 -> slot]. Operations on an empty slot are not issued by the driver (Free); a file that is no longer
\* visible under any name cannot be observed, so nothing is required there either.
AHandleOp(v, slots, o, hasUpper) ==
  IF o.op = "open" THEN (IF Has(o, "keep") /\ slots[o.keep] # NoSlot THEN Free(v)      \* busy slot: the driver does not issue it
                         ELSE AOpen(v, o, hasUpper))
  ELSE IF o.op \in {"close", "hprobe"} THEN Free(v)
  ELSE LET s == slots[o.slot] IN
       IF s = NoSlot \/ ~IdVisible(v, s.id) THEN Free(v)
       ELSE IF ~hasUpper THEN Fail(v, {})
       ELSE CASE o.op = "hsetattr" /\ o.what = "mode" -> Ok(OnId(v, s.id, LAMBDA n : [n EXCEPT !.m = o.m % 4096]))
              [] o.op = "hsetattr" /\ o.what = "size" ->
                   IF s.acc = "r" THEN Free(OnId(v, s.id, LAMBDA n : [n EXCEPT !.c = Resize(n.c, o.len)]))
                   ELSE Ok(OnId(v, s.id, LAMBDA n : [n EXCEPT !.c = Resize(n.c, o.len)]))
              [] o.op = "hwrite" ->
                   IF s.acc = "r" THEN Fail(v, {})
                   ELSE Ok(OnId(v, s.id, LAMBDA n : [n EXCEPT !.c = WriteContent(n.c, o.off, o.c)]))
              [] OTHER -> Free(v)
HandleOps == {"open", "close", "hprobe", "hsetattr", "hwrite"}

(* --------------- pre-state classes (used in violation signatures) --------------- *)
\* type of the entry a layer tree has at p, opaque directories distinguished
EntryClass(T, p) == IF p \notin Paths THEN "none" ELSE IF T[p].t = "dir" /\ T[p].o THEN "odir" ELSE T[p].t
RECURSIVE TopLower(_, _)
\* type of the topmost entry the lower layers (sequence of trees, topmost first) have at p
TopLower(Ls, p) == IF Ls = <<>> THEN "none"
                   ELSE IF EntryClass(Head(Ls), p) # "none" THEN EntryClass(Head(Ls), p) ELSE TopLower(Tail(Ls), p)
PreClass(upper, lowers, p) == "upper-" \o EntryClass(upper, p) \o "-lower-" \o TopLower(lowers, p)
=============================================================================
