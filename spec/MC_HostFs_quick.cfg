SPECIFICATION Spec
CONSTANTS
  Nm = {"a", "b", "l"}
  MaxOps = 2
  MaxIno = 6
INVARIANTS TreeOK FailClean WalkOK SizeOK
CHECK_DEADLOCK FALSE
