SPECIFICATION Spec
CONSTANTS
  NameSeq <- NamesAB
  MaxFile = 3
  MaxLen = 4
  Counts <- Counts12
  CfgSet <- CfgRefs
  MODE = "refs"
  Fails <- NoFail
  MAXHOST = 2
  BUG_CREATE_LEAK = FALSE
  BUG_PROBE_LEAK = FALSE
  BUG_DOTS = FALSE
  DirN <- Dir02
  MAXSEEK = 1000
  SPECIAL_A = TRUE
  Sample = 40
  WithDetail <- NoDetail
  BlameLabel <- AnyBlame
INVARIANTS NoViol Resolves
CONSTRAINT Export
VIEW View
CHECK_DEADLOCK FALSE
