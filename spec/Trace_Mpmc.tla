---------------------------- MODULE Trace_Mpmc ----------------------------
(* X02 judge: recorded histories of the REAL fuse_backend_rs::common::mpmc::Channel<u32>
   (harness/src/bin/mpmc.rs: replayed TLC interleavings, multi-threaded stress rounds, race hunts) are
   ACCEPTED iff they are linearisable against the sequential object of Mpmc.tla and no receiver is parked at
   a quiescent point while there is something to receive.

   Events (NDJSON, IOEnv.TRACE), ordered by their global tickets:
     Reset{seg}                       a new channel
     Call{t, op, m, set}              op in send | try | recv | close | flush | len | notifyw
     Ret{t, res:{k, m}}               k in ok | err | none | some | msg | closed | unit | len | cancelled
     Stall{blocked:[t..]}             logged at a QUIESCENT point: every other thread is between operations,
                                      the listed threads are parked inside recv and no wake-up is pending
     Obs{..} / End{..}                replay bookkeeping, not judged
   Silent step Lin(t): the pending operation of t takes (a step of) its effect between its Call and its Ret
   (Mpmc!LinSucc). Blocking mode per segment with an "ok" and a "skip" track as in Trace_PtConc.tla: a
   segment is accepted iff its "ok" track reaches the next Reset with every thread idle; the POSTCONDITION
   prints <<"REJECTED", {segment start indices}>>. -workers 1.

   Stall is accepted only if the abstract channel is open and empty and the parked operations have not taken
   effect: otherwise a receiver sleeps although a message (or the close) is there for it = LOST WAKEUP.

   The Reset event may carry "mode" (default "strict"; added by checks/mpmc.py when it re-judges a rejected
   segment); everything but "strict" is used only to CLASSIFY a rejected segment:
     strict   the object of Mpmc.tla                      wsend / wrecv / weak   the weak readings of Mpmc.tla
     nostall  weak, and Stall events are not judged (a segment only this mode accepts lost a wake-up) *)
EXTENDS Mpmc, TLC, Json, IOUtils
Rec == ndJsonDeserialize(IOEnv.TRACE)
N == Len(Rec)
TIds == 0..8
SegStarts == {i \in 1..N : Rec[i].e = "Reset"}
VARIABLES l, S, pend, sg, mode, md
vars == <<l, S, pend, sg, mode, md>>
WSend == md \in {"wsend", "weak", "nostall"}
WRecv == md \in {"wrecv", "weak", "nostall"}
NoOp == [op |-> "", m |-> 0, set |-> {}]
Idle == [s |-> StIdle, o |-> NoOp]
AllIdle == \A t \in TIds : pend[t].s.st = "idle"
Ev(e) == l <= N /\ Rec[l].e = e
Mark == sg = 0 \/ TLCSet(2, TLCGet(2) \cup {sg})
SeqSet(s) == {s[i] : i \in 1..Len(s)}

Init == /\ l = 1 /\ S = Chan0 /\ sg = 0 /\ mode = "skip" /\ md = "strict"
        /\ pend = [t \in TIds |-> Idle]
        /\ TLCSet(2, {})
Reset == /\ Ev("Reset")
         /\ \/ mode = "skip"
            \/ mode = "ok" /\ AllIdle /\ Mark
         /\ l' = l + 1 /\ sg' = l /\ S' = Chan0
         /\ pend' = [t \in TIds |-> Idle]
         /\ mode' \in {"ok", "skip"}
         /\ md' = IF mode' = "ok" /\ "mode" \in DOMAIN Rec[l] THEN Rec[l].mode ELSE "strict"
SkipEv == /\ mode = "skip" /\ l <= N /\ Rec[l].e # "Reset"
          /\ l' = l + 1 /\ UNCHANGED <<S, pend, sg, mode, md>>
Other == /\ mode = "ok" /\ l <= N /\ Rec[l].e \in {"Obs", "End"}
         /\ l' = l + 1 /\ UNCHANGED <<S, pend, sg, mode, md>>
Call == /\ Ev("Call") /\ mode = "ok"
        /\ LET r == Rec[l] IN
           /\ r.t \in TIds /\ pend[r.t].s.st = "idle"
           /\ r.op \in {"send", "try", "recv", "close", "flush", "len", "notifyw"}
           /\ pend' = [pend EXCEPT ![r.t] = [s |-> StInv, o |-> [op |-> r.op, m |-> r.m, set |-> SeqSet(r.set)]]]
        /\ l' = l + 1 /\ UNCHANGED <<S, sg, mode, md>>
Lin(t) == /\ mode = "ok" /\ pend[t].s.st \in {"inv", "mid"}
          /\ \E x \in LinSucc(S, pend[t].s, pend[t].o, WSend, WRecv) :
               /\ S' = x.S
               /\ pend' = [pend EXCEPT ![t].s = x.s]
          /\ UNCHANGED <<l, sg, mode, md>>
Ret == /\ Ev("Ret") /\ mode = "ok"
       /\ LET r == Rec[l] IN
          /\ r.t \in TIds
          /\ IF r.res.k = "cancelled"
             THEN pend[r.t].o.op = "recv" /\ pend[r.t].s.st \in {"inv", "mid"}         \* a dropped recv took nothing
             ELSE pend[r.t].s.st = "done" /\ pend[r.t].s.r = Res(r.res.k, r.res.m)
          /\ pend' = [pend EXCEPT ![r.t] = Idle]
       /\ l' = l + 1 /\ UNCHANGED <<S, sg, mode, md>>
Stall == /\ Ev("Stall") /\ mode = "ok"
         /\ LET b == SeqSet(Rec[l].blocked) IN
            \/ md = "nostall"
            \/ /\ \A t \in TIds : IF t \in b THEN pend[t].o.op = "recv" /\ pend[t].s.st \in {"inv", "mid"}
                                            ELSE pend[t].s.st = "idle"
               /\ S.q = <<>> /\ ~S.closed
         /\ l' = l + 1 /\ UNCHANGED <<S, pend, sg, mode, md>>
Done == /\ l = N + 1
        /\ \/ mode = "skip"
           \/ mode = "ok" /\ AllIdle /\ Mark
        /\ PrintT(<<"CONSUMED", N>>)
        /\ l' = l + 1 /\ S' = Chan0 /\ sg' = 0 /\ mode' = "skip" /\ md' = "strict" /\ pend' = [t \in TIds |-> Idle]
Next == Reset \/ SkipEv \/ Other \/ Call \/ Ret \/ Stall \/ Done \/ \E t \in TIds : Lin(t)
Spec == Init /\ [][Next]_vars
Rejected == SegStarts \ TLCGet(2)
Post == PrintT(<<"REJECTED", Rejected>>)
=============================================================================
