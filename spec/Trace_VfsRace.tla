--------------------------- MODULE Trace_VfsRace ---------------------------
(* Judge of recorded concurrent histories of the real Vfs (harness/src/bin/vfsrace.rs): mount / umount /
   over-mount by one thread, client requests by others, interleaved at the ArcSwap load/store points.
   A segment (Reset .. next Reset) is ACCEPTED iff it is LINEARISABLE against the sequential mount table
   of VfsSeq.tla: every operation takes effect atomically at some point between its Call and its Ret
   (silent step Lin), a request may instead fail without reaching a backend (only if Relaxed), and the
   recorded result is the one the sequential table prescribes at that point: which backend was called with
   which inode number, which mapping translated the caller uid, which mapping translated the owner uid of
   the reply, which inode number came back. Blocking mode per segment with an "ok" and a "skip" track as in
   Trace_PtConc.tla; the POSTCONDITION prints <<"REJECTED", {segment start indices}>>. -workers 1. *)
EXTENDS VfsSeq, TLC, Json, IOUtils
CONSTANT Relaxed          \* TRUE: "failed without reaching a backend" is always an acceptable answer
Rec == ndJsonDeserialize(IOEnv.TRACE)
N == Len(Rec)
TIds == 0..2
SegStarts == {i \in 1..N : Rec[i].e = "Reset"}
\* the harness's concretisation of the tokens: caller uid 500000, backend uid 1000
InVal(tok) == CASE tok = "G" -> 401000 [] tok = "M0" -> 451000 [] tok = "M1" -> 481000 [] OTHER -> 500000
OutVal(tok) == CASE tok = "G" -> 100000 [] tok = "M0" -> 50000 [] tok = "M1" -> 20000 [] OTHER -> 1000
RootIno(b) == CASE b = "b0" -> "1000" [] b = "b1" -> "1001" [] b = "b2" -> "1002" [] OTHER -> "?"

VARIABLES l, S, init0, pend, sg, mode
vars == <<l, S, init0, pend, sg, mode>>
Idle == [st |-> "idle", op |-> "", exp |-> Fail]
NoTable == [sb |-> <<NoFs, NoFs, NoFs>>, mp |-> [R |-> NoMp, A |-> NoMp], map |-> [i \in 0..NIdx |-> NoTok], nexts |-> 1]
AllIdle == \A t \in TIds : pend[t].st = "idle"
Ev(e) == l <= N /\ Rec[l].e = e
Mark == sg = 0 \/ TLCSet(2, TLCGet(2) \cup {sg})
Table(i) == [sb |-> i.sb, mp |-> [R |-> i.mp.R, A |-> i.mp.A], map |-> [k \in 0..NIdx |-> i.map[k + 1]], nexts |-> i.nexts]

Init == /\ l = 1 /\ S = NoTable /\ init0 = NoTable /\ sg = 0 /\ mode = "skip"
        /\ pend = [t \in TIds |-> Idle]
        /\ TLCSet(2, {})

Reset == /\ Ev("Reset")
         /\ \/ mode = "skip"
            \/ mode = "ok" /\ AllIdle /\ Mark
         /\ l' = l + 1 /\ sg' = l /\ S' = Table(Rec[l].init) /\ init0' = Table(Rec[l].init)
         /\ pend' = [t \in TIds |-> Idle]
         /\ mode' \in {"ok", "skip"}
SkipEv == /\ mode = "skip" /\ l <= N /\ Rec[l].e # "Reset"
          /\ l' = l + 1 /\ UNCHANGED <<S, init0, pend, sg, mode>>
Other == /\ mode = "ok" /\ l <= N /\ Rec[l].e \in {"Sched", "End"}
         /\ l' = l + 1 /\ UNCHANGED <<S, init0, pend, sg, mode>>

Call == /\ Ev("Call") /\ mode = "ok"
        /\ LET r == Rec[l] IN
           /\ r.t \in TIds /\ pend[r.t].st = "idle"
           /\ pend' = [pend EXCEPT ![r.t] = [st |-> "inv", op |-> r.op, exp |-> Fail]]
        /\ l' = l + 1 /\ UNCHANGED <<S, init0, sg, mode>>

\* what the mounter's operation returns on table T
MountRet(T, o) == IF o.k = "umount" THEN (IF T.mp[o.p] = NoMp THEN [ret |-> "err", idx |-> 0] ELSE [ret |-> "ok", idx |-> 0])
                  ELSE LET i == Alloc(T.sb, T.nexts) IN IF i = 0 THEN [ret |-> "err", idx |-> 0] ELSE [ret |-> "ok", idx |-> i]
\* silent: the pending operation of t takes effect
Lin(t) == /\ mode = "ok" /\ pend[t].st = "inv"
          /\ IF t = 0
             THEN /\ S' = ApplyOp(S, pend[t].op)
                  /\ pend' = [pend EXCEPT ![t].st = "done", ![t].exp = [Fail EXCEPT !.kind = "mount", !.idx = MountRet(S, pend[t].op).idx,
                                                                                   !.be = MountRet(S, pend[t].op).ret]]
             ELSE /\ UNCHANGED S
                  /\ \E e \in {Run(init0, S, pend[t].op)} \cup (IF Relaxed THEN {Fail} ELSE {}) :
                       pend' = [pend EXCEPT ![t].st = "done", ![t].exp = e]
          /\ UNCHANGED <<l, init0, sg, mode>>

Match(e, v) ==
  CASE e.kind = "backend" -> /\ v.status = "ok" /\ Len(v.calls) = 1
                             /\ v.calls[1].backend = e.be /\ v.calls[1].ino = RootIno(e.ino)
                             /\ v.calls[1].cuid = InVal(e.ctx) /\ v.uid = OutVal(e.out) /\ v.ino.idx = e.idx
    [] e.kind = "fail" -> v.calls = <<>> /\ v.status \notin {"ok", "panic"}
    [] e.kind = "mproot" -> /\ v.calls = <<>> /\ v.status = "ok" /\ v.ino.idx = e.idx /\ v.ino.low = RootIno(e.ino)
                            /\ v.uid = OutVal(e.out)
    [] e.kind = "pseudo" -> v.calls = <<>> /\ v.status = "ok" /\ v.ino.idx = 0
    [] OTHER -> FALSE
Ret == /\ Ev("Ret") /\ mode = "ok"
       /\ LET r == Rec[l] IN
          /\ r.t \in TIds /\ pend[r.t].st = "done"
          /\ IF r.t = 0 THEN r.val.ret = pend[0].exp.be /\ r.val.idx = pend[0].exp.idx
             ELSE Match(pend[r.t].exp, r.val)
          /\ pend' = [pend EXCEPT ![r.t] = Idle]
       /\ l' = l + 1 /\ UNCHANGED <<S, init0, sg, mode>>

Done == /\ l = N + 1
        /\ \/ mode = "skip"
           \/ mode = "ok" /\ AllIdle /\ Mark
        /\ PrintT(<<"CONSUMED", N>>)
        /\ l' = l + 1 /\ S' = NoTable /\ init0' = NoTable /\ sg' = 0 /\ mode' = "skip" /\ pend' = [t \in TIds |-> Idle]
Next == Reset \/ SkipEv \/ Other \/ Call \/ Ret \/ Done \/ \E t \in TIds : Lin(t)
Spec == Init /\ [][Next]_vars
Rejected == SegStarts \ TLCGet(2)
Post == PrintT(<<"REJECTED", Rejected>>)
=============================================================================
