SPECIFICATION Spec
CONSTANTS
  Prog <- P_SRCT
  Procs = {1,2,3}
  Fixed = TRUE
  EnableFirst = TRUE
  Mon = TRUE
INVARIANTS LinStrict LinWeak QuiescentAgrees AtMostOnceI NoInventionI NoLostWakeupQ ParkedRegistered WaitersSane
