----------------------------- MODULE PtRefsImpl -----------------------------
(* I-level (implementation-shaped) model of the passthrough inode / handle / directory-stream machinery,
   transcribed from src/passthrough/{mod.rs, sync_io.rs, inode_store.rs, util.rs, mount_fd.rs,
   file_handle.rs} and src/api/pseudo_fs.rs, INCLUDING, behind the BUG switches, the three defects the checks found (fixed in /repo by 0050bb3, ae8cb5c,
   05f7243: the switches are FALSE in the MC configurations and TRUE only in the *_asfound.cfg anti-vacuity runs).

   m  = the server + host state (one record, so that request handlers compose: create = create_excl ;
        do_lookup ; open_inode, and so that FailAt(n) -- EMFILE at the (n+1)-th descriptor allocation of one
        request -- is a budget threaded through the handlers);
   a  = the A-level state of PtRefs.tla, advanced in lockstep with what the CLIENT observes (results, then a
        getattr probe of every number ever seen with the refcount hook, then the census).
   TLC checks  I => A  as the invariant  NoViol  (a.viol within the signatures allowed by the BUG switches).
   hist/seenn/seenh record the scenario in the harness' vocabulary (ids by first appearance); they are hidden
   from the fingerprint by VIEW and exported as <<"REPLAY", json>> lines for replay on the real code.

   Host: a flat exported directory over Names; files 2.. are never re-used, host inode numbers are (lowest free
   number, as ext4 does), file 1 / host inode 1 / number 1 is the root. *)
EXTENDS PtRefs, Json

CONSTANTS NameSeq,      \* names in the exported directory (a sequence: the model's stream order)
          MaxFile,      \* files are 2..MaxFile
          MaxLen,       \* history length
          Counts,       \* forget counts
          CfgSet,       \* set of [fh, hostino, no_open, no_opendir]
          MODE,         \* "refs" | "res" | "dir"
          Fails,        \* FailAt values tried (-1 = no injection)
          MAXHOST,      \* MAX_HOST_INO (host inode numbers above take the virtual-inode path)
          BUG_CREATE_LEAK, BUG_PROBE_LEAK, BUG_DOTS,   \* TRUE = as the code is
          DirN,         \* dir mode: numbers of entries
          MAXSEEK,      \* dir mode: cookies above cannot be lseek()ed to (linear-scan fallback)
          SPECIAL_A,    \* TRUE: the initial file "a" is a fifo (open_inode refuses it: is_safe_inode)
          Sample        \* export every Sample-th terminal behaviour

VARIABLES m, a, hist, seenn, seenh
vars == <<m, a, hist, seenn, seenh>>

Names == {NameSeq[i] : i \in DOMAIN NameSeq}
UBASE == 100      \* unique_id << 47
VBASE == 200      \* VIRTUAL_INODE_FLAG
INF == 99
Files == 2..MaxFile
Min(X) == CHOOSE x \in X : \A y \in X : x <= y
Del(f, x) == [y \in DOMAIN f \ {x} |-> f[y]]

(* ------------------------------------------- host ------------------------------------------- *)
NLink(s, f) == IF f = 1 THEN 2 ELSE Cardinality({n \in Names : s.dirent[n] = f})
HeldByHandle(s, f) == \E h \in DOMAIN s.handles : s.handles[h].file = f
HeldByInode(s, f) == ~s.cfg.fh /\ \E k \in DOMAIN s.data : s.data[k].file = f
Exists(s, f) == f = 1 \/ NLink(s, f) > 0 \/ HeldByHandle(s, f) \/ HeldByInode(s, f)
Created(s) == {f \in Files : s.hino[f] # 0}
\* host inode numbers in use; a file that is gone gives its number back
UsedInos(s) == {1} \cup {s.hino[f] : f \in {g \in Created(s) : Exists(s, g)}}
NewFile(s) == IF Files \ Created(s) = {} THEN 0 ELSE Min(Files \ Created(s))
FreeIno(s) == Min((1..(MaxFile + 2)) \ UsedInos(s))

(* ---------------------------------------- InodeStore ---------------------------------------- *)
\* get_alt: by handle first, then by id restricted to entries without a file handle
GetAlt(s, f) ==
  LET hid == s.hino[f] IN
  IF s.cfg.fh /\ f \in DOMAIN s.by_handle /\ s.by_handle[f] \in DOMAIN s.data THEN s.by_handle[f]
  ELSE IF ~s.cfg.fh /\ hid \in DOMAIN s.by_id /\ s.by_id[hid] \in DOMAIN s.data THEN s.by_id[hid]
  ELSE 0
MountAlive(s) == s.cfg.fh /\ DOMAIN s.data # {}      \* some OpenableFileHandle holds the Arc<MountFd>
\* get_inode_locked
Prev(s, f) == IF s.cfg.fh THEN Get(s.by_handle, f, 0) ELSE Get(s.by_id, s.hino[f], 0)
\* allocate_inode: <<number, next_inode', next_virtual'>>
Allocate(s, f) ==
  LET hid == s.hino[f] IN
  IF ~s.cfg.hostino THEN (IF Prev(s, f) # 0 THEN <<Prev(s, f), s.next_inode, s.next_virtual>> ELSE <<s.next_inode, s.next_inode + 1, s.next_virtual>>)
  ELSE IF hid > MAXHOST THEN (IF Prev(s, f) # 0 THEN <<Prev(s, f), s.next_inode, s.next_virtual>> ELSE <<VBASE + s.next_virtual, s.next_inode, s.next_virtual + 1>>)
  ELSE <<UBASE + hid, s.next_inode, s.next_virtual>>
\* InodeStore::insert (an existing entry under the same number is replaced: "the old inode will get lost")
Insert(s, k, f, rc) ==
  [s EXCEPT !.data = Upd(@, k, [file |-> f, rc |-> rc, hid |-> s.hino[f]]),
            !.by_id = Upd(@, s.hino[f], k),
            !.by_handle = IF s.cfg.fh THEN Upd(@, f, k) ELSE @]
\* InodeStore::remove(inode, keep_mapping)
Remove(s, k) ==
  LET d == s.data[k]
      keep == ~s.cfg.hostino \/ d.hid > MAXHOST
  IN [s EXCEPT !.data = Del(@, k),
               !.by_handle = IF ~keep /\ s.cfg.fh /\ d.file \in DOMAIN @ THEN Del(@, d.file) ELSE @,
               !.by_id = IF ~keep /\ d.hid \in DOMAIN @ THEN Del(@, d.hid) ELSE @]

\* Results of handlers: [s, st, b] = state, status ("OK"/errno), remaining allocation budget; plus extra fields.
\* MountFds::get when no MountFd is alive: O_PATH probe (never closed: BUG_PROBE_LEAK), then the re-open.
MountGet(s, b) ==
  IF MountAlive(s) \/ ~s.cfg.fh THEN [s |-> s, st |-> "OK", b |-> b]
  ELSE IF b = 0 THEN [s |-> s, st |-> "EMFILE", b |-> 0]
  ELSE LET s1 == IF BUG_PROBE_LEAK THEN [s EXCEPT !.leaked = @ + 1] ELSE s
       IN IF b = 1 THEN [s |-> s1, st |-> "EMFILE", b |-> 0] ELSE [s |-> s1, st |-> "OK", b |-> b - 2]

\* do_lookup(ROOT, name): [s, st, b, k]
DoLookup(s, n, b) ==
  LET f == s.dirent[n] IN
  IF ROOT \notin DOMAIN s.data THEN [s |-> s, st |-> "EBADF", b |-> b, k |-> 0]
  ELSE IF f = 0 THEN [s |-> s, st |-> "ENOENT", b |-> b, k |-> 0]
  ELSE IF b = 0 THEN [s |-> s, st |-> "EMFILE", b |-> 0, k |-> 0]          \* O_PATH fd of the child
  ELSE LET fnd == GetAlt(s, f) IN
       IF fnd # 0 THEN [s |-> [s EXCEPT !.data[fnd].rc = @ + 1], st |-> "OK", b |-> b - 1, k |-> fnd]
       ELSE LET g == MountGet(s, b - 1) IN     \* to_openable_handle (file-handle mode only; alive whenever the root is)
            IF g.st # "OK" THEN [s |-> g.s, st |-> g.st, b |-> g.b, k |-> 0]
            ELSE LET al == Allocate(g.s, f)
                     s2 == Insert([g.s EXCEPT !.next_inode = al[2], !.next_virtual = al[3]], al[1], f, 1)
                 IN [s |-> s2, st |-> "OK", b |-> g.b, k |-> al[1]]

\* forget_one
ForgetOne(s, k, c) ==
  IF k = ROOT \/ k \notin DOMAIN s.data THEN s
  ELSE LET new == IF s.data[k].rc > c THEN s.data[k].rc - c ELSE 0
       IN IF new = 0 THEN Remove(s, k) ELSE [s EXCEPT !.data[k].rc = new]

\* import(): [s, st, b]
Import(s, b) ==
  IF b = 0 THEN [s |-> s, st |-> "EMFILE", b |-> 0]
  ELSE LET g == MountGet(s, b - 1) IN
       IF g.st # "OK" THEN [s |-> g.s, st |-> g.st, b |-> g.b]
       ELSE [s |-> Insert(g.s, ROOT, 1, 2), st |-> "OK", b |-> g.b]

\* the inode's file: fd reference (O_PATH mode) or open_by_handle_at (one temporary descriptor; ESTALE when gone)
GetFile(s, k, b) ==
  IF ~s.cfg.fh THEN [st |-> "OK", b |-> b]
  ELSE IF ~Exists(s, s.data[k].file) THEN [st |-> "ESTALE", b |-> b]
  ELSE IF b = 0 THEN [st |-> "EMFILE", b |-> 0] ELSE [st |-> "OK", b |-> b]       \* temporary: closed again
\* open_inode: a descriptor that stays (handle) or is dropped by the caller
OpenInode(s, k, b) ==
  IF k \notin DOMAIN s.data THEN [st |-> "EBADF", b |-> b]
  ELSE IF s.data[k].file \in s.special THEN [st |-> "EBADF", b |-> b]                 \* !is_safe_inode
  ELSE IF s.cfg.fh /\ ~Exists(s, s.data[k].file) THEN [st |-> "ESTALE", b |-> b]
  ELSE IF b = 0 THEN [st |-> "EMFILE", b |-> 0] ELSE [st |-> "OK", b |-> b - 1]
NewHandle(s, k) == [s EXCEPT !.handles = Upd(@, s.next_handle, [inode |-> k, file |-> s.data[k].file, pos |-> 0]), !.next_handle = @ + 1]

(* -------------------------------- directory streams (do_readdir) ----------------------------- *)
\* m.raw: the host stream of the listed directory, records <<name, cookie>>, "." and ".." included
RawLen(s) == Len(s.raw)
\* lseek(fd, c): the position after every record whose cookie is <= c
SeekPos(s, c) == Cardinality({i \in 1..RawLen(s) : s.raw[i][2] <= c})
RawBatch(s, pos, cap) == SubSeq(s.raw, pos + 1, IF pos + cap > RawLen(s) THEN RawLen(s) ELSE pos + cap)
OnlyDots(bt) == bt # <<>> /\ \A i \in DOMAIN bt : bt[i][1] = "." \/ bt[i][1] = ".."
\* one getdents64 batch from stream position pos: <<records, new position>>. As the code is (BUG_DOTS) the batch is
\* taken as it comes; the proposed fix reads on while a batch holds nothing but "." / ".."
RECURSIVE BatchAt(_, _, _)
BatchAt(s, pos, cap) ==
  LET bt == RawBatch(s, pos, cap) IN
  IF ~BUG_DOTS /\ OnlyDots(bt) THEN BatchAt(s, pos + Len(bt), cap) ELSE <<bt, pos + Len(bt)>>
Batch(s, pos, cap) == BatchAt(s, pos, cap)[1]
\* every record, dots included, takes one unit of the getdents buffer, which has the size of the reply
Cap(size) == size
\* skip_to_cookie: records after the one whose cookie = c, or "none"
SkipTo(buf, c) == IF \E i \in DOMAIN buf : buf[i][2] = c
                  THEN <<TRUE, SubSeq(buf, (CHOOSE i \in DOMAIN buf : buf[i][2] = c) + 1, Len(buf))>> ELSE <<FALSE, <<>>>>
\* linear-scan fallback from position 0: <<buf, fd position>>
RECURSIVE Scan(_, _, _, _, _)
Scan(s, pos, cap, c, found) ==
  LET ba == BatchAt(s, pos, cap) bt == ba[1] np == ba[2] IN
  IF bt = <<>> THEN <<bt, np>>
  ELSE IF found THEN <<bt, np>>
  ELSE LET sk == SkipTo(bt, c) IN
       IF sk[1] THEN (IF sk[2] # <<>> THEN <<sk[2], np>> ELSE Scan(s, np, cap, c, TRUE))
       ELSE Scan(s, np, cap, c, FALSE)
\* the batch and the new fd position / cookie cache for READDIR(h, size, offset): [buf, pos, cookies]
ReadBatch(s, h, size, off) ==
  LET nod == s.cfg.no_opendir
      hit == ~nod /\ h \in DOMAIN s.cookies /\ s.cookies[h] = off         \* consume_cached_cookie
      ck1 == IF nod THEN s.cookies ELSE IF h \in DOMAIN s.cookies THEN Del(s.cookies, h) ELSE s.cookies
      pos0 == IF nod THEN 0 ELSE s.handles[h].pos
      seekok == hit \/ off <= MAXSEEK
      pos1 == IF hit THEN pos0 ELSE SeekPos(s, off)
      r == IF seekok THEN BatchAt(s, pos1, Cap(size)) ELSE Scan(s, 0, Cap(size), off, FALSE)
      ck2 == IF ~nod /\ r[1] # <<>> THEN Upd(ck1, h, r[1][Len(r[1])][2]) ELSE ck1    \* cache_cookie
  IN [buf |-> r[1], pos |-> r[2], cookies |-> ck2]
IsDotRec(r) == r[1] = "." \/ r[1] = ".."
RECURSIVE NonDots(_)
NonDots(buf) == IF buf = <<>> THEN <<>> ELSE IF IsDotRec(Head(buf)) THEN NonDots(Tail(buf)) ELSE <<Head(buf)>> \o NonDots(Tail(buf))

(* ------------------------------------------ census ------------------------------------------- *)
Fds(s) == 2 + (IF s.cfg.fh THEN 0 ELSE Cardinality(DOMAIN s.data)) + Cardinality(DOMAIN s.handles) + (IF MountAlive(s) THEN 1 ELSE 0) + s.leaked
Census(s) == [fds |-> Fds(s), inodes |-> Cardinality(DOMAIN s.data), handles |-> Cardinality(DOMAIN s.handles), cookies |-> Cardinality(DOMAIN s.cookies)]
ProbeOf(s, k) ==
  IF k \notin DOMAIN s.data THEN <<k, "EBADF", -1, 0, 0>>
  ELSE LET d == s.data[k] IN
       IF s.cfg.fh /\ ~Exists(s, d.file) THEN <<k, "ESTALE", d.rc, 0, 0>>
       ELSE <<k, "OK", d.rc, d.file, NLink(s, d.file)>>
HostRows(s) == LET al == {1} \cup {f \in Created(s) : NLink(s, f) > 0}
                   RECURSIVE SeqOf(_)
                   SeqOf(X) == IF X = {} THEN <<>> ELSE LET x == Min(X) IN <<<<x, NLink(s, x)>>>> \o SeqOf(X \ {x})
               IN SeqOf(al)
\* what the client sees after a request: host walk, probes of every number ever seen, census
Observe(A, s, nums) ==
  LET RECURSIVE Rows(_)
      Rows(q) == IF q = <<>> THEN <<>> ELSE <<ProbeOf(s, Head(q))>> \o Rows(Tail(q))
  IN ResCheck(ProbeRows(HostSet(A, HostRows(s)), Rows(nums)), Census(s))

(* ------------------------------------------- init -------------------------------------------- *)
Fresh(c) ==
  LET s0 == [cfg |-> c, dirent |-> [n \in Names |-> IF n = NameSeq[1] THEN 2 ELSE 0], hino |-> [f \in 1..MaxFile |-> IF f <= 2 THEN f ELSE 0],
             data |-> <<>>, by_id |-> <<>>, by_handle |-> <<>>, next_inode |-> 2, next_virtual |-> 2,
             handles |-> <<>>, cookies |-> <<>>, next_handle |-> 1, leaked |-> 0, raw |-> <<>>,
             special |-> IF SPECIAL_A THEN {2} ELSE {}]
  IN Import(s0, INF).s
ACfg(c, s, kind) == [fh |-> c.fh, hostino |-> c.hostino, no_open |-> c.no_open, no_opendir |-> c.no_opendir, via |-> c.via,
                     tag |-> "mc", kind |-> kind, base |-> Census(s)]

\* dir mode: a directory of n entries with "." and ".." at stream positions p1 <= p2, cookies 10, 20, ...
DirRaw(n, p1, p2) ==
  LET nm == [i \in 1..n |-> "n" \o ToString(i)]
      sq == SubSeq(nm, 1, p1) \o <<".">> \o SubSeq(nm, p1 + 1, p2) \o <<"..">> \o SubSeq(nm, p2 + 1, n)
  IN [i \in DOMAIN sq |-> <<sq[i], 10 * i>>]
Ck(c) == ToString(c)          \* cookies cross to the client as decimal strings ("0" = start)

MCInit ==
  /\ hist = <<>> /\ seenn = <<ROOT>> /\ seenh = <<>>
  /\ \E c \in CfgSet :
       IF MODE # "dir"
       THEN /\ m = Fresh(c)
            /\ a = Observe(Init(ACfg(c, Fresh(c), "script")), Fresh(c), <<ROOT>>)
       ELSE \E n \in DirN : \E p1 \in 0..n : \E p2 \in p1..n :
            (c.via = "pseudo" => p1 = 0 /\ p2 = 0) /\
            LET s == [Fresh(c) EXCEPT !.handles = IF c.no_opendir \/ c.via = "pseudo" THEN <<>> ELSE [h \in 1..2 |-> [inode |-> 2, file |-> 2, pos |-> 0]],
                                      !.raw = IF c.via = "pseudo" THEN [i \in 1..n |-> <<"n" \o ToString(i), i>>] ELSE DirRaw(n, p1, p2)]
                real == NonDots(s.raw)
                \* A is told the truth about the stream: every reply is then judged against it
                chain == [x \in {Ck(0)} \cup {Ck(real[i][2]) : i \in DOMAIN real} |->
                            LET i == IF x = Ck(0) THEN 0 ELSE CHOOSE j \in DOMAIN real : Ck(real[j][2]) = x
                            IN IF i = Len(real) THEN NoEnt ELSE <<real[i + 1][1], Ck(real[i + 1][2])>>]
                A0 == HostDir(Init(ACfg(c, s, "dirpat")), 2, [i \in DOMAIN real |-> <<real[i][1], 8>>], [i \in DOMAIN s.raw |-> <<s.raw[i][1], 8, Ck(s.raw[i][2])>>])
            IN /\ m = s
               /\ a = [A0 EXCEPT !.succ = Upd(@, 2, chain)]

(* ------------------------------------------ actions ------------------------------------------ *)
Id(q, x) == IF x = 0 THEN 0 ELSE IF \E i \in DOMAIN q : q[i] = x THEN CHOOSE i \in DOMAIN q : q[i] = x ELSE Len(q) + 1
Seen(q, x) == IF x = 0 \/ \E i \in DOMAIN q : q[i] = x THEN q ELSE Append(q, x)
\* one finished request: impl state s, A state A (already told the result), scenario step rec, numbers/handles now known
Step(s, A, rec, k, h) ==
  /\ m' = s
  /\ seenn' = Seen(seenn, k)
  /\ seenh' = Seen(seenh, h)
  /\ a' = Observe(A, s, Seen(seenn, k))
  /\ hist' = Append(hist, rec)
Inj(op) == IF op \in {"forget", "batch_forget", "release", "releasedir", "unlink", "rename"} THEN {-1} ELSE Fails
B(fa) == IF fa < 0 THEN INF ELSE fa
N0(op, st, fa) == Noted(a, op, st, fa)

Lookup(n, fa) ==
  LET r == DoLookup(m, n, B(fa))
      A1 == IF r.st = "OK" THEN Entry(N0("lookup", r.st, fa), "lookup", m.dirent[n], r.k) ELSE N0("lookup", r.st, fa)
  IN Step(r.s, A1, [op |-> "lookup", p |-> 1, name |-> n, fail_at |-> fa], r.k, 0)

\* mknod / symlink / mkdir of a new name: the host object is made, then do_lookup
Mknod(n, fa) ==
  /\ NewFile(m) # 0
  /\ LET ex == m.dirent[n] # 0
         s1 == IF ex THEN m ELSE [m EXCEPT !.dirent[n] = NewFile(m), !.hino[NewFile(m)] = FreeIno(m), !.special = @ \cup {NewFile(m)}]
         r == IF ex THEN [s |-> m, st |-> "EEXIST", b |-> 0, k |-> 0] ELSE DoLookup(s1, n, B(fa))
         A1 == IF r.st = "OK" THEN Entry(N0("mknod", r.st, fa), "mknod", s1.dirent[n], r.k) ELSE N0("mknod", r.st, fa)
     IN Step(r.s, A1, [op |-> "mknod", p |-> 1, name |-> n, fail_at |-> fa], r.k, 0)

\* create (no O_EXCL): new name -> create_file_excl (descriptor), do_lookup, the descriptor becomes the handle;
\* existing name -> do_lookup, then open_inode; if that fails the reference just taken is not given back
\* trunc: O_TRUNC in the flags. With seal_size a truncating create of an existing name is refused (EPERM) BEFORE the name is
\* looked up, so no reference is taken.
Create(n, trunc, fa) ==
  /\ (m.dirent[n] = 0 => NewFile(m) # 0)
  /\ LET ex == m.dirent[n] # 0
         b0 == B(fa)
         nf == NewFile(m)
         res ==
           IF ROOT \notin DOMAIN m.data THEN [s |-> m, st |-> "EBADF", k |-> 0, h |-> 0]
           ELSE IF ~ex THEN
             IF b0 = 0 THEN [s |-> m, st |-> "EMFILE", k |-> 0, h |-> 0]
             ELSE LET s1 == [m EXCEPT !.dirent[n] = nf, !.hino[nf] = FreeIno(m)]
                      r == DoLookup(s1, n, b0 - 1)
                  IN IF r.st # "OK" THEN [s |-> r.s, st |-> r.st, k |-> 0, h |-> 0]
                     ELSE IF m.cfg.no_open THEN [s |-> r.s, st |-> "OK", k |-> r.k, h |-> 0]
                     ELSE [s |-> NewHandle(r.s, r.k), st |-> "OK", k |-> r.k, h |-> r.s.next_handle]
           ELSE IF m.cfg.seal /\ trunc THEN [s |-> m, st |-> "EPERM", k |-> 0, h |-> 0]
           ELSE LET r == DoLookup(m, n, b0) IN
                IF r.st # "OK" THEN [s |-> r.s, st |-> r.st, k |-> 0, h |-> 0]
                ELSE LET o == OpenInode(r.s, r.k, r.b) IN
                     IF o.st # "OK" THEN [s |-> IF BUG_CREATE_LEAK THEN r.s ELSE ForgetOne(r.s, r.k, 1), st |-> o.st, k |-> 0, h |-> 0]
                     ELSE IF m.cfg.no_open THEN [s |-> r.s, st |-> "OK", k |-> r.k, h |-> 0]
                     ELSE [s |-> NewHandle(r.s, r.k), st |-> "OK", k |-> r.k, h |-> r.s.next_handle]
         A0 == N0("create", res.st, fa)
         A1 == IF res.st = "OK" THEN OpenH(Entry(A0, "create", res.s.dirent[n], res.k), "create", res.k, res.h, FALSE) ELSE A0
     IN Step(res.s, A1, [op |-> "create", p |-> 1, name |-> n, flags |-> IF trunc THEN 514 ELSE 2, fail_at |-> fa], res.k, res.h)

Link(k, n, fa) ==
  LET res ==
        IF k \notin DOMAIN m.data \/ ROOT \notin DOMAIN m.data THEN [s |-> m, st |-> "EBADF", k |-> 0]
        ELSE LET g == GetFile(m, k, B(fa)) f == m.data[k].file IN
             IF g.st # "OK" THEN [s |-> m, st |-> g.st, k |-> 0]
             ELSE IF m.dirent[n] # 0 THEN [s |-> m, st |-> "EEXIST", k |-> 0]
             ELSE IF NLink(m, f) = 0 THEN [s |-> m, st |-> "ENOENT", k |-> 0]
             ELSE IF f = 1 THEN [s |-> m, st |-> "EPERM", k |-> 0]
             ELSE LET r == DoLookup([m EXCEPT !.dirent[n] = f], n, g.b) IN [s |-> r.s, st |-> r.st, k |-> r.k]
      A0 == N0("link", res.st, fa)
      A1 == IF res.st = "OK" THEN Entry(A0, "link", res.s.dirent[n], res.k) ELSE A0
  IN Step(res.s, A1, [op |-> "link", p |-> 1, name |-> n, p2 |-> Id(seenn, k), fail_at |-> fa], res.k, 0)

Unlink(n) ==
  LET ok == m.dirent[n] # 0 /\ ROOT \in DOMAIN m.data
      s1 == IF ok THEN [m EXCEPT !.dirent[n] = 0] ELSE m
      st == IF ROOT \notin DOMAIN m.data THEN "EBADF" ELSE IF ok THEN "OK" ELSE "ENOENT"
  IN Step(s1, N0("unlink", st, -1), [op |-> "unlink", p |-> 1, name |-> n], 0, 0)

Rename(n1, n2) ==
  /\ n1 # n2
  /\ LET ok == m.dirent[n1] # 0 /\ ROOT \in DOMAIN m.data
         s1 == IF ok /\ m.dirent[n1] # m.dirent[n2] THEN [m EXCEPT !.dirent[n2] = m.dirent[n1], !.dirent[n1] = 0] ELSE m
         st == IF ROOT \notin DOMAIN m.data THEN "EBADF" ELSE IF ok THEN "OK" ELSE "ENOENT"
     IN Step(s1, N0("rename", st, -1), [op |-> "rename", p |-> 1, name |-> n1, p2 |-> 1, name2 |-> n2], 0, 0)

ForgetOp(k, c) ==
  Step(ForgetOne(m, k, c), Forget(N0("forget", "OK", -1), k, c), [op |-> "forget", p |-> Id(seenn, k), n |-> c], 0, 0)

BatchForget(k1, c1, k2, c2) ==
  Step(ForgetOne(ForgetOne(m, k1, c1), k2, c2), Forget(Forget(N0("batch_forget", "OK", -1), k1, c1), k2, c2),
       [op |-> "batch_forget", items |-> <<<<Id(seenn, k1), c1>>, <<Id(seenn, k2), c2>>>>], 0, 0)

\* readdir / readdirplus of the root in refs / res mode: every entry is looked up; plain forgets it at once, plus
\* forgets the one that did not fit. `take` = entries delivered (stream order of the model = name order)
RECURSIVE Deliver(_, _, _, _, _)
\* result [s, A, ks]: ns = names still to offer, t = room left
Deliver(s, A, ns, t, plus) ==
  IF ns = <<>> THEN [s |-> s, A |-> A, ks |-> <<>>]
  ELSE LET r == DoLookup(s, Head(ns), INF) IN
       IF r.st # "OK" THEN [s |-> r.s, A |-> A, ks |-> <<>>]
       ELSE IF t = 0 THEN [s |-> ForgetOne(r.s, r.k, 1), A |-> A, ks |-> <<>>]          \* add_entry returned 0
       ELSE IF ~plus THEN LET d == Deliver(ForgetOne(r.s, r.k, 1), A, Tail(ns), t - 1, plus) IN [d EXCEPT !.ks = <<0>> \o @]
       ELSE LET d == Deliver(r.s, Entry(A, "readdirplus", s.dirent[Head(ns)], r.k), Tail(ns), t - 1, plus) IN [d EXCEPT !.ks = <<r.k>> \o @]
Present(s) == SelectSeq(NameSeq, LAMBDA n : s.dirent[n] # 0)
ReaddirRoot(h, take, plus, fa) ==
  /\ take \in 0..Cardinality(Names)
  /\ LET op == IF plus THEN "readdirplus" ELSE "readdir"
         nod == m.cfg.no_opendir
         \* get_dirdata: the handle, or a temporary descriptor
         pre == IF ~nod THEN (IF h \in DOMAIN m.handles /\ m.handles[h].inode = ROOT THEN "OK" ELSE "EBADF")
                ELSE OpenInode(m, ROOT, B(fa)).st
         d == IF pre = "OK" THEN Deliver(m, N0(op, "OK", fa), Present(m), take, plus) ELSE [s |-> m, A |-> N0(op, pre, fa), ks |-> <<>>]
         A1 == UseH(d.A, "readdir", ROOT, h, pre)
         ck == IF pre = "OK" /\ ~nod /\ Present(m) # <<>> THEN [d.s EXCEPT !.cookies = Upd(@, h, 1)] ELSE d.s
         RECURSIVE SeenAll(_, _)
         SeenAll(q, ks) == IF ks = <<>> THEN q ELSE SeenAll(Seen(q, Head(ks)), Tail(ks))
     IN /\ m' = ck
        /\ seenn' = SeenAll(seenn, d.ks)
        /\ seenh' = seenh
        /\ a' = Observe(A1, ck, SeenAll(seenn, d.ks))
        /\ hist' = Append(hist, [op |-> "readdir", p |-> 1, h |-> Id(seenh, h), size |-> (IF plus THEN 160 ELSE 32) * take + 8, plus |-> plus, fail_at |-> fa])

OpenOp(k, dir, fa) ==
  LET op == IF dir THEN "opendir" ELSE "open"
      no == IF dir THEN m.cfg.no_opendir ELSE m.cfg.no_open
      o == OpenInode(m, k, B(fa))
      \* OPENDIR of a file: ENOTDIR. OPEN of a directory is issued read-only (hist flags 0) and succeeds: the handle can be
      \* listed through (readdir records a cookie for it) and is released with RELEASE
      okType == k \in DOMAIN m.data => (dir => m.data[k].file = 1)
      st == IF no THEN "ENOSYS" ELSE IF o.st # "OK" THEN o.st ELSE IF ~okType THEN "ENOTDIR" ELSE "OK"
      s1 == IF st = "OK" THEN NewHandle(m, k) ELSE m
      h == IF st = "OK" THEN m.next_handle ELSE 0
      A1 == IF st = "OK" THEN OpenH(N0(op, st, fa), op, k, h, m.data[k].file = 1) ELSE N0(op, st, fa)
  IN Step(s1, A1, [op |-> op, p |-> Id(seenn, k), flags |-> IF ~dir /\ k \in DOMAIN m.data /\ m.data[k].file = 1 THEN 0 ELSE 2, fail_at |-> fa], 0, h)

\* fl: FUSE_RELEASE_FLUSH (1) / FLOCK_UNLOCK (2) -- ignored by release(), which allocates nothing: FailAt cannot hit it
ReleaseOp(k, h, dir, fl, fa) ==
  LET op == IF dir THEN "releasedir" ELSE "release"
      no == IF dir THEN m.cfg.no_opendir ELSE m.cfg.no_open
      hit == h \in DOMAIN m.handles /\ m.handles[h].inode = k
      st == IF no THEN "ENOSYS" ELSE IF hit THEN "OK" ELSE "EBADF"
      \* do_release: the handle, then its cookie
      s1 == IF st = "OK" THEN [m EXCEPT !.handles = Del(@, h), !.cookies = IF h \in DOMAIN @ THEN Del(@, h) ELSE @] ELSE m
  IN Step(s1, ReleaseH(N0(op, st, fa), op, k, h, st), [op |-> op, p |-> Id(seenn, k), h |-> Id(seenh, h), flags |-> fl, fail_at |-> fa], 0, 0)

ReadOp(k, h, fa) ==
  LET hit == h \in DOMAIN m.handles /\ m.handles[h].inode = k
      st == IF ~m.cfg.no_open THEN (IF hit THEN "OK" ELSE "EBADF") ELSE OpenInode(m, k, B(fa)).st      \* get_data
  IN Step(m, UseH(N0("read", st, fa), "read", k, h, st), [op |-> "read", p |-> Id(seenn, k), h |-> Id(seenh, h), size |-> 8, fail_at |-> fa], 0, 0)

\* write through (k, h); ext: beyond the end of the file. get_data, then (seal_size) the size check refuses an extending
\* write with EPERM; the handle and its descriptor are untouched either way
WriteOp(k, h, ext, fa) ==
  LET hit == h \in DOMAIN m.handles /\ m.handles[h].inode = k
      pre == IF ~m.cfg.no_open THEN (IF hit THEN "OK" ELSE "EBADF") ELSE OpenInode(m, k, B(fa)).st
      isdir == IF m.cfg.no_open THEN k \in DOMAIN m.data /\ m.data[k].file = 1 ELSE hit /\ m.handles[h].file = 1
      st == IF pre = "OK" /\ isdir THEN (IF m.cfg.no_open THEN "EISDIR" ELSE "EBADF")     \* the host refuses writes on directories
            ELSE IF pre = "OK" /\ m.cfg.seal /\ ext THEN "EPERM" ELSE pre
  IN Step(m, UseH(N0("write", st, fa), "write", k, h, st),
          [op |-> "write", p |-> Id(seenn, k), h |-> Id(seenh, h), off |-> IF ext THEN "5000" ELSE "0", fail_at |-> fa], 0, 0)

DestroyOp(fa) ==
  LET s0 == [m EXCEPT !.handles = <<>>, !.cookies = <<>>, !.data = <<>>, !.by_id = <<>>, !.by_handle = <<>>]
      r == Import(s0, B(fa))
  IN /\ m' = r.s /\ seenn' = seenn /\ seenh' = seenh
     /\ a' = Destroy(N0("destroy", "OK", fa))
     /\ hist' = Append(hist, [op |-> "destroy", fail_at |-> fa])
\* INIT. After DESTROY it starts the next session; a second INIT WITHOUT a DESTROY re-imports the root (its InodeData is
\* replaced) and leaves every other inode, reference and open handle as it is -- next_handle is a monotone counter that is
\* never reset, so handle numbers stay distinct
InitOp(fa) ==
  /\ LET r == Import(m, B(fa)) IN
     Step(r.s, Inited(N0("init", r.st, fa), r.st), [op |-> "init", fail_at |-> fa], 0, 0)

\* dir mode: READDIR(h, size entry units, resume after the j-th real entry), plain or plus
DirOp(h, size, j, plus) ==
  LET real == NonDots(m.raw)
      off == IF j = 0 THEN 0 ELSE real[j][2]
      rb == ReadBatch(m, h, size, off)
      give == LET nd == NonDots(rb.buf) IN SubSeq(nd, 1, IF Len(nd) > size THEN size ELSE Len(nd))
      ev == [d |-> 2, off |-> Ck(off), size |-> 32 * size, plus |-> FALSE, status |-> "OK", bytes |-> 32 * Len(give), fail_at |-> -1,
             ents |-> [i \in DOMAIN give |-> <<give[i][1], 8, Ck(give[i][2]), 0, 0>>]]
      s1 == [m EXCEPT !.cookies = rb.cookies, !.handles = IF m.cfg.no_opendir THEN @ ELSE [@ EXCEPT ![h].pos = rb.pos]]
  IN /\ j \in 0..Len(real)
     /\ m' = s1 /\ seenn' = seenn /\ seenh' = seenh
     /\ a' = DirReply(a, ev)
     /\ hist' = Append(hist, <<h, j, size, plus>>)

\* pseudo fs (src/api/pseudo_fs.rs do_readdir): offsets are child indices; entries from children[offset..] while they fit
PseudoOp(size, j) ==
  LET ch == NonDots(m.raw)         \* the children, in insertion order
      give == IF j >= Len(ch) THEN <<>> ELSE SubSeq(ch, j + 1, IF j + size > Len(ch) THEN Len(ch) ELSE j + size)
      ev == [d |-> 2, off |-> Ck(j), size |-> 32 * size, plus |-> FALSE, status |-> "OK", bytes |-> 32 * Len(give), fail_at |-> -1,
             ents |-> [i \in DOMAIN give |-> <<give[i][1], 0, Ck(j + i), 0, 0>>]]
  IN /\ j \in 0..Len(ch)
     /\ UNCHANGED <<m, seenn, seenh>>
     /\ a' = DirReply(a, ev)
     /\ hist' = Append(hist, <<0, j, size, FALSE>>)

Nums == Range(seenn)
Hs == Range(seenh) \cup {7}           \* 7: a handle never issued
Next ==
  /\ Len(hist) < MaxLen
  /\ IF ~a.up THEN \E fa \in Fails : InitOp(fa)
     ELSE IF MODE = "refs" THEN
          \/ \E n \in Names : Lookup(n, -1) \/ Mknod(n, -1) \/ Unlink(n)
          \/ InitOp(-1)
          \/ \E n \in Names, tr \in (IF m.cfg.seal THEN BOOLEAN ELSE {FALSE}) : Create(n, tr, -1)
          \/ \E n \in Names, k \in Nums : Link(k, n, -1)
          \/ \E n1, n2 \in Names : Rename(n1, n2)
          \/ \E k \in Nums, c \in Counts : ForgetOp(k, c)
          \/ \E k1, k2 \in Nums : k1 < k2 /\ BatchForget(k1, 1, k2, 2)
          \/ \E t \in 0..2, plus \in BOOLEAN : ReaddirRoot(0, t, plus, -1)
     ELSE IF MODE = "res" THEN
          \/ \E n \in Names, fa \in Fails : Lookup(n, fa) \/ Create(n, m.cfg.seal, fa)
          \/ \E k \in Nums, h \in Hs, ext \in BOOLEAN : WriteOp(k, h, ext, -1)
          \/ \E k \in Nums, fa \in Fails : OpenOp(k, FALSE, fa) \/ OpenOp(k, TRUE, fa)
          \/ \E k \in Nums, h \in Hs : \E fl \in {0, 1}, fa \in {-1, 0} : ReleaseOp(k, h, FALSE, fl, fa) \/ ReleaseOp(k, h, TRUE, 0, fa)
          \/ \E k \in Nums, h \in Hs, fa \in Fails : ReadOp(k, h, fa)
          \/ \E h \in Hs, fa \in Fails : ReaddirRoot(h, 1, TRUE, fa)
          \/ \E k \in Nums : ForgetOp(k, 1) \/ ForgetOp(k, 3)
          \/ \E fa \in Fails : DestroyOp(fa) \/ InitOp(fa)
     ELSE IF m.cfg.via = "pseudo" THEN \E size \in 1..2, j \in 0..4 : PseudoOp(size, j)
     ELSE \E h \in 1..2, size \in 1..3, j \in 0..4, plus \in {FALSE} : DirOp(h, size, j, plus)

Spec == MCInit /\ [][Next]_vars
\* hist and the ORDER of first appearance are scenario bookkeeping; which numbers / handles the client knows is state
\* ... and the history length bounds the exploration, so it is state too
View == <<m, a, Range(seenn), Range(seenh), Len(hist)>>

(* ------------------------------------------ checking ----------------------------------------- *)
\* signatures the BUG switches stand for (the trace check lists the same defects in known_findings.json)
Allowed ==
  (IF BUG_CREATE_LEAK THEN {"C08|create-failed|stale-number-resolves", "C08|create-failed|inode-objects-surplus", "C08|create-failed|refcount",
                            "C08|create-failed|inode-not-released", "C15|mc|any|fds", "C15|mc|any|inodes"} ELSE {})
  \cup (IF BUG_PROBE_LEAK THEN {"C15|mc|any|fds"} ELSE {})
  \cup (IF BUG_DOTS THEN {"C16|pt|empty-before-end|dots-fill-buffer"} ELSE {})
NoViol == a.viol \subseteq Allowed
\* as-found self-test (MC_PtRefs_*_asfound.cfg: one BUG switch back on): must be violated with the old signature
NoViolStrict == a.viol = {}
\* the client-visible state is what A says: a number resolves iff its count is positive (no ghosts) -- a direct
\* statement of C08 over the model, independent of the probes
Resolves == \A k \in Range(seenn) : (a.up /\ k \notin a.taint /\ a.viol = {}) => ((k \in DOMAIN m.data) <=> Valid(a, k))
\* terminal states export their scenario (sampled); evaluated as a state constraint so that it runs once per state
Export ==
  IF Len(hist) = MaxLen /\ TLCGet("distinct") % Sample = 0
  THEN PrintT(<<"REPLAY", ToJson([fh |-> m.cfg.fh, hostino |-> m.cfg.hostino, no_open |-> m.cfg.no_open, no_opendir |-> m.cfg.no_opendir,
                                  via |-> m.cfg.via, seal |-> m.cfg.seal, special |-> SPECIAL_A, names |-> [i \in DOMAIN NonDots(m.raw) |-> NonDots(m.raw)[i][1]],
                                  viol |-> a.viol, ops |-> hist])>>)
  ELSE TRUE
=============================================================================
