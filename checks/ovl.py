"""C10 / C11: the overlay shows the overlayfs union, follows the operations, never touches lowers (C10);
a fresh instance over the same directories shows the same tree after every prefix (C11). Engine: ovl.

  1. TLC model-checks OverlayImpl (the code's upper-layer mutations and in-memory tree, transcribed
     from src/overlayfs/mod.rs) against Overlay (union rules + ordinary file system semantics) for
     every layer content over a small universe and every short operation sequence. A counterexample
     is exported as a scenario, replayed on the real OverlayFs by harness/src/bin/ovl.rs and judged
     by Trace_Overlay.tla; when the real code reproduces it and its signature is listed in
     known_findings.json the corresponding taint predicate is enabled and TLC explores past it.
  2. Scenarios exported from TLC (simulation walks of the I spec) and a seeded random driver
     (1-3 lowers, names {a,b,c}, depth 3, 30 operations, contents across the 4 MiB copy loop,
     modes, symlinks, xattrs, no-upper instances) run on the real code; after every step the whole
     tree is walked through the running instance and through a freshly built second instance, and
     TLC validates the log against the A spec.
Each check reports only its own property's signatures ("C10|..." / "C11|...")."""
import json
import os
import re
import shutil

from . import common as C

LEVEL = {"C10": "model_checking", "C11": "model_checking"}
INVS = {"C10": ["LoadAgrees", "LiveIsView", "StatusAgrees", "LowersFrozen"], "C11": ["RestartSame"]}
OPS = ["create", "mknod", "mkdir", "symlink", "link", "unlink", "rmdir", "write", "truncate", "chmod", "setxattr", "removexattr",
       "open", "hsetattr", "hwrite", "close"]


# ------------------------------------------------------------------------------------------------
def all_known():
    with open(os.path.join(C.VERIF, "known_findings.json")) as f:
        d = json.load(f)
    return [k for k in d.get("known", []) if k.get("engine") == "ovl"]


def taints_for(sigs):
    """taint ids of the known findings (of either property) matched by one of the signatures"""
    out = set()
    for k in all_known():
        if k.get("taint") and any(re.fullmatch(k["signature"], s) for s in sigs):
            out.add(k["taint"])
    return out


def gen_cfg(ctx, base, name, known=(), invs=None, consts=None):
    """copy spec/<base> to the work dir with Known / INVARIANTS / constants rewritten"""
    with open(os.path.join(C.SPEC, base)) as f:
        t = f.read()
    t = re.sub(r"Known = \{[^}]*\}", "Known = {%s}" % ", ".join('"%s"' % k for k in sorted(known)), t)
    if invs is not None:
        t = re.sub(r"^INVARIANTS.*$", ("INVARIANTS " + " ".join(invs)) if invs else "", t, flags=re.M)
    for k, v in (consts or {}).items():
        t = re.sub(r"^(\s*%s = ).*$" % k, r"\g<1>%s" % v, t, flags=re.M)
    p = ctx.path(name)
    with open(p, "w") as f:
        f.write(t)
    return p


def tuples(out, tag):
    """<<"TAG", "a", "json...">> tuples printed by TLC (possibly wrapped over lines)"""
    res = []
    for m in re.finditer(r'<<\s*"%s",(.*?)>>\s*(?=\n|$)' % tag, out, re.S):
        res.append(C.parse_tla_tuple("<<" + '"%s",' % tag + m.group(1) + ">>"))
    return res


def viols_of(res):
    out = []
    txt = res["output"]
    parts = re.split(r'(?m)^(?=<<\s*"(?:VIOL|ACCEPTED|STUCK)")', txt)
    for p in parts:
        m = re.match(r'<<\s*"VIOL",\s*"([^"]+)",\s*(\d+),(.*)', p, re.S)
        if m:
            out.append((m.group(1), int(m.group(2)), " ".join(m.group(3).split())[:1200]))
    return out


# ------------------------------------------------------------------------------------------------
class Runner:
    def __init__(self, ctx):
        self.ctx = ctx
        self.bindir = C.build_harness(bins=["ovl"])
        self.n = 0
        self.opcount = {}
        self.other = {}        # signatures of the sibling property seen (not reported here)
        self.segments = 0
        self.rediscovered = set()
        self.markers = {"upper": {}, "lower": {}}   # opaque marker names really present on disk, by layer position

    def harness(self, mode, args, env=None):
        self.n += 1
        out = self.ctx.path("trace%d.ndjson" % self.n)
        work = self.ctx.path("fs%d" % self.n)
        a = [mode, work] + args + [out]
        C.run_bin(self.bindir, "ovl", a, env=dict(env or {}, VERIF_SEED=self.ctx.seed), timeout=3000)
        shutil.rmtree(work, ignore_errors=True)
        return out

    def judge(self, trace_file, what, report=True):
        """validate one trace file; returns [(sig, seg, scenario)] for all signatures"""
        ctx = self.ctx
        res = C.tlc_trace(ctx, "Trace_Overlay", trace_file, timeout=3000, xmx="8g")
        if not res["accepted"]:
            C.log(res["output"][-3000:])
            raise C.ToolError("trace %s not consumed by Trace_Overlay" % what)
        ev = C.read_ndjson(trace_file)
        ctx.events += len(ev)
        segs = {}
        for i, e in enumerate(ev):
            segs.setdefault(e["seg"], []).append(i)
            if e["e"] == "Layers":
                for pos, rows in (("upper", e["upper"]),) + tuple(("lower", r) for r in e["lowers"]):
                    for r in rows:
                        if r.get("opq"):
                            self.markers[pos][r["opq"]] = self.markers[pos].get(r["opq"], 0) + 1
            if e["e"] == "Op":
                k = "%s:%s" % (e["op"], "ok" if e["st"] == 0 else "fail")
                self.opcount[k] = self.opcount.get(k, 0) + 1
        ctx.traces += len(segs)
        self.segments += len(segs)
        ctx.states += res.get("distinct", 0)
        ctx.transitions += res.get("distinct", 0)
        found = []
        for sig, idx, detail in viols_of(res):
            e = ev[idx - 1] if idx - 1 < len(ev) else {}
            seg = e.get("seg")
            scn = scenario_of(ev, segs.get(seg, []), idx - 1)
            found.append((sig, seg, scn))
            if sig.startswith(ctx.pid + "|"):
                if report:
                    ctx.violation(sig, {"from": what, "event": idx, "expected_vs_logged": detail}, replay_src={"scenario": scn, "signature": sig})
            else:
                self.other[sig] = self.other.get(sig, 0) + 1
        return found, ev


def scenario_of(ev, idxs, upto):
    """re-executable scenario of a segment, operations up to event index `upto`"""
    scn = {"ops": []}
    for i in idxs:
        e = ev[i]
        if e["e"] == "Reset":
            scn.update({"id": e.get("id"), "B": e["B"], "upper": e["upper"], "names": e["names"], "depth": e.get("depth", 2)})
        elif e["e"] == "Layers":
            layers = ([e["upper"]] if scn.get("upper") else []) + e["lowers"]
            scn["layers"] = [[row_in(r) for r in rows] for rows in layers]
        elif e["e"] == "Op" and i <= upto:
            scn["ops"].append({k: v for k, v in e.items() if k not in ("e", "seg", "st")})
    return scn


def row_in(r):
    x = {k: r[k] for k in ("p", "t", "m", "c", "tg", "opq", "x") if k in r}
    if r["t"] == "wh":
        x = {"p": r["p"], "t": "wh"}
    return x


# ------------------------------------------------------------------------------------------------
def mc_with_rediscovery(ctx, run, base, label, invs, consts=None, timeout=900, xmx="3g", start=()):
    """model-check; replay each counterexample on the real code; enable the taint of a reproduced
    known finding and continue; an unknown reproduced signature is a violation, a counterexample the
    code does not reproduce is model drift."""
    enabled = set(start)        # taints of findings this very run has already rediscovered in a smaller configuration
    hits = []
    for it in range(8):
        cfg = gen_cfg(ctx, base, "%s_%d.cfg" % (label, it), known=enabled, invs=invs, consts=consts)
        r = C.tlc_mc(ctx, "MC_Overlay", cfg=cfg, workers=8, timeout=timeout, must_cover=False, expect_violation=True, xmx=xmx)
        cex = tuples(r["output"], "CEX")
        if not r["violated"]:
            if r["zero_coverage"] and not enabled.issuperset({"__none__"}):
                raise C.ToolError("vacuity gate: actions never taken in %s: %s" % (base, r["zero_coverage"]))
            ctx.extra.setdefault("action_coverage", {})[label] = {k: v for k, v in r.get("actions", {}).items() if not k.endswith(("!Init",))}
            ctx.extra.setdefault("mc_taints_enabled", {})[label] = sorted(enabled)
            run.rediscovered |= enabled
            return hits
        if not cex:
            C.log(r["output"][-3000:])
            raise C.ToolError("TLC reported %s violated but exported no counterexample" % r["violated"])
        inv, scn = cex[0][1], json.loads(cex[0][2])
        sf = ctx.path("%s_cex%d.scn" % (label, it))
        C.write_ndjson(sf, [scn])
        tf = run.harness("run", [sf])
        found, _ = run.judge(tf, "MC counterexample %s/%s" % (label, inv))
        sigs = [f[0] for f in found]
        hits.append({"invariant": inv, "scenario_ops": scn["ops"], "reproduced_as": sigs})
        C.log("  MC %s: %s violated by %s -> real code: %s" % (label, inv, json.dumps(scn["ops"]), sigs or "NOT reproduced"))
        if not sigs:
            ctx.drift.append({"config": label, "invariant": inv, "scenario": scn})
            C.log("MODEL-DRIFT %s: counterexample of %s is not reproduced by the code" % (ctx.pid, inv))
            return hits
        new = taints_for(sigs) - enabled
        if not new:
            # reproduced, not a known finding (reported by judge if it is this property's) - cannot explore past it
            return hits
        enabled |= new
    raise C.ToolError("model checking of %s did not converge" % label)


def asfound_selftest(ctx, invs):
    """anti-vacuity: with the as-found behaviour switched back on in the I spec (the code before the fix commits)
    TLC must find the counterexamples again; nothing of this run is counted as evidence of the property"""
    which = {"C11": ('{"S5", "S14"}', "RestartSame"), "C10": ('{"UDIR"}', "StatusAgrees")}[ctx.pid]
    cfg = gen_cfg(ctx, "MC_Overlay_quick.cfg", "asfound.cfg", known={"XCU"}, invs=invs, consts={"AsFound": which[0]})
    r = C.tlc_mc(ctx, "MC_Overlay", cfg=cfg, workers=8, timeout=600, must_cover=False, expect_violation=True, xmx="3g")
    ctx.states -= r["distinct"]
    ctx.transitions -= r["generated"]
    ctx.mc_runs.pop()
    cex = tuples(r["output"], "CEX")
    if which[1] not in r["violated"] or not cex:
        raise C.ToolError("anti-vacuity: I spec with AsFound = %s does not violate %s" % which)
    ctx.extra["anti_vacuity"] = {"as_found_behaviour": which[0], "invariant_violated": which[1],
                                 "counterexample_ops": json.loads(cex[0][2])["ops"]}


def binding_demo(ctx, run, ev):
    """corrupt one field / drop one row of a real, accepted segment: TLC must reject each"""
    # first segment with an upper layer, a successful op, and at least one view row
    segs = {}
    for e in ev:
        segs.setdefault(e["seg"], []).append(e)
    pick = None
    for s, es in segs.items():
        ops = [e for e in es if e["e"] == "Op"]
        views = [e for e in es if e["e"] == "View"]
        if es[0].get("upper") and es[0].get("nl", 0) >= 1 and any(o["st"] == 0 and o["op"] != "rename" for o in ops) and all(len(v["rows"]) > 0 for v in views[0:3]) and len(views) > 2:
            pick = es
            break
    if pick is None:
        raise C.ToolError("binding demo: no suitable segment")
    demo = []
    cases = []

    def expect(name, mutate, pattern):
        es = json.loads(json.dumps(pick))
        mutate(es)
        cases.append((name, es, pattern))

    def first_op_idx(es):
        return next(i for i, e in enumerate(es) if e["e"] == "Op" and e["st"] == 0 and e["op"] != "rename")

    def m_perm(es):
        i = first_op_idx(es)
        v = next(e for e in es[i:] if e["e"] == "View")
        row = next(r for r in v["rows"] if r["t"] in ("file", "dir"))
        row["m"] = row["m"] ^ 0o022

    def m_drop_restart(es):
        i = first_op_idx(es)
        v = next(e for e in es[i:] if e["e"] == "Restarted")
        leaf = max(v["rows"], key=lambda r: len(r["p"]))
        v["rows"].remove(leaf)

    def m_digest(es):
        i = first_op_idx(es)
        v = next(e for e in es[i:] if e["e"] == "Lower")
        v["digest"] = "0" * 16

    def m_status(es):
        i = first_op_idx(es)
        es[i]["st"] = 5

    def m_initial(es):
        v = next(e for e in es if e["e"] == "View")
        leaf = max(v["rows"], key=lambda r: len(r["p"]))
        v["rows"].remove(leaf)

    expect("permission bits of one row of the live view changed", m_perm, r"C10\|.*view-differs")
    expect("one row of the restarted view dropped", m_drop_restart, r"C11\|.*restart-differs")
    expect("lower digest changed", m_digest, r"C10\|.*lower-changed")
    expect("status of a successful operation turned into EIO", m_status, r"C10\|.*unexpected-failure")
    expect("one row of the initial view dropped", m_initial, r"C10\|init\|union-rules")
    # one TLC run: segment 1 = the untouched segment, segments 2.. = the corrupted copies
    allev = []
    for k, es in enumerate([pick] + [c[1] for c in cases]):
        for e in es:
            allev.append(dict(e, seg=k + 1))
    f = ctx.path("binding.ndjson")
    C.write_ndjson(f, allev)
    r = C.tlc_trace(ctx, "Trace_Overlay", f)
    byseg = {}
    for sig, idx, _ in viols_of(r):
        byseg.setdefault(allev[idx - 1]["seg"], set()).add(sig)
    before = byseg.get(1, set())
    for k, (name, _, pattern) in enumerate(cases):
        new = byseg.get(k + 2, set()) - before
        if not any(re.search(pattern, x) for x in new):
            raise C.ToolError("binding demo failed: corruption '%s' not rejected (new signatures: %s)" % (name, sorted(new)))
        demo.append({"corruption": name, "rejected_with": sorted(new)[:3]})
    ctx.extra["binding_demo"] = demo


# ------------------------------------------------------------------------------------------------
def run_prop(ctx):
    run = Runner(ctx)
    if getattr(ctx, "replay", None):
        # a replay must not overwrite the evidence of the last full run
        evf = os.path.join(C.EVIDENCE, ctx.pid + ".json")
        keep = open(evf).read() if os.path.exists(evf) else None
        orig_finish = ctx.finish

        def finish_keep():
            rc = orig_finish()
            if keep is not None:
                with open(evf, "w") as f:
                    f.write(keep)
            return rc
        ctx.finish = finish_keep
        with open(ctx.replay) as f:
            d = json.load(f)
        scn = d.get("scenario", d)
        scn = scn.get("scenario", scn)
        sf = ctx.path("replay.scn")
        C.write_ndjson(sf, [scn])
        found, _ = run.judge(run.harness("run", [sf]), "replay " + ctx.replay)
        C.log("replay: signatures %s" % [f[0] for f in found])
        return
    invs = INVS[ctx.pid]
    quick = ctx.quick
    mc_hits = {}
    # --- 1. model checking, rediscovering the listed findings through counterexample replay
    mc_hits["quick"] = mc_with_rediscovery(ctx, run, "MC_Overlay_quick.cfg", "quick", invs)
    if ctx.pid == "C10":
        mc_hits["noupper"] = mc_with_rediscovery(ctx, run, "MC_Overlay_noupper.cfg", "noupper", invs)
    if not quick:
        mc_hits["seq2"] = mc_with_rediscovery(ctx, run, "MC_Overlay_seq2.cfg", "seq2", invs, timeout=1500, xmx="8g", start=set(run.rediscovered))
        mc_hits["thorough"] = mc_with_rediscovery(ctx, run, "MC_Overlay_thorough.cfg", "thorough", invs, timeout=1500, xmx="8g", start=set(run.rediscovered))
    ctx.extra["mc_counterexamples"] = mc_hits
    asfound_selftest(ctx, invs)
    # --- 2. scenarios exported from TLC (simulation walks of the I spec), replayed on the real code
    nwalk = 120 if quick else 1500
    base = "MC_Overlay_2lq.cfg" if quick else "MC_Overlay_2l.cfg"     # two lowers: three-layer union rules on the real code
    cfg = gen_cfg(ctx, base, "export.cfg", known=(), invs=["Export"], consts={"MaxOps": 3})
    r = C.tlc_mc(ctx, "MC_Overlay", cfg=cfg, workers=4, timeout=1200, simulate="num=%d" % nwalk, depth=5, coverage=False, must_cover=False, xmx="3g")
    scns = []
    import random
    rnd = random.Random(ctx.seed)
    for t in tuples(r["output"], "REPLAY"):
        s = json.loads(t[1])
        # each opaque directory is marked with exactly one of the three xattr names (seeded choice)
        for rows in s["layers"]:
            for row in rows:
                if row.get("opq"):
                    row["opq"] = rnd.choice(["trusted", "user", "fuse"])
        s["id"] = "sim%d" % len(scns)
        scns.append(s)
        if len(scns) >= nwalk:
            break
    if len(scns) < nwalk // 2:
        C.log(r["output"][-2000:])
        raise C.ToolError("scenario export produced only %d scenarios" % len(scns))
    # plus a no-upper instance of each 10th scenario
    extra = []
    for s in scns[::10]:
        t = dict(s, upper=False, layers=s["layers"][1:], id=s["id"] + "nu")
        extra.append(t)
    sf = ctx.path("sim.scn")
    C.write_ndjson(sf, scns + extra)
    found, ev = run.judge(run.harness("run", [sf]), "TLC-exported scenarios")
    ctx.extra["tlc_scenarios_replayed"] = len(scns) + len(extra)
    ctx.sample({"scenario": scns[0], "verdict": "validated by Trace_Overlay"})
    binding_demo(ctx, run, ev)
    # --- 3. systematic layer stacks (every combination of absent/file/dir/opaque dir/whiteout/symlink for one name
    #        over upper + 2 lowers and over 2 lowers alone, judged by the union rules) and copy-up chains through
    #        lower-only directories with sticky / unusual modes
    seg0 = run.segments
    found, _ = run.judge(run.harness("stacks", []), "systematic layer stacks")
    ctx.extra["systematic_stack_scenarios"] = run.segments - seg0
    # --- 4. seeded random driver far beyond TLC's bounds
    nscen = 30 if quick else 700
    tf = run.harness("random", [], env={"OVL_SCEN": nscen, "OVL_OPS": 30, "OVL_BIG": 10 if quick else 12})
    found, ev = run.judge(tf, "random driver")
    for sig, seg, scn in found[:2]:
        ctx.sample({"signature": sig, "scenario_ops": scn["ops"][-3:]})
    # coverage gate: every operation kind succeeded and failed at least once on the real code
    missing = [o for o in OPS if run.opcount.get(o + ":ok", 0) == 0]
    if missing:
        raise C.ToolError("coverage gate: operations never successful on the real code: %s" % missing)
    for pos in ("upper", "lower"):
        if set(run.markers[pos]) != {"trusted", "user", "fuse"}:
            raise C.ToolError("coverage gate: opaque marker names exercised in %s layers: %s" % (pos, run.markers[pos]))
    ctx.extra["opaque_markers_exercised"] = run.markers
    ctx.extra.update({
        "op_coverage": run.opcount,
        "distinct_nontrivial": len(run.opcount) + run.segments,
        "rule": "scenario segments (distinct layer contents x operation sequences) + distinct (operation, outcome) kinds",
        "other_property_signatures_seen": run.other,
        "random_scenarios": nscen,
    })
    ctx.assumptions += [
        "the harness walks the whole tree after every step (every visible directory is loaded); restart = a second OverlayFs over the same directories after every prefix, not a crash inside an operation",
        "lower layers are compared by a digest of names, types, modes, owners, xattrs, sizes, bytes and link targets taken with plain system calls",
        "the I spec does not model lookup counts / the inode store and side effects of failing operations; the real code is judged directly by the A spec on every replayed and random scenario",
        "hard links and special files inside the initial layers are not generated; contents are whole blocks (512 B .. 64 KiB), big files cross the 4 MiB copy loop",
    ]


PROPS = {"C10": run_prop, "C11": run_prop}
