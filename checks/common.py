"""Shared machinery of the /verif check driver.

Conventions (see DESIGN.md section 7):
  * every check is `run(ctx) -> None` where ctx is a `Ctx`; it records MC runs, validated
    traces, samples and violations on ctx and the driver writes evidence/<id>.json and decides
    the exit code;
  * exit 0 = property held on everything explored (known findings are printed as
    KNOWN-FINDING lines), exit 1 = at least one VIOLATION line, exit 2 = tool failure;
  * scratch files live in /verif/.work/<id>/ (removed at the start of each run), replay files in
    /verif/replays/.
"""
import json
import os
import re
import shutil
import subprocess
import sys
import time

VERIF = os.path.dirname(os.path.dirname(os.path.abspath(__file__)))
SPEC = os.path.join(VERIF, "spec")
# The registered checks always use /verif/harness (path dependency on /repo). For measuring detection of
# seeded changes without touching /repo, tools/mutant.py points these at a scratch copy of the harness
# whose dependency is a scratch worktree, and at scratch work/evidence/replay directories.
HARNESS = os.environ.get("VERIF_HARNESS") or os.path.join(VERIF, "harness")
HARNESS_ASYNC = os.path.join(VERIF, "harness-async")
WORK = os.environ.get("VERIF_WORK") or os.path.join(VERIF, ".work")
REPLAYS = os.environ.get("VERIF_REPLAYS") or os.path.join(VERIF, "replays")
EVIDENCE = os.environ.get("VERIF_EVIDENCE") or os.path.join(VERIF, "evidence")
TLA_CP = "/opt/veriftools/tla/tla2tools.jar:/opt/veriftools/tla/CommunityModules-deps.jar"


class ToolError(Exception):
    """The machinery itself failed (build error, TLC crash, calibration failure, timeout)."""


def log(*a):
    print(*a, flush=True)


class Ctx:
    def __init__(self, pid, tier, seed, level="model_checking"):
        self.pid = pid
        self.tier = tier
        self.seed = seed
        self.level = level
        self.t0 = time.time()
        self.work = os.path.join(WORK, pid)
        shutil.rmtree(self.work, ignore_errors=True)
        os.makedirs(self.work, exist_ok=True)
        os.makedirs(REPLAYS, exist_ok=True)
        self.states = 0
        self.transitions = 0
        self.mc_runs = []          # [{module, cfg, distinct, generated, wall_s, ...}]
        self.traces = 0            # segments / scenarios validated against the implementation
        self.events = 0
        self.samples = []
        self.violations = []       # [{signature, detail, replay}]
        self.known_hit = []
        self.extra = {}
        self.assumptions = []
        self.drift = []
        self.known = load_known(pid)

    @property
    def quick(self):
        return self.tier == "quick"

    def path(self, name):
        return os.path.join(self.work, name)

    def add_mc(self, r):
        self.states += r["distinct"]
        self.transitions += r["generated"]
        self.mc_runs.append({k: r[k] for k in ("module", "cfg", "distinct", "generated", "wall_s", "depth", "zero_coverage") if k in r})

    def sample(self, s):
        if len(self.samples) < 6:
            self.samples.append(s)

    def violation(self, signature, detail, replay_src=None):
        """Record one violation signature. replay_src: file (copied to /verif/replays) or dict."""
        for k in self.known:
            if re.fullmatch(k["signature"], signature):
                if not any(h["signature"] == k["signature"] for h in self.known_hit):
                    self.known_hit.append({"signature": k["signature"], "what": k["what"], "first": signature, "count": 1})
                else:
                    for h in self.known_hit:
                        if h["signature"] == k["signature"]:
                            h["count"] += 1
                return False
        for v in self.violations:
            if v["signature"] == signature:
                v["count"] += 1
                return True
        n = len(self.violations)
        rp = os.path.join(REPLAYS, "%s_%s_%d_%d.json" % (self.pid, self.tier, self.seed, n))
        if isinstance(replay_src, str) and os.path.exists(replay_src):
            shutil.copy(replay_src, rp)
        else:
            with open(rp, "w") as f:
                json.dump({"property": self.pid, "signature": signature, "detail": detail,
                           "seed": self.seed, "tier": self.tier, "scenario": replay_src}, f, indent=1, default=str)
        self.violations.append({"signature": signature, "detail": detail, "replay": rp, "count": 1})
        return True

    def finish(self):
        wall = time.time() - self.t0
        for h in self.known_hit:
            log("KNOWN-FINDING: property=%s %s [signature %s, %d occurrence(s)]" % (self.pid, h["what"], h["signature"], h["count"]))
        for v in self.violations:
            log("VIOLATION property=%s replay=%s" % (self.pid, v["replay"]))
            log("  signature: %s (%d occurrence(s))" % (v["signature"], v["count"]))
            log("  detail: %s" % (json.dumps(v["detail"], default=str)[:1500]))
        cov = {
            "states": self.states,
            "transitions": self.transitions,
            "traces_validated_against_impl": self.traces,
            "samples": self.samples if self.samples else ["(none recorded)"],
            "events_validated": self.events,
            "model_checking_runs": self.mc_runs,
            "known_findings_hit": self.known_hit,
            "model_drift": self.drift,
            "exhaustive": False,
            "evaluations": max(self.traces, 1),
            "distinct_nontrivial": max(self.extra.get("distinct_nontrivial", 0), 0),
            "rule": self.extra.get("rule", ""),
        }
        for k, v in self.extra.items():
            if k not in ("distinct_nontrivial", "rule"):
                cov[k] = v
        if self.level == "other" and "explanation" not in cov:
            cov["explanation"] = self.extra.get("rule", "see DESIGN.md")
        ev = {
            "property_id": self.pid,
            "tier": self.tier,
            "seed": self.seed,
            "level": self.level,
            "coverage": cov,
            "assumptions": self.assumptions,
            "wall_s": round(wall, 2),
            "violations": len(self.violations),
        }
        os.makedirs(EVIDENCE, exist_ok=True)
        with open(os.path.join(EVIDENCE, self.pid + ".json"), "w") as f:
            json.dump(ev, f, indent=1, default=str)
        log("%s %s: %d MC states, %d transitions, %d impl traces (%d events), %d violation(s), %d known finding(s), %.1fs" % (
            self.pid, self.tier, self.states, self.transitions, self.traces, self.events,
            len(self.violations), len(self.known_hit), wall))
        shutil.rmtree(self.work, ignore_errors=True)
        return 1 if self.violations else 0


def load_known(pid):
    p = os.path.join(VERIF, "known_findings.json")
    if not os.path.exists(p):
        return []
    with open(p) as f:
        d = json.load(f)
    return [k for k in d.get("known", []) if k["property"] == pid]


# ------------------------------------------------------------------------------------------------
# building the harness

_built = set()


def cargo_env():
    """Environment for cargo that does not depend on rustup's per-user default being configured: the toolchain the
    repository builds with in this sandbox is named explicitly, and CARGO_HOME / RUSTUP_HOME point at the
    pre-installed registry cache and toolchains when the caller's HOME does not."""
    env = dict(os.environ, CARGO_NET_OFFLINE="true")
    for var, path in (("RUSTUP_HOME", "/root/.rustup"), ("CARGO_HOME", "/root/.cargo")):
        if var not in env and os.path.isdir(path):
            env[var] = path
    tc = "stable-x86_64-unknown-linux-gnu"
    tcdir = os.path.join(env.get("RUSTUP_HOME", os.path.expanduser("~/.rustup")), "toolchains", tc)
    if "RUSTUP_TOOLCHAIN" not in env and os.path.isdir(tcdir):
        env["RUSTUP_TOOLCHAIN"] = tc
        env["PATH"] = os.path.join(tcdir, "bin") + os.pathsep + env.get("PATH", "")
    cbin = os.path.join(env.get("CARGO_HOME", ""), "bin")
    if os.path.isdir(cbin) and cbin not in env.get("PATH", ""):
        env["PATH"] = env.get("PATH", "") + os.pathsep + cbin
    return env


def build_harness(which="main", release=False, bins=None, features=None, target=None):
    """cargo build of the harness (path dependency on /repo => rebuilt from its working tree).
    bins: list of binary names to build (default: all); features/target: cargo features and a separate
    target directory (the async-io build of fuse-backend-rs is kept apart from the default one)."""
    d = HARNESS if which == "main" else HARNESS_ASYNC
    key = (d, release, tuple(bins or ()), features, target)
    out = os.path.join(d, target or "target", "release" if release else "debug")
    if key in _built:
        return out
    lock = os.path.join(d, "Cargo.lock")
    if not os.path.exists(lock):
        shutil.copy("/repo/Cargo.lock", lock)
    cmd = ["cargo", "build", "--offline"] + (["--release"] if release else [])
    if features:
        cmd += ["--features", features]
    if target:
        cmd += ["--target-dir", target]
    if bins:
        for b in bins:
            cmd += ["--bin", b]
    else:
        cmd += ["--bins"]
    env = cargo_env()
    t = time.time()
    r = subprocess.run(cmd, cwd=d, env=env, stdout=subprocess.PIPE, stderr=subprocess.STDOUT, text=True)
    if r.returncode != 0:
        log(r.stdout[-6000:])
        raise ToolError("cargo build failed in %s" % d)
    log("built harness %s %s in %.1fs" % (which, bins or "all", time.time() - t))
    _built.add(key)
    return out


def run_bin(bindir, name, args, env=None, timeout=3600, cwd=None, ok_codes=(0,)):
    e = dict(os.environ)
    e.setdefault("RUST_BACKTRACE", "0")
    if env:
        e.update({k: str(v) for k, v in env.items()})
    try:
        r = subprocess.run([os.path.join(bindir, name)] + [str(a) for a in args], env=e, cwd=cwd,
                           stdout=subprocess.PIPE, stderr=subprocess.PIPE, text=True, timeout=timeout)
    except subprocess.TimeoutExpired:
        raise ToolError("harness %s timed out after %ds" % (name, timeout))
    if r.returncode not in ok_codes:
        log(r.stdout[-3000:])
        log(r.stderr[-3000:])
        raise ToolError("harness %s %s exited %d" % (name, " ".join(map(str, args)), r.returncode))
    return r


# ------------------------------------------------------------------------------------------------
# TLC

_RE_STATES = re.compile(r"^(\d+) states generated, (\d+) distinct states found, (\d+) states left on queue", re.M)
_RE_DEPTH = re.compile(r"The depth of the complete state graph search is (\d+)")
_RE_INV = re.compile(r"Invariant (\S+) is violated")
_RE_COV = re.compile(r"^<(\w+) line (\d+), col (\d+) to line (\d+), col (\d+) of module (\w+)>: (\d+):(\d+)", re.M)


def _java(args, cwd, env, timeout, xmx="8g", xss=None, deque=False):
    opts = ["-XX:+UseParallelGC", "-Xmx" + xmx]
    if xss:
        opts.append("-Xss" + xss)
    if deque:
        opts.append("-Dtlc2.tool.queue.IStateQueue=StateDeque")
    e = dict(os.environ)
    e.pop("JAVA_TOOL_OPTIONS", None)
    if env:
        e.update({k: str(v) for k, v in env.items()})
    cmd = ["java"] + opts + ["-cp", TLA_CP, "tlc2.TLC"] + args
    try:
        r = subprocess.run(cmd, cwd=cwd, env=e, stdout=subprocess.PIPE, stderr=subprocess.STDOUT, text=True, timeout=timeout)
    except subprocess.TimeoutExpired as ex:
        out = ex.stdout.decode() if isinstance(ex.stdout, bytes) else (ex.stdout or "")
        raise ToolError("TLC timed out after %ds: %s\n%s" % (timeout, " ".join(args), out[-2000:]))
    return r


def tlc_mc(ctx, module, cfg=None, workers=8, env=None, timeout=1800, xmx="12g", coverage=True,
           cont=False, expect_violation=False, simulate=None, depth=None, extra=None, must_cover=True,
           ignore_uncovered=()):
    """Model-check spec/<module>.tla with spec/<cfg>. Returns a dict; records the run on ctx.

    A violated invariant is returned in r['violated'] (list of names) with r['output'];
    callers decide whether that is a finding of the design-level model."""
    cfg = cfg or (module + ".cfg")
    meta = ctx.path("tlc_%s_%s" % (module, os.path.splitext(os.path.basename(cfg))[0]))
    shutil.rmtree(meta, ignore_errors=True)
    args = ["-workers", str(workers), "-metadir", meta, "-noGenerateSpecTE", "-config", cfg]
    if coverage and not simulate:
        args += ["-coverage", "1"]
    if cont:
        args += ["-continue"]
    if simulate:
        args += ["-simulate", simulate]
    if depth:
        args += ["-depth", str(depth)]
    args += ["-seed", str(ctx.seed)] if simulate else []
    if extra:
        args += extra
    args += [module + ".tla"]
    t = time.time()
    r = _java(args, SPEC, env, timeout, xmx=xmx, xss="512m")
    wall = time.time() - t
    out = r.stdout
    shutil.rmtree(meta, ignore_errors=True)
    m = _RE_STATES.findall(out)
    res = {"module": module, "cfg": cfg, "wall_s": round(wall, 1), "output": out, "rc": r.returncode,
           "generated": int(m[-1][0]) if m else 0, "distinct": int(m[-1][1]) if m else 0,
           "violated": sorted(set(_RE_INV.findall(out)))}
    d = _RE_DEPTH.search(out)
    if d:
        res["depth"] = int(d.group(1))
    if "Error:" in out and not res["violated"] and "is violated" not in out:
        # parse / semantic / evaluation errors
        if not expect_violation or "Parsing or semantic analysis failed" in out or "Exception" in out:
            log(out[-4000:])
            raise ToolError("TLC error in %s/%s" % (module, cfg))
    if not m and not simulate and not (expect_violation and res["violated"]):
        log(out[-4000:])
        raise ToolError("TLC produced no state count for %s/%s" % (module, cfg))
    # coverage: action-level lines look like "<Name line a, col b to line c, col d of module M>: distinct:generated"
    zero = []
    if coverage and not simulate:
        seen = {}
        for name, l1, c1, l2, c2, mod, a, b in _RE_COV.findall(out):
            seen[(mod, name)] = max(seen.get((mod, name), 0), int(b))
        zero = sorted("%s!%s" % k for k, v in seen.items() if v == 0 and k[1] not in ignore_uncovered and k[1] != "Init")
        res["actions"] = {"%s!%s" % k: v for k, v in seen.items()}
    res["zero_coverage"] = zero
    if must_cover and zero and not res["violated"]:
        log(out[-3000:])
        raise ToolError("vacuity gate: actions never taken in %s/%s: %s" % (module, cfg, zero))
    ctx.add_mc(res)
    return res


def tlc_trace(ctx, module, trace_file, cfg=None, env=None, timeout=1800, xmx="4g", silent_steps=False):
    """Validate an NDJSON trace with spec/<module>.tla (a Trace_* module).

    The module reads IOEnv.TRACE; it prints lines
        <<"VIOL", signature, index, detail>>      one per property failure (monitor mode)
        <<"STUCK", index, event>>                 when the trace cannot be extended (blocking mode)
        <<"ACCEPTED", n>>                         when all n events were consumed
    Returns {accepted, viols: [(sig, idx, detail)], stuck, n, output}."""
    cfg = cfg or (module + ".cfg")
    meta = ctx.path("tlctr_%s_%d" % (module, int(time.time() * 1000) % 10 ** 9))
    args = ["-workers", "1", "-metadir", meta, "-noGenerateSpecTE", "-config", cfg, module + ".tla"]
    e = {"TRACE": trace_file}
    if env:
        e.update(env)
    t = time.time()
    r = _java(args, SPEC, e, timeout, xmx=xmx, xss="1g", deque=True)
    out = r.stdout
    shutil.rmtree(meta, ignore_errors=True)
    res = {"output": out, "wall_s": round(time.time() - t, 1), "viols": [], "stuck": None, "accepted": False, "n": 0}
    for line in out.splitlines():
        line = line.strip()
        if line.startswith('<<"VIOL"'):
            res["viols"].append(line)
        elif line.startswith('<<"STUCK"'):
            res["stuck"] = line
        elif line.startswith('<<"ACCEPTED"'):
            res["accepted"] = True
            mm = re.search(r"(\d+)", line)
            res["n"] = int(mm.group(1)) if mm else 0
    if not res["accepted"] and res["stuck"] is None:
        log(out[-4000:])
        raise ToolError("TLC trace validation of %s produced neither ACCEPTED nor STUCK" % module)
    m = _RE_STATES.findall(out)
    if m:
        res["distinct"] = int(m[-1][1])
    return res


_RE_MARK = re.compile(r'<<\s*"(VIOL|ACCEPTED|STUCK|DRIFT|EXTRA)"')
_RE_VHEAD = re.compile(r'<<\s*"VIOL",\s*"([^"]+)",\s*(\d+)\s*,?')


def parse_viols(output):
    """All <<"VIOL", signature, index, detail>> tuples printed by a trace spec, robust against TLC wrapping long
    tuples over several lines and against Progress(...) lines interleaved with PrintT output.
    Returns [(signature, index, detail-text)]."""
    lines = [l for l in output.splitlines() if not l.startswith("Progress(") and not l.startswith("Checkpointing")]
    txt = " ".join(lines)
    marks = [(m.start(), m.group(1)) for m in _RE_MARK.finditer(txt)]
    out = []
    for i, (pos, kind) in enumerate(marks):
        if kind != "VIOL":
            continue
        end = marks[i + 1][0] if i + 1 < len(marks) else len(txt)
        seg = txt[pos:end]
        h = _RE_VHEAD.match(seg)
        if not h:
            raise ToolError("unparsable VIOL tuple in TLC output: %s" % seg[:200])
        detail = " ".join(seg[h.end():].split())
        # cut the trailing ">>" of the tuple and anything TLC printed after it
        k = detail.rfind(">>")
        out.append((h.group(1), int(h.group(2)), (detail[:k] if k >= 0 else detail)[:800]))
    return out


def parse_tla_tuple(line):
    """Parse a TLC-printed tuple of strings/ints like <<"VIOL", "sig", 12, "detail">> into a list."""
    body = line.strip()
    if body.startswith("<<") and body.endswith(">>"):
        body = body[2:-2]
    out = []
    i = 0
    while i < len(body):
        c = body[i]
        if c == '"':
            j = i + 1
            s = []
            while j < len(body) and body[j] != '"':
                if body[j] == "\\" and j + 1 < len(body):
                    s.append(body[j + 1])
                    j += 2
                else:
                    s.append(body[j])
                    j += 1
            out.append("".join(s))
            i = j + 1
        elif c in " ,":
            i += 1
        else:
            j = i
            depth = 0
            while j < len(body) and (depth > 0 or body[j] != ","):
                if body[j] in "<[({":
                    depth += 1
                elif body[j] in ">])}":
                    depth -= 1
                j += 1
            tok = body[i:j].strip()
            try:
                out.append(int(tok))
            except ValueError:
                out.append(tok)
            i = j
    return out


def sany(module):
    r = subprocess.run(["java", "-cp", TLA_CP, "tla2sany.SANY", module + ".tla"], cwd=SPEC,
                       stdout=subprocess.PIPE, stderr=subprocess.STDOUT, text=True)
    ok = r.returncode == 0 and "Semantic errors" not in r.stdout and "Parse Error" not in r.stdout and "Fatal errors" not in r.stdout and "Could not" not in r.stdout
    return ok, r.stdout


def read_ndjson(path):
    with open(path) as f:
        return [json.loads(l) for l in f if l.strip()]


def write_ndjson(path, rows):
    with open(path, "w") as f:
        for r in rows:
            f.write(json.dumps(r, separators=(",", ":")) + "\n")
