//! C12 driver: replays INIT negotiation cases exported by TLC from spec/FuseInit.tla on four real
//! stacks (Server<ScriptedFs>, Server<PassthroughFs>, Server<Vfs + PassthroughFs>, Server<OverlayFs>),
//! records the decoded INIT reply, the `want` set the filesystem returned (through the server's
//! MetricsHook), the behaviour switches observed with probes, and the answer to a second INIT.
use fuse_backend_rs::abi::fuse_abi::{CreateIn, FsOptions, FUSE_ATTR_DAX, WRITE_KILL_PRIV};
use fuse_backend_rs::api::filesystem::{Context, FileSystem, Layer, ZeroCopyReader, ZeroCopyWriter};
use fuse_backend_rs::api::server::{InitParams, MetricsHook, Server};
use fuse_backend_rs::api::{Vfs, VfsOptions};
use fuse_backend_rs::file_traits::FileReadWriteVolatile;
use fuse_backend_rs::overlayfs::{config::Config as OvlConfig, OverlayFs};
use fuse_backend_rs::passthrough::{Config as PtConfig, PassthroughFs};
use serde_json::{json, Value};
use std::ffi::CString;
use std::io;
use std::os::unix::fs::PermissionsExt;
use std::sync::{Arc, Mutex};
use vharness::scripted::{Ret, ScriptedFs};
use vharness::util::{env_u64, Rng, Trace};
use vharness::wirecodec::{Abi, Vals};
use vharness::xport::{run_fusedev_hook, SeqPair};

const UNIVERSE: &[(&str, &str)] = &[
    ("ASYNC_READ", "FUSE_ASYNC_READ"), ("BIG_WRITES", "FUSE_BIG_WRITES"), ("ATOMIC_O_TRUNC", "FUSE_ATOMIC_O_TRUNC"),
    ("WRITEBACK_CACHE", "FUSE_WRITEBACK_CACHE"), ("ZERO_MESSAGE_OPEN", "FUSE_NO_OPEN_SUPPORT"), ("ZERO_MESSAGE_OPENDIR", "FUSE_NO_OPENDIR_SUPPORT"),
    ("HANDLE_KILLPRIV_V2", "FUSE_HANDLE_KILLPRIV_V2"), ("MAX_PAGES", "FUSE_MAX_PAGES"), ("INIT_EXT", "FUSE_INIT_EXT"),
    ("DO_READDIRPLUS", "FUSE_DO_READDIRPLUS"), ("READDIRPLUS_AUTO", "FUSE_READDIRPLUS_AUTO"), ("PERFILE_DAX", "FUSE_HAS_INODE_DAX"),
    ("HAS_RESEND", "FUSE_HAS_RESEND"),
];

fn bits_of(abi: &Abi, names: &Value) -> u64 {
    let mut v = 0u64;
    for n in names.as_array().unwrap() {
        let k = UNIVERSE.iter().find(|(a, _)| *a == n.as_str().unwrap()).expect("bit name").1;
        v |= abi.konst(k);
    }
    v
}
/// names of the universe bits set in v, and the remaining bits
fn names_of(abi: &Abi, v: u64) -> (Vec<String>, u64) {
    let mut rest = v;
    let mut out = Vec::new();
    for (n, k) in UNIVERSE {
        let b = abi.konst(k);
        if v & b != 0 {
            out.push(n.to_string());
            rest &= !b;
        }
    }
    (out, rest)
}

struct Hook {
    want: Mutex<Option<(u64, u64)>>,
}
impl MetricsHook for Hook {
    fn collect(&self, _ih: &fuse_backend_rs::abi::fuse_abi::InHeader) {}
    fn on_init_params(&self, p: &InitParams) {
        *self.want.lock().unwrap() = Some((p.capable.bits(), p.want.bits()));
    }
    fn release(&self, _oh: Option<&fuse_backend_rs::abi::fuse_abi::OutHeader>) {}
}

struct VecReader(Vec<u8>, usize);
impl io::Read for VecReader {
    fn read(&mut self, buf: &mut [u8]) -> io::Result<usize> {
        let n = buf.len().min(self.0.len() - self.1);
        buf[..n].copy_from_slice(&self.0[self.1..self.1 + n]);
        self.1 += n;
        Ok(n)
    }
}
impl ZeroCopyReader for VecReader {
    fn read_to(&mut self, f: &mut dyn FileReadWriteVolatile, count: usize, off: u64) -> io::Result<usize> {
        let n = count.min(self.0.len() - self.1);
        let mut data = self.0[self.1..self.1 + n].to_vec();
        let slice = unsafe { fuse_backend_rs::file_buf::FileVolatileSlice::from_raw_ptr(data.as_mut_ptr(), n) };
        let w = f.write_at_volatile(slice, off)?;
        self.1 += w;
        Ok(w)
    }
}
struct VecWriter(Vec<u8>);
impl io::Write for VecWriter {
    fn write(&mut self, buf: &[u8]) -> io::Result<usize> {
        self.0.extend_from_slice(buf);
        Ok(buf.len())
    }
    fn flush(&mut self) -> io::Result<()> {
        Ok(())
    }
}
impl ZeroCopyWriter for VecWriter {
    fn write_from(&mut self, f: &mut dyn FileReadWriteVolatile, count: usize, off: u64) -> io::Result<usize> {
        let mut data = vec![0u8; count];
        let slice = unsafe { fuse_backend_rs::file_buf::FileVolatileSlice::from_raw_ptr(data.as_mut_ptr(), count) };
        let n = f.read_at_volatile(slice, off)?;
        self.0.extend_from_slice(&data[..n]);
        Ok(n)
    }
    fn available_bytes(&self) -> usize {
        1 << 20
    }
}

fn errno(e: &io::Error) -> i32 {
    e.raw_os_error().unwrap_or(-1)
}

/// Behaviour switches observed through the FileSystem API of an initialised filesystem whose root holds
/// a regular file "f" (mode 04755, 10 bytes) and a directory "d".
fn probe<F: FileSystem>(fs: &F, dir: &str) -> Value {
    let ctx = Context::default();
    let root = || F::Inode::from(1u64);
    let ino = |i: u64| F::Inode::from(i);
    let hd = |h: u64| F::Handle::from(h);
    let mut na: Vec<&str> = Vec::new();
    let f = match fs.lookup(&ctx, root(), &CString::new("f").unwrap()) {
        Ok(e) => e,
        Err(e) => return json!({"error": format!("lookup f: {e}")}),
    };
    let d = match fs.lookup(&ctx, root(), &CString::new("d").unwrap()) {
        Ok(e) => e,
        Err(e) => return json!({"error": format!("lookup d: {e}")}),
    };
    let dax = f.attr_flags & FUSE_ATTR_DAX != 0;
    // no_open: OPEN answered ENOSYS
    let (no_open, handle): (bool, Option<u64>) = match fs.open(&ctx, ino(f.inode), libc::O_WRONLY as u32, 0) {
        Ok((h, _, _)) => (false, h.map(Into::into)),
        Err(e) => (errno(&e) == libc::ENOSYS, None),
    };
    let no_opendir = match fs.opendir(&ctx, ino(d.inode), libc::O_RDONLY as u32) {
        Ok((h, _)) => {
            if let Some(h) = h {
                let _ = fs.releasedir(&ctx, ino(d.inode), 0, h);
            }
            false
        }
        Err(e) => errno(&e) == libc::ENOSYS,
    };
    // writeback: a write-only open is silently widened to read-write, so a READ on that handle works
    let mut writeback = false;
    if let Some(h) = handle {
        let mut w = VecWriter(Vec::new());
        writeback = fs.read(&ctx, ino(f.inode), hd(h), &mut w, 4, 0, None, libc::O_WRONLY as u32).is_ok();
    } else {
        na.push("writeback");
    }
    // killpriv_v2: a WRITE carrying WRITE_KILL_PRIV clears the set-uid bit although the server runs as root
    let path = format!("{dir}/f");
    let _ = std::fs::set_permissions(&path, std::fs::Permissions::from_mode(0o4755));
    let h = handle.unwrap_or(0);
    let mut r = VecReader(b"x".to_vec(), 0);
    let wres = fs.write(&ctx, ino(f.inode), hd(h), &mut r, 1, 0, None, false, libc::O_WRONLY as u32, WRITE_KILL_PRIV);
    let mode = std::fs::metadata(&path).map(|m| m.permissions().mode()).unwrap_or(0);
    let killpriv = wres.is_ok() && mode & 0o4000 == 0;
    if wres.is_err() {
        na.push("killpriv");
    }
    if let Some(h) = handle {
        let _ = fs.release(&ctx, ino(f.inode), 0, hd(h), false, false, None);
    }
    json!({"no_open": no_open, "no_opendir": no_opendir, "writeback": writeback, "killpriv": killpriv, "dax": dax, "na": na})
}

fn mktree(dir: &str) {
    let _ = std::fs::remove_dir_all(dir);
    std::fs::create_dir_all(format!("{dir}/d")).unwrap();
    std::fs::write(format!("{dir}/f"), b"0123456789").unwrap();
    std::fs::set_permissions(format!("{dir}/f"), std::fs::Permissions::from_mode(0o4755)).unwrap();
}

fn pt_config(dir: &str, sw: &Value, import: bool) -> PtConfig {
    PtConfig {
        root_dir: dir.to_string(),
        do_import: import,
        no_open: import && sw["no_open"].as_bool().unwrap(),
        no_opendir: import && sw["no_opendir"].as_bool().unwrap(),
        writeback: import && sw["wb"].as_bool().unwrap(),
        killpriv_v2: import && sw["killpriv"].as_bool().unwrap(),
        dax_file_size: Some(0),
        xattr: true,
        // PassthroughFs::new resets no_open unless cache=always
        cache_policy: fuse_backend_rs::passthrough::CachePolicy::Always,
        ..Default::default()
    }
}

fn init_request(abi: &Abi, rng: &mut Rng, k: &Value) -> Vec<u8> {
    let major = match k["major"].as_str().unwrap() {
        "lt" => rng.below(7),
        "gt" => rng.range(8, 40),
        _ => 7,
    };
    let minor = match k["minor"].as_str().unwrap() {
        "m4" => *rng.pick(&[0u64, 4]),
        "m22" => *rng.pick(&[5u64, 12, 22]),
        _ => *rng.pick(&[23u64, 31, 33, 38, 40]),
    };
    let mut v = Vals::new();
    v.insert("major".into(), major);
    v.insert("minor".into(), minor);
    v.insert("max_readahead".into(), rng.next() & 0xffff_ffff);
    v.insert("flags".into(), bits_of(abi, &k["flags"]) & 0xffff_ffff);
    v.insert("flags2".into(), bits_of(abi, &k["flags2"]) >> 32);
    let mut body = abi.encode("fuse_init_in", &v);
    if !k["ext"].as_bool().unwrap() {
        body.truncate(16);
    }
    let mut h = Vals::new();
    h.insert("len".into(), 40 + body.len() as u64);
    h.insert("opcode".into(), abi.konst("FUSE_INIT"));
    h.insert("unique".into(), rng.next());
    let mut bytes = abi.encode("fuse_in_header", &h);
    bytes.extend(body);
    bytes
}

fn decode_init_reply(abi: &Abi, msgs: &[Vec<u8>]) -> Value {
    if msgs.len() != 1 || msgs[0].len() < 16 {
        return json!({"status": "noreply", "size": 0, "flags": [], "flags2": [], "other": "0", "major": 0, "max_write": 0, "max_pages": 0});
    }
    let m = &msgs[0];
    let err = i32::from_le_bytes([m[4], m[5], m[6], m[7]]);
    if err != 0 {
        let st = if -err == libc::EPROTO { "EPROTO".to_string() } else if -err == libc::EINVAL { "EINVAL".to_string() } else { format!("E{}", -err) };
        return json!({"status": st, "size": 0, "flags": [], "flags2": [], "other": "0", "major": 0, "max_write": 0, "max_pages": 0});
    }
    let body = &m[16..];
    let mut full = body.to_vec();
    full.resize(64, 0);
    let mut o = serde_json::Map::new();
    abi.decode("fuse_init_out", &full, "", &mut o);
    let g = |n: &str| o[n].as_str().unwrap().parse::<u64>().unwrap();
    let (lo, rest1) = names_of(abi, g("flags"));
    let (hi, rest2) = names_of(abi, g("flags2") << 32);
    json!({"status": "ok", "size": body.len(), "flags": lo, "flags2": hi, "other": (rest1 | rest2).to_string(), "major": g("major"),
           "minor": g("minor"), "max_write": g("max_write"), "max_pages": g("max_pages")})
}

fn want_json(abi: &Abi, hook: &Hook) -> Value {
    match *hook.want.lock().unwrap() {
        Some((_c, w)) => {
            let (n, rest) = names_of(abi, w);
            json!({"seen": true, "bits": n, "other": rest.to_string()})
        }
        None => json!({"seen": false, "bits": [], "other": "0"}),
    }
}

fn negotiate<F: FileSystem + Sync>(abi: &Abi, rng: &mut Rng, server: &Server<F>, pair: &SeqPair, k: &Value) -> (Value, Value) {
    let hook = Hook { want: Mutex::new(None) };
    let req = init_request(abi, rng, k);
    let o = run_fusedev_hook(server, &req, 4096, None, pair, Some(&hook));
    (decode_init_reply(abi, &o.msgs), want_json(abi, &hook))
}

/// What the second INIT of a case offers (K2 of FuseInit.tla): the same, nothing, everything the client's minor allows, or
/// the complement of the first offer.
fn second_case(k: &Value, how: &str) -> Value {
    let scripted = k["stack"] == "scripted";
    let lo: &[&str] = if scripted { &["ASYNC_READ", "BIG_WRITES", "MAX_PAGES", "INIT_EXT"] } else {
        &["BIG_WRITES", "WRITEBACK_CACHE", "ZERO_MESSAGE_OPEN", "ZERO_MESSAGE_OPENDIR", "HANDLE_KILLPRIV_V2", "MAX_PAGES", "INIT_EXT"] };
    let hi: &[&str] = if scripted { &["PERFILE_DAX", "HAS_RESEND"] } else { &["PERFILE_DAX"] };
    let old22 = ["ASYNC_READ", "BIG_WRITES", "ATOMIC_O_TRUNC", "DO_READDIRPLUS", "READDIRPLUS_AUTO"];
    let minor = k["minor"].as_str().unwrap();
    let allow: Vec<&str> = match minor {
        "m4" => vec![],
        "m22" => lo.iter().copied().filter(|b| old22.contains(b)).collect(),
        _ => lo.to_vec(),
    };
    let allow2: Vec<&str> = if minor == "m33" { hi.to_vec() } else { vec![] };
    let has = |a: &Value, b: &str| a.as_array().unwrap().iter().any(|x| x == b);
    let mut k2 = k.clone();
    match how {
        "same" => {}
        "none" => {
            k2["flags"] = json!([]);
            k2["flags2"] = json!([]);
            k2["ext"] = json!(false);
        }
        "full" => {
            k2["flags"] = json!(allow);
            k2["flags2"] = json!(allow2);
            k2["ext"] = json!(minor == "m33");
        }
        _ => {
            k2["flags"] = json!(allow.iter().filter(|b| !has(&k["flags"], b)).collect::<Vec<_>>());
            k2["flags2"] = json!(allow2.iter().filter(|b| !has(&k["flags2"], b)).collect::<Vec<_>>());
            k2["ext"] = json!(minor == "m33");
        }
    }
    k2
}

fn destroy_request(abi: &Abi, rng: &mut Rng) -> Vec<u8> {
    let mut h = Vals::new();
    h.insert("len".into(), 40);
    h.insert("opcode".into(), abi.konst("FUSE_DESTROY"));
    h.insert("unique".into(), rng.next());
    abi.encode("fuse_in_header", &h)
}

/// The second session of a case: optionally DESTROY, then an INIT that offers something else.
fn second<F: FileSystem + Sync>(abi: &Abi, rng: &mut Rng, server: &Server<F>, pair: &SeqPair, k: &Value) -> Value {
    // after a major-version mismatch the client comes back with a 7.x INIT (the second step of the handshake)
    let how = if k["major"] == "eq" { *rng.pick(&["same", "none", "full", "compl", "none", "compl"]) } else if k["major"] == "gt" { *rng.pick(&["none", "full"]) } else { "same" };
    let destroyed = k["major"] == "eq" && rng.chance(1, 2);
    if destroyed {
        let _ = run_fusedev_hook(server, &destroy_request(abi, rng), 4096, None, pair, None);
    }
    let mut k2 = second_case(k, how);
    if k["major"] == "gt" {
        k2["major"] = json!("eq");
    }
    let (r2, want2) = negotiate(abi, rng, server, pair, &k2);
    json!({"how": how, "destroyed": destroyed, "k": k2, "r": r2, "want": want2})
}

fn main() {
    let args: Vec<String> = std::env::args().collect();
    let abi = Abi::load(&args[1]);
    let cases = std::fs::read_to_string(&args[2]).expect("cases");
    let mut tr = Trace::create(&args[3]);
    let work = &args[4];
    let stride = args.get(5).map(|s| s.parse::<usize>().unwrap()).unwrap_or(1);
    let seed = env_u64("VERIF_SEED", 1);
    let mut rng = Rng::new(seed);
    let pair = SeqPair::new();
    let no_t = json!({"no_open": false, "no_opendir": false, "writeback": false, "killpriv": false, "dax": false, "na": []});
    for (i, line) in cases.lines().enumerate() {
        if line.trim().is_empty() {
            continue;
        }
        let case: Value = serde_json::from_str(line).expect("case");
        // the few version-mismatch cases are always replayed, the large capability product is sampled
        if case["k"]["major"] == "eq" && (i + seed as usize) % stride != 0 {
            continue;
        }
        let k = &case["k"];
        let stack = k["stack"].as_str().unwrap();
        let dir = format!("{work}/t");
        let (r, want, second, t) = match stack {
            "scripted" => {
                let fs = Arc::new(ScriptedFs::new("s"));
                fs.set(Ret::Init(bits_of(&abi, &k["want"])));
                let server = Server::new(fs.clone());
                let (r, w) = negotiate(&abi, &mut rng, &server, &pair, k);
                let mut s = second(&abi, &mut rng, &server, &pair, k);
                s["t"] = no_t.clone();
                (r, w, s, no_t.clone())
            }
            "pt" => {
                mktree(&dir);
                let fs = Arc::new(PassthroughFs::<()>::new(pt_config(&dir, &k["sw"], true)).expect("pt"));
                let server = Server::new(fs.clone());
                let (r, w) = negotiate(&abi, &mut rng, &server, &pair, k);
                let t = if r["status"] == "ok" && k["major"] == "eq" { probe(&*fs, &dir) } else { no_t.clone() };
                let mut s = second(&abi, &mut rng, &server, &pair, k);
                s["t"] = if (r["status"] == "ok" && k["major"] == "eq") || (s["r"]["status"] == "ok" && s["k"]["major"] == "eq") { probe(&*fs, &dir) } else { no_t.clone() };
                (r, w, s, t)
            }
            "vfs_pt" => {
                mktree(&dir);
                let sw = &k["sw"];
                let vfs = Arc::new(Vfs::new(VfsOptions {
                    no_open: sw["no_open"].as_bool().unwrap(),
                    no_opendir: sw["no_opendir"].as_bool().unwrap(),
                    no_writeback: !sw["wb"].as_bool().unwrap(),
                    killpriv_v2: sw["killpriv"].as_bool().unwrap(),
                    ..Default::default()
                }));
                let pt = PassthroughFs::<()>::new(pt_config(&dir, sw, false)).expect("pt");
                pt.import().expect("import");
                vfs.mount(Box::new(pt), "/").expect("mount");
                let server = Server::new(vfs.clone());
                // the VFS's own record of the negotiation: its switches and the capability set it hands to backends
                let snapshot = |vfs: &Vfs| -> Value {
                    let o = vfs.options();
                    let (names, _) = names_of(&abi, o.out_opts.bits());
                    json!({"no_open": o.no_open, "no_opendir": o.no_opendir, "out": names})
                };
                let (r, w) = negotiate(&abi, &mut rng, &server, &pair, k);
                let mut t = if r["status"] == "ok" && k["major"] == "eq" { probe(&*vfs, &dir) } else { no_t.clone() };
                t["vo"] = snapshot(&vfs);
                let mut s = second(&abi, &mut rng, &server, &pair, k);
                s["t"] = if (r["status"] == "ok" && k["major"] == "eq") || (s["r"]["status"] == "ok" && s["k"]["major"] == "eq") { probe(&*vfs, &dir) } else { no_t.clone() };
                s["t"]["vo"] = snapshot(&vfs);
                // a backend mounted now is initialised with what is in force
                let late = ScriptedFs::new("late");
                late.set(Ret::Init(0));
                let mounted = vfs.mount(Box::new(late.clone()), "/late").is_ok();
                let cap = late.take_log().iter().find(|c| c["m"] == "init").map(|c| c["args"]["capable"].as_str().unwrap().parse::<u64>().unwrap());
                s["late"] = match cap {
                    Some(c) => json!({"mounted": mounted, "init": true, "capable": names_of(&abi, c).0}),
                    None => json!({"mounted": mounted, "init": false, "capable": []}),
                };
                (r, w, s, t)
            }
            _ => {
                mktree(&dir);
                let upper = format!("{work}/upper");
                let wk = format!("{work}/ovlwork");
                let _ = std::fs::remove_dir_all(&upper);
                let _ = std::fs::remove_dir_all(&wk);
                std::fs::create_dir_all(&upper).unwrap();
                std::fs::create_dir_all(&wk).unwrap();
                let mk = |d: &str| -> Box<dyn Layer<Inode = u64, Handle = u64> + Send + Sync> {
                    let fs = PassthroughFs::<()>::new(PtConfig { root_dir: d.to_string(), do_import: true, xattr: true, ..Default::default() }).expect("layer");
                    fs.import().expect("import");
                    Box::new(fs)
                };
                let sw = &k["sw"];
                let cfg = OvlConfig {
                    work: wk.clone(),
                    mountpoint: String::new(),
                    do_import: true,
                    no_open: sw["no_open"].as_bool().unwrap(),
                    no_opendir: sw["no_opendir"].as_bool().unwrap(),
                    writeback: sw["wb"].as_bool().unwrap(),
                    killpriv_v2: sw["killpriv"].as_bool().unwrap(),
                    perfile_dax: true,
                    ..Default::default()
                };
                let ovl = Arc::new(OverlayFs::new(Some(Arc::new(mk(&upper))), vec![Arc::new(mk(&dir))], cfg).expect("overlay"));
                let server = Server::new(ovl.clone());
                let (r, w) = negotiate(&abi, &mut rng, &server, &pair, k);
                // overlay: only the open/opendir switches are probed (the others need privileges on layers)
                let oprobe = || -> Value {
                    let ctx = Context::default();
                    let f = ovl.lookup(&ctx, 1, &CString::new("f").unwrap());
                    let d = ovl.lookup(&ctx, 1, &CString::new("d").unwrap());
                    match (f, d) {
                        (Ok(f), Ok(d)) => {
                            let no_open = matches!(ovl.open(&ctx, f.inode, libc::O_RDONLY as u32, 0), Err(e) if errno(&e) == libc::ENOSYS);
                            let no_opendir = matches!(ovl.opendir(&ctx, d.inode, libc::O_RDONLY as u32), Err(e) if errno(&e) == libc::ENOSYS);
                            json!({"no_open": no_open, "no_opendir": no_opendir, "writeback": false, "killpriv": false, "dax": false, "na": ["writeback", "killpriv", "dax"]})
                        }
                        _ => json!({"error": "overlay lookup failed"}),
                    }
                };
                let live = r["status"] == "ok" && k["major"] == "eq";
                let t = if live { oprobe() } else { no_t.clone() };
                let mut s = second(&abi, &mut rng, &server, &pair, k);
                s["t"] = if live || (s["r"]["status"] == "ok" && s["k"]["major"] == "eq") { oprobe() } else { no_t.clone() };
                (r, w, s, t)
            }
        };
        let _ = CreateIn::default();
        let _ = FsOptions::empty();
        tr.emit(&json!({"e": "Init", "k": k, "r": r, "want": want, "t": t, "second": second, "pred": case["pred"]}));
    }
    tr.emit(&json!({"e": "End"}));
    tr.flush();
}
