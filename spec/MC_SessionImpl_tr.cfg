SPECIFICATION Spec
CONSTANTS
  Readers = {1, 2}
  Late = {}
  NReq = 2
  Interrupts = TRUE
  Mut = "none"
  UmountWaits = FALSE
INVARIANTS TypeOK DeliveredOnce BufferIsRequest ExitWins NoneJustified NoLostWake NoLostReadiness ResultsAllowed NothingLost
