---------------------------- MODULE Trace_PtConc ----------------------------
(* Judge of property C09: recorded concurrent histories of lookup / forget / batch_forget /
   readdirplus / getattr on ONE file of a real PassthroughFs (harness/src/bin/ptconc.rs) are
   accepted iff they are LINEARISABLE against the sequential Refs object of PtConc.tla and the
   quiescent probes agree with the count produced by the chosen order.

   Events (NDJSON, IOEnv.TRACE):  Reset{..}  Call{t, op, cnts, fit}  Ret{t, op, val, kind}
                                  Probe{kind: refcount|getattr|drain, ..}
   A segment = Reset, the sequential setup calls of thread 0, the concurrent calls, the probes.
   Silent step Lin(t): the next atomic A-action of t's pending operation takes effect somewhere
   between its Call and its Ret (compound operations - readdirplus that did not fit, batch_forget -
   are sequences of atomic actions, the weaker reading). Blocking mode: an event that no
   explanation allows stops the search; the POSTCONDITION then prints <<"STUCK", index>> with
   the furthest event index reached (register 1). Run with -workers 1.

   Obligations:
     * every lookup / readdirplus entry returns the file's one number (learned at first sight);
     * forget returns nothing; getattr succeeds if the count is positive at its linearisation;
     * at quiescence (all calls returned): Probe refcount = refs (entry present iff refs > 0),
       Probe getattr succeeds iff refs > 0 (number usable until forgotten), Probe drain needs
       exactly refs forget(1) calls until EBADF;
     * a segment ends only after its probes (unless no number was ever returned). *)
EXTENDS PtConc, Naturals, Sequences, FiniteSets, TLC, Json, IOUtils

Rec == ndJsonDeserialize(IOEnv.TRACE)
N == Len(Rec)
TIds == 0..8

VARIABLES l,      \* index of the next event
          refs,   \* A: lookup references held on the file
          num,    \* A: the file's inode number ("" = not yet observed)
          pend,   \* per client thread: the operation in flight and its remaining atomic actions
          ph      \* "run" | "rc" | "ga" | "end": probe sequencing within a segment
vars == <<l, refs, num, pend, ph>>

Idle == [st |-> "idle", op |-> "", todo |-> <<>>, val |-> ""]
AllIdle == \A t \in TIds : pend[t].st = "idle"
Max(a, b) == IF a > b THEN a ELSE b

Init == /\ l = 1 /\ refs = 0 /\ num = "" /\ ph = "end"
        /\ pend = [t \in TIds |-> Idle]
        /\ TLCSet(1, 1)

Ev(e) == l <= N /\ Rec[l].e = e

Reset == /\ Ev("Reset")
         /\ AllIdle
         /\ ph = "end" \/ (ph = "run" /\ num = "")
         /\ l' = l + 1 /\ refs' = 0 /\ num' = "" /\ ph' = "run"
         /\ UNCHANGED pend

Call == /\ Ev("Call")
        /\ ph = "run"
        /\ LET r == Rec[l] IN
           /\ r.t \in TIds
           /\ pend[r.t].st = "idle"
           /\ r.op \in {"lookup", "forget", "rdp", "getattr"}
           /\ pend' = [pend EXCEPT ![r.t] = [st |-> "inv", op |-> r.op, todo |-> Plan(r.op, r.cnts, r.fit), val |-> ""]]
        /\ l' = l + 1 /\ UNCHANGED <<refs, num, ph>>

\* silent: the next atomic action of t's operation takes effect
\* (getattr in flight: C09 only demands that the number is usable while referenced; that it stops
\*  resolving at count 0 is C08's obligation, so at refs = 0 either outcome is accepted here)
Lin(t) == /\ pend[t].st = "inv"
          /\ pend[t].todo # <<>>
          /\ LET a == Head(pend[t].todo) IN
             /\ refs' = Apply(refs, a)
             /\ \E v \in (IF a.a # "get" THEN {pend[t].val} ELSE IF RefsUsable(refs) THEN {"ok"} ELSE {"ok", "ebadf"}) :
                  pend' = [pend EXCEPT ![t].todo = Tail(@), ![t].val = v]
          /\ UNCHANGED <<l, num, ph>>

Ret == /\ Ev("Ret")
       /\ LET r == Rec[l] IN
          /\ r.t \in TIds
          /\ pend[r.t].st = "inv"
          /\ pend[r.t].todo = <<>>
          /\ r.op = pend[r.t].op
          /\ CASE r.op \in {"lookup", "rdp"} ->
                    /\ r.kind = "ino"                       \* an existing file: the lookup succeeds
                    /\ num = "" \/ num = r.val              \* ... with the file's one number
                    /\ num' = r.val
               [] r.op = "forget" -> r.kind = "none" /\ UNCHANGED num
               [] r.op = "getattr" -> r.val = pend[r.t].val /\ UNCHANGED num
          /\ pend' = [pend EXCEPT ![r.t] = Idle]
       /\ l' = l + 1 /\ UNCHANGED <<refs, ph>>

Probe == /\ Ev("Probe")
         /\ AllIdle
         /\ LET r == Rec[l] IN
            /\ r.ino = num
            /\ CASE r.kind = "refcount" ->
                      /\ ph = "run" /\ ph' = "rc"
                      /\ r.count = refs /\ r.present = (refs > 0)
                      /\ UNCHANGED refs
                 [] r.kind = "getattr" ->
                      /\ ph = "rc" /\ ph' = "ga"
                      /\ r.ok = RefsUsable(refs)
                      /\ UNCHANGED refs
                 [] r.kind = "drain" ->
                      /\ ph = "ga" /\ ph' = "end"
                      /\ r.n = refs
                      /\ refs' = 0
                 [] OTHER -> FALSE
         /\ l' = l + 1 /\ UNCHANGED <<num, pend>>

Done == /\ l = N + 1
        /\ AllIdle
        /\ ph = "end" \/ (ph = "run" /\ num = "")
        /\ PrintT(<<"ACCEPTED", N>>)
        /\ l' = l + 1 /\ refs' = 0 /\ num' = "" /\ ph' = "end"
        /\ UNCHANGED pend

Next == Reset \/ Call \/ Ret \/ Probe \/ Done \/ \E t \in TIds : Lin(t)
Spec == Init /\ [][Next]_vars

\* furthest event index for which some explanation of all earlier events exists
Track == TLCSet(1, Max(TLCGet(1), l))
Post == IF TLCGet(1) < N + 2
        THEN PrintT(<<"STUCK", TLCGet(1), IF TLCGet(1) <= N THEN Rec[TLCGet(1)] ELSE [e |-> "EOF"]>>)
        ELSE TRUE
=============================================================================
