//! pttree: drives a real PassthroughFs (standalone and behind a Vfs) and, in lock step, a shadow
//! directory through plain system calls; logs one NDJSON `Step` event per request with both results,
//! the changed digest rows of both trees and of the sentinel around the export, and the serving
//! thread's credentials.  Judged by spec/Trace_Passthrough.tla (C05, C06, C18).
//!
//! usage: pttree <workdir> <out.ndjson> <mode c05|c06|c18> <segments> <len> [scenarios.ndjson]
mod gen;
mod host;
mod pt;
mod tree;

use fuse_backend_rs::abi::fuse_abi::FsOptions;
use fuse_backend_rs::api::filesystem::{Context, FileSystem};
use fuse_backend_rs::api::{Vfs, VfsOptions};
use fuse_backend_rs::passthrough::{CachePolicy, Config, PassthroughFs};
use gen::{Gen, HandleInfo, NodeInfo};
use host::{HostSide, StepRes};
use pt::PtSide;
use serde_json::{json, Map};
use std::path::{Path, PathBuf};
use tree::*;
use vharness::scripted::{Ret, ScriptedFs};
use vharness::util::{env_u64, Rng};

/// unbuffered NDJSON writer (every event reaches the file before the next call into the code under test)
pub struct Trace {
    f: std::fs::File,
}
impl Trace {
    fn from_file(f: std::fs::File) -> Self {
        Trace { f }
    }
    fn emit(&mut self, v: &J) {
        use std::io::Write;
        let mut line = serde_json::to_vec(v).unwrap();
        line.push(b'\n');
        self.f.write_all(&line).unwrap();
    }
    fn flush(&mut self) {}
}

#[derive(Clone, Debug)]
struct Cfg {
    no_open: bool,
    no_opendir: bool,
    ifh: bool,
    host_ino: bool,
    wb: bool,
    cache: u8, // 0 never 1 metadata 2 auto 3 always
    xattr: bool,
    seal: bool,
    via: String, // direct | vfs
    killpriv: bool, // killpriv_v2 configured and negotiated (not a dimension of the property's cube; sampled)
    nopin: bool,    // harness only: do not pin the files seen (histories about re-used inode numbers)
}

impl Cfg {
    fn eff_no_open(&self) -> bool {
        self.no_open && self.cache == 3 && self.via == "direct"
    }
    fn eff_no_opendir(&self) -> bool {
        self.no_opendir && self.via == "direct"
    }
    fn eff_wb(&self) -> bool {
        self.wb && self.cache != 0 && self.via == "direct"
    }
    fn json(&self) -> J {
        let cache = ["never", "metadata", "auto", "always"][self.cache as usize];
        json!({"no_open": self.no_open, "no_opendir": self.no_opendir, "ifh": self.ifh, "host_ino": self.host_ino, "wb": self.wb,
               "cache": cache, "xattr": self.xattr, "seal": self.seal, "via": self.via,
               "eff_no_open": self.eff_no_open(), "eff_no_opendir": self.eff_no_opendir(), "eff_wb": self.eff_wb(), "killpriv": self.killpriv, "nopin": self.nopin})
    }
    fn from_json(j: &J) -> Cfg {
        let b = |k: &str| j[k].as_bool().unwrap_or(false);
        let cache = match j["cache"].as_str().unwrap_or("auto") {
            "never" => 0,
            "metadata" => 1,
            "always" => 3,
            _ => 2,
        };
        Cfg { no_open: b("no_open"), no_opendir: b("no_opendir"), ifh: b("ifh"), host_ino: b("host_ino"), wb: b("wb"), cache, xattr: j["xattr"].as_bool().unwrap_or(true),
              seal: b("seal"), via: j["via"].as_str().unwrap_or("direct").to_string(), killpriv: b("killpriv"), nopin: b("nopin") }
    }
    fn config(&self, root: &str) -> Config {
        Config {
            root_dir: root.to_string(),
            do_import: self.via == "direct",
            no_open: self.no_open,
            no_opendir: self.no_opendir,
            writeback: self.wb,
            inode_file_handles: self.ifh,
            use_host_ino: self.host_ino,
            xattr: self.xattr,
            seal_size: self.seal,
            killpriv_v2: self.killpriv,
            cache_policy: match self.cache {
                0 => CachePolicy::Never,
                1 => CachePolicy::Metadata,
                3 => CachePolicy::Always,
                _ => CachePolicy::Auto,
            },
            ..Default::default()
        }
    }
}

fn cube() -> Vec<Cfg> {
    let mut v = Vec::new();
    for bits in 0..64u32 {
        for cache in 0..4u8 {
            v.push(Cfg { no_open: bits & 1 != 0, no_opendir: bits & 2 != 0, ifh: bits & 4 != 0, host_ino: bits & 8 != 0, wb: bits & 16 != 0, xattr: bits & 32 != 0,
                         cache, seal: false, via: "direct".into(), killpriv: false, nopin: false });
        }
    }
    v
}

fn thread_creds() -> J {
    let (eu, eg) = unsafe { (libc::syscall(libc::SYS_geteuid), libc::syscall(libc::SYS_getegid)) };
    #[repr(C)]
    struct Hdr {
        version: u32,
        pid: i32,
    }
    #[repr(C)]
    #[derive(Default, Clone, Copy)]
    struct Data {
        effective: u32,
        permitted: u32,
        inheritable: u32,
    }
    let mut h = Hdr { version: 0x2008_0522, pid: 0 };
    let mut d = [Data::default(); 2];
    let r = unsafe { libc::syscall(libc::SYS_capget, &mut h as *mut Hdr, d.as_mut_ptr()) };
    let fsetid = r == 0 && (d[0].effective >> 4) & 1 == 1;
    json!({"euid": eu, "egid": eg, "fsetid": fsetid, "caps": format!("{:08x}{:08x}", d[1].effective, d[0].effective)})
}

fn decode_flags(op: &mut J) {
    for k in ["name", "name2"] {
        if let Some(b) = op[k]["b"].as_array().cloned() {
            let bytes: Vec<u8> = b.iter().map(|x| x.as_u64().unwrap_or(0) as u8).collect();
            op[format!("{}b", k)] = json!(bytes);
            op[k] = json!(String::from_utf8_lossy(&bytes).to_string());
        }
    }
    let o = op["op"].as_str().unwrap_or("").to_string();
    let f = op["flags"].as_i64().unwrap_or(0) as i32;
    if matches!(o.as_str(), "open" | "create" | "read" | "write" | "opendir") {
        let mut fl = Vec::new();
        match f & libc::O_ACCMODE {
            libc::O_WRONLY => fl.push("WR"),
            libc::O_RDWR => fl.push("RDWR"),
            _ => {}
        }
        for (b, n) in [(libc::O_APPEND, "APPEND"), (libc::O_TRUNC, "TRUNC"), (libc::O_EXCL, "EXCL"), (libc::O_DIRECTORY, "DIRECTORY"), (libc::O_NONBLOCK, "NONBLOCK")] {
            if f & b != 0 {
                fl.push(n);
            }
        }
        if o == "opendir" && !fl.contains(&"DIRECTORY") {
            fl.push("DIRECTORY");
        }
        op["fl"] = json!(fl);
    }
    if o == "rename" {
        op["rf"] = json!(match f {
            0 => "",
            1 => "NOREPLACE",
            2 => "EXCHANGE",
            _ => "OTHER",
        });
    }
    if o == "fallocate" {
        let m = op["mode"].as_i64().unwrap_or(0) as i32;
        let mut fm = Vec::new();
        for (b, n) in [(libc::FALLOC_FL_KEEP_SIZE, "KEEP"), (libc::FALLOC_FL_PUNCH_HOLE, "PUNCH"), (libc::FALLOC_FL_ZERO_RANGE, "ZERO"), (libc::FALLOC_FL_COLLAPSE_RANGE, "COLLAPSE"),
                       (libc::FALLOC_FL_INSERT_RANGE, "INSERT"), (libc::FALLOC_FL_UNSHARE_RANGE, "UNSHARE")] {
            if m & b != 0 {
                fm.push(n);
            }
        }
        if m & !0x7f != 0 {
            fm.push("OTHER");
        }
        op["fm"] = json!(fm);
    }
    if o == "lseek" {
        op["wh"] = json!(match op["whence"].as_u64().unwrap_or(0) {
            0 => "SET",
            1 => "CUR",
            2 => "END",
            3 => "DATA",
            _ => "HOLE",
        });
    }
    if o == "setxattr" {
        op["xf"] = json!(match op["xflags"].as_u64().unwrap_or(0) {
            0 => "",
            1 => "CREATE",
            2 => "REPLACE",
            _ => "OTHER",
        });
    }
    if o == "mknod" && op["type"].is_null() {
        op["type"] = json!(type_of_mode(op["mode"].as_u64().unwrap_or(0) as u32));
    }
    if o == "mkdir" || o == "mknod" || o == "create" {
        let m = op["mode"].as_u64().unwrap_or(0);
        let um = op["umask"].as_u64().unwrap_or(0);
        op["emode"] = json!((m & !um) & 0o7777);
    }
    if o == "symlink" {
        op["tsize"] = json!(host::name_bytes(op, "target").len());
    }
    if o == "write" {
        op["len"] = json!(op["data"].as_array().map(|a| a.len()).unwrap_or(0));
    }
    for k in ["uid", "gid"] {
        if op[k].is_null() {
            op[k] = json!(0);
        }
    }
}

/// syntactic class of DESIGN C18 "Reading" (2): plainly size-neutral requests
fn neutral(op: &J, cur: u64) -> bool {
    let o = op["op"].as_str().unwrap_or("");
    let f = op["flags"].as_i64().unwrap_or(0) as i32;
    match o {
        "open" | "create" => f & (libc::O_TRUNC | libc::O_APPEND) == 0,
        "write" => f & (libc::O_APPEND | libc::O_TRUNC) == 0 && host::u(op, "off") + host::u(op, "len") <= cur,
        "fallocate" => {
            let m = host::u(op, "mode") as i32 & !(libc::FALLOC_FL_KEEP_SIZE | libc::FALLOC_FL_UNSHARE_RANGE);
            (m == 0 || m == libc::FALLOC_FL_PUNCH_HOLE || m == libc::FALLOC_FL_ZERO_RANGE) && host::u(op, "off") + host::u(op, "len") <= cur
        }
        "setattr" => !op["valid"].as_array().map(|a| a.iter().any(|x| x == "SIZE")).unwrap_or(false),
        _ => true,
    }
}

struct Seg<'a> {
    seg: usize,
    cfg: Cfg,
    mode: String,
    proot: PathBuf,
    hroot: PathBuf,
    ops: Option<Vec<J>>,
    len: usize,
    rng: Rng,
    gentle: bool,
    tr: &'a mut Trace,
    src: String,
}

fn expand(op: &J, root: &Path) -> J {
    let mut o = op.clone();
    if let Some(t) = op["target"].as_str() {
        o["target"] = json!(t.replace('@', root.join("S").to_str().unwrap()));
    }
    o
}

fn side_json(r: &StepRes, ids: &Ids, ch: (Vec<J>, Vec<J>), och: (Vec<J>, Vec<J>), root: &Path) -> J {
    let mut m: Map<String, J> = r.r.clone();
    if let Some(t) = m.get("tgt").and_then(|t| t.as_str()).map(|t| t.to_string()) {
        m.insert("tgt".into(), json!(t.replace(root.join("S").to_str().unwrap(), "@")));
    }
    m.insert("st".into(), json!(r.st));
    m.insert("gated".into(), json!(r.gated));
    if let Some(st) = &r.stat {
        m.insert("attr".into(), attr_json(st, ids));
        m.insert("times".into(), times_json(st));
    }
    m.insert("ch".into(), json!(ch.0));
    m.insert("rm".into(), json!(ch.1));
    m.insert("och".into(), json!(och.0));
    m.insert("orm".into(), json!(och.1));
    J::Object(m)
}

/// Requests to the serving thread. The code under test runs on its own thread -- "the serving thread" of C05 --
/// whose credentials and capabilities are read right after every request; whatever a request leaves behind there
/// stays for the next request, and never touches the thread that runs the shadow and the stat-walks.
enum Cmd {
    Step(J, usize, usize), // request, number of reference / handle slots after it
    Finish,
}
struct Ans {
    res: StepRes,
    creds: J,
    nvalid: bool,
    hvalid: bool,
}

fn drive<F>(fs: &F, sg: &mut Seg, caps: FsOptions)
where
    F: FileSystem + Sync,
    F::Inode: From<u64> + Into<u64> + Copy,
    F::Handle: From<u64> + Into<u64> + Copy,
{
    let (no_open, no_opendir) = (sg.cfg.eff_no_open(), sg.cfg.eff_no_opendir());
    std::thread::scope(|sc| {
    let (tx, rx) = std::sync::mpsc::channel::<Cmd>();
    let (atx, arx) = std::sync::mpsc::channel::<Ans>();
    sc.spawn(move || {
        let mut ps = PtSide::new(1);
        ps.no_open = no_open;
        ps.no_opendir = no_opendir;
        ps.caps = caps;
        let _ = atx.send(Ans { res: StepRes::ok(), creds: thread_creds(), nvalid: true, hvalid: true });
        loop {
            match rx.recv() {
                Ok(Cmd::Step(op, nlen, hlen)) => {
                    let res = match std::panic::catch_unwind(std::panic::AssertUnwindSafe(|| ps.step(fs, &op))) {
                        Ok(r) => r,
                        Err(_) => StepRes::new("PANIC"),
                    };
                    let creds = thread_creds();
                    while ps.ns.len() < nlen {
                        ps.ns.push(None);
                    }
                    while ps.hs.len() < hlen {
                        ps.hs.push(None);
                    }
                    let nvalid = nlen > 0 && ps.ns[nlen - 1].is_some();
                    let hvalid = hlen > 0 && ps.hs[hlen - 1].is_some();
                    let _ = atx.send(Ans { res, creds, nvalid, hvalid });
                }
                _ => {
                    // drop every reference the client still holds
                    let ctx = Context { uid: 0, gid: 0, pid: 1 };
                    for h in ps.hs.iter_mut() {
                        if let Some(x) = h.take() {
                            let ino = ps.ns.get(x.node).and_then(|v| *v).unwrap_or(1);
                            let _ = fs.release(&ctx, ino.into(), 0, F::Handle::from(x.h), false, false, None);
                            let _ = fs.releasedir(&ctx, ino.into(), 0, F::Handle::from(x.h));
                        }
                    }
                    for (k, nslot) in ps.ns.iter_mut().enumerate() {
                        if k > 0 {
                            if let Some(ino) = nslot.take() {
                                fs.forget(&ctx, ino.into(), 1);
                            }
                        }
                    }
                    let _ = atx.send(Ans { res: StepRes::ok(), creds: thread_creds(), nvalid: true, hvalid: true });
                    break;
                }
            }
        }
    });
    let creds0 = arx.recv().expect("serving thread").creds;
    let mut pids = Ids::new();
    let mut hids = Ids::new();
    pids.nopin = sg.cfg.nopin;
    hids.nopin = sg.cfg.nopin;
    let (mut ptree, mut pout) = digests(&sg.proot, &mut pids);
    let (mut htree, mut hout) = digests(&sg.hroot, &mut hids);
    sg.tr.emit(&json!({"e": "Reset", "seg": sg.seg, "mode": sg.mode, "cfg": sg.cfg.json(), "src": sg.src, "gentle": sg.gentle,
        "pt_rows": ptree.values().collect::<Vec<_>>(), "host_rows": htree.values().collect::<Vec<_>>(),
        "pt_out": pout.values().collect::<Vec<_>>(), "host_out": hout.values().collect::<Vec<_>>(),
        "creds": creds0}));
    let mut hs = HostSide::new(&sg.hroot.join("S/export"));
    hs.xattr = sg.cfg.xattr;
    hs.wb = sg.cfg.eff_wb();
    hs.no_open = sg.cfg.eff_no_open();
    hs.no_opendir = sg.cfg.eff_no_opendir();
    let mut g = Gen { rng: Rng::new(sg.rng.next()), mode: sg.mode.clone(), no_open: hs.no_open, no_opendir: hs.no_opendir, wb: sg.cfg.eff_wb(),
                      nodes: vec![NodeInfo { valid: true, kind: "dir".into(), size: 0 }], handles: Vec::new(), gentle: sg.gentle, killpriv: sg.cfg.killpriv };
    let n = sg.ops.as_ref().map(|o| o.len()).unwrap_or(sg.len);
    for step in 0..n {
        for (k, nd) in g.nodes.iter_mut().enumerate() {
            if let Some(Some(fd)) = hs.ns.get(k) {
                if let Some(st) = host::fstat(*fd) {
                    nd.size = st.st_size as u64;
                }
            }
        }
        let mut op = match &sg.ops {
            Some(v) => v[step].clone(),
            None => g.next(),
        };
        decode_flags(&mut op);
        if op["op"] == "symlink" {
            op["tsize"] = json!(host::name_bytes(&expand(&op, &sg.proot), "target").len());
        }
        let o = op["op"].as_str().unwrap_or("").to_string();
        let entry_op = matches!(o.as_str(), "lookup" | "mkdir" | "mknod" | "symlink" | "create" | "link");
        let handle_op = matches!(o.as_str(), "open" | "opendir") || (o == "create" && !hs.no_open);
        let (n0, h0) = (hs.ns.len(), hs.hs.len());
        // host pre-state of the object the request addresses (size, for the C18 class)
        let cur = {
            let x = host::i(&op, "h");
            let fd = if x >= 0 { hs.hs.get(x as usize).and_then(|v| v.as_ref()).map(|h| h.fd) } else { None }
                .or_else(|| { let k = host::i(&op, "n"); if k >= 0 { hs.ns.get(k as usize).and_then(|v| *v) } else { None } });
            fd.and_then(host::fstat).map(|st| if st.st_mode & libc::S_IFMT == libc::S_IFREG { st.st_size as u64 } else { 0 }).unwrap_or(0)
        };
        let neut = neutral(&op, cur);
        sg.tr.emit(&json!({"e": "Try", "seg": sg.seg, "i": step + 1, "op": op}));
        sg.tr.flush();
        // passthrough first
        tx.send(Cmd::Step(expand(&op, &sg.proot), n0 + entry_op as usize, h0 + handle_op as usize)).expect("serving thread");
        let ans = arx.recv().expect("serving thread");
        let (pres, creds) = (ans.res, ans.creds);
        // the shadow: always, except (sealed export) a request that is not plainly size-neutral and was refused
        let skip = sg.cfg.seal && !neut && pres.st != "OK";
        let hres = if skip { let mut r = StepRes::new("skipped"); r.gated = true; r } else { hs.step(&expand(&op, &sg.hroot)) };
        while hs.ns.len() < n0 + entry_op as usize {
            hs.ns.push(None);
        }
        while hs.hs.len() < h0 + handle_op as usize {
            hs.hs.push(None);
        }
        // generator bookkeeping from the shadow's point of view
        if entry_op {
            let kind = hres.stat.as_ref().map(|st| match type_of_mode(st.st_mode) { "dir" => "dir", "reg" => "reg", "lnk" => "lnk", _ => "other" }).unwrap_or("none");
            let size = hres.stat.as_ref().map(|st| st.st_size as u64).unwrap_or(0);
            g.nodes.push(NodeInfo { valid: hs.ns[n0].is_some() && ans.nvalid, kind: kind.into(), size });
        }
        if handle_op {
            let node = if o == "create" { n0 } else { host::i(&op, "n").max(0) as usize };
            g.handles.push(HandleInfo { valid: hs.hs[h0].is_some() && ans.hvalid, node, flags: host::u(&op, "flags") as i32, dir: o == "opendir" });
        }
        if o == "forget" {
            let k = host::i(&op, "n");
            if k > 0 && (k as usize) < g.nodes.len() {
                g.nodes[k as usize].valid = false;
            }
        }
        if o == "batch_forget" {
            for it in op["items"].as_array().cloned().unwrap_or_default() {
                let k = it[0].as_i64().unwrap_or(-1);
                if k > 0 && (k as usize) < g.nodes.len() {
                    g.nodes[k as usize].valid = false;
                }
            }
        }
        if o == "remount" {
            for nd in g.nodes.iter_mut().skip(1) {
                nd.valid = false;
            }
            for hd in g.handles.iter_mut() {
                hd.valid = false;
            }
        }
        if o == "release" || o == "releasedir" {
            let k = host::i(&op, "h");
            if k >= 0 && (k as usize) < g.handles.len() {
                g.handles[k as usize].valid = false;
            }
        }
        // digests
        let (pt2, po2) = digests(&sg.proot, &mut pids);
        let (ht2, ho2) = digests(&sg.hroot, &mut hids);
        let mut pj = side_json(&pres, &pids, diff(&ptree, &pt2), diff(&pout, &po2), &sg.proot);
        if o == "setattr" {
            // times of the addressed file as the post-step walk found them
            if let Some(t) = pj["attr"]["id"].as_i64().and_then(|id| ftimes_json(&pids, id)) {
                pj["ftimes"] = t;
            }
        }
        if sg.cfg.via != "direct" && !pj["attr"].is_null() {
            // behind a Vfs st_ino is the Vfs inode number: the file identity is not observable there
            pj["attr"]["id"] = json!(-2);
        }
        let mut hj = side_json(&hres, &hids, diff(&htree, &ht2), diff(&hout, &ho2), &sg.hroot);
        hj["skipped"] = json!(skip);
        if o == "setattr" {
            if let Some(t) = hj["attr"]["id"].as_i64().and_then(|id| ftimes_json(&hids, id)) {
                hj["ftimes"] = t;
            }
        }
        ptree = pt2;
        pout = po2;
        htree = ht2;
        hout = ho2;
        sg.tr.emit(&json!({"e": "Step", "seg": sg.seg, "i": step + 1, "op": op, "cur": cur, "neutral": neut, "pt": pj, "host": hj, "creds": creds,
                            "nslot": n0, "hslot": h0}));
        sg.tr.flush();
    }
    tx.send(Cmd::Finish).expect("serving thread");
    let fin = arx.recv().expect("serving thread");
    hs.close_all();
    sg.tr.emit(&json!({"e": "End", "seg": sg.seg, "creds": fin.creds}));
    });
}

fn run_segment(sg: &mut Seg, tree_spec: Option<&J>) {
    let _ = std::fs::remove_dir_all(&sg.proot);
    let _ = std::fs::remove_dir_all(&sg.hroot);
    std::fs::create_dir_all(&sg.proot).unwrap();
    std::fs::create_dir_all(&sg.hroot).unwrap();
    build(&sg.proot, tree_spec);
    build(&sg.hroot, tree_spec);
    let export = sg.proot.join("S/export");
    let cfg = sg.cfg.config(export.to_str().unwrap());
    let fs = PassthroughFs::<()>::new(cfg).expect("PassthroughFs::new");
    fs.import().expect("import");
    let mut capable = FsOptions::ASYNC_READ | FsOptions::WRITEBACK_CACHE | FsOptions::ZERO_MESSAGE_OPEN | FsOptions::ZERO_MESSAGE_OPENDIR | FsOptions::DO_READDIRPLUS;
    if sg.cfg.killpriv {
        capable |= FsOptions::HANDLE_KILLPRIV_V2;
    }
    if sg.cfg.via == "direct" {
        fs.init(capable).expect("init");
        drive(&fs, sg, capable);
        fs.destroy();
    } else {
        let vfs = Vfs::new(VfsOptions { no_open: false, no_opendir: false, no_writeback: true, ..Default::default() });
        vfs.mount(Box::new(fs), "/").expect("vfs mount");
        vfs.init(FsOptions::ASYNC_READ | FsOptions::DO_READDIRPLUS).expect("vfs init");
        drive(&vfs, sg, FsOptions::ASYNC_READ | FsOptions::DO_READDIRPLUS);
        vfs.destroy();
    }
    unsafe { libc::umask(0o022) };
    let _ = std::fs::remove_dir_all(&sg.proot);
    let _ = std::fs::remove_dir_all(&sg.hroot);
}

/// Name gates observed at a Vfs whose only backend records every call it receives.
fn gate_scripted(tr: &mut Trace, seg: usize) {
    let sfs = ScriptedFs::new("b0");
    sfs.set(Ret::Init(0));
    let vfs = Vfs::new(VfsOptions { no_open: false, no_opendir: false, no_writeback: true, ..Default::default() });
    vfs.mount(Box::new(sfs.clone()), "/").expect("mount scripted");
    vfs.init(FsOptions::ASYNC_READ).expect("init");
    sfs.set(Ret::Err { os: libc::ENOENT, kind: None });
    sfs.take_log();
    tr.emit(&json!({"e": "ResetGate", "seg": seg, "via": "vfs-scripted"}));
    let ctx = Context { uid: 0, gid: 0, pid: 7 };
    let names: Vec<(Vec<u8>, &str)> = vec![(b"a".to_vec(), "plain"), (b".".to_vec(), "dot"), (b"..".to_vec(), "dotdot"), (b"a/b".to_vec(), "slash"), (b"../x".to_vec(), "slash"),
                                           (b"/abs".to_vec(), "slash"), (b"x/".to_vec(), "slash"), (b"/".to_vec(), "slash"),
                                           (b"../outside/evil\xff".to_vec(), "slash"), (b"caf\xe9/../../x".to_vec(), "slash"), (b"\x80/\xbf".to_vec(), "slash"), (b"caf\xe9".to_vec(), "plain")];
    let root = 1u64;
    let mut i = 0;
    for (nm, nk) in &names {
        let c = cstr(nm);
        let a = cstr(b"a");
        for opn in ["lookup", "mkdir", "mknod", "symlink", "create", "link", "unlink", "rmdir", "rename", "rename2"] {
            sfs.take_log();
            let r: std::io::Result<()> = match opn {
                "lookup" => vfs.lookup(&ctx, root.into(), &c).map(|_| ()),
                "mkdir" => vfs.mkdir(&ctx, root.into(), &c, 0o755, 0).map(|_| ()),
                "mknod" => vfs.mknod(&ctx, root.into(), &c, libc::S_IFREG | 0o644, 0, 0).map(|_| ()),
                "symlink" => vfs.symlink(&ctx, &a, root.into(), &c).map(|_| ()),
                "create" => vfs.create(&ctx, root.into(), &c, Default::default()).map(|_| ()),
                "link" => vfs.link(&ctx, root.into(), root.into(), &c).map(|_| ()),
                "unlink" => vfs.unlink(&ctx, root.into(), &c),
                "rmdir" => vfs.rmdir(&ctx, root.into(), &c),
                "rename" => vfs.rename(&ctx, root.into(), &c, root.into(), &a, 0),
                _ => vfs.rename(&ctx, root.into(), &a, root.into(), &c, 0),
            };
            let log = sfs.take_log();
            let ms: Vec<String> = log.iter().filter(|e| e["m"] != "id_remap").map(|e| e["m"].as_str().unwrap_or("").to_string()).collect();
            i += 1;
            tr.emit(&json!({"e": "Gate", "seg": seg, "i": i, "via": "vfs-scripted", "op": if opn == "rename2" { "rename" } else { opn }, "name": String::from_utf8_lossy(nm), "nk": nk,
                            "st": match &r { Ok(()) => "OK".to_string(), Err(e) => err_status(e) }, "calls": ms}));
        }
    }
}

/// Runs one segment in a forked child that appends to the trace file: an abort of the code under
/// test (double close detected by the runtime, ...) is data, reported as a `Crash` event.
fn forked(path: &str, seg: usize, f: impl FnOnce(&mut Trace)) {
    let pid = unsafe { libc::fork() };
    if pid == 0 {
        let file = std::fs::OpenOptions::new().append(true).open(path).expect("append trace");
        let file = {
            use std::os::unix::io::{FromRawFd, IntoRawFd};
            unsafe { std::fs::File::from_raw_fd(hi(file.into_raw_fd())) }
        };
        let mut tr = Trace::from_file(file);
        f(&mut tr);
        tr.flush();
        unsafe { libc::_exit(0) };
    }
    // watchdog: a request that never returns (e.g. a blocking open of a FIFO) is data as well
    let mut status = 0;
    let deadline = std::time::Instant::now() + std::time::Duration::from_secs(env_u64("PT_SEG_TIMEOUT", 30));
    loop {
        let r = unsafe { libc::waitpid(pid, &mut status, libc::WNOHANG) };
        if r == pid {
            break;
        }
        if std::time::Instant::now() > deadline {
            unsafe {
                libc::kill(pid, libc::SIGKILL);
                libc::waitpid(pid, &mut status, 0);
            }
            break;
        }
        std::thread::sleep(std::time::Duration::from_millis(2));
    }
    if !(libc::WIFEXITED(status) && libc::WEXITSTATUS(status) == 0) {
        // last line of the trace (only the tail of the file is read)
        let text = {
            use std::io::{Read, Seek, SeekFrom};
            let mut f = std::fs::File::open(path).expect("trace");
            let len = f.metadata().map(|m| m.len()).unwrap_or(0);
            let _ = f.seek(SeekFrom::Start(len.saturating_sub(1 << 18)));
            let mut b = Vec::new();
            let _ = f.read_to_end(&mut b);
            String::from_utf8_lossy(&b).to_string()
        };
        let last: J = text.lines().last().and_then(|l| serde_json::from_str(l).ok()).unwrap_or(json!({}));
        let sig = if libc::WIFSIGNALED(status) { libc::WTERMSIG(status) } else { -libc::WEXITSTATUS(status) };
        let ev = json!({"e": "Crash", "seg": seg, "signal": sig, "during": last["e"], "op": last["op"], "i": last["i"]});
        use std::io::Write;
        let mut file = std::fs::OpenOptions::new().append(true).open(path).expect("append trace");
        writeln!(file, "{}", ev).unwrap();
    }
}

/// Deterministic histories for request classes a random history reaches too rarely.
fn targeted(mode: &str, work: &Path) -> Vec<(Cfg, Vec<J>)> {
    let base = Cfg { no_open: false, no_opendir: false, ifh: false, host_ino: false, wb: false, cache: 2, xattr: true, seal: false, via: "direct".into(), killpriv: false, nopin: false };
    let mut out = Vec::new();
    if mode == "c18" {
        // collapse / insert range with block-aligned ranges strictly inside the three-block file, with and without handles
        let bs = {
            let c = cstr(work.as_os_str().as_encoded_bytes());
            let mut v = std::mem::MaybeUninit::<libc::statvfs64>::zeroed();
            if unsafe { libc::statvfs64(c.as_ptr(), v.as_mut_ptr()) } == 0 { unsafe { v.assume_init() }.f_bsize as u64 } else { 4096 }
        };
        let (collapse, insert, keep) = (libc::FALLOC_FL_COLLAPSE_RANGE, libc::FALLOC_FL_INSERT_RANGE, libc::FALLOC_FL_KEEP_SIZE);
        for (no_open, ifh) in [(false, false), (true, false), (false, true), (true, true)] {
            let cfg = Cfg { seal: true, no_open, cache: if no_open { 3 } else { 2 }, ifh, ..base.clone() };
            let h = if no_open { -1 } else { 0 };
            let mut ops = vec![json!({"op": "lookup", "p": 0, "name": "big", "nk": "plain"})];
            ops.push(json!({"op": "open", "n": 1, "flags": libc::O_RDWR}));
            for (m, off, len) in [(collapse, bs, bs), (insert, bs, bs), (collapse, 0, bs), (collapse | keep, 0, bs), (insert, 0, 2 * bs), (collapse, 0, 2 * bs),
                                  (0, 0, bs), (libc::FALLOC_FL_PUNCH_HOLE | keep, bs, bs), (libc::FALLOC_FL_ZERO_RANGE, 0, bs), (collapse, 2 * bs, bs), (insert, 3 * bs, bs)] {
                ops.push(json!({"op": "fallocate", "n": 1, "h": h, "mode": m, "off": off, "len": len}));
                ops.push(json!({"op": "getattr", "n": 1, "h": -1}));
            }
            out.push((cfg, ops));
        }
    }
    if mode == "c18" {
        // DESTROY + INIT on the same object: the second session of a sealed export is judged like the first
        for no_open in [false, true] {
            let cfg = Cfg { seal: true, no_open, cache: if no_open { 3 } else { 2 }, ..base.clone() };
            let h = if no_open { -1 } else { 0 };
            let mut ops = vec![json!({"op": "lookup", "p": 0, "name": "f1", "nk": "plain"}), json!({"op": "setattr", "n": 1, "h": -1, "valid": ["SIZE"], "attr": {"size": 3}}),
                               json!({"op": "remount"}),
                               json!({"op": "lookup", "p": 0, "name": "f1", "nk": "plain"}), json!({"op": "setattr", "n": 2, "h": -1, "valid": ["SIZE"], "attr": {"size": 3}}),
                               json!({"op": "open", "n": 2, "flags": libc::O_RDWR})];
            ops.push(json!({"op": "write", "n": 2, "h": h, "off": 6, "data": [49, 50, 51, 52], "flags": libc::O_RDWR}));
            ops.push(json!({"op": "write", "n": 2, "h": h, "off": 1, "data": [49, 50], "flags": libc::O_RDWR}));
            ops.push(json!({"op": "fallocate", "n": 2, "h": h, "mode": 0, "off": 6, "len": 8}));
            ops.push(json!({"op": "open", "n": 2, "flags": libc::O_RDWR | libc::O_TRUNC}));
            ops.push(json!({"op": "remount"}));
            ops.push(json!({"op": "create", "p": 0, "name": "f3", "nk": "plain", "flags": libc::O_WRONLY | libc::O_TRUNC, "mode": libc::S_IFREG | 0o644, "umask": 0, "uid": 0, "gid": 0}));
            ops.push(json!({"op": "getattr", "n": 0, "h": -1}));
            out.push((cfg, ops));
        }
    }
    if mode == "c18" {
        // sealed + writeback: WRITEs whose flags carry O_APPEND and differ from the recorded ones (handle switched to append
        // after the open, or no handles at all), inside and beyond the size
        for no_open in [false, true] {
            let cfg = Cfg { seal: true, wb: true, no_open, cache: if no_open { 3 } else { 2 }, ..base.clone() };
            let h = if no_open { -1 } else { 0 };
            let mut ops = vec![json!({"op": "lookup", "p": 0, "name": "f3", "nk": "plain"}), json!({"op": "open", "n": 1, "flags": libc::O_RDWR})];
            for (fl, off, len) in [(libc::O_RDWR | libc::O_APPEND, 2u64, 3usize), (libc::O_RDWR, 2, 3), (libc::O_RDWR | libc::O_APPEND, 0, 12), (libc::O_RDWR | libc::O_APPEND, 10, 4), (libc::O_RDWR, 4, 2)] {
                ops.push(json!({"op": "write", "n": 1, "h": h, "off": off, "data": vec![55u8; len], "flags": fl}));
                ops.push(json!({"op": "getattr", "n": 1, "h": -1}));
            }
            ops.push(json!({"op": "open", "n": 1, "flags": libc::O_RDWR | libc::O_APPEND}));
            ops.push(json!({"op": "write", "n": 1, "h": if no_open { -1 } else { 1 }, "off": 1, "data": [56, 56], "flags": libc::O_RDWR | libc::O_APPEND}));
            ops.push(json!({"op": "write", "n": 1, "h": if no_open { -1 } else { 1 }, "off": 1, "data": [57, 57], "flags": libc::O_RDWR}));
            out.push((cfg, ops));
        }
    }
    if mode == "c18" {
        // open-time flags in the flags word of a WRITE (the client's description carries them): without handles and with
        for no_open in [true, false] {
            let cfg = Cfg { seal: true, no_open, cache: if no_open { 3 } else { 2 }, ..base.clone() };
            let h = if no_open { -1 } else { 0 };
            let mut ops = vec![json!({"op": "lookup", "p": 0, "name": "f3", "nk": "plain"}), json!({"op": "open", "n": 1, "flags": libc::O_RDWR})];
            for extra in [libc::O_TRUNC, libc::O_CREAT | libc::O_EXCL, libc::O_SYNC, libc::O_TRUNC | libc::O_CREAT, libc::O_DSYNC, libc::O_NOCTTY, libc::O_TRUNC | libc::O_APPEND] {
                for (off, len) in [(2u64, 3usize), (10, 6)] {
                    ops.push(json!({"op": "write", "n": 1, "h": h, "off": off, "data": vec![52u8; len], "flags": libc::O_RDWR | extra}));
                    ops.push(json!({"op": "getattr", "n": 1, "h": -1}));
                }
            }
            out.push((cfg, ops));
        }
    }
    if mode == "c05" {
        // a new file that gets the host inode number of a removed, still referenced one: the entry of the creating request must
        // denote the created object (requests on the returned number work and show the new file)
        for ifh in [true, false] {
            let cfg = Cfg { ifh, nopin: true, ..base.clone() };
            let mk = |n: &str| json!({"op": "create", "p": 1, "name": n, "nk": "plain", "flags": libc::O_RDWR, "mode": libc::S_IFREG | 0o644, "umask": 0, "uid": 0, "gid": 0});
            let mut ops = vec![json!({"op": "lookup", "p": 0, "name": "d2", "nk": "plain"})];
            let (mut ns, mut hs) = (1i64, 0i64);
            for round in 0..3 {
                let (a, b) = (format!("A{round}"), format!("B{round}"));
                ops.push(mk(&a));
                ns += 1;
                let (sa, ha) = (ns, hs);
                hs += 1;
                ops.push(json!({"op": "write", "n": sa, "h": ha, "off": 0, "data": [65, 65, 65], "flags": libc::O_RDWR}));
                ops.push(json!({"op": "release", "n": sa, "h": ha}));
                ops.push(json!({"op": "unlink", "p": 1, "name": a, "nk": "plain"}));
                if round == 1 {
                    ops.push(json!({"op": "mkdir", "p": 1, "name": b, "nk": "plain", "mode": 0o755, "umask": 0, "uid": 0, "gid": 0}));
                    ns += 1;
                    ops.push(json!({"op": "getattr", "n": ns, "h": -1}));
                    ops.push(json!({"op": "lookup", "p": ns, "name": "..", "nk": "dotdot"}));
                    ns += 1;
                    continue;
                }
                ops.push(mk(&b));
                ns += 1;
                let (sb, hb) = (ns, hs);
                hs += 1;
                ops.push(json!({"op": "getattr", "n": sb, "h": -1}));
                ops.push(json!({"op": "write", "n": sb, "h": hb, "off": 0, "data": [66, 66], "flags": libc::O_RDWR}));
                ops.push(json!({"op": "release", "n": sb, "h": hb}));
                ops.push(json!({"op": "open", "n": sb, "flags": libc::O_RDONLY}));
                let ho = hs;
                hs += 1;
                ops.push(json!({"op": "read", "n": sb, "h": ho, "off": 0, "len": 8, "flags": libc::O_RDONLY}));
                ops.push(json!({"op": "setattr", "n": sb, "h": -1, "valid": ["MODE"], "attr": {"mode": 0o600}}));
                ops.push(json!({"op": "lookup", "p": 1, "name": b, "nk": "plain"}));
                ns += 1;
                let _ = sa;
            }
            out.push((cfg, ops));
        }
        // writeback negotiated: a handle opened with O_APPEND; the WRITEs carry the same flags and the offset the client kernel chose
        for ifh in [false, true] {
            let cfg = Cfg { wb: true, ifh, ..base.clone() };
            let fl = libc::O_RDWR | libc::O_APPEND;
            let ops = vec![json!({"op": "lookup", "p": 0, "name": "f3", "nk": "plain"}), json!({"op": "open", "n": 1, "flags": fl}),
                           json!({"op": "write", "n": 1, "h": 0, "off": 2, "data": [49, 50, 51], "flags": fl}), json!({"op": "getattr", "n": 1, "h": -1}),
                           json!({"op": "read", "n": 1, "h": 0, "off": 0, "len": 32, "flags": fl}),
                           json!({"op": "write", "n": 1, "h": 0, "off": 12, "data": [52, 53], "flags": fl}), json!({"op": "write", "n": 1, "h": 0, "off": 0, "data": [54], "flags": fl}),
                           json!({"op": "getattr", "n": 1, "h": 0}), json!({"op": "read", "n": 1, "h": 0, "off": 0, "len": 32, "flags": fl}),
                           json!({"op": "create", "p": 0, "name": "f1", "nk": "plain", "flags": fl, "mode": libc::S_IFREG | 0o644, "umask": 0, "uid": 0, "gid": 0}),
                           json!({"op": "write", "n": 2, "h": 1, "off": 1, "data": [55, 56], "flags": fl}), json!({"op": "getattr", "n": 2, "h": -1})];
            out.push((cfg, ops));
        }
        // killpriv_v2: requests carrying the kill flags that FAIL, then requests whose outcome depends on the serving
        // thread still holding CAP_FSETID (set-gid bit on a file of a foreign group, writes to set-id files)
        for (no_open, ifh) in [(false, false), (true, false), (false, true)] {
            let cfg = Cfg { killpriv: true, no_open, cache: if no_open { 3 } else { 2 }, ifh, ..base.clone() };
            let chk = |ops: &mut Vec<J>| {
                ops.push(json!({"op": "setattr", "n": 1, "h": -1, "valid": ["MODE"], "attr": {"mode": 0o755}}));
                ops.push(json!({"op": "setattr", "n": 1, "h": -1, "valid": ["MODE"], "attr": {"mode": 0o2755}}));
                ops.push(json!({"op": "getattr", "n": 1, "h": -1}));
            };
            let mut ops = vec![json!({"op": "lookup", "p": 0, "name": "f3", "nk": "plain"}), json!({"op": "lookup", "p": 0, "name": "d1", "nk": "plain"}),
                               json!({"op": "lookup", "p": 0, "name": "fifo", "nk": "plain"}), json!({"op": "lookup", "p": 0, "name": "f1", "nk": "plain"}),
                               json!({"op": "setattr", "n": 4, "h": -1, "valid": ["MODE"], "attr": {"mode": 0o6755}})];
            chk(&mut ops);
            ops.push(json!({"op": "open", "n": 2, "flags": libc::O_WRONLY | libc::O_TRUNC, "kill": true}));
            chk(&mut ops);
            ops.push(json!({"op": "open", "n": 3, "flags": libc::O_RDONLY | libc::O_NONBLOCK, "kill": true}));
            chk(&mut ops);
            ops.push(json!({"op": "open", "n": 4, "flags": libc::O_RDONLY | libc::O_DIRECTORY, "kill": true}));
            chk(&mut ops);
            ops.push(json!({"op": "setattr", "n": 2, "h": -1, "valid": ["SIZE"], "attr": {"size": 0}, "kill": true}));
            chk(&mut ops);
            ops.push(json!({"op": "setattr", "n": 3, "h": -1, "valid": ["SIZE"], "attr": {"size": 0}, "kill": true}));
            chk(&mut ops);
            ops.push(json!({"op": "create", "p": 0, "name": "d1", "nk": "plain", "flags": libc::O_WRONLY | libc::O_TRUNC, "mode": libc::S_IFREG | 0o644, "umask": 0, "uid": 0, "gid": 0, "kill": true}));
            chk(&mut ops);
            // plain writes to a set-id file by a server that holds CAP_FSETID leave the bits alone
            ops.push(json!({"op": "open", "n": 4, "flags": libc::O_RDWR}));
            let hslot = 4; // handle slots are allotted to failing opens and creates as well: three opens and one create before
            ops.push(json!({"op": "write", "n": 4, "h": if no_open { -1 } else { hslot }, "off": 0, "data": [49, 50], "flags": libc::O_RDWR}));
            ops.push(json!({"op": "getattr", "n": 4, "h": -1}));
            // the kill flags on requests that succeed on files without set-id bits
            ops.push(json!({"op": "lookup", "p": 0, "name": "f2", "nk": "plain"}));
            ops.push(json!({"op": "open", "n": 6, "flags": libc::O_WRONLY | libc::O_TRUNC, "kill": true}));
            ops.push(json!({"op": "setattr", "n": 6, "h": -1, "valid": ["SIZE"], "attr": {"size": 4}, "kill": true}));
            chk(&mut ops);
            out.push((cfg, ops));
        }
        // callers: every mix of root / non-root user and group on every creating request
        {
            let mut ops = vec![json!({"op": "lookup", "p": 0, "name": "d2", "nk": "plain"})];
            let mut k = 0;
            for (uid, gid) in [(0u32, 4242u32), (1000, 0), (0, 1000), (1000, 1000), (0, 0), (1000, 4242)] {
                k += 1;
                ops.push(json!({"op": "mkdir", "p": 1, "name": format!("m{k}"), "nk": "plain", "mode": 0o755, "umask": 0, "uid": uid, "gid": gid}));
                ops.push(json!({"op": "mknod", "p": 1, "name": format!("n{k}"), "nk": "plain", "type": "fifo", "mode": libc::S_IFIFO | 0o644, "rdev": 0, "umask": 0, "uid": uid, "gid": gid}));
                ops.push(json!({"op": "symlink", "p": 1, "name": format!("s{k}"), "nk": "plain", "target": "f1", "uid": uid, "gid": gid}));
                ops.push(json!({"op": "create", "p": 1, "name": format!("c{k}"), "nk": "plain", "flags": libc::O_RDWR, "mode": libc::S_IFREG | 0o640, "umask": 0, "uid": uid, "gid": gid}));
                ops.push(json!({"op": "create", "p": 0, "name": "f3", "nk": "plain", "flags": libc::O_RDONLY, "mode": libc::S_IFREG | 0o640, "umask": 0, "uid": uid, "gid": gid}));
            }
            out.push((base.clone(), ops.clone()));
            out.push((Cfg { ifh: true, ..base.clone() }, ops));
        }
    }
    if mode == "c06" {
        // names that are not UTF-8 (Latin-1 bytes, lone continuation bytes, an overlong "/") with '/' and ".." components, on every
        // request that creates, removes, renames or links a name -- standalone and behind a Vfs, also below a legal Latin-1 directory
        for via in ["direct", "vfs"] {
            let cfg = Cfg { via: via.into(), ..base.clone() };
            let bad: Vec<&[u8]> = vec![b"../outside/evil\xff", b"caf\xe9/../../outside/o1", b"caf\xe9/../../outside/sub", b"\x80\xbf/../../secret", b"d1/\xffg", b"/\xfe", b"\xe9/"];
            let nm = |b: &[u8]| json!({"b": b});
            let mut ops = vec![json!({"op": "mkdir", "p": 0, "name": nm(b"caf\xe9"), "nk": "plain", "mode": 0o755, "umask": 0, "uid": 0, "gid": 0}),
                               json!({"op": "lookup", "p": 0, "name": "f1", "nk": "plain"}),
                               json!({"op": "create", "p": 0, "name": nm(b"\xc0\xaf"), "nk": "plain", "flags": libc::O_RDWR, "mode": libc::S_IFREG | 0o644, "umask": 0, "uid": 0, "gid": 0})];
            for b in &bad {
                ops.push(json!({"op": "mkdir", "p": 0, "name": nm(b), "nk": "slash", "mode": 0o755, "umask": 0, "uid": 0, "gid": 0}));
                ops.push(json!({"op": "mknod", "p": 0, "name": nm(b), "nk": "slash", "type": "reg", "mode": libc::S_IFREG | 0o644, "rdev": 0, "umask": 0, "uid": 0, "gid": 0}));
                ops.push(json!({"op": "symlink", "p": 0, "name": nm(b), "nk": "slash", "target": "f1", "uid": 0, "gid": 0}));
                ops.push(json!({"op": "create", "p": 0, "name": nm(b), "nk": "slash", "flags": libc::O_WRONLY | libc::O_TRUNC, "mode": libc::S_IFREG | 0o644, "umask": 0, "uid": 0, "gid": 0}));
                ops.push(json!({"op": "link", "n": 2, "p": 0, "name": nm(b), "nk": "slash"}));
                ops.push(json!({"op": "rename", "p": 0, "name": "f2", "nk": "plain", "p2": 0, "name2": nm(b), "nk2": "slash", "flags": 0}));
                ops.push(json!({"op": "rename", "p": 0, "name": nm(b), "nk": "slash", "p2": 0, "name2": "zz", "nk2": "plain", "flags": 0}));
                ops.push(json!({"op": "unlink", "p": 0, "name": nm(b), "nk": "slash"}));
                ops.push(json!({"op": "rmdir", "p": 0, "name": nm(b), "nk": "slash"}));
                ops.push(json!({"op": "lookup", "p": 0, "name": nm(b), "nk": "slash"}));
            }
            out.push((cfg, ops));
        }
        // FORGET / BATCH_FORGET of the root with huge counts, then walks upwards through ".."
        for (host_ino, ifh) in [(true, false), (false, false), (true, true), (false, true)] {
            let cfg = Cfg { host_ino, ifh, ..base.clone() };
            let big = 1u64 << 40;
            let ops = vec![
                json!({"op": "lookup", "p": 0, "name": "d1", "nk": "plain"}),          // slot 1, kept
                json!({"op": "lookup", "p": 1, "name": "..", "nk": "dotdot"}),          // slot 2 = root
                json!({"op": "forget_root", "count": big}),
                json!({"op": "lookup", "p": 0, "name": "..", "nk": "dotdot"}),          // slot 3
                json!({"op": "batch_forget", "items": [[0, big]]}),
                json!({"op": "lookup", "p": 1, "name": "..", "nk": "dotdot"}),          // slot 4 = root again
                json!({"op": "lookup", "p": 4, "name": "..", "nk": "dotdot"}),          // slot 5 = still the root
                json!({"op": "lookup", "p": 5, "name": "..", "nk": "dotdot"}),          // slot 6
                json!({"op": "lookup", "p": 5, "name": "secret", "nk": "plain"}),       // slot 7: ENOENT inside the export
                json!({"op": "lookup", "p": 6, "name": "outside", "nk": "plain"}),      // slot 8
                json!({"op": "getattr", "n": 5, "h": -1}),
                json!({"op": "open", "n": 7, "flags": libc::O_RDONLY}),
                json!({"op": "read", "n": 7, "h": 0, "off": 0, "len": 16, "flags": libc::O_RDONLY}),
                json!({"op": "batch_forget", "items": [[0, 3], [2, 1], [3, 1]]}),
                json!({"op": "lookup", "p": 0, "name": "f1", "nk": "plain"}),
                json!({"op": "mkdir", "p": 5, "name": "x", "nk": "plain", "mode": 0o755, "umask": 0, "uid": 0, "gid": 0}),
                json!({"op": "remount"}),
                json!({"op": "lookup", "p": 0, "name": "..", "nk": "dotdot"}),
                json!({"op": "lookup", "p": 0, "name": "d1", "nk": "plain"}),
                json!({"op": "lookup", "p": 12, "name": "..", "nk": "dotdot"}),
            ];
            out.push((cfg, ops));
        }
    }
    if mode == "c05" {
        // extended attributes: every operation in both outcomes, on a file and on a directory; and switched off
        for xattr in [true, false] {
            let cfg = Cfg { xattr, ..base.clone() };
            let mut ops = vec![json!({"op": "lookup", "p": 0, "name": "f1", "nk": "plain"})];
            for n in [1, 0] {
                ops.push(json!({"op": "setxattr", "n": n, "xname": "user.a", "xval": [49, 50], "xflags": 0}));
                ops.push(json!({"op": "getxattr", "n": n, "xname": "user.a", "size": 0}));
                ops.push(json!({"op": "getxattr", "n": n, "xname": "user.a", "size": 64}));
                ops.push(json!({"op": "getxattr", "n": n, "xname": "user.a", "size": 1}));
                ops.push(json!({"op": "listxattr", "n": n, "size": 64}));
                ops.push(json!({"op": "setxattr", "n": n, "xname": "user.a", "xval": [51], "xflags": 1}));
                ops.push(json!({"op": "setxattr", "n": n, "xname": "user.a", "xval": [51], "xflags": 2}));
                ops.push(json!({"op": "setxattr", "n": n, "xname": "user.b", "xval": [], "xflags": 2}));
                ops.push(json!({"op": "removexattr", "n": n, "xname": "user.a"}));
                ops.push(json!({"op": "removexattr", "n": n, "xname": "user.a"}));
                ops.push(json!({"op": "getxattr", "n": n, "xname": "user.a", "size": 64}));
            }
            out.push((cfg, ops));
        }
        // LSEEK on a directory handle (offsets are file-system specific: only "same as the host") and on a file handle
        {
            let ops = vec![json!({"op": "lookup", "p": 0, "name": "d1", "nk": "plain"}), json!({"op": "open", "n": 1, "flags": libc::O_RDONLY}),
                           json!({"op": "lseek", "n": 1, "h": 0, "off": 3, "whence": 1}), json!({"op": "lseek", "n": 1, "h": 0, "off": 0, "whence": 0}),
                           json!({"op": "lookup", "p": 0, "name": "f1", "nk": "plain"}), json!({"op": "open", "n": 2, "flags": libc::O_RDWR}),
                           json!({"op": "lseek", "n": 2, "h": 1, "off": 3, "whence": 1}), json!({"op": "read", "n": 2, "h": 1, "off": 0, "len": 4, "flags": libc::O_RDWR}),
                           json!({"op": "write", "n": 2, "h": 1, "off": 2, "data": [49, 50], "flags": libc::O_RDWR}),
                           json!({"op": "lseek", "n": 2, "h": 1, "off": 2, "whence": 1}), json!({"op": "lseek", "n": 2, "h": 1, "off": 1, "whence": 2}),
                           json!({"op": "opendir", "n": 1, "flags": libc::O_RDONLY}), json!({"op": "lseek", "n": 1, "h": 2, "off": 0, "whence": 1})];
            out.push((base.clone(), ops));
        }
        // SETATTR with explicit / now / untouched times in every combination, through a handle and by reference
        for (no_open, ifh) in [(false, false), (true, false), (false, true)] {
            let cfg = Cfg { no_open, cache: if no_open { 3 } else { 2 }, ifh, ..base.clone() };
            let mut ops = vec![json!({"op": "lookup", "p": 0, "name": "f1", "nk": "plain"}), json!({"op": "open", "n": 1, "flags": libc::O_RDWR}),
                               json!({"op": "lookup", "p": 0, "name": "d1", "nk": "plain"})];
            let mut k = 0u64;
            for valid in [vec!["ATIME", "MTIME"], vec!["MTIME"], vec!["ATIME"], vec!["ATIME", "MTIME", "MTIME_NOW"], vec!["ATIME", "ATIME_NOW", "MTIME"]] {
                for (n, h) in [(1, -1i64), (1, if no_open { -1 } else { 0 }), (2, -1)] {
                    k += 1;
                    ops.push(json!({"op": "setattr", "n": n, "h": h, "valid": valid,
                                    "attr": {"atime": 1_500_000 + k, "atime_ns": 100_000_000 + k, "mtime": 2_500_000 + k, "mtime_ns": 300_000_000 + k}}));
                }
            }
            out.push((cfg, ops));
        }
    }
    out
}

fn main() {
    let args: Vec<String> = std::env::args().collect();
    if args.len() < 6 {
        eprintln!("usage: pttree <workdir> <out.ndjson> <mode> <segments> <len> [scenarios.ndjson]");
        std::process::exit(2);
    }
    let work = Path::new(&args[1]).to_path_buf();
    let mode = args[3].clone();
    let nseg: usize = args[4].parse().unwrap();
    let len: usize = args[5].parse().unwrap();
    let seed = env_u64("VERIF_SEED", 1);
    let mut rng = Rng::new(seed ^ 0x7074);
    drop(std::fs::File::create(&args[2]).expect("create trace"));
    let tpath = args[2].clone();
    std::fs::create_dir_all(&work).unwrap();
    let mut seg = 0usize;
    // scenarios exported by TLC (or replays): one JSON object per line {cfg, mode, tree, ops}
    if args.len() > 6 {
        let text = std::fs::read_to_string(&args[6]).unwrap();
        for line in text.lines().filter(|l| !l.trim().is_empty()) {
            let sc: J = serde_json::from_str(line).expect("scenario json");
            let cfg = Cfg::from_json(&sc["cfg"]);
            let ops: Vec<J> = sc["ops"].as_array().cloned().unwrap_or_default();
            let r2 = Rng::new(rng.next());
            forked(&tpath, seg, |tr| {
                let mut sg = Seg { seg, cfg, mode: sc["mode"].as_str().unwrap_or(&mode).to_string(), proot: work.join("P"), hroot: work.join("H"), ops: Some(ops), len: 0,
                                   rng: r2, gentle: false, tr, src: sc["src"].as_str().unwrap_or("tlc").to_string() };
                run_segment(&mut sg, if sc["tree"].is_null() { None } else { Some(&sc["tree"]) });
            });
            seg += 1;
        }
    }
    // targeted deterministic histories next to the random ones
    if nseg > 0 {
        for (cfg, ops) in targeted(&mode, &work) {
            let r2 = Rng::new(rng.next());
            let m2 = mode.clone();
            forked(&tpath, seg, |tr| {
                let mut sg = Seg { seg, cfg, mode: m2, proot: work.join("P"), hroot: work.join("H"), ops: Some(ops), len: 0, rng: r2, gentle: false, tr, src: "targeted".into() };
                run_segment(&mut sg, None);
            });
            seg += 1;
        }
    }
    let mut points = cube();
    // seeded shuffle so that a sample of the cube differs per seed but covers every factor value
    for k in (1..points.len()).rev() {
        let j = rng.below(k as u64 + 1) as usize;
        points.swap(k, j);
    }
    for k in 0..nseg {
        let mut cfg = points[k % points.len()].clone();
        match mode.as_str() {
            "c18" => {
                cfg.seal = true;
                cfg.no_open = k % 2 == 1;
                if cfg.no_open {
                    cfg.cache = 3;
                }
                cfg.wb = (k / 4) % 2 == 1; // writeback crossed with no_open and the write flag words
                if cfg.wb && cfg.cache == 0 {
                    cfg.cache = 2;
                }
                cfg.no_opendir = false;
            }
            "c06" => {
                if k % 3 == 2 {
                    cfg.via = "vfs".into();
                }
                cfg.killpriv = k % 4 == 1;
            }
            "c05" => {
                cfg.killpriv = k % 2 == 1;
            }
            _ => {}
        }
        let r2 = Rng::new(rng.next());
        forked(&tpath, seg, |tr| {
            let mut sg = Seg { seg, cfg, mode: mode.clone(), proot: work.join("P"), hroot: work.join("H"), ops: None, len, rng: r2, gentle: mode == "c18" && (k / 2) % 2 == 0, tr, src: "rand".into() };
            run_segment(&mut sg, None);
        });
        seg += 1;
    }
    if mode == "c06" {
        forked(&tpath, seg, |tr| gate_scripted(tr, seg));
    }
}
