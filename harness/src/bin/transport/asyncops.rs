//! The async-io entry points (cargo feature `async` = fuse-backend-rs/async-io): Reader::async_read_to_at and
//! Writer::{async_write, async_write2, async_write3, async_write_all, async_write_from_at, async_commit} for both
//! writers. The file side is a memfd-backed mock of `AsyncFileReadWriteVolatile` whose futures are immediately
//! ready (pread/pwrite), with the same per-call transfer limit as the synchronous wrapper; futures are polled
//! with a no-op waker. Observations and judge are the same as for the synchronous operations.
use std::future::Future;
use std::io;
use std::os::unix::io::{AsRawFd, RawFd};
use std::panic::{catch_unwind, AssertUnwindSafe};
use std::pin::Pin;
use std::task::{Context, Poll, RawWaker, RawWakerVTable, Waker};

use fuse_backend_rs::file_buf::FileVolatileBuf;
use fuse_backend_rs::file_traits::AsyncFileReadWriteVolatile;
use fuse_backend_rs::transport::{Reader, Writer};
use vm_memory::bitmap::BitmapSlice;

use crate::{fold, Files, Op};

fn noop_waker() -> Waker {
    fn clone(_: *const ()) -> RawWaker {
        RawWaker::new(std::ptr::null(), &VT)
    }
    fn noop(_: *const ()) {}
    static VT: RawWakerVTable = RawWakerVTable::new(clone, noop, noop, noop);
    unsafe { Waker::from_raw(RawWaker::new(std::ptr::null(), &VT)) }
}

/// poll a future that never really waits; a Pending result is reported as an error of kind "Pending"
fn block_on<T>(f: impl Future<Output = io::Result<T>>) -> io::Result<T> {
    let w = noop_waker();
    let mut cx = Context::from_waker(&w);
    let mut f: Pin<Box<dyn Future<Output = io::Result<T>> + '_>> = Box::pin(f);
    for _ in 0..4 {
        if let Poll::Ready(v) = f.as_mut().poll(&mut cx) {
            return v;
        }
    }
    Err(io::Error::new(io::ErrorKind::WouldBlock, "future pending"))
}

/// memfd-backed file; every call moves at most `cap` bytes (0 = no limit)
pub struct AFile {
    fd: RawFd,
    cap: usize,
}

impl AFile {
    fn limit(&self) -> usize {
        if self.cap == 0 {
            usize::MAX
        } else {
            self.cap
        }
    }
}

#[async_trait::async_trait(?Send)]
impl AsyncFileReadWriteVolatile for AFile {
    async fn async_read_at_volatile(&self, mut buf: FileVolatileBuf, offset: u64) -> (io::Result<usize>, FileVolatileBuf) {
        let k = {
            let mut m = buf.io_slice_mut();
            let l = m.len().min(self.limit());
            unsafe { libc::pread(self.fd, m.as_mut_ptr() as *mut libc::c_void, l, offset as i64) }
        };
        if k < 0 {
            return (Err(io::Error::last_os_error()), buf);
        }
        let nl = buf.len() + k as usize;
        unsafe { buf.set_size(nl) };
        (Ok(k as usize), buf)
    }

    async fn async_read_vectored_at_volatile(&self, mut bufs: Vec<FileVolatileBuf>, offset: u64) -> (io::Result<usize>, Vec<FileVolatileBuf>) {
        let mut rem = self.limit();
        let mut total = 0usize;
        for b in bufs.iter_mut() {
            if rem == 0 {
                break;
            }
            let (k, want) = {
                let mut m = b.io_slice_mut();
                let l = m.len().min(rem);
                (unsafe { libc::pread(self.fd, m.as_mut_ptr() as *mut libc::c_void, l, (offset + total as u64) as i64) }, l)
            };
            if k < 0 {
                return (Err(io::Error::last_os_error()), bufs);
            }
            let nl = b.len() + k as usize;
            unsafe { b.set_size(nl) };
            total += k as usize;
            rem -= k as usize;
            if (k as usize) < want {
                break; // end of file
            }
        }
        (Ok(total), bufs)
    }

    async fn async_write_at_volatile(&self, buf: FileVolatileBuf, offset: u64) -> (io::Result<usize>, FileVolatileBuf) {
        let k = {
            let s = buf.io_slice();
            let l = s.len().min(self.limit());
            unsafe { libc::pwrite(self.fd, s.as_ptr() as *const libc::c_void, l, offset as i64) }
        };
        if k < 0 {
            return (Err(io::Error::last_os_error()), buf);
        }
        (Ok(k as usize), buf)
    }

    async fn async_write_vectored_at_volatile(&self, bufs: Vec<FileVolatileBuf>, offset: u64) -> (io::Result<usize>, Vec<FileVolatileBuf>) {
        let mut rem = self.limit();
        let mut total = 0usize;
        for b in bufs.iter() {
            if rem == 0 {
                break;
            }
            let s = b.io_slice();
            let l = s.len().min(rem);
            let k = unsafe { libc::pwrite(self.fd, s.as_ptr() as *const libc::c_void, l, (offset + total as u64) as i64) };
            if k < 0 {
                return (Err(io::Error::last_os_error()), bufs);
            }
            total += k as usize;
            rem -= k as usize;
            if (k as usize) < l {
                break;
            }
        }
        (Ok(total), bufs)
    }
}

thread_local! {
    /// the crate's own runtime (io_uring if the kernel offers it, else tokio current-thread), created once
    static RT: fuse_backend_rs::async_runtime::Runtime = fuse_backend_rs::async_runtime::Runtime::new();
}

/// the crate's own `async_file::File` (its AsyncFileReadWriteVolatile implementation is part of
/// src/common/file_traits.rs) over a duplicate of the memfd
fn real_file(fd: RawFd) -> fuse_backend_rs::async_file::File {
    use std::os::unix::io::FromRawFd;
    let d = unsafe { libc::dup(fd) };
    assert!(d >= 0);
    fuse_backend_rs::async_file::File::from_std_file(unsafe { std::fs::File::from_raw_fd(d) })
}

/// op.c == 0: the crate's async File on the crate's runtime; op.c > 0: the limiting mock (short transfers)
pub fn reader_op<S: BitmapSlice>(r: &mut Reader<'_, S>, op: &Op, files: &mut Files) -> (&'static str, Option<u64>, Option<String>) {
    if op.c == 0 {
        let fd = files.sink.f.as_raw_fd();
        let q = catch_unwind(AssertUnwindSafe(|| {
            RT.with(|rt| {
                rt.block_on(async {
                    let f = real_file(fd);
                    r.async_read_to_at(&f, op.n, op.x).await
                })
            })
        }));
        return fold(q, |k| Some(k as u64));
    }
    let f = AFile { fd: files.sink.f.as_raw_fd(), cap: op.c };
    fold(catch_unwind(AssertUnwindSafe(|| block_on(r.async_read_to_at(&f, op.n, op.x)))), |k| Some(k as u64))
}

pub fn writer_op<'a, S: BitmapSlice>(
    w: &mut Writer<'a, S>,
    other: Option<&Writer<'a, S>>,
    op: &Op,
    data: &[u8],
    files: &mut Files,
) -> (&'static str, Option<u64>, Option<String>) {
    let sl = crate::data_slices(op).unwrap_or_default();
    let cut = |i: usize| -> &[u8] {
        let a: usize = sl[..i].iter().sum();
        &data[a..a + sl[i]]
    };
    match op.op.as_str() {
        "async_write" => fold(catch_unwind(AssertUnwindSafe(|| block_on(w.async_write(data)))), |k| Some(k as u64)),
        "async_write2" => fold(catch_unwind(AssertUnwindSafe(|| block_on(w.async_write2(cut(0), cut(1))))), |k| Some(k as u64)),
        "async_write3" => fold(catch_unwind(AssertUnwindSafe(|| block_on(w.async_write3(cut(0), cut(1), cut(2))))), |k| Some(k as u64)),
        "async_write_all" => fold(catch_unwind(AssertUnwindSafe(|| block_on(w.async_write_all(data)))), |_| None),
        "async_write_from_at" if op.c == 0 => {
            let fd = files.src.f.as_raw_fd();
            let q = catch_unwind(AssertUnwindSafe(|| {
                RT.with(|rt| {
                    rt.block_on(async {
                        let f = real_file(fd);
                        w.async_write_from_at(&f, op.n, op.x).await
                    })
                })
            }));
            fold(q, |k| Some(k as u64))
        }
        "async_write_from_at" => {
            let f = AFile { fd: files.src.f.as_raw_fd(), cap: op.c };
            fold(catch_unwind(AssertUnwindSafe(|| block_on(w.async_write_from_at(&f, op.n, op.x)))), |k| Some(k as u64))
        }
        "async_commit" => fold(catch_unwind(AssertUnwindSafe(|| block_on(w.async_commit(other)))), |k| Some(k as u64)),
        other => panic!("harness: unknown async writer op {}", other),
    }
}

// ------------------------------------------------------------------------------------------------
// the forwarding impl `AsyncFileReadWriteVolatile for Arc<T>`: driven in a CHILD process, because a crash
// (stack overflow) of the code under test must be recorded as data, not take the harness down

const P_SIZE: usize = 64;
const P_SALT: usize = 33;
const P_X: u64 = 5;
const P_V: u8 = 9;
pub const ARC_METHODS: [&str; 4] =
    ["async_read_at_volatile", "async_read_vectored_at_volatile", "async_write_at_volatile", "async_write_vectored_at_volatile"];

/// child side: one call of `method` through an `Arc<async_file::File>`; prints one JSON line
pub fn arc_child(method: &str) {
    use crate::obs::*;
    use std::sync::Arc;
    let method = method.to_string();
    let h = std::thread::Builder::new()
        .stack_size(512 * 1024)
        .spawn(move || {
            let reading = method.contains("read");
            let content: Vec<u8> =
                if reading { (0..P_SIZE).map(|i| ((i + P_SALT) % M as usize) as u8).collect() } else { vec![FPOISON; P_SIZE] };
            let mut mf = MFile::new("arcprobe", content);
            let fd = mf.f.as_raw_fd();
            let lens: Vec<usize> = if method.contains("vectored") { vec![4, 6, 3] } else { vec![13] };
            let mut mem: Vec<Vec<u8>> = lens
                .iter()
                .scan(0usize, |at, &l| {
                    let v = if reading { vec![0xEEu8; l] } else { ramp_bytes(((P_V as usize + *at) % M as usize) as u8, l) };
                    *at += l;
                    Some(v)
                })
                .collect();
            let bufs: Vec<FileVolatileBuf> = mem
                .iter_mut()
                .map(|b| unsafe { if reading { FileVolatileBuf::new(b) } else { let l = b.len(); FileVolatileBuf::new_with_data(b, l) } })
                .collect();
            let res: io::Result<usize> = RT.with(|rt| {
                rt.block_on(async {
                    let f = Arc::new(real_file(fd));
                    match method.as_str() {
                        "async_read_at_volatile" => AsyncFileReadWriteVolatile::async_read_at_volatile(&f, bufs[0], P_X).await.0,
                        "async_read_vectored_at_volatile" => AsyncFileReadWriteVolatile::async_read_vectored_at_volatile(&f, bufs, P_X).await.0,
                        "async_write_at_volatile" => AsyncFileReadWriteVolatile::async_write_at_volatile(&f, bufs[0], P_X).await.0,
                        _ => AsyncFileReadWriteVolatile::async_write_vectored_at_volatile(&f, bufs, P_X).await.0,
                    }
                })
            });
            match res {
                Err(e) => println!("{}", serde_json::json!({"res":"err","err":format!("{:?}", e.kind())})),
                Ok(k) => {
                    if reading {
                        let all: Vec<u8> = mem.concat();
                        println!("{}", serde_json::json!({"res":"ok","ret":k,"out":ramps(&all[..k.min(all.len())])}));
                    } else {
                        let (d, _) = mf.diff();
                        println!("{}", serde_json::json!({"res":"ok","ret":k,"fdiff":d}));
                    }
                }
            }
        })
        .unwrap();
    let _ = h.join();
}

/// parent side: one Probe event per forwarded method
pub fn arc_probes(tr: &mut vharness::util::Trace, seg: u64) -> usize {
    use std::os::unix::process::ExitStatusExt;
    let exe = std::env::current_exe().expect("current_exe");
    for m in ARC_METHODS {
        let out = std::process::Command::new(&exe).args(["arc-child", m]).output().expect("spawn probe");
        let mut ev = serde_json::Map::new();
        ev.insert("e".into(), serde_json::json!("Probe"));
        ev.insert("seg".into(), serde_json::json!(seg));
        ev.insert("op".into(), serde_json::json!(format!("arc.{}", m)));
        ev.insert("n".into(), serde_json::json!(13));
        ev.insert("x".into(), serde_json::json!(P_X));
        ev.insert("salt".into(), serde_json::json!(P_SALT));
        ev.insert("v".into(), serde_json::json!(P_V));
        ev.insert("reading".into(), serde_json::json!(m.contains("read")));
        let line = String::from_utf8_lossy(&out.stdout).lines().last().unwrap_or("").to_string();
        match (out.status.signal(), serde_json::from_str::<serde_json::Value>(&line)) {
            (Some(sig), _) => {
                ev.insert("res".into(), serde_json::json!("crash"));
                ev.insert("signal".into(), serde_json::json!(sig));
            }
            (None, Ok(serde_json::Value::Object(o))) => {
                for (k, v) in o {
                    ev.insert(k, v);
                }
            }
            _ => {
                ev.insert("res".into(), serde_json::json!("crash"));
                ev.insert("signal".into(), serde_json::json!(out.status.code().unwrap_or(-1)));
            }
        }
        tr.emit(&serde_json::Value::Object(ev));
    }
    tr.flush();
    ARC_METHODS.len()
}
