SPECIFICATION Spec
VIEW StateView
CHECK_DEADLOCK FALSE
CONSTANTS
  Paths <- MCPathsQ
  Names = {"a", "b"}
  MaxDepth = 2
  NLower = 1
  MaxOps = 1
  HasUpper = TRUE
  Known = {}
  AsFound = {}
  UpperTypes = {"none", "file", "dir", "wh"}
  LowerTypes = {"none", "file", "dir", "odir"}
INVARIANTS LoadAgrees LiveIsView StatusAgrees RestartSame LowersFrozen
