---------------------------- MODULE MC_MpmcImpl ----------------------------
(* Model-checking instances of MpmcImpl.tla: the programs of the processes. *)
EXTENDS MpmcImpl
S(m) == [op |-> "send", m |-> m, set |-> {}]
R == [op |-> "recv", m |-> 0, set |-> {}]
RC == [op |-> "recvc", m |-> 0, set |-> {}]
T == [op |-> "try", m |-> 0, set |-> {}]
C == [op |-> "close", m |-> 0, set |-> {}]
NW == [op |-> "notifyw", m |-> 0, set |-> {}]
LN == [op |-> "len", m |-> 0, set |-> {}]
F(set) == [op |-> "flush", m |-> 0, set |-> set]

\* no close: two senders, two receivers
P_2S2R == (1 :> <<S(1)>>) @@ (2 :> <<S(2)>>) @@ (3 :> <<R>>) @@ (4 :> <<R>>)
\* no close: one sender of two messages, a receiver that takes two, a receiver that may give up, a try_recv
P_S2RR == (1 :> <<S(1), S(2)>>) @@ (2 :> <<R, R>>) @@ (3 :> <<RC>>) @@ (4 :> <<T>>)
\* no close: three senders / three receivers
P_3S3R == (1 :> <<S(1)>>) @@ (2 :> <<S(2)>>) @@ (3 :> <<S(3)>>) @@ (4 :> <<R>>) @@ (5 :> <<R>>) @@ (6 :> <<R>>)
\* no close: the other public methods next to send/recv
P_MISC == (1 :> <<S(1), S(2)>>) @@ (2 :> <<R, R>>) @@ (3 :> <<NW, F({1}), LN>>)
P_MISC2 == (1 :> <<S(1), S(2), S(3)>>) @@ (2 :> <<R, RC>>) @@ (3 :> <<RC>>) @@ (4 :> <<NW, F({2}), LN, T>>)
\* quick tier: every public method and a cancellable receive in one small program
P_QUICK == (1 :> <<S(1), S(2)>>) @@ (2 :> <<R, RC>>) @@ (3 :> <<NW, F({1}), LN, T>>)
\* one closer
P_SRC == (1 :> <<S(1)>>) @@ (2 :> <<R, R>>) @@ (3 :> <<C>>)
P_2S2RC == (1 :> <<S(1)>>) @@ (2 :> <<S(2)>>) @@ (3 :> <<R, R>>) @@ (4 :> <<R>>) @@ (5 :> <<C>>)
P_S2R2C == (1 :> <<S(1), S(2)>>) @@ (2 :> <<R, R>>) @@ (3 :> <<R, T>>) @@ (4 :> <<C, S(3)>>)
P_3S3RC == (1 :> <<S(1)>>) @@ (2 :> <<S(2)>>) @@ (3 :> <<S(3)>>) @@ (4 :> <<R, R>>) @@ (5 :> <<R>>) @@ (6 :> <<RC>>) @@ (7 :> <<C>>)
P_3S2RC == (1 :> <<S(1)>>) @@ (2 :> <<S(2)>>) @@ (3 :> <<S(3)>>) @@ (4 :> <<R, R>>) @@ (5 :> <<R>>) @@ (6 :> <<C>>)
P_S2RRC == (1 :> <<S(1), S(2)>>) @@ (2 :> <<R, R>>) @@ (3 :> <<R>>) @@ (4 :> <<C>>)
P_SRRC == (1 :> <<S(1)>>) @@ (2 :> <<R>>) @@ (3 :> <<RC>>) @@ (4 :> <<C, S(2)>>)
P_SRCT == (1 :> <<S(1), S(2)>>) @@ (2 :> <<R, R, R>>) @@ (3 :> <<C, T>>)
=============================================================================
