SPECIFICATION Spec
CONSTANT ExtMarker = TRUE
INVARIANT ExportCases
CHECK_DEADLOCK FALSE
