---------------------------- MODULE OvlRefsImpl ----------------------------
(* I-level specification for X04: the InodeStore of src/overlayfs/inode_store.rs (inodes, deleted, path -> inode
   reservation, next_inode) and the `lookups` arithmetic of src/overlayfs/mod.rs (new_from_real_inode = 1,
   do_lookup +1, do_readdir(plus) +1, do_rm -1 and move to `deleted`, forget_one with its parent-map removal),
   for one directory (the root) with files named Names; UpperNames / LowerNames say which names exist in the
   upper / a lower layer initially (a removed name that a lower layer still has is replaced by a whiteout node).
   After every step the client probes every number (getattr = get_active_inode). The A judge OvlRefs.tla is
   applied to every reply; TLC checks that only allowed signatures ever appear (Allowed = the listed findings)
   and exports counterexamples / walks as histories for the harness (`ovl refs`).
   Not modelled: sub-directories (the "." / ".." entries of readdirplus only ever hit the root here), copy-up,
   handles. AsFound selects behaviour of the code as found: "DELGET" (a deleted-but-referenced number does not
   resolve) and "OVERF" (forget saturates at 0, below the tree's own reference) describe the code as it is now and
   are dropped once findings/ovlrefs-deleted-getattr.diff / ovlrefs-over-forget.diff are applied; "E708" brings
   back the inode-number reservation before fix e708a31 (anti-vacuity run only). *)
EXTENDS OvlRefs, Json, SequencesExt, Integers

CONSTANTS Names, UpperNames, LowerNames, MaxOps, MaxIno, Allowed, AsFound

VARIABLES nodes, inodes, deleted, pm, next, nobj, S, nops, hist
vars == <<nodes, inodes, deleted, pm, next, nobj, S, nops, hist>>

Nums == 2..MaxIno
NoN == [ino |-> 0, lk |-> 0, wh |-> FALSE, obj |-> 0, par |-> FALSE, up |-> FALSE]
NoD == [lk |-> 0, obj |-> 0]
Visible(n) == nodes[n] # NoN /\ ~nodes[n].wh
Registered(n) == nodes[n] # NoN /\ inodes[nodes[n].ino] = n

\* InodeStore::alloc_inode / alloc_unique_inode
Free(k) == inodes[k] = "" /\ deleted[k] = NoD
Unique == IF \E k \in Nums : k >= next /\ Free(k) THEN CHOOSE k \in Nums : k >= next /\ Free(k) /\ \A j \in Nums : (j >= next /\ Free(j)) => k <= j
          ELSE 0
Alloc(n) == IF pm[n] # 0 /\ ("E708" \in AsFound \/ deleted[pm[n]] = NoD) THEN pm[n] ELSE Unique
NextAfter(k) == IF k >= next THEN k + 1 ELSE next

\* what the client observes after every step: getattr on every number
\* getattr(k): the active table; the deleted-but-referenced table only once findings/ovlrefs-deleted-getattr.diff is in
\* ("DELGET" in AsFound = the code as found: lookup_node consults get_active_inode only). 0 = does not resolve.
ObjOfNum(k, ns, ino, del) == IF ino[k] # "" /\ ns[ino[k]].ino = k THEN ns[ino[k]].obj
                             ELSE IF "DELGET" \notin AsFound /\ del[k] # NoD THEN del[k].obj ELSE 0
Probed(S0, ns, ino, del) ==
  LET RECURSIVE P(_, _)
      P(S1, K) == IF K = {} THEN S1
                  ELSE LET k == CHOOSE x \in K : TRUE
                           o == ObjOfNum(k, ns, ino, del)
                           ok == o # 0 \/ (ino[k] # "" /\ ns[ino[k]].ino = k)
                       IN P(RProbe(S1, k, ok, ~ok \/ ~Held(S1, k) \/ o = S1.obj[k]), K \ {k})
  IN P(S0, Nums)
Shape(ns) == {n \in Names : ns[n] # NoN /\ ~ns[n].wh}

Label(k) == "k" \o ToString(k)
Commit(ns, ino, del, p, nx, no, S1, o) ==
  /\ nodes' = ns /\ inodes' = ino /\ deleted' = del /\ pm' = p /\ next' = nx /\ nobj' = no
  /\ S' = Probed(S1, ns, ino, del)
  /\ hist' = Append(hist, o) /\ nops' = nops + 1

Lookup(n) ==
  /\ Visible(n)
  /\ LET nd == nodes[n] IN
     Commit([nodes EXCEPT ![n].lk = @ + 1], inodes, deleted, pm, next, nobj, REntry(S, "lookup", nd.ino, nd.obj, n),
            [op |-> "lookup", p |-> <<n>>, mn |-> nd.ino])

\* do_create / do_link (+ the do_lookup of the reply): over a whiteout node the node is re-used, else a new node
Make(n, obj, o, newobj) ==
  /\ ~Visible(n)
  /\ IF nodes[n] # NoN
     THEN LET nd == [nodes[n] EXCEPT !.wh = FALSE, !.obj = obj, !.lk = @ + 1, !.up = TRUE] IN
          Commit([nodes EXCEPT ![n] = nd], inodes, deleted, pm, next, IF newobj THEN nobj + 1 ELSE nobj,
                 REntry(S, o.op, nd.ino, obj, n), [o EXCEPT !.mn = nd.ino])
     ELSE LET k == Alloc(n) IN
          /\ k # 0
          /\ Commit([nodes EXCEPT ![n] = [ino |-> k, lk |-> 2, wh |-> FALSE, obj |-> obj, par |-> FALSE, up |-> TRUE]],
                    [inodes EXCEPT ![k] = n], deleted, [pm EXCEPT ![n] = k], NextAfter(k), IF newobj THEN nobj + 1 ELSE nobj,
                    REntry(S, o.op, k, obj, n), [o EXCEPT !.mn = k])
Create(n) == Make(n, nobj + 1, [op |-> "create", p |-> <<n>>, m |-> 420, excl |-> TRUE, mn |-> 0], TRUE)
Link(s, n) == s # n /\ Visible(s) /\ Make(n, nodes[s].obj, [op |-> "link", src |-> <<s>>, p |-> <<n>>, mn |-> 0], FALSE)

\* do_rm (unlink)
Unlink(n) ==
  /\ Visible(n)
  /\ LET nd == nodes[n]
         lk1 == nd.lk - 1                                  \* fetch_sub(1): wraps below 0
         ino1 == [inodes EXCEPT ![nd.ino] = IF @ = n THEN "" ELSE @]
         del1 == IF lk1 > 0 /\ inodes[nd.ino] = n THEN [deleted EXCEPT ![nd.ino] = [lk |-> lk1, obj |-> nd.obj]] ELSE deleted
         pm1 == IF nd.up THEN [pm EXCEPT ![n] = 0] ELSE pm   \* path_removed only when the node had an upper inode
         gone == ~\E q \in Names \ {n} : Visible(q) /\ nodes[q].obj = nd.obj
         S1 == RViol(RUnlinked(IF gone THEN RDead(S, {nd.obj}) ELSE S, n), IF lk1 < 0 THEN {RSig("unlink", "lookups-underflow" \o (IF nd.ino \in S.over THEN "-after-over-forget" ELSE ""))} ELSE {})
         o == [op |-> "unlink", p |-> <<n>>]
     IN IF n \in LowerNames
        THEN \* whiteout node: InodeStore::alloc_inode(path) after the old node moved to `deleted`
             LET k == IF pm1[n] # 0 /\ ("E708" \in AsFound \/ del1[pm1[n]] = NoD) THEN pm1[n]
                      ELSE IF \E j \in Nums : j >= next /\ ino1[j] = "" /\ del1[j] = NoD
                           THEN CHOOSE j \in Nums : j >= next /\ ino1[j] = "" /\ del1[j] = NoD /\ \A i \in Nums : (i >= next /\ ino1[i] = "" /\ del1[i] = NoD) => j <= i
                           ELSE 0
             IN /\ k # 0
                /\ Commit([nodes EXCEPT ![n] = [ino |-> k, lk |-> 1, wh |-> TRUE, obj |-> 0, par |-> FALSE, up |-> TRUE]],
                          [ino1 EXCEPT ![k] = n], del1, [pm1 EXCEPT ![n] = k], NextAfter(k), nobj, S1, o)
        ELSE Commit([nodes EXCEPT ![n] = NoN], ino1, del1, pm1, next, nobj, S1, o)

\* forget_one
Forget(k, c) ==
  LET \* hint: the name whose node carries the number now (a client that was never given the number can still guess it;
      \* the harness learns the real number by a balanced lookup + forget of that name)
      o == [op |-> "forget", mn |-> k, n |-> c,
            hint |-> IF inodes[k] # "" /\ nodes[inodes[k]].ino = k /\ ~nodes[inodes[k]].wh THEN <<inodes[k]>> ELSE <<>>]
      S1 == RForget(S, k, c)
      kind == IF c > RGet(S.refs, k, 0) THEN "over-forget" ELSE "forget"
  IN IF inodes[k] # "" /\ nodes[inodes[k]].ino = k
     THEN LET n == inodes[k] nd == nodes[n]
              \* a node that still has its name keeps the tree's own reference (findings/ovlrefs-over-forget.diff);
              \* "OVERF" in AsFound = the code as found: saturation at 0
              floor == IF "OVERF" \in AsFound THEN 0 ELSE 1
              lk1 == IF nd.lk < c + floor THEN (IF nd.lk < floor THEN nd.lk ELSE floor) ELSE nd.lk - c IN
          IF lk1 > 0 THEN Commit([nodes EXCEPT ![n].lk = lk1], inodes, deleted, pm, next, nobj, S1, o)
          ELSE \* remove_inode(.., None); the parent's map entry goes only if the node has a parent pointer
               LET ns == IF nd.par THEN [nodes EXCEPT ![n] = NoN] ELSE [nodes EXCEPT ![n].lk = 0] IN
               Commit(ns, [inodes EXCEPT ![k] = ""], deleted, pm, next, nobj,
                      RViol(S1, IF Shape(ns) # Shape(nodes) THEN {RSig(kind, "tree-changed")} ELSE {}), o)
     ELSE IF deleted[k] # NoD
     THEN LET lk1 == IF deleted[k].lk < c THEN 0 ELSE deleted[k].lk - c IN
          Commit(nodes, inodes, IF lk1 = 0 THEN [deleted EXCEPT ![k] = NoD] ELSE [deleted EXCEPT ![k].lk = lk1], pm, next, nobj, S1, o)
     ELSE Commit(nodes, inodes, deleted, pm, next, nobj, S1, o)

\* readdirplus of the root: every visible child +1 ("." and ".." are the root)
Rdplus ==
  LET V == {n \in Names : Visible(n)}
      RECURSIVE E(_, _)
      E(S1, X) == IF X = {} THEN S1 ELSE LET n == CHOOSE x \in X : TRUE IN E(REntry(S1, "readdirplus", nodes[n].ino, nodes[n].obj, n), X \ {n})
  IN /\ V # {}
     /\ Commit([n \in Names |-> IF n \in V THEN [nodes[n] EXCEPT !.lk = @ + 1] ELSE nodes[n]], inodes, deleted, pm, next, nobj, E(S, V),
               [op |-> "rdplus", p |-> <<>>, mns |-> [n \in V |-> nodes[n].ino]])

\* import + load_directory of the root: numbers 2.. in some order (HashMap order: every order is explored via the choice of f)
Init ==
  /\ \E f \in [UpperNames \cup LowerNames -> Nums] :
        /\ \A x, y \in DOMAIN f : x # y => f[x] # f[y]
        /\ \A x \in DOMAIN f : f[x] <= 1 + Cardinality(DOMAIN f)
        /\ nodes = [n \in Names |-> IF n \in DOMAIN f THEN [ino |-> f[n], lk |-> 1, wh |-> FALSE, obj |-> f[n], par |-> TRUE, up |-> n \in UpperNames] ELSE NoN]
        /\ inodes = [k \in Nums |-> IF \E n \in DOMAIN f : f[n] = k THEN CHOOSE n \in DOMAIN f : f[n] = k ELSE ""]
        /\ pm = [n \in Names |-> IF n \in DOMAIN f THEN f[n] ELSE 0]
        /\ next = 2 + Cardinality(DOMAIN f) /\ nobj = MaxIno
  /\ deleted = [k \in Nums |-> NoD] /\ S = RInit /\ nops = 0 /\ hist = <<>>

Next == /\ nops < MaxOps
        /\ \/ \E n \in Names : Lookup(n) \/ Create(n) \/ Unlink(n)
           \/ \E s, n \in Names : Link(s, n)
           \/ \E k \in Nums, c \in 1..2 : Forget(k, c)
           \/ Rdplus
Spec == Init /\ [][Next]_vars
StateView == <<nodes, inodes, deleted, pm, next, S, nops>>

Row(n, l) == [p |-> <<n>>, t |-> "file", m |-> 416 + l, c |-> <<"F" \o n \o ToString(l) \o ".0">>]
Scenario == [id |-> "mc", B |-> 16, upper |-> TRUE, names |-> <<"a", "b", "c">>, depth |-> 3,
             layers |-> << SetToSeq({Row(n, 0) : n \in UpperNames}), SetToSeq({Row(n, 1) : n \in LowerNames}) >>,
             ops |-> hist]
OnlyAllowed == IF S.viol \subseteq Allowed THEN TRUE
               ELSE PrintT(<<"CEX", ToJson(SetToSeq(S.viol \ Allowed)), ToJson(Scenario)>>) /\ FALSE
Export == nops < MaxOps \/ PrintT(<<"REPLAY", ToJson(Scenario)>>)
=============================================================================
