\* Stand-alone thorough configuration (= t_a of checks/transport.py): <=3 runs of length 0..2 over 4 bases,
\* <=3 operations with counts 0..3, all three kinds; measured 518 124 distinct states / 9 030 409 generated.
SPECIFICATION Spec
CONSTANTS
  P = 2
  M = 100000
  MaxSegs = 3
  MaxLen = 2
  Bases <- MC_Bases4
  FLens <- MC_FLens4
  Kinds <- MC_KindsAll
  MaxOps = 3
  MaxN = 3
  FileSize = 2
  Chunks <- MC_Chunks
  MaxAddr = 6
VIEW View
INVARIANTS FlatAgree Counters InOrderOnce Placed FailClean Results NoOOB ObjCount Lemmas DirtyExact
CHECK_DEADLOCK FALSE
