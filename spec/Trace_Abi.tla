------------------------------ MODULE Trace_Abi ------------------------------
(* Trace specification for C13: validates the facts emitted by a probe (SRC = "crate": the Rust
   probe over the library; SRC = "kernel": the C probe over /usr/include/linux/fuse.h, used as
   calibration of FuseAbiTable) against FuseAbi. Facts are independent, so the spec runs in
   monitor mode: a mismatching fact prints a VIOL line and validation continues. *)
EXTENDS FuseAbi, Json, IOUtils, TLC
Rec == ndJsonDeserialize(IOEnv.TRACE)
SRC == IOEnv.SRC

VARIABLES l, seenS, seenF, seenC, seenConv, nx, lasthi, scanned
vars == <<l, seenS, seenF, seenC, seenConv, nx, lasthi, scanned>>

Viol(sig, detail) == PrintT(<<"VIOL", sig, l, detail>>)
Has(r, k) == k \in DOMAIN r

\* the judged view: the header's for the C probe; for the Rust probe either the header's or the library's documented
\* view (LibLayout/Alias): a library that moves to the newer layout of the installed header is as right as one that
\* keeps the documented older form
KName(s, f) == IF SRC = "kernel" THEN f ELSE LibName(s, f)
SizeOK(s, n) == n = StructSize[s] \/ (SRC # "kernel" /\ n = LibSize[s])
FieldOK(s, f, off, w) ==
  LET k == KName(s, f) IN
  \/ (k \in Fields(s) /\ FieldRec(s, k).off = off /\ FieldRec(s, k).w = w)
  \/ (SRC # "kernel" /\ k \in LibFields(s) /\ LibFieldRec(s, k).off = off /\ LibFieldRec(s, k).w = w)
KnownField(s, f) == KName(s, f) \in Fields(s) \/ (SRC # "kernel" /\ KName(s, f) \in LibFields(s))
CheckSize(r) ==
  IF r.struct \notin Structs THEN (SRC = "kernel" \/ Viol("C13|struct|unknown|" \o r.struct, r))
  ELSE SizeOK(r.struct, r.size) \/ Viol("C13|size|" \o r.struct, <<r.size, StructSize[r.struct], LibSize[r.struct]>>)
CheckField(r) ==
  IF r.struct \notin Structs THEN TRUE
  ELSE IF ~KnownField(r.struct, r.field) THEN Viol("C13|field|unknown|" \o r.struct \o "." \o r.field, r)
  ELSE FieldOK(r.struct, r.field, r.off, r.w)
       \/ Viol("C13|field|" \o r.struct \o "." \o r.field, <<[off |-> r.off, w |-> r.w],
                IF KName(r.struct, r.field) \in Fields(r.struct) THEN FieldRec(r.struct, KName(r.struct, r.field)) ELSE LibFieldRec(r.struct, KName(r.struct, r.field))>>)
CheckConst(r) ==
  IF r.name \notin DOMAIN KConst THEN (SRC = "kernel" \/ Viol("C13|const|unknown|" \o r.name, r))
  ELSE r.val = KConst[r.name] \/ Viol("C13|const|" \o r.name, <<r.val, KConst[r.name]>>)
OpStrs == {ToString(n) : n \in SupportedOps}
CheckOpRange(r) ==
  /\ (r.lo31 = nx \/ Viol("C13|opcode|gap", <<nx, r>>))
  /\ IF r.kind = "id"
     THEN (r.lo31 = r.hi31 /\ r.lo31 \in SupportedOps) \/ Viol("C13|opcode|hole-mapped-to-itself|" \o r.lo, r)
     ELSE /\ (\A s \in SupportedOps : s < r.lo31 \/ s > r.hi31) \/ Viol("C13|opcode|supported-not-identity|" \o r.lo, r)
          /\ r.kind \notin OpStrs \/ Viol("C13|opcode|unknown-mapped-to-supported|" \o r.lo, r)
CheckConv(r) ==
  IF r.fn \notin DOMAIN ConvName THEN Viol("C13|conv|unknown|" \o r.fn, r)
  ELSE LET t == ConvTable[ConvName[r.fn]] IN
       IF r.out \notin DOMAIN t THEN Viol("C13|conv|unknown-field|" \o r.fn \o "|" \o r.out, r)
       ELSE r.src = t[r.out] \/ Viol("C13|conv|" \o r.fn \o "|" \o r.out, <<r.src, t[r.out]>>)

ReqS == IF SRC = "kernel" THEN Structs \ {"fuse_init_in_head", "fuse_init_in_tail"} ELSE RequiredStructs
ReqC == IF SRC = "kernel" THEN DOMAIN KConst \ Unpinned ELSE RequiredConsts
CheckEnd ==
  /\ \A s \in ReqS : s \in seenS \/ Viol("C13|missing|struct|" \o s, s)
  \* every field of the header's view, or every field of the library's documented view, was reported
  /\ \A s \in ReqS :
        LET seen == {f \in Fields(s) \cup LibFields(s) : <<s, f>> \in seenF} IN
        (Fields(s) \subseteq seen \/ (SRC # "kernel" /\ LibFields(s) \subseteq seen))
        \/ Viol("C13|missing|field|" \o s \o "." \o (CHOOSE f \in LibFields(s) : f \notin seen), LibFields(s) \ seen)
  /\ \A c \in ReqC : c \in seenC \/ Viol("C13|missing|const|" \o c, c)
  /\ IF SRC = "kernel" THEN TRUE ELSE
       /\ scanned \/ Viol("C13|opcode|scan-missing", lasthi)
       /\ lasthi = "4294967295" \/ Viol("C13|opcode|scan-incomplete", lasthi)
       /\ \A fn \in DOMAIN ConvName : \A o \in DOMAIN ConvTable[ConvName[fn]] :
             <<fn, o>> \in seenConv \/ Viol("C13|missing|conv|" \o fn \o "|" \o o, o)

Init == l = 1 /\ seenS = {} /\ seenF = {} /\ seenC = {} /\ seenConv = {} /\ nx = 0 /\ lasthi = "" /\ scanned = FALSE
Step ==
  /\ l <= Len(Rec)
  /\ LET r == Rec[l] IN
     \* "= TRUE" forces TLC to evaluate the monitor as an expression (short-circuit \/), not as an
     \* action formula whose disjuncts would each be explored
     /\ TRUE = CASE r.e = "Size" -> CheckSize(r)
          [] r.e = "Field" -> CheckField(r)
          [] r.e = "Const" -> CheckConst(r)
          [] r.e = "OpRange" -> CheckOpRange(r)
          [] r.e = "Conv" -> CheckConv(r)
          [] r.e = "End" -> CheckEnd
          [] r.e = "OpScan" -> TRUE
          [] OTHER -> Viol("C13|event|unknown", r)
     /\ seenS' = IF r.e = "Size" THEN seenS \cup {r.struct} ELSE seenS
     /\ seenF' = IF r.e = "Field" THEN seenF \cup {<<r.struct, IF r.struct \in Structs THEN KName(r.struct, r.field) ELSE r.field>>} ELSE seenF
     /\ seenC' = IF r.e = "Const" THEN seenC \cup {r.name} ELSE seenC
     /\ seenConv' = IF r.e = "Conv" THEN seenConv \cup {<<r.fn, r.out>>} ELSE seenConv
     /\ nx' = IF r.e = "OpRange" THEN (IF r.hi31 < 2147483647 THEN r.hi31 + 1 ELSE r.hi31) ELSE nx
     /\ lasthi' = IF r.e = "OpRange" THEN r.hi ELSE lasthi
     /\ scanned' = (scanned \/ (r.e = "OpScan" /\ r.full))
  /\ l' = l + 1
Done == l = Len(Rec) + 1 /\ PrintT(<<"ACCEPTED", Len(Rec)>>) /\ l' = l + 1 /\ UNCHANGED <<seenS, seenF, seenC, seenConv, nx, lasthi, scanned>>
Next == Step \/ Done
Spec == Init /\ [][Next]_vars
=============================================================================
