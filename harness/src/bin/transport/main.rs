//! Harness of the `transport` engine (properties C04 and C17).
//!
//! Drives the REAL `Reader` / `VirtioFsWriter` (over a `GuestMemoryMmap<AtomicBitmap>` with several
//! regions and a descriptor chain built by `virtio_queue::mock::MockSplitQueue`), the REAL
//! `Reader::from_fuse_buffer` / `FuseDevWriter` (device fd = AF_UNIX SOCK_SEQPACKET pair: one message
//! per write(2)/writev(2)) and the REAL `FileVolatileSlice` / `FileVolatileBuf` containers, and logs
//! one NDJSON event per operation with the raw observations (result, returned count, delivered
//! bytes, counters of every live object, byte diff of all memory, dirty pages, device messages,
//! file diffs and cursors). It asserts nothing: the judge is spec/Trace_Transport.tla.
//!
//!   transport replay <scenarios.ndjson> <trace.ndjson>   execute behaviours exported by TLC
//!   transport random <trace.ndjson> <steps>              seeded random driver (VERIF_SEED)
#[cfg(feature = "async")]
mod asyncops;
mod fvs;
mod obs;

use std::fs::File;
use std::io::{self, IoSlice, Read, Write};
use std::os::unix::io::{AsRawFd, RawFd};
use std::panic::{catch_unwind, AssertUnwindSafe};

use fuse_backend_rs::file_buf::FileVolatileSlice;
use fuse_backend_rs::file_traits::FileReadWriteVolatile;
use fuse_backend_rs::transport::{FuseBuf, FuseDevWriter, Reader, VirtioFsWriter, Writer};
use obs::*;
use serde_json::{json, Map, Value};
use vharness::util::{env_u64, Rng, Trace};
use virtio_queue::desc::{split::Descriptor as SplitDescriptor, RawDescriptor};
use virtio_queue::mock::MockSplitQueue;
use vm_memory::bitmap::{AtomicBitmap, Bitmap, BitmapSlice};
use vm_memory::{ByteValued, GuestAddress, GuestMemory, GuestMemoryMmap, GuestMemoryRegion};

pub const PAGE: u64 = 4096;
/// replay/random drive the async entry points where they exist (commands replay-async / random-async)
static ASYNC_MODE: std::sync::atomic::AtomicBool = std::sync::atomic::AtomicBool::new(false);
fn async_mode() -> bool {
    ASYNC_MODE.load(std::sync::atomic::Ordering::Relaxed)
}
const QSIZE: usize = 0x10000; // region 0 holds the virtqueue only and is never observed

// ------------------------------------------------------------------------------------------------
// scenarios

#[derive(Clone, Debug)]
pub struct Op {
    pub o: usize,
    pub op: String,
    pub n: usize,
    pub x: u64,   // file offset (.._at), first slice length (write_vectored)
    pub c: usize, // per-call transfer limit of the file (0 = plain File)
    pub v: u8,    // ramp phase of the data
    pub sl: Vec<usize>, // write_vectored: lengths of the IoSlices offered (1..8 slices, empty ones included); sum = n
}

#[derive(Clone, Debug)]
pub struct Scn {
    pub tr: &'static str, // "virtio" | "fusedev"
    pub segs: Vec<(u64, usize, bool)>,
    pub regions: Vec<(u64, usize)>,
    pub src_size: usize,
    pub src_salt: u8,
    pub sink_size: usize,
    pub origin: String,
}

/// what the op source sees of the live objects
#[derive(Clone, Debug)]
pub struct Live {
    pub id: usize,
    pub writer: bool,
    pub avail: usize,
    pub done: usize,
    pub split: bool,
}

pub trait OpSource {
    fn next(&mut self, live: &[Live], sc: &Scn, fpos: u64) -> Option<Op>;
}

struct FixedOps {
    ops: Vec<Op>,
    i: usize,
}
impl OpSource for FixedOps {
    fn next(&mut self, _live: &[Live], _sc: &Scn, _fpos: u64) -> Option<Op> {
        self.i += 1;
        self.ops.get(self.i - 1).cloned()
    }
}

// ------------------------------------------------------------------------------------------------
// files

pub struct Files {
    pub src: MFile,
    pub sink: MFile,
}

impl Files {
    fn new(sc: &Scn) -> Files {
        let src: Vec<u8> = (0..sc.src_size).map(|i| ((i + sc.src_salt as usize) % M as usize) as u8).collect();
        Files { src: MFile::new("src", src), sink: MFile::new("sink", vec![FPOISON; sc.sink_size]) }
    }
}

/// environment file that moves at most `cap` bytes per call (short reads / short writes)
struct Limited<'a> {
    f: &'a mut File,
    cap: usize,
}
fn clip(bufs: &[FileVolatileSlice], cap: usize) -> Vec<libc::iovec> {
    let mut rem = cap;
    let mut v = Vec::new();
    for b in bufs {
        if rem == 0 {
            break;
        }
        let l = b.len().min(rem);
        v.push(libc::iovec { iov_base: b.as_ptr() as *mut libc::c_void, iov_len: l });
        rem -= l;
    }
    v
}
fn cvt(r: isize) -> io::Result<usize> {
    if r >= 0 {
        Ok(r as usize)
    } else {
        Err(io::Error::last_os_error())
    }
}
impl FileReadWriteVolatile for Limited<'_> {
    fn read_volatile(&mut self, s: FileVolatileSlice) -> io::Result<usize> {
        self.read_vectored_volatile(&[s])
    }
    fn read_vectored_volatile(&mut self, bufs: &[FileVolatileSlice]) -> io::Result<usize> {
        let v = clip(bufs, self.cap);
        if v.is_empty() {
            return Ok(0);
        }
        cvt(unsafe { libc::readv(self.f.as_raw_fd(), v.as_ptr(), v.len() as i32) })
    }
    fn write_volatile(&mut self, s: FileVolatileSlice) -> io::Result<usize> {
        self.write_vectored_volatile(&[s])
    }
    fn write_vectored_volatile(&mut self, bufs: &[FileVolatileSlice]) -> io::Result<usize> {
        let v = clip(bufs, self.cap);
        if v.is_empty() {
            return Ok(0);
        }
        cvt(unsafe { libc::writev(self.f.as_raw_fd(), v.as_ptr(), v.len() as i32) })
    }
    fn read_at_volatile(&mut self, s: FileVolatileSlice, off: u64) -> io::Result<usize> {
        self.read_vectored_at_volatile(&[s], off)
    }
    fn read_vectored_at_volatile(&mut self, bufs: &[FileVolatileSlice], off: u64) -> io::Result<usize> {
        let v = clip(bufs, self.cap);
        if v.is_empty() {
            return Ok(0);
        }
        cvt(unsafe { libc::preadv64(self.f.as_raw_fd(), v.as_ptr(), v.len() as i32, off as i64) })
    }
    fn write_at_volatile(&mut self, s: FileVolatileSlice, off: u64) -> io::Result<usize> {
        self.write_vectored_at_volatile(&[s], off)
    }
    fn write_vectored_at_volatile(&mut self, bufs: &[FileVolatileSlice], off: u64) -> io::Result<usize> {
        let v = clip(bufs, self.cap);
        if v.is_empty() {
            return Ok(0);
        }
        cvt(unsafe { libc::pwritev64(self.f.as_raw_fd(), v.as_ptr(), v.len() as i32, off as i64) })
    }
}

// ------------------------------------------------------------------------------------------------
// objects and operations

pub enum Obj<'a, S: BitmapSlice> {
    R(Reader<'a, S>),
    W(Writer<'a, S>, bool), // bool: created by / subjected to split_at
}

#[derive(Clone, Copy)]
#[repr(transparent)]
struct Blob<const N: usize>([u8; N]);
unsafe impl<const N: usize> ByteValued for Blob<N> {}

fn read_obj_n<S: BitmapSlice, const N: usize>(r: &mut Reader<'_, S>) -> io::Result<Vec<u8>> {
    r.read_obj::<Blob<N>>().map(|b| b.0.to_vec())
}
fn write_obj_n<S: BitmapSlice, const N: usize>(w: &mut Writer<'_, S>, data: &[u8]) -> io::Result<()> {
    let mut b = Blob::<N>([0u8; N]);
    b.0.copy_from_slice(data);
    match w {
        Writer::VirtioFs(v) => v.write_obj(b),
        Writer::FuseDev(f) => f.write_obj(b),
        _ => unreachable!(),
    }
}
macro_rules! obj_sizes {
    ($n:expr, $call:ident, $($N:literal),*) => {
        match $n { $( $N => Some($call!($N)), )* _ => None }
    };
}

pub struct OpRes {
    pub res: &'static str,
    pub ret: Option<u64>,
    pub err: Option<String>,
    pub out: Option<Vec<u8>>,
    pub real_op: String,
}

pub fn fold<T>(r: std::thread::Result<io::Result<T>>, f: impl FnOnce(T) -> Option<u64>) -> (&'static str, Option<u64>, Option<String>) {
    match r {
        Err(_) => ("panic", None, None),
        Ok(Err(e)) => ("err", None, Some(format!("{:?}", e.kind()))),
        Ok(Ok(t)) => ("ok", f(t), None),
    }
}

fn exec_reader<S: BitmapSlice>(r: &mut Reader<'_, S>, op: &Op, files: &mut Files) -> OpRes {
    let mut real_op = op.op.clone();
    let mut out: Option<Vec<u8>> = None;
    let (res, ret, err) = match op.op.as_str() {
        "read" => {
            let mut buf = vec![0xEEu8; op.n];
            let q = catch_unwind(AssertUnwindSafe(|| r.read(&mut buf)));
            let t = fold(q, |k| Some(k as u64));
            if let Some(k) = t.1 {
                out = Some(buf[..(k as usize).min(buf.len())].to_vec());
            }
            t
        }
        "read_obj" => {
            macro_rules! call {
                ($N:literal) => {
                    catch_unwind(AssertUnwindSafe(|| read_obj_n::<S, $N>(r)))
                };
            }
            let q = obj_sizes!(op.n, call, 0, 1, 2, 3, 4, 5, 6, 7, 8, 9, 16, 2048, 4095, 4096, 4097, 6144);
            let q = match q {
                Some(q) => q,
                None => {
                    real_op = "read_exact".into();
                    let mut buf = vec![0xEEu8; op.n];
                    catch_unwind(AssertUnwindSafe(|| r.read_exact(&mut buf).map(|_| buf)))
                }
            };
            match q {
                Err(_) => ("panic", None, None),
                Ok(Err(e)) => ("err", None, Some(format!("{:?}", e.kind()))),
                Ok(Ok(b)) => {
                    out = Some(b);
                    ("ok", None, None)
                }
            }
        }
        "read_to" => {
            let f = &mut files.sink.f;
            let q = if op.c == 0 {
                catch_unwind(AssertUnwindSafe(|| r.read_to(&mut *f, op.n)))
            } else {
                catch_unwind(AssertUnwindSafe(|| r.read_to(Limited { f, cap: op.c }, op.n)))
            };
            fold(q, |k| Some(k as u64))
        }
        "read_to_at" => {
            let f = &mut files.sink.f;
            let q = if op.c == 0 {
                catch_unwind(AssertUnwindSafe(|| r.read_to_at(&mut *f, op.n, op.x)))
            } else {
                catch_unwind(AssertUnwindSafe(|| r.read_to_at(Limited { f, cap: op.c }, op.n, op.x)))
            };
            fold(q, |k| Some(k as u64))
        }
        "read_exact_to" => {
            let f = &mut files.sink.f;
            let q = if op.c == 0 {
                catch_unwind(AssertUnwindSafe(|| r.read_exact_to(&mut *f, op.n)))
            } else {
                catch_unwind(AssertUnwindSafe(|| r.read_exact_to(Limited { f, cap: op.c }, op.n)))
            };
            fold(q, |_| None)
        }
        #[cfg(feature = "async")]
        "async_read_to_at" => asyncops::reader_op(r, op, files),
        other => panic!("harness: unknown reader op {}", other),
    };
    OpRes { res, ret, err, out, real_op }
}

fn exec_writer<'a, S: BitmapSlice>(w: &mut Writer<'a, S>, other: Option<&Writer<'a, S>>, op: &Op, files: &mut Files) -> OpRes {
    let mut real_op = op.op.clone();
    let data = ramp_bytes(op.v, op.n);
    let (res, ret, err) = match op.op.as_str() {
        "write" => fold(catch_unwind(AssertUnwindSafe(|| w.write(&data))), |k| Some(k as u64)),
        "write_all" => fold(catch_unwind(AssertUnwindSafe(|| w.write_all(&data))), |_| None),
        "write_obj" => {
            macro_rules! call {
                ($N:literal) => {
                    catch_unwind(AssertUnwindSafe(|| write_obj_n::<S, $N>(w, &data)))
                };
            }
            let q = obj_sizes!(op.n, call, 0, 1, 2, 3, 4, 5, 6, 7, 8, 9, 16, 2048, 4095, 4096, 4097, 6144);
            let q = match q {
                Some(q) => q,
                None => {
                    real_op = "write_all".into();
                    catch_unwind(AssertUnwindSafe(|| w.write_all(&data)))
                }
            };
            fold(q, |_| None)
        }
        "write_vectored" => {
            let sl = data_slices(op).unwrap_or_default();
            let mut bufs: Vec<IoSlice> = Vec::new();
            let mut at = 0usize;
            for l in sl {
                bufs.push(IoSlice::new(&data[at..at + l]));
                at += l;
            }
            fold(catch_unwind(AssertUnwindSafe(|| w.write_vectored(&bufs))), |k| Some(k as u64))
        }
        "write_from" => {
            let f = &mut files.src.f;
            let q = match (w, op.c) {
                (Writer::VirtioFs(v), 0) => catch_unwind(AssertUnwindSafe(|| v.write_from(&mut *f, op.n))),
                (Writer::VirtioFs(v), c) => catch_unwind(AssertUnwindSafe(|| v.write_from(Limited { f, cap: c }, op.n))),
                (Writer::FuseDev(v), 0) => catch_unwind(AssertUnwindSafe(|| v.write_from(&mut *f, op.n))),
                (Writer::FuseDev(v), c) => catch_unwind(AssertUnwindSafe(|| v.write_from(Limited { f, cap: c }, op.n))),
                _ => unreachable!(),
            };
            fold(q, |k| Some(k as u64))
        }
        "write_from_at" => {
            // through the Writer enum (the entry point the servers use)
            let f = &mut files.src.f;
            let q = if op.c == 0 {
                catch_unwind(AssertUnwindSafe(|| w.write_from_at(&mut *f, op.n, op.x)))
            } else {
                catch_unwind(AssertUnwindSafe(|| w.write_from_at(Limited { f, cap: op.c }, op.n, op.x)))
            };
            fold(q, |k| Some(k as u64))
        }
        "write_all_from" => {
            let f = &mut files.src.f;
            let q = match (w, op.c) {
                (Writer::VirtioFs(v), 0) => catch_unwind(AssertUnwindSafe(|| v.write_all_from(&mut *f, op.n))),
                (Writer::VirtioFs(v), c) => catch_unwind(AssertUnwindSafe(|| v.write_all_from(Limited { f, cap: c }, op.n))),
                (Writer::FuseDev(v), 0) => catch_unwind(AssertUnwindSafe(|| v.write_all_from(&mut *f, op.n))),
                (Writer::FuseDev(v), c) => catch_unwind(AssertUnwindSafe(|| v.write_all_from(Limited { f, cap: c }, op.n))),
                _ => unreachable!(),
            };
            fold(q, |_| None)
        }
        "commit" => fold(catch_unwind(AssertUnwindSafe(|| w.commit(other))), |k| Some(k as u64)),
        #[cfg(feature = "async")]
        name if name.starts_with("async_") => asyncops::writer_op(w, other, op, &data, files),
        other => panic!("harness: unknown writer op {}", other),
    };
    OpRes { res, ret, err, out: None, real_op }
}

/// lengths of the slices a memory-sourced write operation offers (None: not such an operation)
pub fn data_slices(op: &Op) -> Option<Vec<usize>> {
    let n1 = (op.x as usize).min(op.n);
    match op.op.as_str() {
        "write" | "write_all" | "write_obj" | "async_write" | "async_write_all" => Some(vec![op.n]),
        "write_vectored" if !op.sl.is_empty() => Some(op.sl.clone()),
        "write_vectored" => Some(vec![n1, 0, op.n - n1]),
        "async_write2" => Some(vec![n1, op.n - n1]),
        "async_write3" => {
            let n2 = (op.n - n1) / 2;
            Some(vec![n1, n2, op.n - n1 - n2])
        }
        _ => None,
    }
}

pub trait Env {
    /// transport specific observations after an operation: (dirty page runs, device messages)
    fn observe(&mut self) -> (Option<Value>, Option<Value>);
    fn arena(&mut self) -> &mut Arena;
}

fn counters<S: BitmapSlice>(objs: &[Obj<'_, S>]) -> Vec<Live> {
    objs.iter()
        .enumerate()
        .map(|(i, o)| match o {
            Obj::R(r) => Live { id: i + 1, writer: false, avail: r.available_bytes(), done: r.bytes_read(), split: false },
            Obj::W(w, s) => Live { id: i + 1, writer: true, avail: w.available_bytes(), done: w.bytes_written(), split: *s },
        })
        .collect()
}

fn run_ops<'a, S: BitmapSlice>(
    objs: &mut Vec<Obj<'a, S>>,
    env: &mut dyn Env,
    files: &mut Files,
    sc: &Scn,
    src: &mut dyn OpSource,
    tr: &mut Trace,
    seg: u64,
) -> usize {
    let mut i = 0usize;
    loop {
        let live = counters(objs);
        let fpos = files.src.pos();
        let op = match src.next(&live, sc, fpos) {
            Some(op) => op,
            None => break,
        };
        i += 1;
        let idx = op.o.wrapping_sub(1);
        let mut new_id: Option<usize> = None;
        // the scenario may name an object that does not exist because an earlier split_at did not do what the
        // model said: that is an observation ("noobj"), not a reason to stop
        let other_missing = (op.op == "commit" || op.op == "async_commit") && op.n != 0 && (op.n > objs.len() || op.n == op.o);
        let kind_mismatch = idx < objs.len()
            && match &objs[idx] {
                Obj::R(_) => op.op.contains("write") || op.op.contains("commit"),
                Obj::W(..) => op.op.contains("read"),
            };
        let r: OpRes = if idx >= objs.len() || other_missing || kind_mismatch {
            OpRes { res: "noobj", ret: None, err: None, out: None, real_op: op.op.clone() }
        } else if op.op == "split_at" {
            let q = match &mut objs[idx] {
                Obj::R(r) => catch_unwind(AssertUnwindSafe(|| r.split_at(op.n).map(Obj::R))),
                Obj::W(w, _) => catch_unwind(AssertUnwindSafe(|| w.split_at(op.n).map(|c| Obj::W(c, true)))),
            };
            match q {
                Err(_) => OpRes { res: "panic", ret: None, err: None, out: None, real_op: op.op.clone() },
                Ok(Err(e)) => OpRes { res: "err", ret: None, err: Some(format!("{:?}", e).chars().take(40).collect()), out: None, real_op: op.op.clone() },
                Ok(Ok(child)) => {
                    if let Obj::W(_, s) = &mut objs[idx] {
                        *s = true;
                    }
                    objs.push(child);
                    new_id = Some(objs.len());
                    OpRes { res: "ok", ret: None, err: None, out: None, real_op: op.op.clone() }
                }
            }
        } else if op.op == "commit" || op.op == "async_commit" {
            let j = op.n; // 0 = None
            if j == 0 {
                match &mut objs[idx] {
                    Obj::W(w, _) => exec_writer(w, None, &op, files),
                    _ => panic!("harness: commit on a reader"),
                }
            } else {
                let jdx = j - 1;
                assert!(jdx != idx);
                let (a, b) = if idx < jdx {
                    let (l, r) = objs.split_at_mut(jdx);
                    (&mut l[idx], &r[0])
                } else {
                    let (l, r) = objs.split_at_mut(idx);
                    (&mut r[0], &l[jdx])
                };
                match (a, b) {
                    (Obj::W(w, _), Obj::W(o, _)) => exec_writer(w, Some(o), &op, files),
                    _ => panic!("harness: commit needs writers"),
                }
            }
        } else {
            match &mut objs[idx] {
                Obj::R(r) => exec_reader(r, &op, files),
                Obj::W(w, _) => exec_writer(w, None, &op, files),
            }
        };
        // ---- observe
        let after = counters(objs);
        let mut ev = Map::new();
        ev.insert("e".into(), json!("Op"));
        ev.insert("seg".into(), json!(seg));
        ev.insert("i".into(), json!(i));
        ev.insert("o".into(), json!(op.o));
        ev.insert("op".into(), json!(r.real_op));
        ev.insert("n".into(), json!(op.n));
        ev.insert("x".into(), json!(op.x));
        ev.insert("c".into(), json!(op.c));
        ev.insert("res".into(), json!(r.res));
        if let Some(k) = r.ret {
            ev.insert("ret".into(), json!(k));
        }
        if let Some(e) = r.err {
            ev.insert("err".into(), json!(e));
        }
        if let Some(id) = new_id {
            ev.insert("new".into(), json!(id));
        }
        if let Some(b) = &r.out {
            ev.insert("out".into(), ramps(b));
        }
        if let Some(sl) = data_slices(&op) {
            // the data offered, slice by slice (ramps continue across the slices)
            let mut d = Vec::new();
            let mut at = 0usize;
            for l in sl {
                d.push(json!([(op.v as usize + at) % M as usize, l]));
                at += l;
            }
            ev.insert("data".into(), Value::Array(d));
        }
        ev.insert("all".into(), Value::Array(after.iter().map(|l| json!([l.id, l.avail, l.done])).collect()));
        ev.insert("diff".into(), env.arena().diff());
        ev.insert("canary".into(), json!(env.arena().canary_ok));
        let (dirty, msgs) = env.observe();
        if let Some(d) = dirty {
            ev.insert("dirty".into(), d);
        }
        if let Some(m) = msgs {
            ev.insert("msgs".into(), m);
        }
        ev.insert("fpos".into(), json!(files.src.pos()));
        if r.real_op.starts_with("read_to") || r.real_op == "read_exact_to" || r.real_op == "async_read_to_at" {
            let (d, size) = files.sink.diff();
            ev.insert("fdiff".into(), d);
            ev.insert("spos".into(), json!(files.sink.pos()));
            ev.insert("ssize".into(), json!(size));
        }
        tr.emit(&Value::Object(ev));
        tr.flush(); // a later crash of the code under test must not lose what was observed so far
    }
    i
}

// ------------------------------------------------------------------------------------------------
// virtio-fs: real guest memory with dirty bitmap, real descriptor chain

struct VirtioEnv<'m> {
    mem: &'m GuestMemoryMmap<AtomicBitmap>,
    arena: Arena,
}
fn runs_of(pages: &[u64]) -> Value {
    let mut out: Vec<[u64; 2]> = Vec::new();
    for &p in pages {
        match out.last_mut() {
            Some(l) if l[0] + l[1] == p => l[1] += 1,
            _ => out.push([p, 1]),
        }
    }
    json!(out)
}
impl VirtioEnv<'_> {
    fn dirty(&self) -> Value {
        let mut pages = Vec::new();
        for region in self.mem.iter() {
            let start = region.start_addr().0;
            if start == 0 {
                continue; // virtqueue region
            }
            let bm = region.bitmap();
            let mut off = 0u64;
            while off < region.len() {
                if bm.dirty_at(off as usize) {
                    pages.push((start + off) / PAGE);
                }
                off += PAGE;
            }
        }
        runs_of(&pages)
    }
}
impl Env for VirtioEnv<'_> {
    fn observe(&mut self) -> (Option<Value>, Option<Value>) {
        (Some(self.dirty()), None)
    }
    fn arena(&mut self) -> &mut Arena {
        &mut self.arena
    }
}

fn reset_event(sc: &Scn, seg: u64, dirty0: Option<Value>) -> Value {
    let mut ev = Map::new();
    ev.insert("e".into(), json!("Reset"));
    ev.insert("seg".into(), json!(seg));
    ev.insert("tr".into(), json!(sc.tr));
    ev.insert("P".into(), json!(PAGE));
    ev.insert("segs".into(), Value::Array(sc.segs.iter().map(|s| json!([s.0, s.1, if s.2 { 1 } else { 0 }])).collect()));
    ev.insert("regions".into(), json!(sc.regions));
    ev.insert("src".into(), json!([sc.src_size, sc.src_salt]));
    ev.insert("sink".into(), json!(sc.sink_size));
    ev.insert("origin".into(), json!(sc.origin));
    if let Some(d) = dirty0 {
        ev.insert("dirty0".into(), d);
    }
    Value::Object(ev)
}

fn run_virtio(sc: &Scn, src: &mut dyn OpSource, tr: &mut Trace, seg: u64) -> usize {
    let mut ranges = vec![(GuestAddress(0), QSIZE)];
    ranges.extend(sc.regions.iter().map(|&(a, l)| (GuestAddress(a), l)));
    let mem = GuestMemoryMmap::<AtomicBitmap>::from_ranges(&ranges).expect("guest memory");
    let mut arena = Arena::new();
    for &(a, l) in &sc.regions {
        arena.add(a, mem.get_host_address(GuestAddress(a)).unwrap(), l);
    }
    arena.fill(&sc.segs);
    let q = MockSplitQueue::new(&mem, 32);
    let descs: Vec<RawDescriptor> = sc
        .segs
        .iter()
        .map(|s| RawDescriptor::from(SplitDescriptor::new(s.0, s.1 as u32, if s.2 { 2 } else { 0 }, 0)))
        .collect();
    let chain = q.build_desc_chain(&descs).expect("descriptor chain");
    let reader = catch_unwind(AssertUnwindSafe(|| Reader::from_descriptor_chain(&mem, chain.clone())));
    let writer = catch_unwind(AssertUnwindSafe(|| VirtioFsWriter::new(&mem, chain.clone())));
    let mut env = VirtioEnv { mem: &mem, arena };
    let mut files = Files::new(sc);
    tr.emit(&reset_event(sc, seg, Some(env.dirty())));
    let (reader, writer) = match (reader, writer) {
        (Ok(Ok(r)), Ok(Ok(w))) => (r, w),
        (r, w) => {
            // a constructor that fails on a well-formed chain inside mapped memory is a result to be judged
            let d = |x: &str| x.chars().take(60).collect::<String>();
            let rs = match &r { Ok(Ok(_)) => ("ok", String::new()), Ok(Err(e)) => ("err", d(&format!("{:?}", e))), Err(_) => ("panic", String::new()) };
            let ws = match &w { Ok(Ok(_)) => ("ok", String::new()), Ok(Err(e)) => ("err", d(&format!("{:?}", e))), Err(_) => ("panic", String::new()) };
            tr.emit(&json!({"e":"New","seg":seg,"o":1,"what":"Reader::from_descriptor_chain","res":rs.0,"err":rs.1}));
            tr.emit(&json!({"e":"New","seg":seg,"o":2,"what":"VirtioFsWriter::new","res":ws.0,"err":ws.1}));
            tr.emit(&json!({"e":"End","seg":seg,"diff":env.arena.diff(),"canary":env.arena.canary_ok,"dirty":env.dirty()}));
            tr.flush();
            return 0;
        }
    };
    let mut objs = vec![Obj::R(reader), Obj::W(Writer::VirtioFs(writer), false)];
    let n = run_ops(&mut objs, &mut env, &mut files, sc, src, tr, seg);
    drop(objs); // the reply is complete
    tr.emit(&json!({"e":"End","seg":seg,"diff":env.arena.diff(),"canary":env.arena.canary_ok,"dirty":env.dirty()}));
    n
}

// ------------------------------------------------------------------------------------------------
// fusedev: one contiguous request buffer, one contiguous reply buffer, device = SEQPACKET socket

struct FuseEnv {
    arena: Arena,
    rx: RawFd,
    rbuf: Vec<u8>,
    append: bool,
    seen: usize,
}
fn append_memfd() -> (RawFd, RawFd) {
    let fd = unsafe { libc::memfd_create(b"fusedev\0".as_ptr() as *const libc::c_char, 0) };
    assert!(fd >= 0);
    unsafe { libc::fcntl(fd, libc::F_SETFL, libc::O_APPEND) };
    let rd = unsafe { libc::dup(fd) };
    (fd, rd)
}
impl Env for FuseEnv {
    fn observe(&mut self) -> (Option<Value>, Option<Value>) {
        let mut msgs = Vec::new();
        if self.append {
            let size = unsafe { libc::lseek(self.rx, 0, libc::SEEK_END) } as usize;
            if size > self.seen {
                let mut b = vec![0u8; size - self.seen];
                let r = unsafe { libc::pread(self.rx, b.as_mut_ptr() as *mut libc::c_void, b.len(), self.seen as i64) };
                b.truncate(r.max(0) as usize);
                msgs.push(ramps(&b));
                self.seen = size;
            }
            return (None, Some(Value::Array(msgs)));
        }
        loop {
            let r = unsafe { libc::recv(self.rx, self.rbuf.as_mut_ptr() as *mut libc::c_void, self.rbuf.len(), libc::MSG_DONTWAIT) };
            if r < 0 {
                break;
            }
            msgs.push(ramps(&self.rbuf[..r as usize]));
        }
        (None, Some(Value::Array(msgs)))
    }
    fn arena(&mut self) -> &mut Arena {
        &mut self.arena
    }
}

fn seqpacket_pair() -> (RawFd, RawFd) {
    let mut fds = [0i32; 2];
    let r = unsafe { libc::socketpair(libc::AF_UNIX, libc::SOCK_SEQPACKET, 0, fds.as_mut_ptr()) };
    assert_eq!(r, 0, "socketpair");
    let sz: libc::c_int = 8 << 20;
    for (fd, opt) in [(fds[0], libc::SO_SNDBUFFORCE), (fds[1], libc::SO_RCVBUFFORCE)] {
        unsafe { libc::setsockopt(fd, libc::SOL_SOCKET, opt, &sz as *const _ as *const libc::c_void, 4) };
    }
    (fds[0], fds[1])
}

fn run_fusedev(sc: &Scn, src: &mut dyn OpSource, tr: &mut Trace, seg: u64) -> usize {
    let (base, total) = sc.regions[0];
    let mut backing = vec![0u8; total];
    let ptr = backing.as_mut_ptr();
    let mut arena = Arena::new();
    arena.add(base, ptr, total);
    arena.fill(&sc.segs);
    let rs = sc.segs.iter().find(|s| !s.2).expect("request buffer");
    let ws = sc.segs.iter().find(|s| s.2).expect("reply buffer");
    // the two buffers are disjoint parts of the arena; the arena itself is only read for diffs
    let rbuf: &'static mut [u8] = unsafe { std::slice::from_raw_parts_mut(ptr.add((rs.0 - base) as usize), rs.1) };
    let wbuf: &'static mut [u8] = unsafe { std::slice::from_raw_parts_mut(ptr.add((ws.0 - base) as usize), ws.1) };
    // device: a SEQPACKET pair keeps message boundaries; the async entry points use pwrite(2), which a socket
    // refuses, so the async build uses an append-only memfd (every write appends; one message per operation)
    let appendfd = cfg!(feature = "async");
    let (tx, rx) = if appendfd { append_memfd() } else { seqpacket_pair() };
    let (mut rb, mut wb) = (Some(rbuf), Some(wbuf));
    let reader = catch_unwind(AssertUnwindSafe(|| Reader::<()>::from_fuse_buffer(FuseBuf::new(rb.take().unwrap()))));
    let writer = catch_unwind(AssertUnwindSafe(|| FuseDevWriter::<()>::new(tx, wb.take().unwrap())));
    let mut env = FuseEnv { arena, rx, rbuf: vec![0u8; 4 << 20], append: appendfd, seen: 0 };
    let mut files = Files::new(sc);
    tr.emit(&reset_event(sc, seg, None));
    let (reader, writer) = match (reader, writer) {
        (Ok(Ok(r)), Ok(Ok(w))) => (r, w),
        (r, w) => {
            let ok = |b: bool| if b { "ok" } else { "err" };
            tr.emit(&json!({"e":"New","seg":seg,"o":1,"what":"Reader::from_fuse_buffer","res":ok(matches!(r, Ok(Ok(_)))),"err":""}));
            tr.emit(&json!({"e":"New","seg":seg,"o":2,"what":"FuseDevWriter::new","res":ok(matches!(w, Ok(Ok(_)))),"err":""}));
            tr.emit(&json!({"e":"End","seg":seg,"diff":env.arena.diff(),"canary":env.arena.canary_ok,"msgs":[]}));
            tr.flush();
            return 0;
        }
    };
    let mut objs = vec![Obj::R(reader), Obj::W(Writer::FuseDev(writer), false)];
    let n = run_ops(&mut objs, &mut env, &mut files, sc, src, tr, seg);
    drop(objs);
    let (_, msgs) = env.observe();
    tr.emit(&json!({"e":"End","seg":seg,"diff":env.arena.diff(),"canary":env.arena.canary_ok,"msgs":msgs}));
    unsafe {
        libc::close(tx);
        libc::close(rx);
    }
    drop(backing);
    n
}

fn run_scn(sc: &Scn, src: &mut dyn OpSource, tr: &mut Trace, seg: u64) -> usize {
    let r = catch_unwind(AssertUnwindSafe(|| match sc.tr {
        "virtio" => run_virtio(sc, src, tr, seg),
        "fusedev" => run_fusedev(sc, src, tr, seg),
        _ => unreachable!(),
    }));
    match r {
        Ok(n) => n,
        Err(_) => {
            // whatever the library did made the harness itself give up on this scenario: recorded and judged
            tr.emit(&json!({"e":"Abort","seg":seg,"op":"scenario"}));
            tr.flush();
            0
        }
    }
}

// ------------------------------------------------------------------------------------------------
// replay of TLC behaviours

const DBASE: u64 = 0x10_0000;

/// Concretise a model scenario {kind, segs [[b,l]], fsize, ops [{o,op,n,x,c}]} with a byte scale
/// (1: literal bytes placed across a page border; 2048: model page of 2 units = real page of 4096).
fn concretise(m: &Value, scale: usize, fuse_reader: bool, id: usize) -> (Scn, Vec<Op>) {
    let kind = m["kind"].as_str().unwrap();
    let s = scale as u64;
    // scale 1: model address 3 falls on the first byte of a page
    let shift = if scale == 1 { PAGE - 3 } else { PAGE };
    let msegs: Vec<(u64, usize)> = m["segs"].as_array().unwrap().iter().map(|x| (x[0].as_u64().unwrap(), x[1].as_u64().unwrap() as usize)).collect();
    let span = (8 * s + 2 * PAGE) as usize;
    let tr: &'static str = if kind == "F" || fuse_reader { "fusedev" } else { "virtio" };
    let base = if tr == "fusedev" { 0x2000 } else { DBASE };
    let mut segs: Vec<(u64, usize, bool)> = msegs.iter().map(|&(b, l)| (base + shift + b * s, l * scale, kind != "R")).collect();
    // the other direction gets a small buffer of its own, far from the chain
    let other = (base + shift + span as u64, 3usize, kind == "R");
    if kind == "R" {
        segs.push(other);
    } else {
        segs.insert(0, other);
    }
    let total = ((shift as usize + 2 * span + PAGE as usize) / PAGE as usize + 1) * PAGE as usize;
    let fsize = m["fsize"].as_u64().unwrap() as usize * scale;
    let root = if kind == "R" { 1 } else { 2 };
    let map_obj = |o: usize| if o == 0 { 0 } else if o == 1 { root } else { o + 1 };
    let ops = m["ops"]
        .as_array()
        .unwrap()
        .iter()
        .enumerate()
        .map(|(j, o)| {
            let name = o["op"].as_str().unwrap();
            let n = o["n"].as_u64().unwrap() as usize;
            let x = o["x"].as_u64().unwrap();
            let c = o["c"].as_u64().unwrap() as usize;
            let name = if async_mode() {
                match name {
                    "write" => "async_write",
                    "write_all" => "async_write_all",
                    "write_vectored" => if j % 2 == 0 { "async_write2" } else { "async_write3" },
                    "write_from_at" => "async_write_from_at",
                    "read_to_at" => "async_read_to_at",
                    "commit" => "async_commit",
                    other => other,
                }
            } else {
                name
            };
            let (name, n) = match name {
                "commit" => ("commit".to_string(), map_obj(n)),
                "async_commit" => ("async_commit".to_string(), map_obj(n)),
                // alternate between the obj and the slice flavour of the exact memory operations
                "write_all" => ((if j % 2 == 0 { "write_obj" } else { "write_all" }).to_string(), n * scale),
                _ => (name.to_string(), n * scale),
            };
            // the model's vectored write offers (n1, empty, n2); every other one is executed with a fourth
            // position (n1, empty, empty, n2): same bytes, same obligations
            let n1 = ((x * s) as usize).min(n);
            let sl = if name == "write_vectored" && j % 2 == 0 { vec![n1, 0, 0, n - n1] } else { Vec::new() };
            Op { o: map_obj(o["o"].as_u64().unwrap() as usize), op: name, n, x: x * s, c: c * scale, v: ((31 * (j + 1) + 7) % 251) as u8, sl }
        })
        .collect();
    (
        Scn {
            tr,
            segs,
            regions: vec![(base, total)],
            src_size: fsize,
            src_salt: 100,
            sink_size: 8 * scale + 64,
            origin: format!("replay:{}:x{}", id, scale),
        },
        ops,
    )
}

fn cmd_replay(scn_file: &str, out: &str) {
    let mut tr = Trace::create(out);
    let text = std::fs::read_to_string(scn_file).expect("scenario file");
    let mut seg = 0u64;
    let mut steps = 0usize;
    for (id, line) in text.lines().enumerate() {
        if line.trim().is_empty() {
            continue;
        }
        let m: Value = serde_json::from_str(line).expect("scenario json");
        let kind = m["kind"].as_str().unwrap().to_string();
        let nsegs = m["segs"].as_array().unwrap().len();
        let mut variants = vec![(1usize, false), (2048usize, false)];
        if kind == "R" && nsegs == 1 {
            variants.push((1, true)); // the same behaviour on Reader::from_fuse_buffer
        }
        for (scale, fr) in variants {
            if kind == "F" && scale == 2048 && seg % 2 == 1 {
                continue; // fusedev has no pages; every other scenario at the big scale is enough
            }
            let (sc, ops) = concretise(&m, scale, fr, id);
            seg += 1;
            steps += run_scn(&sc, &mut FixedOps { ops, i: 0 }, &mut tr, seg);
        }
    }
    tr.flush();
    println!("{{\"segments\":{},\"steps\":{},\"events\":{}}}", seg, steps, tr.n);
}

// ------------------------------------------------------------------------------------------------
// seeded random driver

const LENS: [usize; 9] = [0, 1, 7, 8, 9, 4095, 4096, 4097, 65536];

struct RandomOps {
    rng: Rng,
    left: usize,
}

fn pick_count(rng: &mut Rng, a: usize) -> usize {
    match rng.below(12) {
        0 => 0,
        1 => 1,
        2 => a,
        3 => a + 1,
        4 => a.saturating_sub(1),
        5 | 6 | 7 => rng.below(a as u64 + 1) as usize,
        8 => rng.range(1, 16) as usize,
        9 => *rng.pick(&LENS),
        10 => a / 2,
        _ => a + rng.range(1, 5000) as usize,
    }
}

impl OpSource for RandomOps {
    fn next(&mut self, live: &[Live], sc: &Scn, fpos: u64) -> Option<Op> {
        if self.left == 0 {
            return None;
        }
        self.left -= 1;
        let rng = &mut self.rng;
        // prefer objects that still have room
        let cand: Vec<&Live> = live.iter().filter(|l| l.avail > 0).collect();
        let l: &Live = if !cand.is_empty() && rng.chance(4, 5) { *rng.pick(&cand) } else { rng.pick(live) };
        let fuse = sc.tr == "fusedev";
        // contract of the never-split fusedev writer: one write, then only commit
        let finished = fuse && l.writer && !l.split && l.done > 0;
        let mut c = *rng.pick(&[0usize, 0, 0, 1, 7, 4096, 5000]);
        let v = rng.below(251) as u8;
        let mut n = pick_count(rng, l.avail);
        let op: &str = if async_mode() && !finished && rng.chance(1, 2) {
            if !l.writer {
                *rng.pick(&["async_read_to_at", "async_read_to_at", "read", "split_at"])
            } else {
                *rng.pick(&[
                    "async_write", "async_write2", "async_write3", "async_write_all", "async_write_from_at",
                    "async_write_from_at", "async_commit", "split_at",
                ])
            }
        } else if !l.writer {
            *rng.pick(&["read", "read", "read_obj", "read_obj", "read_to", "read_to_at", "read_exact_to", "split_at", "split_at"])
        } else if finished {
            "commit"
        } else {
            *rng.pick(&[
                "write", "write", "write_all", "write_obj", "write_vectored", "write_from", "write_from_at",
                "write_all_from", "split_at", "split_at", "commit",
            ])
        };
        if (op == "async_read_to_at" || op == "async_write_from_at") && rng.chance(1, 2) {
            // the whole remaining scatter list in one call, through the crate's own async File
            n = l.avail;
            c = 0;
        }
        if c == 1 && n > 64 {
            c = 7;
        }
        if c == 7 && n > 4100 {
            c = 4096;
        }
        let mut x = 0u64;
        match op {
            "read_obj" | "write_obj" => {
                // sizes for which the harness has a ByteValued type; mostly ones that fit
                const SIZES: [usize; 16] = [0, 1, 2, 3, 4, 5, 6, 7, 8, 9, 16, 2048, 4095, 4096, 4097, 6144];
                let fit: Vec<usize> = SIZES.iter().copied().filter(|&s| s <= l.avail).collect();
                if rng.chance(2, 3) && !fit.is_empty() {
                    n = *rng.pick(&fit);
                } else if rng.chance(1, 2) {
                    n = *rng.pick(&SIZES);
                }
            }
            "read_to_at" | "async_read_to_at" => x = rng.below((sc.sink_size - n.min(sc.sink_size)) as u64 + 1),
            "write_from_at" | "async_write_from_at" => {
                x = match rng.below(5) {
                    0 => 0,
                    1 => 1,
                    2 => (sc.src_size as u64).saturating_sub(rng.below(20)),
                    3 => sc.src_size as u64 + rng.below(10),
                    _ => rng.below(sc.src_size as u64 + 1),
                }
            }
            "write_vectored" | "async_write2" | "async_write3" => x = rng.below(n as u64 + 1),
            "split_at" => {
                // fusedev writers split their whole window (written part included)
                let room = if fuse && l.writer { l.avail + l.done } else { l.avail };
                n = pick_count(rng, room);
            }
            "commit" | "async_commit" => {
                let others: Vec<usize> = live.iter().filter(|o| o.writer && o.id != l.id).map(|o| o.id).collect();
                n = if others.is_empty() || rng.chance(1, 3) { 0 } else { *rng.pick(&others) };
            }
            "write_from" | "write_all_from" => {
                // sometimes position the request so that the file ends inside it
                let _ = fpos;
            }
            _ => {}
        }
        let mut sl = Vec::new();
        if op == "write_vectored" {
            // 1..8 slices of arbitrary lengths (0 included) adding up to n; one time in four the vector is built so
            // that its first three slices fit exactly/almost and only the later ones exceed the space
            let k = rng.range(1, 8) as usize;
            if k >= 4 && rng.chance(1, 4) {
                let a = l.avail;
                let p1 = rng.below(a as u64 + 1) as usize;
                let p2 = rng.below((a - p1) as u64 + 1) as usize;
                let p3 = if rng.chance(1, 2) { a - p1 - p2 } else { rng.below((a - p1 - p2) as u64 + 1) as usize };
                sl = vec![p1, p2, p3];
                for _ in 3..k {
                    sl.push(*rng.pick(&[0usize, 1, 1, 7, 16, 4096]));
                }
            } else {
                let mut rest = n;
                for i in 0..k {
                    let part = if i + 1 == k { rest } else if rng.chance(1, 4) { 0 } else { rng.below(rest as u64 + 1) as usize };
                    sl.push(part);
                    rest -= part;
                }
            }
            n = sl.iter().sum();
        }
        Some(Op { o: l.id, op: op.to_string(), n, x, c, v, sl })
    }
}

fn gen_scn(rng: &mut Rng, id: usize) -> Scn {
    let fuse = rng.chance(1, 3);
    let mut lens: Vec<(usize, bool)> = Vec::new();
    let pick_len = |rng: &mut Rng, big_ok: bool| -> usize {
        loop {
            let l = *rng.pick(&LENS);
            if l == 65536 && !(big_ok && rng.chance(1, 3)) {
                continue;
            }
            return l;
        }
    };
    if fuse {
        lens.push((pick_len(rng, true), false));
        lens.push((pick_len(rng, true), true));
    } else if rng.chance(if async_mode() { 1 } else { 0 }, 2) {
        // scatter lists: 1..12 readable and 1..12 writable segments of unequal, mostly small lengths (the
        // vectored file transfers work on groups of segments)
        const SL: [usize; 12] = [1, 3, 5, 8, 9, 13, 16, 24, 100, 4096, 0, 7];
        for w in [false, true] {
            for _ in 0..rng.range(1, 12) {
                lens.push((*rng.pick(&SL), w));
            }
        }
    } else {
        let total = rng.range(1, 16) as usize;
        let nr = rng.below(total as u64 + 1) as usize;
        for i in 0..total {
            lens.push((pick_len(rng, true), i >= nr));
        }
    }
    // layout: every segment goes to one of up to three regions, in a shuffled order, separated by
    // gaps of at least one canary byte; starts land on every alignment class
    let nreg = if fuse { 1 } else { rng.range(1, 3) as usize };
    let bases: [u64; 3] = if fuse { [0x2000, 0, 0] } else { [0x10_0000, 0x40_0000, 0x80_0000] };
    let mut order: Vec<usize> = (0..lens.len()).collect();
    for i in (1..order.len()).rev() {
        let j = rng.below(i as u64 + 1) as usize;
        order.swap(i, j);
    }
    let mut cursor = [0usize; 3];
    let mut segs: Vec<(u64, usize, bool)> = vec![(0, 0, false); lens.len()];
    for &k in &order {
        let r = rng.below(nreg as u64) as usize;
        let gap = match rng.below(6) {
            0 => 1,
            1 => rng.range(1, 9) as usize,
            2 => {
                // start exactly on a page border
                let c = cursor[r] + 1;
                (PAGE as usize - c % PAGE as usize) % PAGE as usize + 1
            }
            3 => {
                // end exactly on a page border
                let c = cursor[r] + 1 + lens[k].0;
                (PAGE as usize - c % PAGE as usize) % PAGE as usize + 1
            }
            4 => rng.range(1, 2 * PAGE) as usize,
            _ => PAGE as usize - 1 + rng.below(3) as usize,
        };
        let start = cursor[r] + gap;
        segs[k] = (bases[r] + start as u64, lens[k].0, lens[k].1);
        cursor[r] = start + lens[k].0;
    }
    let regions: Vec<(u64, usize)> = (0..nreg)
        .map(|r| (bases[r], ((cursor[r] + 1 + rng.below(100) as usize) / PAGE as usize + 1) * PAGE as usize))
        .collect();
    let rtotal: usize = segs.iter().filter(|s| !s.2).map(|s| s.1).sum();
    let src_size = *rng.pick(&[0usize, 1, 9, 100, 4096, 5000, 70000, 200000]);
    Scn {
        tr: if fuse { "fusedev" } else { "virtio" },
        segs,
        regions,
        src_size,
        src_salt: rng.below(251) as u8,
        sink_size: 2 * rtotal + 4096,
        origin: format!("random:{}", id),
    }
}

fn cmd_random(out: &str, steps: usize, seed: u64) {
    let mut tr = Trace::create(out);
    let mut rng = Rng::new(seed);
    let mut done = 0usize;
    let mut seg = 0u64;
    let mut fvs_steps = 0usize;
    while done < steps {
        seg += 1;
        if seg % 4 == 0 && !async_mode() {
            let k = fvs::run_random(&mut rng, &mut tr, seg, (steps - done).min(20));
            done += k;
            fvs_steps += k;
            continue;
        }
        let sc = gen_scn(&mut rng, seg as usize);
        let k = rng.range(3, 24) as usize;
        let mut src = RandomOps { rng: Rng::new(rng.next()), left: k.min(steps - done) };
        done += run_scn(&sc, &mut src, &mut tr, seg);
    }
    tr.flush();
    println!("{{\"segments\":{},\"steps\":{},\"fvs_steps\":{},\"events\":{}}}", seg, done, fvs_steps, tr.n);
}

// ------------------------------------------------------------------------------------------------
// deterministic, targeted scenarios: every (transport x entry point x outcome) pair that the coverage gates of
// checks/transport.py ask for is produced here on purpose, independent of any seed

fn laid_out(tr: &'static str, rlens: &[usize], wlens: &[usize], name: &str) -> Scn {
    let base: u64 = if tr == "fusedev" { 0x2000 } else { DBASE };
    let mut at = 64u64;
    let mut segs = Vec::new();
    for (lens, w) in [(rlens, false), (wlens, true)] {
        for &l in lens {
            segs.push((base + at, l, w));
            at += l as u64 + 64;
        }
    }
    let total = ((at as usize + 64) / PAGE as usize + 1) * PAGE as usize;
    Scn { tr, segs, regions: vec![(base, total)], src_size: 300, src_salt: 41, sink_size: 4096, origin: format!("targeted:{}", name) }
}

fn top(o: usize, op: &str, n: usize, x: u64, c: usize, sl: Vec<usize>) -> Op {
    Op { o, op: op.to_string(), n, x, c, v: ((n * 7 + op.len() * 13 + 3) % 251) as u8, sl }
}

fn cmd_targeted(out: &str) {
    let mut tr = Trace::create(out);
    let mut list: Vec<(Scn, Vec<Op>)> = Vec::new();
    let asy = async_mode();
    let wops: &[&str] = if asy {
        &["async_write", "async_write2", "async_write3", "async_write_all", "async_write_from_at"]
    } else {
        &["write", "write_vectored", "write_obj", "write_all", "write_from", "write_from_at", "write_all_from"]
    };
    let rops: &[&str] = if asy { &["async_read_to_at"] } else { &["read", "read_obj", "read_to", "read_to_at", "read_exact_to"] };
    let commit = if asy { "async_commit" } else { "commit" };
    for trn in ["virtio", "fusedev"] {
        let (rl, wl): (&[usize], &[usize]) = if trn == "virtio" { (&[16, 16], &[16, 16]) } else { (&[32], &[32]) };
        for &op in wops {
            // writer 2 is split at 24 (a fusedev writer becomes buffered); the operation once with 8 bytes
            // (fits, moves bytes), once with 16/24 bytes where 16 remain/14 remain ... (must be refused), commit
            let sl_ok = if op == "write_vectored" { vec![3, 0, 3, 2] } else { vec![] };
            let sl_wide = if op == "write_vectored" { vec![6, 5, 5, 8] } else { vec![] }; // first three fit, total does not
            let big = if op == "write_vectored" { 24 } else { 100 };
            let nbig = if op == "write_obj" { 2048 } else { big };
            list.push((
                laid_out(trn, rl, wl, &format!("{}-{}", trn, op)),
                vec![
                    top(2, "split_at", 24, 0, 0, vec![]),
                    top(2, op, 8, 3, 0, sl_ok),
                    top(2, op, nbig, 5, 0, sl_wide),
                    top(2, commit, 3, 0, 0, vec![]),
                    top(3, commit, 0, 0, 0, vec![]),
                ],
            ));
        }
        for &op in rops {
            list.push((
                laid_out(trn, rl, wl, &format!("{}-{}", trn, op)),
                vec![top(1, "split_at", 24, 0, 0, vec![]), top(1, op, 8, 40, 0, vec![]), top(3, op, 8, 100, 0, vec![]), top(1, "split_at", 1000, 0, 0, vec![])],
            ));
        }
        // split_at that must fail on a writer
        list.push((laid_out(trn, rl, wl, &format!("{}-split", trn)), vec![top(2, "split_at", 1000, 0, 0, vec![]), top(2, "split_at", 0, 0, 0, vec![])]));
    }
    if asy {
        // whole scatter lists of 7 unequal segments through the crate's own async File, both directions
        let lens = [16usize, 16, 16, 16, 5, 9, 13];
        let total: usize = lens.iter().sum();
        list.push((
            laid_out("virtio", &lens, &lens, "virtio-scatter-async-file"),
            vec![top(1, "async_read_to_at", total, 100, 0, vec![]), top(2, "async_write_from_at", total, 3, 0, vec![])],
        ));
        let l3 = [8usize, 24, 16];
        list.push((
            laid_out("virtio", &l3, &l3, "virtio-scatter3-async-file"),
            vec![top(1, "async_read_to_at", 48, 100, 0, vec![]), top(2, "async_write_from_at", 48, 0, 0, vec![])],
        ));
    } else {
        // page geometry for C17: a write that straddles a page border, one that starts and ends on borders, a single byte
        let b = DBASE;
        let sc = Scn {
            tr: "virtio",
            segs: vec![(b + 64, 8, false), (b + PAGE - 10, 20, true), (b + 2 * PAGE, PAGE as usize, true), (b + 4 * PAGE + 77, 1, true)],
            regions: vec![(b, 6 * PAGE as usize)],
            src_size: 300,
            src_salt: 41,
            sink_size: 4096,
            origin: "targeted:virtio-page-geometry".into(),
        };
        list.push((sc, vec![top(2, "write", 20, 0, 0, vec![]), top(2, "write_all", PAGE as usize, 0, 0, vec![]), top(2, "write", 1, 0, 0, vec![]), top(2, "commit", 0, 0, 0, vec![])]));
    }
    let mut seg = 0u64;
    let mut steps = 0usize;
    for (sc, ops) in list {
        seg += 1;
        steps += run_scn(&sc, &mut FixedOps { ops, i: 0 }, &mut tr, seg);
    }
    if !asy {
        seg += 1;
        steps += fvs::run_scripted(&mut tr, seg);
    }
    #[cfg(feature = "async")]
    if asy {
        seg += 1;
        steps += asyncops::arc_probes(&mut tr, seg);
    }
    tr.flush();
    println!("{{\"segments\":{},\"steps\":{},\"events\":{}}}", seg, steps, tr.n);
}

fn main() {
    std::panic::set_hook(Box::new(|_| {})); // panics of the code under test are data
    let args: Vec<String> = std::env::args().collect();
    let seed = env_u64("VERIF_SEED", 1);
    match args.get(1).map(|s| s.as_str()) {
        Some("replay") => cmd_replay(&args[2], &args[3]),
        Some("random") => cmd_random(&args[2], args[3].parse().unwrap(), seed),
        Some("targeted") => cmd_targeted(&args[2]),
        #[cfg(feature = "async")]
        Some("arc-child") => {
            std::panic::set_hook(Box::new(|_| {}));
            asyncops::arc_child(&args[2])
        }
        Some("targeted-async") if cfg!(feature = "async") => {
            ASYNC_MODE.store(true, std::sync::atomic::Ordering::Relaxed);
            cmd_targeted(&args[2])
        }
        Some("replay-async") | Some("random-async") | Some("targeted-async") if !cfg!(feature = "async") => {
            eprintln!("this binary was built without the cargo feature `async`");
            std::process::exit(2);
        }
        Some("replay-async") => {
            ASYNC_MODE.store(true, std::sync::atomic::Ordering::Relaxed);
            cmd_replay(&args[2], &args[3])
        }
        Some("random-async") => {
            ASYNC_MODE.store(true, std::sync::atomic::Ordering::Relaxed);
            cmd_random(&args[2], args[3].parse().unwrap(), seed)
        }
        _ => {
            eprintln!("usage: transport replay <scenarios.ndjson> <trace.ndjson> | random <trace.ndjson> <steps>");
            std::process::exit(2);
        }
    }
}
