pub mod util;
pub mod abi_gen;
pub mod scripted;
pub mod wirecodec;
pub mod xport;
