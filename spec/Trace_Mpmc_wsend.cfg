SPECIFICATION Spec
CONSTANT Mode = "wsend"
CHECK_DEADLOCK FALSE
POSTCONDITION Post
