------------------------------- MODULE MC_PtLF -------------------------------
(* Model-checking and schedule-export configurations of PtLookupForget (C09).
   MC_PtLF_<shape>.cfg        exhaustive check of the general model (VIEW hides `hist`)
   MC_PtLF_<shape>_x.cfg      export: `hist` is part of the state, so TLC walks the tree of ALL
                              interleavings (Eager = TRUE) and prints one "SCHED {json}" line per
                              maximal interleaving; invariants are checked on the way.
   MC_PtLF_<shape>_sim.cfg    export by random walks (-simulate) for shapes with too many interleavings
   MC_PtLF_mut_*.cfg          mutation self-tests (an invariant must be violated). *)
EXTENDS PtLookupForget, Json

LKP(nm) == [op |-> "lookup", cnts |-> <<>>, fit |-> TRUE, name |-> nm]
FGT(s) == [op |-> "forget", cnts |-> s, fit |-> TRUE, name |-> ""]
RDP(f) == [op |-> "rdp", cnts |-> <<>>, fit |-> f, name |-> "d/c"]

\* quick shapes
Ops_2L1F == <<LKP("a"), LKP("b"), FGT(<<1>>)>>                    \* lookups through two names of the file
Ops_1L2F == <<LKP("a"), FGT(<<1>>), FGT(<<1>>)>>
Ops_3L == <<LKP("a"), LKP("b"), LKP("a")>>
Ops_1LF2 == <<LKP("b"), FGT(<<2>>)>>                              \* over-counted forget (saturation)
Ops_1LBF == <<LKP("a"), FGT(<<1, 1>>)>>                           \* batch_forget with two items
\* thorough shapes
Ops_2L2F == <<LKP("a"), LKP("b"), FGT(<<1>>), FGT(<<1>>)>>
Ops_3L2F == <<LKP("a"), LKP("a"), LKP("b"), FGT(<<1>>), FGT(<<1>>)>>
Ops_RF == <<RDP(FALSE), FGT(<<1>>)>>                              \* readdirplus (not delivered) vs forget
Ops_RLF == <<RDP(FALSE), LKP("b"), FGT(<<1>>)>>
Ops_RRF == <<RDP(FALSE), RDP(TRUE), FGT(<<1>>)>>
Ops_LF2 == <<LKP("a"), LKP("b"), FGT(<<2>>)>>
Ops_LBF == <<LKP("a"), LKP("b"), FGT(<<1, 1>>)>>
Ops_1L1F == <<LKP("a"), FGT(<<1>>)>>

R0_0 == {0}
R0_01 == {0, 1}
R0_012 == {0, 1, 2}
R0_12 == {1, 2}
R0_2 == {2}
R0_1 == {1}
R0_123 == {1, 2, 3}

ASSUME PrintT("OPS " \o ToJson(Ops))

\* simulation export (-simulate): no stuttering after termination, so that a walk ends at AllDone
NextNT == (\E self \in LK : lk(self)) \/ (\E self \in FG : fg(self))
SpecNT == Init /\ [][NextNT]_vars

\* one line per maximal interleaving (export configs only)
Export == AllDone => PrintT("SCHED " \o ToJson([r0 |-> r0, s |-> hist]))
=============================================================================
