SPECIFICATION XSpec
CONSTANTS
  N = 4
  B = 4
  Paths <- MCA_Paths2
  BadPath <- MCA_BadPath
  Backends <- MCA_Backends
  Maps <- MCA_Maps
  GMaps <- MCA_GMaps
  RootUid <- MCA_RootUid
  TestUid <- MCA_TestUid
  OwnerUid <- MCA_OwnerUid
  BackUid <- MCA_BackUid
  MaxOps = 3
  Bugs <- MCA_Bugs
  Known <- MCA_Bugs
  WithPersist = FALSE
  RefuseBeforeInit = FALSE
  KeepHist = FALSE
  Wrap = 4
  LoopAlloc = TRUE
  NextSuper0 = 1
  NextIno0 = 2
VIEW XView
CHECK_DEADLOCK FALSE
INVARIANTS TypeOK AOK Routing MountTable OneSlot PseudoNumbers EffRight CtxRight RootOnce RootPlus AsyncRouting AsyncVacant AsyncDelivered AsyncNameGate AsyncIdsIn AsyncOut AsyncPseudo AsyncArms
