SPECIFICATION Spec
VIEW StateView
CHECK_DEADLOCK FALSE
CONSTANTS
  Paths <- MCPathsQ
  Names = {"a", "b"}
  MaxDepth = 2
  NLower = 2
  MaxOps = 1
  HasUpper = FALSE
  Known = {}
  AsFound = {}
  UpperTypes = {"none"}
  LowerTypes = {"none", "file", "dir", "wh"}
INVARIANTS LoadAgrees LiveIsView StatusAgrees RestartSame LowersFrozen
