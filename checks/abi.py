"""C13: wire structures and constants match the kernel's FUSE ABI (engine: abi).

FuseAbi.tla holds the ABI as data; TLC evaluates its consistency ASSUMEs and validates two fact
traces against it with Trace_Abi.tla: the C probe over /usr/include/linux/fuse.h (calibration: a
rejected kernel trace is a tool error, never a violation) and the Rust probe over the crate."""
import json
import os
import subprocess

from . import common as C

GENERIC_REPLAY = True   # scenarios are a deterministic function of (tier, seed); see check --replay
LEVEL = {"C13": "other"}


def viols_of(res):
    return C.parse_viols(res["output"] if isinstance(res, dict) else res)


def run_c13(ctx):
    bindir = C.build_harness(bins=["abi"])
    # --- calibration: the table against the installed kernel header
    pc = ctx.path("kprobe.c")
    subprocess.run(["python3", os.path.join(C.VERIF, "tools", "gen_abi.py"), "probe-c", pc], check=True)
    r = subprocess.run(["gcc", "-o", ctx.path("kprobe"), pc], stdout=subprocess.PIPE, stderr=subprocess.STDOUT, text=True)
    if r.returncode != 0:
        raise C.ToolError("kernel probe does not compile: " + r.stdout[-2000:])
    kf = ctx.path("kernel.ndjson")
    with open(kf, "w") as f:
        subprocess.run([ctx.path("kprobe")], stdout=f, check=True)
        f.write('{"e":"End","src":"kernel"}\n')
    kres = C.tlc_trace(ctx, "Trace_Abi", kf, env={"SRC": "kernel"})
    kv = viols_of(kres)
    if kv or not kres["accepted"]:
        C.log("\n".join(map(str, kv[:20])))
        raise C.ToolError("calibration: FuseAbiTable.tla disagrees with /usr/include/linux/fuse.h")
    # --- the crate
    cf = ctx.path("crate.ndjson")
    C.run_bin(bindir, "abi", [cf, "full"], env={"VERIF_SEED": ctx.seed})
    res = C.tlc_trace(ctx, "Trace_Abi", cf, env={"SRC": "crate"})
    if not res["accepted"]:
        raise C.ToolError("crate trace not consumed: %s" % res["stuck"])
    facts = C.read_ndjson(cf)
    ctx.traces += 1
    ctx.events += len(facts)
    ctx.states += res.get("distinct", 0)
    ctx.transitions += res.get("distinct", 0)
    for sig, idx, detail in viols_of(res):
        ctx.violation(sig, {"fact": facts[idx - 1] if idx - 1 < len(facts) else None, "expected": detail}, replay_src=None)
    # --- binding demonstration: a corrupted trace must be rejected
    demo = []
    bad = [dict(x) for x in facts]
    for x in bad:
        if x["e"] == "Field" and x["struct"] == "fuse_read_in" and x["field"] == "offset":
            x["off"] = 0
        if x["e"] == "Field" and x["struct"] == "fuse_read_in" and x["field"] == "fh":
            x["off"] = 8
    bad = [x for x in bad if not (x["e"] == "Const" and x["name"] == "FUSE_SETLKW")]
    for x in bad:
        if x["e"] == "OpRange" and x["lo"] == "19":
            x["kind"] = "id"
    bf = ctx.path("corrupt.ndjson")
    C.write_ndjson(bf, bad)
    bres = C.tlc_trace(ctx, "Trace_Abi", bf, env={"SRC": "crate"})
    sigs = {v[0] for v in viols_of(bres)}
    want = {"C13|field|fuse_read_in.offset", "C13|field|fuse_read_in.fh", "C13|missing|const|FUSE_SETLKW",
            "C13|opcode|hole-mapped-to-itself|19"}
    if not want <= sigs:
        raise C.ToolError("binding demo failed: corrupted trace not rejected as expected: %s" % sorted(sigs))
    demo.append({"corruption": "swap offsets of fuse_read_in.fh/offset; drop FUSE_SETLKW; map hole 19 to itself",
                 "rejected_with": sorted(sigs)})
    kinds = {}
    for x in facts:
        kinds[x["e"]] = kinds.get(x["e"], 0) + 1
    ctx.extra.update({
        "explanation": "TLC evaluated the consistency ASSUMEs of FuseAbi.tla and validated %d kernel-header facts (calibration) and %d crate facts "
                       "(every public field of %d #[repr(C)] structures with offset and width, %d constants, Opcode::from over all 2^32 inputs "
                       "as %d ranges, %d conversion-field facts from tokenised sampling) against the table. No transitions: table evaluation." % (
                           kres["n"], len(facts), kinds.get("Size", 0), kinds.get("Const", 0), kinds.get("OpRange", 0), kinds.get("Conv", 0)),
        "evaluations": len(facts),
        "distinct_nontrivial": len(facts) - 2,
        "rule": "one fact per (struct, field) / constant / opcode range / conversion output field; all facts are distinct by construction",
        "fact_kinds": kinds,
        "calibration": {"kernel_facts": kres["n"], "accepted": True},
        "binding_demo": demo,
        "exhaustive": True,
    })
    ctx.sample(facts[0])
    ctx.sample(next(x for x in facts if x["e"] == "OpRange" and x["kind"] != "id"))
    ctx.sample(next(x for x in facts if x["e"] == "Conv"))
    ctx.assumptions += ["/usr/include/linux/fuse.h (7.38) is the kernel ABI; structures newer than the header (Unpinned) come from the protocol documentation",
                        "the library's protocol-version deltas (LibLayout/Alias in FuseAbi.tla) are as documented there",
                        "conversion analysis is by sampling %d tokenised values per function" % 2000]


PROPS = {"C13": run_c13}
