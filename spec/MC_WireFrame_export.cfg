SPECIFICATION Spec
CONSTANT Async = FALSE
INVARIANT ExportCases
CHECK_DEADLOCK FALSE
