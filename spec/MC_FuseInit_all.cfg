SPECIFICATION Spec
CONSTANT StickySw = FALSE
CONSTANT ExtMarker = TRUE
INVARIANT InvReply
INVARIANT InvSwitches
INVARIANT InvSecond
INVARIANT InvSecondReply
INVARIANT InvSecondSwitches
INVARIANT ExportCases
CHECK_DEADLOCK FALSE
