SPECIFICATION Spec
VIEW StateView
CHECK_DEADLOCK FALSE
CONSTANTS
  Paths <- MCPathsQ
  Names = {"a", "b"}
  MaxDepth = 2
  NLower = 2
  MaxOps = 3
  HasUpper = TRUE
  Known = {}
  AsFound = {}
  UpperTypes = {"none", "file", "dir", "wh"}
  LowerTypes = {"none", "file", "dir", "wh"}
INVARIANTS LoadAgrees LiveIsView StatusAgrees RestartSame LowersFrozen
