SPECIFICATION Spec
CONSTANTS
  NameSeq <- NamesAB
  MaxFile = 3
  MaxLen = 3
  Counts <- Counts12
  CfgSet <- CfgRefs
  MODE = "refs"
  Fails <- NoFail
  MAXHOST = 2
  BUG_CREATE_LEAK = TRUE
  BUG_PROBE_LEAK = FALSE
  BUG_DOTS = FALSE
  DirN <- Dir02
  MAXSEEK = 1000
  SPECIAL_A = TRUE
  Sample = 40
  WithDetail <- NoDetail
  BlameLabel <- AnyBlame
INVARIANTS NoViolStrict
VIEW View
CHECK_DEADLOCK FALSE
