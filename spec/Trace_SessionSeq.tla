-------------------------- MODULE Trace_SessionSeq --------------------------
(* X03 - judge of SEQUENTIAL API histories of the real FuseSession / FuseChannel on real mounts
   (harness/src/bin/session.rs seq). Monitor mode: every event is checked against the sequential object of
   Session.tla; a failed obligation prints <<"VIOL", signature, index, detail>> and the trace goes on.

   Events (NDJSON, IOEnv.TRACE), all fields always present:
     Reset{h}
     op{i, op, c, k, kind, res, cls, hung, nmount}    one public operation; res = ok | err | panic | started |
                                                      called | not-called; cls = error class; hung = the call was
                                                      still asleep in the kernel after the grace period and was
                                                      released by aborting the connections; nmount = mounts on the
                                                      mountpoint right after the call
     done{what, c, res, opc, unique, len, hlen, hm, errno}   a get_request (what = gr) or the client's statfs
                                                      (what = cli) returned
     st{nfuse, nevent, nepoll, nmount}                descriptors / mounts once everything has settled
     End{h}
   The code is accepted with the behaviour as found AND with the repaired behaviour of findings/session-*.diff;
   where the behaviour as found breaks a requirement the signature is printed (known findings):
     X03|umount|mount-left-attached|conn-aborted      X03|umount|mount-left-attached|mounted-twice  (also drop)
     X03|mount|hang|already-mounted                   X03|get_request|blocked-after-exit-signal|edge-triggered *)
EXTENDS Naturals, Sequences, FiniteSets, TLC, Json, IOUtils

Chans == 1..2
MaxConn == 3       \* one more than the generator uses: the repaired code can mount again where the code as found cannot
AF == INSTANCE Session WITH AsFoundAbort <- TRUE, AsFoundRemount <- TRUE
FX == INSTANCE Session WITH AsFoundAbort <- FALSE, AsFoundRemount <- FALSE

Rec == ndJsonDeserialize(IOEnv.TRACE)
N == Len(Rec)

VARIABLES l, S, seen
vars == <<l, S, seen>>

V(sig, d) == PrintT(<<"VIOL", sig, l, d>>)
Num(n) == ToString(n)
OpcOf(kind) == CASE kind = "INIT" -> 26 [] kind = "STATFS" -> 17 [] kind = "GETATTR" -> 3 [] OTHER -> 0

\* short description of the state an operation was called in (for signatures)
Cls(T) == (IF T.ses # "live" THEN "no-session"
           ELSE IF T.file = 0 THEN "no-fuse-file"
           ELSE IF AF!Dead(T, T.file) THEN "conn-dead" ELSE "mounted")
          \o (IF Len(T.stack) > 1 THEN "+stacked" ELSE IF T.stack # <<>> /\ T.file = 0 THEN "+stale-mount" ELSE "")

\* the logged result as a model token
Got(r) == IF r.hung THEN "hang" ELSE IF r.res = "err" THEN r.cls ELSE r.res

\* ---- one public operation: expected result record(s) as found / repaired
AFDo(T, r) ==
  CASE r.op = "new" -> AF!DoNew(T, r.kind) [] r.op = "mount" -> AF!DoMount(T) [] r.op = "umount" -> AF!DoUmount(T)
    [] r.op = "drop" -> AF!DoDrop(T) [] r.op = "wake" -> AF!DoWake(T) [] r.op = "nc" -> AF!DoNc(T, r.c)
    [] r.op = "dc" -> AF!DoDc(T, r.c) [] r.op = "clone" -> AF!DoClone(T) [] r.op = "setf" -> AF!DoSetf(T)
    [] r.op = "dclone" -> AF!DoDclone(T) [] r.op = "bufsize" -> AF!DoBufsize(T) [] r.op = "ww" -> AF!DoWw(T)
    [] r.op = "tww" -> AF!DoTww(T) [] r.op = "abort" -> AF!DoAbort(T, r.k) [] r.op = "gr" -> AF!DoGrStart(T, r.c)
    [] r.op = "cli" -> AF!DoCli(T)
FXDo(T, r) ==
  CASE r.op = "mount" -> FX!DoMount(T) [] r.op = "umount" -> FX!DoUmount(T) [] r.op = "drop" -> FX!DoDrop(T)
    [] OTHER -> AFDo(T, r)

\* model preconditions of the generator (a history that breaks them is a tool problem, reported as such)
PreOK(T, r) ==
  CASE r.op \in {"dc", "gr"} -> r.c \in Chans /\ T.ch[r.c].st = "live" /\ ~T.ch[r.c].blk
    [] r.op = "nc" -> r.c \in Chans /\ T.ch[r.c].st = "none"
    [] r.op \in {"setf", "dclone"} -> T.clone # 0
    [] r.op = "abort" -> r.k \in 1..MaxConn
    [] r.op = "cli" -> T.cli.st = "idle"
    [] r.op = "mount" -> AF!MountCase(T) # "served"
    [] OTHER -> TRUE

\* (TLC re-evaluates LET definitions at every use: values that are costly are bound by \E over a singleton)
OpStep(r) ==
  \E a \in {AFDo(S, r)} : \E f \in {IF r.op \in {"mount", "umount", "drop"} THEN FXDo(S, r) ELSE a} :
  LET g == Got(r) IN
  LET same == a.res = f.res /\ a.s = f.s IN
  \* which behaviour did the code show? the repaired one is recognised by its result, or - same result - by the
  \* number of mounts it leaves
  LET fixed == ~same /\ g = f.res /\ (a.res # f.res \/ r.nmount = FX!NMount(f.s)) IN
  LET e == IF fixed THEN f ELSE a IN
  /\ TRUE = (IF PreOK(S, r) THEN TRUE ELSE V("X03|tool|history-outside-the-model|" \o r.op, r))
  /\ TRUE = (IF g = "panic" THEN V("X03|" \o r.op \o "|panic|" \o Cls(S), r)
             ELSE IF g = e.res \/ (r.op = "bufsize" /\ g = "ok") THEN TRUE
             ELSE V("X03|" \o r.op \o "|" \o Cls(S) \o "|want-" \o e.res \o "|got-" \o g, r))
  /\ TRUE = (IF r.op = "bufsize" /\ r.res = "ok" /\ r.n # 1052672 THEN V("X03|bufsize|value", r) ELSE TRUE)
  /\ TRUE = (IF r.op \in {"ww", "tww"} /\ S.file # 0 /\ g \in {"called", "ok"} /\ r.n # 1052672 THEN V("X03|" \o r.op \o "|writer-capacity", r) ELSE TRUE)
  \* requirements R3 / R4 on the step the code took
  /\ TRUE = (IF ~AF!NoStaleMount(S, e.s, r.op, e.res) /\ g = e.res
             THEN V("X03|" \o r.op \o "|mount-left-attached|" \o AF!StaleClass(S), [pre |-> Cls(S), nmount |-> r.nmount]) ELSE TRUE)
  /\ TRUE = (IF g = "hang" /\ ~AF!NoHang(S, g) THEN V("X03|" \o r.op \o "|hang|" \o (IF r.op = "mount" /\ S.stack # <<>> THEN "already-mounted" ELSE Cls(S)), r) ELSE TRUE)
  /\ S' = (IF g = "hang" /\ e.res # "hang" THEN AF!KillAll(e.s) ELSE e.s)
  /\ UNCHANGED seen

\* ---- completions
DoneGr(r) ==
  LET c == r.c IN
  \E T \in {IF S.cli.st = "fin" /\ r.res = "none" /\ AF!GrReady(S, c, FALSE) = "" THEN AF!ReapCli(S) ELSE S} :   \* the client's exit killed the connection first
  \E want \in {AF!GrReady(T, c, FALSE)} :
  IF ~(c \in Chans /\ S.ch[c].st = "live" /\ S.ch[c].blk)
  THEN /\ V("X03|get_request|completion-of-a-call-not-in-progress", r) /\ UNCHANGED <<S, seen>>
  ELSE IF r.res = "none"
  THEN /\ TRUE = (IF want = "none" \/ T.ch[c].exited THEN TRUE
                  ELSE V("X03|get_request|none-without-exit-or-unmount|" \o (IF want = "" THEN "would-block" ELSE "request-pending"), r))
       /\ S' = AF!GrComplete(T, c, "none") /\ UNCHANGED seen
  ELSE IF r.res = "some"
  THEN LET key == <<S.ch[c].k, r.unique>> IN
       /\ TRUE = (IF want \notin {"", "none"} /\ OpcOf(want) = r.opc THEN TRUE
                  ELSE V("X03|get_request|some|want-" \o (IF want = "" THEN "blocked" ELSE want) \o "|got-opcode-" \o Num(r.opc), r))
       /\ TRUE = (IF T.ch[c].exited THEN V("X03|get_request|request-after-exit-signal|edge-triggered", r) ELSE TRUE)
       /\ TRUE = (IF r.len = r.hlen THEN TRUE ELSE V("X03|deliver|length|reader-" \o Num(r.len) \o "|header-" \o Num(r.hlen), r))
       /\ TRUE = (IF key \notin seen THEN TRUE ELSE V("X03|deliver|duplicate-unique", r))
       /\ TRUE = (IF r.hm = "ok" THEN TRUE ELSE V("X03|reply|" \o r.hm \o "|connection-live", r))
       /\ S' = (IF want \notin {"", "none"} THEN AF!GrComplete(T, c, want) ELSE [T EXCEPT !.ch[c].blk = FALSE])
       /\ seen' = seen \cup {key}
  ELSE /\ V("X03|get_request|" \o r.res \o "|" \o (IF r.res = "err" THEN r.cls ELSE ""), r)
       /\ S' = [S EXCEPT !.ch[c].blk = FALSE] /\ UNCHANGED seen

CliRes(r) == IF r.res = "err" THEN "err" \o Num(r.errno) ELSE r.res
DoneCli(r) ==
  /\ TRUE = (IF S.cli.st = "fin" /\ CliRes(r) = S.cli.res THEN TRUE
             ELSE V("X03|client|want-" \o (IF S.cli.st = "fin" THEN S.cli.res ELSE "pending-" \o S.cli.st) \o "|got-" \o CliRes(r), r))
  /\ S' = AF!CliComplete(S) /\ UNCHANGED seen

\* ---- everything has settled: nothing that could complete is still in progress; descriptor and mount counts
RECURSIVE Settle(_)
Settle(T) ==
  IF T.cli.st = "fin" THEN Settle(AF!CliComplete(T))
  ELSE IF \E c \in Chans : AF!GrReady(T, c, FALSE) # ""
       THEN LET c == CHOOSE x \in Chans : AF!GrReady(T, x, FALSE) # "" IN Settle(AF!GrComplete(T, c, AF!GrReady(T, c, FALSE)))
       ELSE T
StuckSig(T, c) == LET w == AF!GrReady(T, c, FALSE) IN
  IF T.ch[c].tok THEN "X03|wake|reader-still-blocked"
  ELSE IF w = "none" THEN "X03|umount|reader-still-blocked|connection-destroyed"
  ELSE "X03|deliver|request-not-delivered|" \o w
StEv(r) ==
  \E T \in {Settle(S)} :
  /\ TRUE = (IF S.cli.st = "fin" THEN V("X03|client|no-completion|want-" \o S.cli.res, r) ELSE TRUE)
  /\ \A c \in Chans : TRUE = (IF AF!GrReady(S, c, FALSE) # "" THEN V(StuckSig(S, c), [c |-> c]) ELSE TRUE)
  \* the stronger reading of R2 (exit event level-triggered, as the comment in get_request says)
  /\ \A c \in Chans : TRUE = (IF T.ch[c].st = "live" /\ T.ch[c].blk /\ T.ch[c].exited
                              THEN V("X03|get_request|blocked-after-exit-signal|edge-triggered", [c |-> c]) ELSE TRUE)
  /\ TRUE = (IF r.nfuse = AF!NFuse(T) THEN TRUE ELSE V("X03|fds|fuse|want-" \o Num(AF!NFuse(T)) \o "|got-" \o Num(r.nfuse), r))
  /\ TRUE = (IF r.nevent = AF!NEvent(T) THEN TRUE ELSE V("X03|fds|eventfd|want-" \o Num(AF!NEvent(T)) \o "|got-" \o Num(r.nevent), r))
  /\ TRUE = (IF r.nepoll = AF!NEpoll(T) THEN TRUE ELSE V("X03|fds|epoll|want-" \o Num(AF!NEpoll(T)) \o "|got-" \o Num(r.nepoll), r))
  /\ TRUE = (IF r.nmount = AF!NMount(T) THEN TRUE ELSE V("X03|mounts|want-" \o Num(AF!NMount(T)) \o "|got-" \o Num(r.nmount), r))
  /\ TRUE = (IF AF!NoLeak(T) THEN TRUE ELSE V("X03|fds|left-open-at-quiescence", r))
  /\ S' = T /\ UNCHANGED seen

Init == l = 1 /\ S = AF!S0 /\ seen = {}
Step == /\ l <= N
        /\ LET r == Rec[l] IN
           CASE r.e = "Reset" -> S' = AF!S0 /\ seen' = {}
             [] r.e = "op" -> OpStep(r)
             [] r.e = "done" -> IF r.what = "gr" THEN DoneGr(r) ELSE DoneCli(r)
             [] r.e = "st" -> StEv(r)
             [] OTHER -> UNCHANGED <<S, seen>>
        /\ l' = l + 1
Done == l = N + 1 /\ PrintT(<<"ACCEPTED", N>>) /\ l' = l + 1 /\ UNCHANGED <<S, seen>>
Next == Step \/ Done
Spec == Init /\ [][Next]_vars
=============================================================================
