SPECIFICATION Spec
CONSTANTS
  N = 4
  B = 4
  Paths <- MC_Paths
  BadPath <- MC_BadPath
  Backends <- MC_Backends
  Maps <- MC_Maps
  GMaps <- MC_GMaps
  RootUid <- MC_RootUid
  TestUid <- MC_TestUid
  MaxOps = 6
  Bugs <- D_001100
  Known <- D_001100
  WithPersist = TRUE
  RefuseBeforeInit = FALSE
  KeepHist = FALSE
  Wrap = 4
  LoopAlloc = TRUE
  NextSuper0 = 1
  NextIno0 = 2
VIEW View
CHECK_DEADLOCK FALSE
INVARIANTS TypeOK AllocSame AOK Routing MountTable OneSlot PseudoNumbers EffRight CtxRight RootOnce RootPlus InitRight RestoreStutters
