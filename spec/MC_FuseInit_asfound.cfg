SPECIFICATION Spec
CONSTANT StickySw = FALSE
CONSTANT ExtMarker = FALSE
INVARIANT InvReply
INVARIANT InvSwitches
INVARIANT InvSecond
INVARIANT InvSecondReply
INVARIANT InvSecondSwitches
CHECK_DEADLOCK FALSE
