SPECIFICATION Spec
CONSTANT ExtMarker = TRUE
INVARIANT InvReply
INVARIANT InvSwitches
INVARIANT InvSecond
INVARIANT ExportCases
CHECK_DEADLOCK FALSE
