SPECIFICATION TSpec
CONSTANT ExtMarker = TRUE
CHECK_DEADLOCK FALSE
