SPECIFICATION Spec
CONSTANTS
  Readers = {1, 2}
  Late = {}
  NReq = 1
  Interrupts = FALSE
  Mut = "skip-waker"
  UmountWaits = TRUE
INVARIANTS TypeOK DeliveredOnce BufferIsRequest ExitWins NoneJustified NoLostWake NoLostReadiness ResultsAllowed NothingLost
PROPERTIES WakeWorks UmountWorks Termination
