//! A recording wrapper around the file system handed to `Server`: the request stream the kernel really sends,
//! reduced to what the protocol-level obligations of X05 talk about (generated from the `Arc<FS>` delegation
//! of src/api/filesystem/sync_io.rs; the accounting methods are instrumented by hand):
//!   ["use", method, ino]             a request naming inode `ino`
//!   ["ent", method, parent, ino]     a reply that hands out a reference on `ino` (lookup, create, mkdir, mknod,
//!                                    symlink, link, every entry of a readdirplus reply)
//!   ["fgt", ino, count]              FORGET / one item of BATCH_FORGET
//!   ["opn", ino, handle]             a reply that hands out a handle (open, opendir, create)
//!   ["rel", ino, handle, ok]         RELEASE / RELEASEDIR
//!   ["init"] / ["dst"]               INIT / DESTROY
#![allow(clippy::too_many_arguments)]
use fuse_backend_rs::abi::fuse_abi::{stat64, statvfs64, CreateIn, FsOptions, OpenOptions, SetattrValid};
use fuse_backend_rs::api::filesystem::{
    Context, DirEntry, Entry, FileLock, FileSystem, GetxattrReply, IoctlData, ListxattrReply, ZeroCopyReader, ZeroCopyWriter,
};
use serde_json::{json, Value};
use std::ffi::CStr;
use std::io;
use std::sync::{Arc, Mutex};
use std::time::Duration;

pub struct Rec<FS> {
    pub inner: FS,
    pub log: Arc<Mutex<Vec<Value>>>,
}

impl<FS> Rec<FS> {
    pub fn new(inner: FS) -> Self {
        Rec { inner, log: Arc::new(Mutex::new(Vec::new())) }
    }
    fn ev(&self, v: Value) {
        self.log.lock().unwrap().push(v);
    }
    fn touch(&self, m: &str, ino: u64) {
        self.ev(json!(["use", m, ino]));
    }
    fn ent(&self, m: &str, parent: u64, r: &io::Result<Entry>) {
        if let Ok(e) = r {
            if e.inode != 0 {
                self.ev(json!(["ent", m, parent, e.inode]));
            }
        }
    }
}

impl<FS: FileSystem> FileSystem for Rec<FS>
where
    FS::Inode: Into<u64> + Copy,
    FS::Handle: Into<u64> + Copy,
{
    type Inode = FS::Inode;
    type Handle = FS::Handle;

    fn init(&self, capable: FsOptions) -> io::Result<FsOptions> {
        self.ev(json!(["init"]));
        self.inner.init(capable)
    }

    fn destroy(&self) {
        self.ev(json!(["dst"]));
        self.inner.destroy()
    }

    fn lookup(&self, ctx: &Context, parent: Self::Inode, name: &CStr) -> io::Result<Entry> {
        self.touch("lookup", parent.into());
        let r = self.inner.lookup(ctx, parent, name);
        self.ent("lookup", parent.into(), &r);
        r
    }

    fn forget(&self, ctx: &Context, inode: Self::Inode, count: u64) {
        self.ev(json!(["fgt", inode.into(), count]));
        self.inner.forget(ctx, inode, count)
    }

    fn batch_forget(&self, ctx: &Context, requests: Vec<(Self::Inode, u64)>) {
        for (i, c) in requests.iter() {
            self.ev(json!(["fgt", (*i).into(), *c]));
        }
        self.inner.batch_forget(ctx, requests)
    }

    fn getattr(
        &self,
        ctx: &Context,
        inode: Self::Inode,
        handle: Option<Self::Handle>,
    ) -> io::Result<(stat64, Duration)> {
        self.touch("getattr", inode.into());
        self.inner.getattr(ctx, inode, handle)
    }

    fn setattr(
        &self,
        ctx: &Context,
        inode: Self::Inode,
        attr: stat64,
        handle: Option<Self::Handle>,
        valid: SetattrValid,
    ) -> io::Result<(stat64, Duration)> {
        self.touch("setattr", inode.into());
        self.inner.setattr(ctx, inode, attr, handle, valid)
    }

    fn readlink(&self, ctx: &Context, inode: Self::Inode) -> io::Result<Vec<u8>> {
        self.touch("readlink", inode.into());
        self.inner.readlink(ctx, inode)
    }

    fn symlink(
        &self,
        ctx: &Context,
        linkname: &CStr,
        parent: Self::Inode,
        name: &CStr,
    ) -> io::Result<Entry> {
        self.touch("symlink", parent.into());
        let r = self.inner.symlink(ctx, linkname, parent, name);
        self.ent("symlink", parent.into(), &r);
        r
    }

    fn mknod(
        &self,
        ctx: &Context,
        inode: Self::Inode,
        name: &CStr,
        mode: u32,
        rdev: u32,
        umask: u32,
    ) -> io::Result<Entry> {
        self.touch("mknod", inode.into());
        let r = self.inner.mknod(ctx, inode, name, mode, rdev, umask);
        self.ent("mknod", inode.into(), &r);
        r
    }

    fn mkdir(
        &self,
        ctx: &Context,
        parent: Self::Inode,
        name: &CStr,
        mode: u32,
        umask: u32,
    ) -> io::Result<Entry> {
        self.touch("mkdir", parent.into());
        let r = self.inner.mkdir(ctx, parent, name, mode, umask);
        self.ent("mkdir", parent.into(), &r);
        r
    }

    fn unlink(&self, ctx: &Context, parent: Self::Inode, name: &CStr) -> io::Result<()> {
        self.touch("unlink", parent.into());
        self.inner.unlink(ctx, parent, name)
    }

    fn rmdir(&self, ctx: &Context, parent: Self::Inode, name: &CStr) -> io::Result<()> {
        self.touch("rmdir", parent.into());
        self.inner.rmdir(ctx, parent, name)
    }

    fn rename(
        &self,
        ctx: &Context,
        olddir: Self::Inode,
        oldname: &CStr,
        newdir: Self::Inode,
        newname: &CStr,
        flags: u32,
    ) -> io::Result<()> {
        self.touch("rename", olddir.into());
        self.touch("rename", newdir.into());
        self.inner.rename(ctx, olddir, oldname, newdir, newname, flags)
    }

    fn link(
        &self,
        ctx: &Context,
        inode: Self::Inode,
        newparent: Self::Inode,
        newname: &CStr,
    ) -> io::Result<Entry> {
        self.touch("link", inode.into());
        self.touch("link", newparent.into());
        let r = self.inner.link(ctx, inode, newparent, newname);
        self.ent("link", newparent.into(), &r);
        r
    }

    fn open(
        &self,
        ctx: &Context,
        inode: Self::Inode,
        flags: u32,
        fuse_flags: u32,
    ) -> io::Result<(Option<Self::Handle>, OpenOptions, Option<u32>)> {
        self.touch("open", inode.into());
        let r = self.inner.open(ctx, inode, flags, fuse_flags);
        if let Ok((Some(h), _, _)) = &r {
            self.ev(json!(["opn", inode.into(), (*h).into()]));
        }
        r
    }

    fn create(
        &self,
        ctx: &Context,
        parent: Self::Inode,
        name: &CStr,
        args: CreateIn,
    ) -> io::Result<(Entry, Option<Self::Handle>, OpenOptions, Option<u32>)> {
        self.touch("create", parent.into());
        let r = self.inner.create(ctx, parent, name, args);
        if let Ok((e, h, _, _)) = &r {
            self.ev(json!(["ent", "create", parent.into(), e.inode]));
            if let Some(h) = h {
                self.ev(json!(["opn", e.inode, (*h).into()]));
            }
        }
        r
    }

    fn read(
        &self,
        ctx: &Context,
        inode: Self::Inode,
        handle: Self::Handle,
        w: &mut dyn ZeroCopyWriter,
        size: u32,
        offset: u64,
        lock_owner: Option<u64>,
        flags: u32,
    ) -> io::Result<usize> {
        self.touch("read", inode.into());
        self.inner.read(ctx, inode, handle, w, size, offset, lock_owner, flags)
    }

    #[allow(clippy::too_many_arguments)]
    fn write(
        &self,
        ctx: &Context,
        inode: Self::Inode,
        handle: Self::Handle,
        r: &mut dyn ZeroCopyReader,
        size: u32,
        offset: u64,
        lock_owner: Option<u64>,
        delayed_write: bool,
        flags: u32,
        fuse_flags: u32,
    ) -> io::Result<usize> {
        self.touch("write", inode.into());
        self.inner.write(
            ctx,
            inode,
            handle,
            r,
            size,
            offset,
            lock_owner,
            delayed_write,
            flags,
            fuse_flags,
        )
    }

    fn flush(
        &self,
        ctx: &Context,
        inode: Self::Inode,
        handle: Self::Handle,
        lock_owner: u64,
    ) -> io::Result<()> {
        self.touch("flush", inode.into());
        self.inner.flush(ctx, inode, handle, lock_owner)
    }

    fn fsync(
        &self,
        ctx: &Context,
        inode: Self::Inode,
        datasync: bool,
        handle: Self::Handle,
    ) -> io::Result<()> {
        self.touch("fsync", inode.into());
        self.inner.fsync(ctx, inode, datasync, handle)
    }

    fn fallocate(
        &self,
        ctx: &Context,
        inode: Self::Inode,
        handle: Self::Handle,
        mode: u32,
        offset: u64,
        length: u64,
    ) -> io::Result<()> {
        self.touch("fallocate", inode.into());
        self.inner.fallocate(ctx, inode, handle, mode, offset, length)
    }

    #[allow(clippy::too_many_arguments)]
    fn release(
        &self,
        ctx: &Context,
        inode: Self::Inode,
        flags: u32,
        handle: Self::Handle,
        flush: bool,
        flock_release: bool,
        lock_owner: Option<u64>,
    ) -> io::Result<()> {
        self.touch("release", inode.into());
        let r = self.inner.release(ctx, inode, flags, handle, flush, flock_release, lock_owner);
        self.ev(json!(["rel", inode.into(), handle.into(), r.is_ok()]));
        r
    }

    fn statfs(&self, ctx: &Context, inode: Self::Inode) -> io::Result<statvfs64> {
        self.touch("statfs", inode.into());
        self.inner.statfs(ctx, inode)
    }

    fn setxattr(
        &self,
        ctx: &Context,
        inode: Self::Inode,
        name: &CStr,
        value: &[u8],
        flags: u32,
    ) -> io::Result<()> {
        self.touch("setxattr", inode.into());
        self.inner.setxattr(ctx, inode, name, value, flags)
    }

    fn getxattr(
        &self,
        ctx: &Context,
        inode: Self::Inode,
        name: &CStr,
        size: u32,
    ) -> io::Result<GetxattrReply> {
        self.touch("getxattr", inode.into());
        self.inner.getxattr(ctx, inode, name, size)
    }

    fn listxattr(
        &self,
        ctx: &Context,
        inode: Self::Inode,
        size: u32,
    ) -> io::Result<ListxattrReply> {
        self.touch("listxattr", inode.into());
        self.inner.listxattr(ctx, inode, size)
    }

    fn removexattr(&self, ctx: &Context, inode: Self::Inode, name: &CStr) -> io::Result<()> {
        self.touch("removexattr", inode.into());
        self.inner.removexattr(ctx, inode, name)
    }

    fn opendir(
        &self,
        ctx: &Context,
        inode: Self::Inode,
        flags: u32,
    ) -> io::Result<(Option<Self::Handle>, OpenOptions)> {
        self.touch("opendir", inode.into());
        let r = self.inner.opendir(ctx, inode, flags);
        if let Ok((Some(h), _)) = &r {
            self.ev(json!(["opn", inode.into(), (*h).into()]));
        }
        r
    }

    fn readdir(
        &self,
        ctx: &Context,
        inode: Self::Inode,
        handle: Self::Handle,
        size: u32,
        offset: u64,
        add_entry: &mut dyn FnMut(DirEntry) -> io::Result<usize>,
    ) -> io::Result<()> {
        self.touch("readdir", inode.into());
        self.inner.readdir(ctx, inode, handle, size, offset, add_entry)
    }

    fn readdirplus(
        &self,
        ctx: &Context,
        inode: Self::Inode,
        handle: Self::Handle,
        size: u32,
        offset: u64,
        add_entry: &mut dyn FnMut(DirEntry, Entry) -> io::Result<usize>,
    ) -> io::Result<()> {
        self.touch("readdirplus", inode.into());
        let dir: u64 = inode.into();
        self.inner.readdirplus(ctx, inode, handle, size, offset, &mut |d, e| {
            let ino = e.inode;
            let r = add_entry(d, e);
            // an entry the reply carries is a reference the kernel accounts for
            if let Ok(n) = r {
                if n > 0 && ino != 0 {
                    self.ev(json!(["ent", "readdirplus", dir, ino]));
                }
            }
            r
        })
    }

    fn fsyncdir(
        &self,
        ctx: &Context,
        inode: Self::Inode,
        datasync: bool,
        handle: Self::Handle,
    ) -> io::Result<()> {
        self.touch("fsyncdir", inode.into());
        self.inner.fsyncdir(ctx, inode, datasync, handle)
    }

    fn releasedir(
        &self,
        ctx: &Context,
        inode: Self::Inode,
        flags: u32,
        handle: Self::Handle,
    ) -> io::Result<()> {
        self.touch("releasedir", inode.into());
        let r = self.inner.releasedir(ctx, inode, flags, handle);
        self.ev(json!(["rel", inode.into(), handle.into(), r.is_ok()]));
        r
    }

    fn access(&self, ctx: &Context, inode: Self::Inode, mask: u32) -> io::Result<()> {
        self.touch("access", inode.into());
        self.inner.access(ctx, inode, mask)
    }

    fn lseek(
        &self,
        ctx: &Context,
        inode: Self::Inode,
        handle: Self::Handle,
        offset: u64,
        whence: u32,
    ) -> io::Result<u64> {
        self.touch("lseek", inode.into());
        self.inner.lseek(ctx, inode, handle, offset, whence)
    }

    /// Query file lock status
    fn getlk(
        &self,
        ctx: &Context,
        inode: Self::Inode,
        handle: Self::Handle,
        owner: u64,
        lock: FileLock,
        flags: u32,
    ) -> io::Result<FileLock> {
        self.touch("getlk", inode.into());
        self.inner.getlk(ctx, inode, handle, owner, lock, flags)
    }

    /// Grab a file read lock
    fn setlk(
        &self,
        ctx: &Context,
        inode: Self::Inode,
        handle: Self::Handle,
        owner: u64,
        lock: FileLock,
        flags: u32,
    ) -> io::Result<()> {
        self.touch("setlk", inode.into());
        self.inner.setlk(ctx, inode, handle, owner, lock, flags)
    }

    /// Grab a file write lock
    fn setlkw(
        &self,
        ctx: &Context,
        inode: Self::Inode,
        handle: Self::Handle,
        owner: u64,
        lock: FileLock,
        flags: u32,
    ) -> io::Result<()> {
        self.touch("setlkw", inode.into());
        self.inner.setlkw(ctx, inode, handle, owner, lock, flags)
    }

    /// send ioctl to the file
    #[allow(clippy::too_many_arguments)]
    fn ioctl(
        &self,
        ctx: &Context,
        inode: Self::Inode,
        handle: Self::Handle,
        flags: u32,
        cmd: u32,
        data: IoctlData,
        out_size: u32,
    ) -> io::Result<IoctlData<'_>> {
        self.touch("ioctl", inode.into());
        self.inner.ioctl(ctx, inode, handle, flags, cmd, data, out_size)
    }

    /// Query a file's block mapping info
    fn bmap(
        &self,
        ctx: &Context,
        inode: Self::Inode,
        block: u64,
        blocksize: u32,
    ) -> io::Result<u64> {
        self.touch("bmap", inode.into());
        self.inner.bmap(ctx, inode, block, blocksize)
    }

    /// Poll a file's events
    fn poll(
        &self,
        ctx: &Context,
        inode: Self::Inode,
        handle: Self::Handle,
        khandle: Self::Handle,
        flags: u32,
        events: u32,
    ) -> io::Result<u32> {
        self.touch("poll", inode.into());
        self.inner.poll(ctx, inode, handle, khandle, flags, events)
    }

    /// Send notify reply.
    fn notify_reply(&self) -> io::Result<()> {
        self.inner.notify_reply()
    }

    #[inline]
    fn id_remap(&self, ctx: &mut Context) -> io::Result<()> {
        self.inner.id_remap(ctx)
    }

    #[inline]
    fn id_remap_with_nodeid(&self, ctx: &mut Context, nodeid: Self::Inode) -> io::Result<()> {
        self.inner.id_remap_with_nodeid(ctx, nodeid)
    }
}
