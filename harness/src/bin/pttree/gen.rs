//! Seeded online generator of abstract requests (it sees which slots are valid, nothing else).
use crate::tree::J;
use serde_json::json;
use vharness::util::Rng;

#[derive(Clone, Debug)]
pub struct NodeInfo {
    pub valid: bool,
    pub kind: String, // dir / reg / lnk / other
    pub size: u64,    // size when the reference was obtained (used by the gentle C18 flavour only)
}
#[derive(Clone, Debug)]
pub struct HandleInfo {
    pub valid: bool,
    pub node: usize,
    pub flags: i32,
    pub dir: bool,
}

pub struct Gen {
    pub rng: Rng,
    pub mode: String,
    pub no_open: bool,
    pub no_opendir: bool,
    pub wb: bool,
    pub nodes: Vec<NodeInfo>,
    pub handles: Vec<HandleInfo>,
    /// C18 flavour that keeps non-append WRITEs within the current size (more requests succeed on a
    /// sealed export); the other flavour also sends them beyond the size
    pub gentle: bool,
    /// killpriv_v2 negotiated: the kill flags are put on requests that fail or that no set-id bit is involved in
    pub killpriv: bool,
}

const EXIST: &[&str] = &["f1", "f2", "f3", "d1", "d2", "d3", "g", "ln", "lout_abs", "lout_rel", "lout_dir", "ldang", "hl", "fifo", "nul"];
const FILES: &[&str] = &["f1", "f2", "f3", "g", "hl", "f1", "f3", "big"];
const NEW: &[&str] = &["x", "y", "z", "w"];
const MODES: &[u32] = &[0o644, 0o600, 0o755, 0o700, 0o777, 0o444, 0o000, 0o666, 0o640];

impl Gen {
    fn pick_node(&mut self, want: &[&str]) -> i64 {
        let c: Vec<usize> = (0..self.nodes.len()).filter(|k| self.nodes[*k].valid && (want.is_empty() || want.contains(&self.nodes[*k].kind.as_str()))).collect();
        if c.is_empty() {
            if want.contains(&"dir") || want.is_empty() {
                0
            } else {
                -1
            }
        } else {
            // prefer recent slots
            let k = if self.rng.chance(1, 2) { c[c.len() - 1 - self.rng.below(c.len().min(3) as u64) as usize] } else { *self.rng.pick(&c) };
            k as i64
        }
    }
    fn pick_handle(&mut self, dir: bool) -> i64 {
        let c: Vec<usize> = (0..self.handles.len()).filter(|k| self.handles[*k].valid && self.handles[*k].dir == dir).collect();
        if c.is_empty() {
            -1
        } else {
            *self.rng.pick(&c) as i64
        }
    }
    fn hostile(&mut self) -> (J, &'static str) {
        // names that are not valid UTF-8 (Latin-1, lone continuation bytes, an overlong "/"), with and without a real '/'
        if self.rng.chance(1, 4) {
            let (b, k): (&[u8], &'static str) = *self.rng.pick(&[
                (&b"../outside/evil\xff"[..], "slash"), (&b"caf\xe9/../../outside/o1"[..], "slash"), (&b"\xff/x"[..], "slash"), (&b"d1/\x80"[..], "slash"),
                (&b"\x80\xbf/../../secret"[..], "slash"), (&b"/\xfe"[..], "slash"), (&b"caf\xe9"[..], "plain"), (&b"\xc0\xaf"[..], "plain"), (&b"x\x80y"[..], "plain"),
            ]);
            return (json!({"b": b}), k);
        }
        match self.rng.below(9) {
            0 => (json!("."), "dot"),
            1 => (json!(".."), "dotdot"),
            2 => (json!("d1/g"), "slash"),
            3 => (json!("../secret"), "slash"),
            4 => (json!("/etc/passwd"), "slash"),
            5 => (json!("x/"), "slash"),
            6 => (json!("../outside/o1"), "slash"),
            7 => (json!(""), "empty"),
            _ => (json!({"rep": "n", "len": 300}), "long"),
        }
    }
    fn name(&mut self, p_exist: u64, p_hostile: u64) -> (J, &'static str) {
        let r = self.rng.below(100);
        if r < p_hostile {
            self.hostile()
        } else if r < p_hostile + p_exist {
            (json!(*self.rng.pick(EXIST)), "plain")
        } else {
            (json!(*self.rng.pick(NEW)), "plain")
        }
    }
    fn ids(&mut self) -> (u32, u32) {
        // callers: root, a plain user, and the mixes (root with a foreign group, a user with group 0)
        if self.mode != "c18" && self.rng.chance(2, 5) {
            *self.rng.pick(&[(1000u32, 1000u32), (1000, 1000), (0, 1000), (1000, 0), (0, 4242)])
        } else {
            (0, 0)
        }
    }
    fn oflags(&mut self, seal: bool) -> i32 {
        let mut f = *self.rng.pick(&[libc::O_RDONLY, libc::O_WRONLY, libc::O_RDWR, libc::O_RDWR]);
        let pa = if seal { 3 } else { 5 };
        if self.rng.chance(1, pa) {
            f |= libc::O_APPEND; // under writeback too: the server must honour the offsets the client kernel sends
        }
        if self.rng.chance(1, pa) {
            f |= libc::O_TRUNC;
        }
        if self.wb && f & libc::O_ACCMODE == libc::O_WRONLY {
            // under writeback the server widens O_WRONLY to O_RDWR (documented); not a host-equivalent request
            f = (f & !libc::O_ACCMODE) | libc::O_RDWR;
        }
        f
    }
    fn data(&mut self, len: u64) -> Vec<u8> {
        (0..len).map(|_| 48 + self.rng.below(10) as u8).collect()
    }

    pub fn next(&mut self) -> J {
        let seal = self.mode == "c18";
        let c06 = self.mode == "c06";
        // operation classes with weights per mode
        let table: &[(&str, u64, u64, u64)] = &[
            // (op, c05, c06, c18)
            ("lookup", 14, 22, 12),
            ("forget", 3, 3, 2),
            ("getattr", 4, 5, 3),
            ("mkdir", 5, 5, 1),
            ("mknod", 3, 3, 1),
            ("symlink", 3, 6, 1),
            ("create", 6, 6, 9),
            ("link", 3, 4, 1),
            ("unlink", 4, 4, 1),
            ("rmdir", 3, 3, 0),
            ("rename", 6, 7, 2),
            ("open", 8, 7, 12),
            ("opendir", 2, 2, 0),
            ("release", 3, 2, 3),
            ("read", 6, 6, 4),
            ("write", 8, 5, 18),
            ("setattr", 7, 5, 9),
            ("fallocate", 3, 1, 12),
            ("lseek", 2, 0, 1),
            ("fsync", 1, 0, 1),
            ("readlink", 2, 4, 0),
            ("statfs", 1, 0, 0),
            ("setxattr", 4, 2, 0),
            ("getxattr", 2, 2, 0),
            ("listxattr", 1, 1, 0),
            ("removexattr", 3, 1, 0),
            ("forget_root", 1, 3, 0),
            ("batch_forget", 1, 3, 0),
            ("remount", 1, 1, 2),
        ];
        let total: u64 = table.iter().map(|t| if seal { t.3 } else if c06 { t.2 } else { t.1 }).sum();
        let mut r = self.rng.below(total);
        let mut op = "lookup";
        for t in table {
            let w = if seal { t.3 } else if c06 { t.2 } else { t.1 };
            if r < w {
                op = t.0;
                break;
            }
            r -= w;
        }
        let hostile_p = if c06 { 30 } else { 8 };
        let (uid, gid) = self.ids();
        // nothing to do I/O on yet: look a file up first
        if matches!(op, "open" | "read" | "write" | "fallocate" | "setattr" | "fsync") && !self.nodes.iter().any(|n| n.valid && n.kind == "reg") {
            return json!({"op": "lookup", "p": 0, "name": *self.rng.pick(FILES), "nk": "plain"});
        }
        match op {
            "lookup" => {
                let p = if c06 && self.rng.chance(1, 4) { self.pick_node(&[]) } else { self.pick_node(&["dir"]) };
                let (name, nk) = if seal {
                    (json!(*self.rng.pick(FILES)), "plain")
                } else if c06 && self.rng.chance(1, 6) {
                    (json!(".."), "dotdot") // walks upwards, from the root and from directories below it
                } else {
                    self.name(75, hostile_p)
                };
                json!({"op": "lookup", "p": p, "name": name, "nk": nk})
            }
            // FORGET / BATCH_FORGET naming the root, with counts far above any reference count it may have
            "forget_root" => json!({"op": "forget_root", "count": *self.rng.pick(&[1u64, 2, 3, 1000, 1 << 40])}),
            "batch_forget" => {
                let mut items = vec![json!([0, *self.rng.pick(&[1u64, 2, 3, 1000, 1 << 40])])];
                if self.rng.chance(1, 2) {
                    let n = self.pick_node(&[]);
                    if n > 0 && !self.handles.iter().any(|h| h.valid && h.node == n as usize) {
                        items.push(json!([n, 1]));
                    }
                }
                json!({"op": "batch_forget", "items": items})
            }
            // DESTROY followed by INIT on the same object
            "remount" => json!({"op": "remount"}),
            "forget" => {
                let mut n = self.pick_node(&[]);
                if n > 0 && self.handles.iter().any(|h| h.valid && h.node == n as usize) {
                    n = -1; // a client never forgets an inode it still has open
                }
                json!({"op": "forget", "n": if n == 0 { -1 } else { n }})
            }
            "getattr" => {
                let n = self.pick_node(&[]);
                json!({"op": "getattr", "n": n, "h": -1})
            }
            "mkdir" => {
                let (name, nk) = self.name(25, hostile_p);
                json!({"op": "mkdir", "p": self.pick_node(&["dir"]), "name": name, "nk": nk, "mode": *self.rng.pick(MODES), "umask": *self.rng.pick(&[0u32, 0o022, 0o077]), "uid": uid, "gid": gid})
            }
            "mknod" => {
                let (name, nk) = self.name(25, hostile_p);
                let (t, bits, rdev) = *self.rng.pick(&[("reg", libc::S_IFREG, 0u32), ("fifo", libc::S_IFIFO, 0), ("chr", libc::S_IFCHR, 259), ("sock", libc::S_IFSOCK, 0)]);
                // device nodes need CAP_MKNOD: only the root caller creates them
                let (uid, gid) = if t == "chr" { (0, 0) } else { (uid, gid) };
                json!({"op": "mknod", "p": self.pick_node(&["dir"]), "name": name, "nk": nk, "type": t, "mode": bits | *self.rng.pick(MODES), "rdev": rdev, "umask": *self.rng.pick(&[0u32, 0o022]), "uid": uid, "gid": gid})
            }
            "symlink" => {
                let (name, nk) = self.name(20, hostile_p);
                let t = *self.rng.pick(&["f1", "d1", "../secret", "@/secret", "../outside", "/", "nowhere", "../outside/o1", "."]);
                json!({"op": "symlink", "p": self.pick_node(&["dir"]), "name": name, "nk": nk, "target": t, "uid": uid, "gid": gid})
            }
            "create" => {
                let (name, nk) = if seal {
                    if self.rng.chance(3, 4) { (json!(*self.rng.pick(FILES)), "plain") } else { (json!(*self.rng.pick(NEW)), "plain") }
                } else {
                    self.name(45, hostile_p)
                };
                let mut fl = self.oflags(seal);
                if self.rng.chance(1, 6) {
                    fl |= libc::O_EXCL;
                }
                json!({"op": "create", "p": self.pick_node(&["dir"]), "name": name, "nk": nk, "flags": fl, "mode": libc::S_IFREG | *self.rng.pick(MODES), "umask": *self.rng.pick(&[0u32, 0o022]), "uid": uid, "gid": gid})
            }
            "link" => {
                let (name, nk) = self.name(20, hostile_p);
                json!({"op": "link", "n": self.pick_node(&[]), "p": self.pick_node(&["dir"]), "name": name, "nk": nk})
            }
            "unlink" | "rmdir" => {
                let (mut name, nk) = self.name(80, hostile_p);
                if op == "rmdir" && nk == "plain" && self.rng.chance(2, 3) {
                    name = json!(*self.rng.pick(&["d2", "d3", "d1", "x", "y", "z"]));
                }
                json!({"op": op, "p": self.pick_node(&["dir"]), "name": name, "nk": nk})
            }
            "rename" => {
                let (name, nk) = self.name(85, hostile_p / 2);
                let (name2, nk2) = self.name(40, hostile_p);
                // beside the three legal words: both-at-once and words with bits the host does not know (EINVAL on the host)
                let fl = *self.rng.pick(&[0u32, 0, 0, 1, 2, 3, 8, 9, 0x4000_0000]);
                json!({"op": "rename", "p": self.pick_node(&["dir"]), "name": name, "nk": nk, "p2": self.pick_node(&["dir"]), "name2": name2, "nk2": nk2, "flags": fl})
            }
            "open" => {
                let n = if c06 { self.pick_node(&[]) } else if self.rng.chance(9, 10) { self.pick_node(&["reg"]) } else { self.pick_node(&[]) };
                let mut fl = self.oflags(seal);
                if n >= 0 && self.nodes[n as usize].kind != "reg" {
                    fl |= libc::O_NONBLOCK;
                }
                let kill = self.killpriv && n >= 0 && self.nodes[n as usize].kind != "reg";
                json!({"op": "open", "n": n, "flags": fl, "kill": kill})
            }
            "opendir" => json!({"op": "opendir", "n": self.pick_node(&["dir"]), "flags": libc::O_RDONLY}),
            "release" => {
                let dir = self.rng.chance(1, 5);
                let h = self.pick_handle(dir);
                let n = if h >= 0 { self.handles[h as usize].node as i64 } else { -1 };
                json!({"op": if dir { "releasedir" } else { "release" }, "h": h, "n": n})
            }
            "read" | "write" | "fallocate" | "fsync" => {
                // with handles: through a handle; without (no_open): straight on the node
                let (n, h, hfl) = if self.no_open {
                    let n = if c06 { self.pick_node(&[]) } else { self.pick_node(&["reg"]) };
                    (n, -1i64, libc::O_RDWR)
                } else {
                    let h = self.pick_handle(false);
                    if h < 0 {
                        return json!({"op": "open", "n": self.pick_node(&["reg"]), "flags": self.oflags(seal)});
                    }
                    (self.handles[h as usize].node as i64, h, self.handles[h as usize].flags)
                };
                // under writeback the flags word stays exactly the one of the OPEN / CREATE (see Passthrough!Fl)
                let mut fl = if self.wb && !seal { hfl } else { hfl & !(libc::O_TRUNC | libc::O_CREAT | libc::O_EXCL) };
                if (!self.wb || seal) && self.rng.chance(1, if seal { 3 } else { 6 }) {
                    fl ^= libc::O_APPEND; // the client switched the description with F_SETFL
                }
                let off = *self.rng.pick(&[0u64, 0, 1, 2, 4, 7, 8, 9, 12, 13, 20]);
                if op == "write" && seal && self.rng.chance(1, 4) {
                    // a flags word may carry any open-time flag of the client's description
                    fl |= *self.rng.pick(&[libc::O_TRUNC, libc::O_CREAT | libc::O_EXCL, libc::O_SYNC, libc::O_TRUNC | libc::O_CREAT, libc::O_NOCTTY]);
                }
                match op {
                    "read" => json!({"op": "read", "n": n, "h": h, "off": off, "len": *self.rng.pick(&[0u64, 1, 4, 8, 16, 64]), "flags": fl}),
                    "write" => {
                        let mut len = *self.rng.pick(&[1u64, 1, 2, 3, 4, 5, 8]); // a client never sends an empty WRITE
                        let mut off = off;
                        if self.gentle && n >= 0 {
                            let sz = self.nodes[n as usize].size;
                            if off + len > sz {
                                off = off.min(sz);
                                len = len.min(sz - off);
                            }
                            if len == 0 {
                                return json!({"op": "getattr", "n": n, "h": -1});
                            }
                        }
                        // a third of the WRITEs are write-back flushes of the client's page cache (FUSE_WRITE_CACHE)
                        let cache = self.rng.chance(1, 3);
                        json!({"op": "write", "n": n, "h": h, "off": off, "data": self.data(len), "flags": fl, "cache": cache})
                    }
                    "fallocate" => {
                        let m = *self.rng.pick(&[0i32, 0, libc::FALLOC_FL_KEEP_SIZE, libc::FALLOC_FL_PUNCH_HOLE | libc::FALLOC_FL_KEEP_SIZE, libc::FALLOC_FL_PUNCH_HOLE,
                                                 libc::FALLOC_FL_ZERO_RANGE, libc::FALLOC_FL_ZERO_RANGE | libc::FALLOC_FL_KEEP_SIZE, libc::FALLOC_FL_COLLAPSE_RANGE,
                                                 libc::FALLOC_FL_INSERT_RANGE, libc::FALLOC_FL_PUNCH_HOLE | libc::FALLOC_FL_ZERO_RANGE, 0x80]);
                        if n >= 0 && self.nodes[n as usize].size >= 4096 && self.rng.chance(2, 3) {
                            // block-aligned ranges: where collapse / insert range are possible at all
                            return json!({"op": "fallocate", "n": n, "h": h, "mode": m, "off": *self.rng.pick(&[0u64, 4096, 4096, 8192]), "len": 4096});
                        }
                        json!({"op": "fallocate", "n": n, "h": h, "mode": m, "off": off, "len": *self.rng.pick(&[0u64, 1, 2, 3, 4, 8, 12])})
                    }
                    _ => json!({"op": "fsync", "n": n, "h": h, "datasync": self.rng.below(2)}),
                }
            }
            "lseek" => {
                let h = self.pick_handle(false);
                let n = if h >= 0 { self.handles[h as usize].node as i64 } else { -1 };
                json!({"op": "lseek", "n": n, "h": h, "off": *self.rng.pick(&[0u64, 1, 3, 8, 20]), "whence": *self.rng.pick(&[0u32, 1, 2])})
            }
            "setattr" => {
                let n = if seal { self.pick_node(&["reg"]) } else { self.pick_node(&[]) };
                let mut h = -1i64;
                if !self.no_open && self.rng.chance(1, 3) {
                    let c = self.pick_handle(false);
                    if c >= 0 && self.handles[c as usize].node as i64 == n {
                        h = c;
                    }
                }
                let which = if !seal && self.rng.chance(1, 4) { 3 } else { self.rng.below(if seal { 4 } else { 7 }) };
                let (valid, attr) = match which {
                    0 | 1 => (json!(["SIZE"]), json!({"size": *self.rng.pick(&[0u64, 1, 3, 8, 12, 15, 20])})),
                    2 => (json!(["MODE"]), json!({"mode": *self.rng.pick(MODES)})),
                    3 => {
                        // explicit times: distinct seconds and distinct non-zero nanoseconds for the two; every combination of
                        // explicit / now / untouched
                        let v = *self.rng.pick(&[&["ATIME", "MTIME"][..], &["MTIME"][..], &["ATIME"][..], &["ATIME", "MTIME", "MTIME_NOW"][..], &["ATIME", "ATIME_NOW", "MTIME"][..]]);
                        (json!(v), json!({"atime": 1000000 + self.rng.below(1000), "atime_ns": 111000000 + self.rng.below(1000), "mtime": 2000000 + self.rng.below(1000), "mtime_ns": 222000000 + self.rng.below(1000)}))
                    }
                    4 => (json!(["UID", "GID"]), json!({"uid": *self.rng.pick(&[0u32, 1000, 1001]), "gid": *self.rng.pick(&[0u32, 1000, 1001])})),
                    5 => (json!(["UID"]), json!({"uid": *self.rng.pick(&[0u32, 1000, 1001])})),
                    _ => (json!(["MODE", "SIZE"]), json!({"mode": *self.rng.pick(MODES), "size": *self.rng.pick(&[0u64, 5, 9])})),
                };
                // several fields at once only on regular files (on others the partial effect of a failing request is not modelled)
                let n = if which >= 6 { self.pick_node(&["reg"]) } else { n };
                let h = if which >= 6 { -1 } else { h };
                let kill = self.killpriv && which <= 1 && n >= 0 && self.nodes[n as usize].kind != "reg";
                json!({"op": "setattr", "n": n, "h": h, "valid": valid, "attr": attr, "kill": kill})
            }
            "readlink" => json!({"op": "readlink", "n": if self.rng.chance(3, 4) { self.pick_node(&["lnk"]) } else { self.pick_node(&[]) }}),
            "statfs" => json!({"op": "statfs", "n": self.pick_node(&[])}),
            "setxattr" => {
                let xn = if self.rng.chance(1, 2) { 0 } else { self.pick_node(&[]) };
                let l = self.rng.below(4);
                json!({"op": "setxattr", "n": xn, "xname": *self.rng.pick(&["user.a", "user.a", "user.a", "user.b"]), "xval": self.data(l), "xflags": *self.rng.pick(&[0u32, 0, 1, 2])})
            }
            "getxattr" => { let xn = if self.rng.chance(1, 2) { 0 } else { self.pick_node(&[]) }; json!({"op": "getxattr", "n": xn, "xname": *self.rng.pick(&["user.a", "user.a", "user.a", "user.b"]), "size": *self.rng.pick(&[0u32, 1, 64])}) },
            "listxattr" => { let xn = if self.rng.chance(1, 2) { 0 } else { self.pick_node(&[]) }; json!({"op": "listxattr", "n": xn, "size": *self.rng.pick(&[0u32, 64])}) },
            "removexattr" => { let xn = if self.rng.chance(1, 2) { 0 } else { self.pick_node(&[]) }; json!({"op": "removexattr", "n": xn, "xname": *self.rng.pick(&["user.a", "user.a", "user.a", "user.b"])}) },
            _ => json!({"op": "getattr", "n": 0, "h": -1}),
        }
    }
}
