INIT Init
NEXT Next
