SPECIFICATION Spec
CHECK_DEADLOCK FALSE
POSTCONDITION Post
