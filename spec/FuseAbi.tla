------------------------------- MODULE FuseAbi -------------------------------
(* The FUSE userspace ABI (A-level for C13; data source of the wire codec of C01-C03/C12/C20).
   FuseAbiTable holds the raw table (layouts, sizes, constants); this module adds the
   consistency conditions the table itself must satisfy, the set of structures and constants the
   library is required to define, the opcode map and the stat <-> attr correspondences. *)
EXTENDS Naturals, Sequences, FiniteSets, FuseAbiTable

Structs == DOMAIN Layout
Fields(s) == {Layout[s][i].f : i \in 1..Len(Layout[s])}
FieldRec(s, f) == CHOOSE r \in {Layout[s][i] : i \in 1..Len(Layout[s])} : r.f = f

\* internal consistency of the table: fields in offset order, contiguous (the FUSE ABI has no
\* implicit padding), inside the structure, names unique
Contig(s) == /\ Layout[s][1].off = 0
             /\ \A i \in 1..(Len(Layout[s]) - 1) : Layout[s][i].off + Layout[s][i].w = Layout[s][i+1].off
             /\ LET last == Layout[s][Len(Layout[s])] IN last.off + last.w <= StructSize[s]
             /\ Cardinality(Fields(s)) = Len(Layout[s])
ASSUME \A s \in Structs : Contig(s)
\* every message structure is a multiple of 8 bytes except the documented ones
Odd8 == {"fuse_removemapping_in", "fuse_dirent", "cuse_init_in", "cuse_init_out", "fuse_init_in_head", "fuse_init_in_tail",
         "fuse_secctx_header", "fuse_secctx"}
ASSUME \A s \in Structs \ Odd8 : StructSize[s] % 8 = 0
\* compat sizes are field boundaries of the structure they truncate
Boundary(s, n) == n = StructSize[s] \/ \E i \in 1..Len(Layout[s]) : Layout[s][i].off = n
\* (the pre-7.9 entry/attr replies end inside the nested fuse_attr, before blksize)
ASSUME /\ KConstN.FUSE_COMPAT_ENTRY_OUT_SIZE = FieldRec("fuse_entry_out", "attr").off + FieldRec("fuse_attr", "blksize").off
       /\ KConstN.FUSE_COMPAT_ATTR_OUT_SIZE = FieldRec("fuse_attr_out", "attr").off + FieldRec("fuse_attr", "blksize").off
       /\ Boundary("fuse_mknod_in", KConstN.FUSE_COMPAT_MKNOD_IN_SIZE)
       /\ Boundary("fuse_write_in", KConstN.FUSE_COMPAT_WRITE_IN_SIZE)
       /\ Boundary("fuse_kstatfs", KConstN.FUSE_COMPAT_STATFS_SIZE)
       /\ Boundary("fuse_init_out", KConstN.FUSE_COMPAT_INIT_OUT_SIZE)
       /\ Boundary("fuse_init_out", KConstN.FUSE_COMPAT_22_INIT_OUT_SIZE)

(* The library implements protocol minor 33 while the installed header is 7.38. Its view of a
   structure differs from the header's in exactly the places listed here, and nowhere else:
   - fuse_in_header: 7.36 split the trailing 32-bit padding into total_extlen:16 + padding:16; the
     library (which negotiates no request extensions) keeps one 32-bit padding;
   - fuse_setxattr_in: the 16-byte form is only sent after FUSE_SETXATTR_EXT was negotiated, which the
     library never does; it defines the 8-byte compat form (FUSE_COMPAT_SETXATTR_IN_SIZE);
   - field labels that differ from the header's (same offset and width) are listed in Alias. *)
LibLayout == [s \in Structs |->
   CASE s = "fuse_in_header" -> SubSeq(Layout[s], 1, Len(Layout[s]) - 2) \o <<F("padding", 36, 4)>>
     [] s = "fuse_setxattr_in" -> SubSeq(Layout[s], 1, 2)
     [] OTHER -> Layout[s]]
LibSize == [s \in Structs |-> IF s = "fuse_setxattr_in" THEN KConstN.FUSE_COMPAT_SETXATTR_IN_SIZE ELSE StructSize[s]]
ASSUME /\ Layout["fuse_in_header"][Len(Layout["fuse_in_header"]) - 1] = F("total_extlen", 36, 2)
       /\ Layout["fuse_in_header"][Len(Layout["fuse_in_header"])] = F("padding", 38, 2)
       /\ Layout["fuse_setxattr_in"][3].off = LibSize["fuse_setxattr_in"]
NoAlias == [x \in {} |-> ""]
Alias == [s \in Structs |->
   CASE s = "fuse_getattr_in" -> [flags |-> "getattr_flags"]
     [] s = "fuse_open_in" -> [fuse_flags |-> "open_flags"]
     [] s = "fuse_create_in" -> [fuse_flags |-> "open_flags"]
     [] s = "fuse_write_in" -> [fuse_flags |-> "write_flags"]
     [] s = "fuse_open_out" -> [passthrough |-> "padding"]              \* backing id of the fd-passthrough extension
     [] s = "fuse_notify_inval_entry_out" -> [padding |-> "flags"]      \* 7.38 turned the padding into flags
     [] s = "fuse_copy_file_range_in" -> [offset_in |-> "off_in", offset_out |-> "off_out"]
     [] OTHER -> NoAlias]
LibName(s, f) == IF f \in DOMAIN Alias[s] THEN Alias[s][f] ELSE f
LibFields(s) == {LibLayout[s][i].f : i \in 1..Len(LibLayout[s])}
LibFieldRec(s, f) == CHOOSE r \in {LibLayout[s][i] : i \in 1..Len(LibLayout[s])} : r.f = f
\* an alias never shadows a real field of the same structure
ASSUME \A s \in Structs : \A f \in DOMAIN Alias[s] : f \notin LibFields(s) \/ f = "padding" \/ f = "flags"

\* structures the library reads or writes (it must define each of them with every field)
RequiredStructs == {
  "fuse_attr", "fuse_kstatfs", "fuse_file_lock", "fuse_entry_out", "fuse_forget_in",
  "fuse_forget_one", "fuse_batch_forget_in", "fuse_getattr_in", "fuse_attr_out", "fuse_mknod_in",
  "fuse_mkdir_in", "fuse_rename_in", "fuse_rename2_in", "fuse_link_in", "fuse_setattr_in",
  "fuse_open_in", "fuse_create_in", "fuse_open_out", "fuse_release_in", "fuse_flush_in",
  "fuse_read_in", "fuse_write_in", "fuse_write_out", "fuse_statfs_out", "fuse_fsync_in",
  "fuse_setxattr_in", "fuse_getxattr_in", "fuse_getxattr_out", "fuse_lk_in", "fuse_lk_out",
  "fuse_access_in", "fuse_init_in_head", "fuse_init_in_tail", "fuse_init_out", "fuse_interrupt_in",
  "fuse_bmap_in", "fuse_bmap_out", "fuse_ioctl_in", "fuse_ioctl_iovec", "fuse_ioctl_out",
  "fuse_poll_in", "fuse_poll_out", "fuse_notify_poll_wakeup_out", "fuse_fallocate_in",
  "fuse_in_header", "fuse_out_header", "fuse_dirent", "fuse_direntplus",
  "fuse_notify_inval_inode_out", "fuse_notify_inval_entry_out", "fuse_notify_delete_out",
  "fuse_notify_store_out", "fuse_notify_retrieve_out", "fuse_notify_retrieve_in", "fuse_lseek_in",
  "fuse_lseek_out", "fuse_copy_file_range_in", "fuse_setupmapping_in", "fuse_removemapping_in",
  "fuse_removemapping_one" }
ASSUME RequiredStructs \subseteq Structs

\* request opcodes the library implements: Opcode::from must be the identity exactly on these
SupportedOpNames == {
  "FUSE_LOOKUP", "FUSE_FORGET", "FUSE_GETATTR", "FUSE_SETATTR", "FUSE_READLINK", "FUSE_SYMLINK",
  "FUSE_MKNOD", "FUSE_MKDIR", "FUSE_UNLINK", "FUSE_RMDIR", "FUSE_RENAME", "FUSE_LINK", "FUSE_OPEN",
  "FUSE_READ", "FUSE_WRITE", "FUSE_STATFS", "FUSE_RELEASE", "FUSE_FSYNC", "FUSE_SETXATTR",
  "FUSE_GETXATTR", "FUSE_LISTXATTR", "FUSE_REMOVEXATTR", "FUSE_FLUSH", "FUSE_INIT", "FUSE_OPENDIR",
  "FUSE_READDIR", "FUSE_RELEASEDIR", "FUSE_FSYNCDIR", "FUSE_GETLK", "FUSE_SETLK", "FUSE_SETLKW",
  "FUSE_ACCESS", "FUSE_CREATE", "FUSE_INTERRUPT", "FUSE_BMAP", "FUSE_DESTROY", "FUSE_IOCTL",
  "FUSE_POLL", "FUSE_NOTIFY_REPLY", "FUSE_BATCH_FORGET", "FUSE_FALLOCATE", "FUSE_READDIRPLUS",
  "FUSE_RENAME2", "FUSE_LSEEK", "FUSE_COPY_FILE_RANGE", "FUSE_SETUPMAPPING", "FUSE_REMOVEMAPPING" }
SupportedOps == {KConstN[n] : n \in SupportedOpNames}
ASSUME Cardinality(SupportedOps) = Cardinality(SupportedOpNames)   \* opcode numbers pairwise distinct
NotifyNames == {"FUSE_NOTIFY_POLL", "FUSE_NOTIFY_INVAL_INODE", "FUSE_NOTIFY_INVAL_ENTRY", "FUSE_NOTIFY_STORE",
                "FUSE_NOTIFY_RETRIEVE", "FUSE_NOTIFY_DELETE", "FUSE_NOTIFY_RESEND"}
ASSUME Cardinality({KConstN[n] : n \in NotifyNames}) = Cardinality(NotifyNames)

\* constants the library must carry with the kernel's value
RequiredConsts == SupportedOpNames \cup NotifyNames \cup {
  "FUSE_KERNEL_VERSION", "FUSE_ROOT_ID", "FATTR_MODE", "FATTR_UID", "FATTR_GID", "FATTR_SIZE",
  "FATTR_ATIME", "FATTR_MTIME", "FATTR_ATIME_NOW", "FATTR_MTIME_NOW", "FATTR_CTIME",
  "FATTR_KILL_SUIDGID", "FATTR_FH", "FATTR_LOCKOWNER", "FUSE_OPEN_KILL_SUIDGID", "FOPEN_DIRECT_IO",
  "FOPEN_KEEP_CACHE", "FOPEN_NONSEEKABLE", "FOPEN_CACHE_DIR", "FOPEN_STREAM", "FUSE_ASYNC_READ",
  "FUSE_POSIX_LOCKS", "FUSE_FILE_OPS", "FUSE_ATOMIC_O_TRUNC", "FUSE_EXPORT_SUPPORT",
  "FUSE_BIG_WRITES", "FUSE_DONT_MASK", "FUSE_SPLICE_WRITE", "FUSE_SPLICE_MOVE", "FUSE_SPLICE_READ",
  "FUSE_FLOCK_LOCKS", "FUSE_HAS_IOCTL_DIR", "FUSE_AUTO_INVAL_DATA", "FUSE_DO_READDIRPLUS",
  "FUSE_READDIRPLUS_AUTO", "FUSE_ASYNC_DIO", "FUSE_WRITEBACK_CACHE", "FUSE_PARALLEL_DIROPS",
  "FUSE_HANDLE_KILLPRIV", "FUSE_POSIX_ACL", "FUSE_ABORT_ERROR", "FUSE_MAX_PAGES",
  "FUSE_CACHE_SYMLINKS", "FUSE_EXPLICIT_INVAL_DATA", "FUSE_MAP_ALIGNMENT", "FUSE_SUBMOUNTS",
  "FUSE_HANDLE_KILLPRIV_V2", "FUSE_INIT_EXT", "FUSE_HAS_RESEND", "FUSE_NO_OPEN_SUPPORT",
  "FUSE_NO_OPENDIR_SUPPORT", "FUSE_HAS_INODE_DAX", "ANOLIS_FUSE_FD_PASSTHROUGH",
  "FUSE_RELEASE_FLUSH", "FUSE_RELEASE_FLOCK_UNLOCK", "FUSE_GETATTR_FH", "FUSE_LK_FLOCK",
  "FUSE_WRITE_CACHE", "FUSE_WRITE_LOCKOWNER", "FUSE_WRITE_KILL_SUIDGID", "FUSE_READ_LOCKOWNER",
  "FUSE_IOCTL_COMPAT", "FUSE_IOCTL_UNRESTRICTED", "FUSE_IOCTL_RETRY", "FUSE_IOCTL_32BIT",
  "FUSE_IOCTL_DIR", "FUSE_IOCTL_COMPAT_X32", "FUSE_IOCTL_MAX_IOV", "FUSE_ATTR_SUBMOUNT",
  "FUSE_ATTR_DAX", "FUSE_POLL_SCHEDULE_NOTIFY", "FUSE_FSYNC_FDATASYNC", "FUSE_MIN_READ_BUFFER",
  "FUSE_COMPAT_ENTRY_OUT_SIZE", "FUSE_COMPAT_ATTR_OUT_SIZE", "FUSE_COMPAT_MKNOD_IN_SIZE",
  "FUSE_COMPAT_WRITE_IN_SIZE", "FUSE_COMPAT_STATFS_SIZE", "FUSE_COMPAT_INIT_OUT_SIZE",
  "FUSE_COMPAT_22_INIT_OUT_SIZE", "FUSE_SETUPMAPPING_FLAG_WRITE", "FUSE_SETUPMAPPING_FLAG_READ",
  "CUSE_INIT_BSWAP_RESERVED", "FUSE_INIT_BSWAP_RESERVED" }
ASSUME RequiredConsts \subseteq DOMAIN KConst

\* INIT capability bits are pairwise distinct powers of two (checked on the numeric copies that fit)
InitFlagNames == {n \in DOMAIN KConstN : n \in RequiredConsts /\ \E k \in {"ASYNC_READ","POSIX_LOCKS","FILE_OPS","ATOMIC_O_TRUNC",
   "EXPORT_SUPPORT","BIG_WRITES","DONT_MASK","SPLICE_WRITE","SPLICE_MOVE","SPLICE_READ","FLOCK_LOCKS","HAS_IOCTL_DIR",
   "AUTO_INVAL_DATA","DO_READDIRPLUS","READDIRPLUS_AUTO","ASYNC_DIO","WRITEBACK_CACHE","NO_OPEN_SUPPORT","PARALLEL_DIROPS",
   "HANDLE_KILLPRIV","POSIX_ACL","ABORT_ERROR","MAX_PAGES","CACHE_SYMLINKS","NO_OPENDIR_SUPPORT","EXPLICIT_INVAL_DATA",
   "MAP_ALIGNMENT","SUBMOUNTS","HANDLE_KILLPRIV_V2","INIT_EXT"} : n = "FUSE_" \o k}
ASSUME Cardinality({KConstN[n] : n \in InitFlagNames}) = Cardinality(InitFlagNames)

\* stat <-> attr correspondences: output field |-> the one input it must carry (truncated to the
\* output width); "zero" = the wire format has nothing to put there
ConvTable == [
  AttrWithFlags |-> [ino |-> "st_ino", size |-> "st_size", blocks |-> "st_blocks", atime |-> "st_atime", mtime |-> "st_mtime",
     ctime |-> "st_ctime", atimensec |-> "st_atime_nsec", mtimensec |-> "st_mtime_nsec", ctimensec |-> "st_ctime_nsec",
     mode |-> "st_mode", nlink |-> "st_nlink", uid |-> "st_uid", gid |-> "st_gid", rdev |-> "st_rdev", blksize |-> "st_blksize",
     flags |-> "flags_arg"],
  AttrFromStat |-> [ino |-> "st_ino", size |-> "st_size", blocks |-> "st_blocks", atime |-> "st_atime", mtime |-> "st_mtime",
     ctime |-> "st_ctime", atimensec |-> "st_atime_nsec", mtimensec |-> "st_mtime_nsec", ctimensec |-> "st_ctime_nsec",
     mode |-> "st_mode", nlink |-> "st_nlink", uid |-> "st_uid", gid |-> "st_gid", rdev |-> "st_rdev", blksize |-> "st_blksize",
     flags |-> "zero"],
  StatFromAttr |-> [st_ino |-> "ino", st_size |-> "size", st_blocks |-> "blocks", st_atime |-> "atime", st_mtime |-> "mtime",
     st_ctime |-> "ctime", st_atime_nsec |-> "atimensec", st_mtime_nsec |-> "mtimensec", st_ctime_nsec |-> "ctimensec",
     st_mode |-> "mode", st_nlink |-> "nlink", st_uid |-> "uid", st_gid |-> "gid", st_rdev |-> "rdev", st_blksize |-> "blksize",
     st_dev |-> "zero"],
  StatFromSetattr |-> [st_ino |-> "zero", st_size |-> "size", st_blocks |-> "zero", st_atime |-> "atime", st_mtime |-> "mtime",
     st_ctime |-> "ctime", st_atime_nsec |-> "atimensec", st_mtime_nsec |-> "mtimensec", st_ctime_nsec |-> "ctimensec",
     st_mode |-> "mode", st_nlink |-> "zero", st_uid |-> "uid", st_gid |-> "gid", st_rdev |-> "zero", st_blksize |-> "zero",
     st_dev |-> "zero"],
  EntryOutFromEntry |-> [nodeid |-> "inode", generation |-> "generation", entry_valid |-> "entry_timeout.secs", attr_valid |-> "attr_timeout.secs",
     entry_valid_nsec |-> "entry_timeout.nanos", attr_valid_nsec |-> "attr_timeout.nanos", attr_flags |-> "attr_flags",
     attr_ino |-> "attr.st_ino", attr_size |-> "attr.st_size"],
  KstatfsFromStatvfs |-> [blocks |-> "f_blocks", bfree |-> "f_bfree", bavail |-> "f_bavail", files |-> "f_files", ffree |-> "f_ffree",
     bsize |-> "f_bsize", namelen |-> "f_namemax", frsize |-> "f_frsize", padding |-> "zero"] ]
ConvName == [x \in {"Attr::with_flags(stat64,flags)", "Attr::from(stat64)", "stat64::from(Attr)", "stat64::from(SetattrIn)",
                    "EntryOut::from(Entry)", "Kstatfs::from(statvfs64)"} |->
   CASE x = "Attr::with_flags(stat64,flags)" -> "AttrWithFlags" [] x = "Attr::from(stat64)" -> "AttrFromStat"
     [] x = "stat64::from(Attr)" -> "StatFromAttr" [] x = "stat64::from(SetattrIn)" -> "StatFromSetattr"
     [] x = "EntryOut::from(Entry)" -> "EntryOutFromEntry"
     [] OTHER -> "KstatfsFromStatvfs"]
\* attr fields the wire carries must all be covered by the Attr conversions
ASSUME DOMAIN ConvTable.AttrWithFlags = Fields("fuse_attr")
ASSUME DOMAIN ConvTable.KstatfsFromStatvfs \cup {"spare"} = Fields("fuse_kstatfs")
=============================================================================
