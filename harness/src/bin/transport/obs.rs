//! Observation helpers: ramp run-length coding of byte strings, memory arenas with shadow copies
//! (byte diff + canary check), memfd-backed files with shadow copies.
//!
//! Every source location x (guest address, file offset + salt, data index + phase) holds the byte
//! x % 251, so that a byte string is described by "ramps" <<v, len>> = v, v+1, ... (mod 251) without
//! knowing where it came from. Poison bytes (>= 251) never occur in sources: 0xFD = canary/gap,
//! 0xFE = untouched writable space, 0xFC = untouched sink file space.
use serde_json::{json, Value};
use std::fs::File;
use std::os::unix::io::FromRawFd;

pub const M: u8 = 251;
pub const CANARY: u8 = 0xFD;
pub const WPOISON: u8 = 0xFE;
pub const FPOISON: u8 = 0xFC;

#[inline]
pub fn nextv(v: u8) -> u8 {
    if v < M {
        ((v as u16 + 1) % M as u16) as u8
    } else {
        v
    }
}

/// canonical ramp compression of a byte string: [[v, len], ...]
pub fn ramps(b: &[u8]) -> Value {
    let mut out: Vec<Value> = Vec::new();
    let mut i = 0;
    while i < b.len() {
        let v0 = b[i];
        let mut j = i + 1;
        let mut v = v0;
        while j < b.len() && b[j] == nextv(v) {
            v = b[j];
            j += 1;
        }
        out.push(json!([v0, j - i]));
        i = j;
    }
    Value::Array(out)
}

pub fn ramp_bytes(v0: u8, n: usize) -> Vec<u8> {
    (0..n).map(|i| ((v0 as usize + i) % M as usize) as u8).collect()
}

/// One contiguous piece of observed memory.
pub struct Area {
    pub base: u64,
    pub ptr: *mut u8,
    pub len: usize,
    pub shadow: Vec<u8>,
    pub canary: Vec<bool>,
}

#[derive(Default)]
pub struct Arena {
    pub areas: Vec<Area>,
    pub canary_ok: bool,
}

impl Arena {
    pub fn new() -> Self {
        Arena { areas: Vec::new(), canary_ok: true }
    }
    pub fn add(&mut self, base: u64, ptr: *mut u8, len: usize) {
        self.areas.push(Area { base, ptr, len, shadow: vec![CANARY; len], canary: vec![true; len] });
    }
    /// fill everything with canaries, writable segments with poison, readable segments with the
    /// address ramp; through raw pointers (does not touch any dirty bitmap)
    pub fn fill(&mut self, segs: &[(u64, usize, bool)]) {
        for a in self.areas.iter_mut() {
            for x in a.shadow.iter_mut() {
                *x = CANARY;
            }
            for x in a.canary.iter_mut() {
                *x = true;
            }
            for &(addr, len, w) in segs {
                if addr >= a.base && addr + len as u64 <= a.base + a.len as u64 {
                    let off = (addr - a.base) as usize;
                    for i in 0..len {
                        a.shadow[off + i] = if w { WPOISON } else { ((addr + i as u64) % M as u64) as u8 };
                        a.canary[off + i] = false;
                    }
                }
            }
            unsafe { std::ptr::copy_nonoverlapping(a.shadow.as_ptr(), a.ptr, a.len) };
        }
        self.canary_ok = true;
    }
    /// bytes that changed since the last call: maximal runs contiguous in address and in ramp value
    pub fn diff(&mut self) -> Value {
        let mut out: Vec<[u64; 3]> = Vec::new();
        let mut last_end: u64 = u64::MAX;
        let mut last_val: u8 = 0;
        for a in self.areas.iter_mut() {
            let cur = unsafe { std::slice::from_raw_parts(a.ptr as *const u8, a.len) };
            let mut off = 0;
            while off < a.len {
                let end = (off + 4096).min(a.len);
                if cur[off..end] != a.shadow[off..end] {
                    for i in off..end {
                        let c = unsafe { std::ptr::read_volatile(a.ptr.add(i)) };
                        if c != a.shadow[i] {
                            let addr = a.base + i as u64;
                            if a.canary[i] {
                                self.canary_ok = false;
                            }
                            if addr == last_end && c == nextv(last_val) {
                                out.last_mut().unwrap()[1] += 1;
                            } else {
                                out.push([addr, 1, c as u64]);
                            }
                            last_end = addr + 1;
                            last_val = c;
                            a.shadow[i] = c;
                        }
                    }
                }
                off = end;
            }
        }
        json!(out)
    }
}

/// memfd-backed file with a known content and a shadow copy for diffs
pub struct MFile {
    pub f: File,
    pub shadow: Vec<u8>,
}

impl MFile {
    pub fn new(name: &str, content: Vec<u8>) -> MFile {
        let cname = std::ffi::CString::new(name).unwrap();
        let fd = unsafe { libc::memfd_create(cname.as_ptr(), 0) };
        assert!(fd >= 0, "memfd_create");
        let f = unsafe { File::from_raw_fd(fd) };
        let mut off = 0usize;
        while off < content.len() {
            let r = unsafe { libc::pwrite(fd, content[off..].as_ptr() as *const libc::c_void, content.len() - off, off as i64) };
            assert!(r > 0);
            off += r as usize;
        }
        MFile { f, shadow: content }
    }
    pub fn pos(&self) -> u64 {
        use std::os::unix::io::AsRawFd;
        unsafe { libc::lseek(self.f.as_raw_fd(), 0, libc::SEEK_CUR) as u64 }
    }
    pub fn set_pos(&self, p: u64) {
        use std::os::unix::io::AsRawFd;
        unsafe { libc::lseek(self.f.as_raw_fd(), p as i64, libc::SEEK_SET) };
    }
    /// changed bytes since the last call [[off, len, v]], and the current size
    pub fn diff(&mut self) -> (Value, u64) {
        use std::os::unix::io::AsRawFd;
        let fd = self.f.as_raw_fd();
        let size = unsafe {
            let mut st: libc::stat = std::mem::zeroed();
            libc::fstat(fd, &mut st);
            st.st_size as usize
        };
        let mut cur = vec![0u8; size];
        let mut off = 0usize;
        while off < size {
            let r = unsafe { libc::pread(fd, cur[off..].as_mut_ptr() as *mut libc::c_void, size - off, off as i64) };
            if r <= 0 {
                break;
            }
            off += r as usize;
        }
        let mut out: Vec<[u64; 3]> = Vec::new();
        let mut last_end = u64::MAX;
        let mut last_val = 0u8;
        for i in 0..size {
            let old = self.shadow.get(i).copied();
            if old != Some(cur[i]) {
                let c = cur[i];
                if i as u64 == last_end && c == nextv(last_val) {
                    out.last_mut().unwrap()[1] += 1;
                } else {
                    out.push([i as u64, 1, c as u64]);
                }
                last_end = i as u64 + 1;
                last_val = c;
            }
        }
        self.shadow = cur;
        (json!(out), size as u64)
    }
}
