SPECIFICATION Spec
CONSTANTS
  P = 2
  M = 100000
  MaxSegs = 3
  MaxLen = 2
  Bases <- MC_Bases4
  FLens <- MC_FLens4
  Kinds <- MC_KindsAll
  MaxOps = 3
  MaxN = 3
  FileSize = 2
  Chunks <- MC_Chunks
  MaxAddr = 6
VIEW View
INVARIANTS FlatAgree Counters InOrderOnce Placed FailClean Results NoOOB ObjCount Lemmas DirtyExact
CHECK_DEADLOCK FALSE
