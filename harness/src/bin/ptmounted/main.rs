//! ptmounted (X05): the passthrough file system MOUNTED through /dev/fuse with the Linux kernel as the client.
//! The same history of plain system calls runs on the mountpoint and on two shadow directories on the host (the
//! second shadow calibrates the comparison itself); after every step the export, both shadows and - every few steps -
//! the mountpoint are walked; the request stream the server receives is recorded by a wrapper (rec.rs).
//! Judged by spec/Trace_PtMounted.tla.
//!
//! usage: ptmounted run <workdir> <out.ndjson> <segments> <len>      (VERIF_SEED)
//!        ptmounted cleanup <dir>                                     detach whatever is still mounted below <dir>
//!        ptmounted probe <workdir>                                   exit 0 iff a FUSE mount can be made here
mod rec;
#[path = "../pttree/tree.rs"]
mod tree;

use fuse_backend_rs::api::filesystem::FileSystem;
use fuse_backend_rs::api::{server::Server, Vfs, VfsOptions};
use fuse_backend_rs::passthrough::{CachePolicy, Config, PassthroughFs};
use fuse_backend_rs::transport::{FuseChannel, FuseSession};
use rec::Rec;
use serde_json::{json, Map, Value};
use std::collections::{BTreeMap, HashSet};
use std::ffi::CString;
use std::io::Write;
use std::os::unix::ffi::OsStrExt;
use std::path::{Path, PathBuf};
use std::sync::{Arc, Mutex};
use std::time::Duration;
use tree::*;
use vharness::util::{env_u64, Rng};

// ------------------------------------------------------------------------------------------------ mounts

fn mounts_below(dir: &Path) -> Vec<String> {
    let want = dir.to_string_lossy().to_string();
    let txt = std::fs::read_to_string("/proc/self/mountinfo").unwrap_or_default();
    let mut v = Vec::new();
    for line in txt.lines() {
        let f: Vec<&str> = line.split(' ').collect();
        if f.len() < 5 {
            continue;
        }
        let p = f[4].replace("\\040", " ");
        if p == want || p.starts_with(&(want.clone() + "/")) {
            v.push(p);
        }
    }
    v
}

/// lazily detach every mount at or below `dir` (the connection of a dead server is aborted by the kernel when its
/// descriptors are closed; MNT_DETACH then always succeeds)
fn cleanup_below(dir: &Path) -> usize {
    let mut n = 0;
    for _ in 0..32 {
        let ms = mounts_below(dir);
        if ms.is_empty() {
            break;
        }
        for p in ms.iter().rev() {
            let c = CString::new(p.as_bytes()).unwrap();
            if unsafe { libc::umount2(c.as_ptr(), libc::MNT_DETACH) } == 0 {
                n += 1;
            }
        }
    }
    n
}

// ------------------------------------------------------------------------------------------------ one side

/// per-thread credential switch of the CLIENT (the caller of the system call)
struct Creds(bool, bool);
fn switch(uid: u32, gid: u32) -> Option<Creds> {
    let (mut g, mut us) = (false, false);
    unsafe {
        if gid != 0 {
            if libc::syscall(libc::SYS_setresgid, -1i32, gid, -1i32) != 0 {
                return None;
            }
            g = true;
        }
        if uid != 0 {
            if libc::syscall(libc::SYS_setresuid, -1i32, uid, -1i32) != 0 {
                if g {
                    libc::syscall(libc::SYS_setresgid, -1i32, 0, -1i32);
                }
                return None;
            }
            us = true;
        }
    }
    Some(Creds(us, g))
}
impl Drop for Creds {
    fn drop(&mut self) {
        unsafe {
            if self.0 {
                libc::syscall(libc::SYS_setresuid, -1i32, 0, -1i32);
            }
            if self.1 {
                libc::syscall(libc::SYS_setresgid, -1i32, 0, -1i32);
            }
        }
    }
}

struct Side {
    root: i32,
    top: String, // directory that holds S/ (replaced by "@" in symlink targets)
    fds: Vec<Option<i32>>,
}

fn s(op: &J, k: &str) -> String {
    op[k].as_str().unwrap_or("").to_string()
}
fn u(op: &J, k: &str) -> u64 {
    op[k].as_u64().unwrap_or(0)
}
fn bytes(op: &J, k: &str) -> Vec<u8> {
    op[k].as_array().map(|a| a.iter().map(|x| x.as_u64().unwrap_or(0) as u8).collect()).unwrap_or_default()
}
fn ok() -> Map<String, J> {
    let mut m = Map::new();
    m.insert("st".into(), json!("OK"));
    m
}
fn err() -> Map<String, J> {
    let mut m = Map::new();
    m.insert("st".into(), json!(last_err()));
    m
}
fn st(x: &str) -> Map<String, J> {
    let mut m = Map::new();
    m.insert("st".into(), json!(x));
    m
}
fn stat_json(stt: &libc::stat64) -> J {
    let t = type_of_mode(stt.st_mode);
    let size = if t == "reg" || t == "lnk" { stt.st_size as u64 } else { 0 };
    let rdev = if t == "chr" || t == "blk" { stt.st_rdev as u64 } else { 0 };
    json!({"t": t, "perm": stt.st_mode & 0o7777, "uid": stt.st_uid, "gid": stt.st_gid, "size": size, "nlink": stt.st_nlink, "rdev": rdev})
}

impl Side {
    fn new(dir: &Path, top: &Path) -> Option<Side> {
        let c = cstr(dir.as_os_str().as_bytes());
        let fd = hi(unsafe { libc::open(c.as_ptr(), libc::O_RDONLY | libc::O_DIRECTORY | libc::O_CLOEXEC) });
        if fd < 0 {
            return None;
        }
        Some(Side { root: fd, top: top.to_string_lossy().to_string(), fds: Vec::new() })
    }
    fn p(op: &J, k: &str) -> CString {
        let x = s(op, k);
        cstr(if x.is_empty() { b"." } else { x.as_bytes() })
    }
    fn fd(&self, op: &J) -> Option<i32> {
        let k = op["fd"].as_i64().unwrap_or(-1);
        if k < 0 {
            return None;
        }
        self.fds.get(k as usize).and_then(|v| *v)
    }
    fn close_all(&mut self) {
        for f in self.fds.iter_mut() {
            if let Some(x) = f.take() {
                unsafe { libc::close(x) };
            }
        }
    }

    fn exec(&mut self, op: &J) -> Map<String, J> {
        let o = s(op, "op");
        let _c = match switch(u(op, "uid") as u32, u(op, "gid") as u32) {
            Some(c) => c,
            None => return err(),
        };
        let r = self.root;
        unsafe {
            match o.as_str() {
                "mkdir" => {
                    if libc::mkdirat(r, Self::p(op, "path").as_ptr(), u(op, "mode") as u32) == 0 { ok() } else { err() }
                }
                "mknod" => {
                    if libc::mknodat(r, Self::p(op, "path").as_ptr(), u(op, "mode") as u32, 0) == 0 { ok() } else { err() }
                }
                "symlink" => {
                    let t = cstr(s(op, "target").replace('@', &self.top).as_bytes());
                    if libc::symlinkat(t.as_ptr(), r, Self::p(op, "path").as_ptr()) == 0 { ok() } else { err() }
                }
                "link" => {
                    if libc::linkat(r, Self::p(op, "path").as_ptr(), r, Self::p(op, "path2").as_ptr(), 0) == 0 { ok() } else { err() }
                }
                "rename" => {
                    if libc::syscall(libc::SYS_renameat2, r, Self::p(op, "path").as_ptr(), r, Self::p(op, "path2").as_ptr(), u(op, "flags") as u32) == 0 { ok() } else { err() }
                }
                "unlink" => {
                    if libc::unlinkat(r, Self::p(op, "path").as_ptr(), 0) == 0 { ok() } else { err() }
                }
                "rmdir" => {
                    if libc::unlinkat(r, Self::p(op, "path").as_ptr(), libc::AT_REMOVEDIR) == 0 { ok() } else { err() }
                }
                "open" => {
                    let fd = libc::openat(r, Self::p(op, "path").as_ptr(), u(op, "flags") as i32 | libc::O_NOFOLLOW | libc::O_CLOEXEC, u(op, "mode") as u32);
                    if fd < 0 {
                        self.fds.push(None);
                        err()
                    } else {
                        self.fds.push(Some(hi(fd)));
                        ok()
                    }
                }
                "close" => {
                    let k = op["fd"].as_i64().unwrap_or(-1);
                    match if k >= 0 { self.fds.get_mut(k as usize).and_then(|v| v.take()) } else { None } {
                        Some(fd) => {
                            if libc::close(fd) == 0 { ok() } else { err() }
                        }
                        None => st("NOSLOT"),
                    }
                }
                "read" | "pread" => {
                    let Some(fd) = self.fd(op) else { return st("NOSLOT") };
                    let len = u(op, "len") as usize;
                    let mut buf = vec![0u8; len];
                    let n = if o == "read" { libc::read(fd, buf.as_mut_ptr() as *mut libc::c_void, len) } else { libc::pread64(fd, buf.as_mut_ptr() as *mut libc::c_void, len, u(op, "off") as i64) };
                    if n < 0 {
                        err()
                    } else {
                        let mut m = ok();
                        m.insert("data".into(), json!(buf[..n as usize].to_vec()));
                        m
                    }
                }
                "write" | "pwrite" => {
                    let Some(fd) = self.fd(op) else { return st("NOSLOT") };
                    let d = bytes(op, "data");
                    let n = if o == "write" { libc::write(fd, d.as_ptr() as *const libc::c_void, d.len()) } else { libc::pwrite64(fd, d.as_ptr() as *const libc::c_void, d.len(), u(op, "off") as i64) };
                    if n < 0 {
                        err()
                    } else {
                        let mut m = ok();
                        m.insert("n".into(), json!(n));
                        m
                    }
                }
                // one large write (the kernel splits it into several WRITE requests): `len` bytes of a rolling pattern
                "fillwrite" => {
                    let Some(fd) = self.fd(op) else { return st("NOSLOT") };
                    let len = u(op, "len") as usize;
                    let d: Vec<u8> = (0..len).map(|k| 33 + ((k as u64 * 7 + k as u64 / 251) % 90) as u8).collect();
                    let n = libc::pwrite64(fd, d.as_ptr() as *const libc::c_void, d.len(), u(op, "off") as i64);
                    if n < 0 {
                        err()
                    } else {
                        let mut m = ok();
                        m.insert("n".into(), json!(n));
                        m
                    }
                }
                // many entries in one directory (READDIR / READDIRPLUS come in several batches)
                "mkmany" | "rmmany" => {
                    let mut done = 0;
                    for k in 0..u(op, "count") {
                        let c = cstr(format!("{}/e{:04}", s(op, "path"), k).as_bytes());
                        let x = if o == "mkmany" {
                            let fd = libc::openat(r, c.as_ptr(), libc::O_CREAT | libc::O_WRONLY | libc::O_EXCL | libc::O_CLOEXEC, 0o644);
                            if fd >= 0 {
                                libc::close(fd);
                            }
                            fd
                        } else {
                            libc::unlinkat(r, c.as_ptr(), 0)
                        };
                        if x < 0 {
                            let mut m = err();
                            m.insert("n".into(), json!(done));
                            return m;
                        }
                        done += 1;
                    }
                    let mut m = ok();
                    m.insert("n".into(), json!(done));
                    m
                }
                "ftruncate" => {
                    let Some(fd) = self.fd(op) else { return st("NOSLOT") };
                    if libc::ftruncate64(fd, u(op, "size") as i64) == 0 { ok() } else { err() }
                }
                "truncate" => {
                    // truncate(2) follows symlinks; only used on names that are not symlinks
                    let fd = libc::openat(r, Self::p(op, "path").as_ptr(), libc::O_WRONLY | libc::O_NOFOLLOW | libc::O_CLOEXEC | libc::O_NONBLOCK);
                    if fd < 0 {
                        return err();
                    }
                    let x = libc::ftruncate64(fd, u(op, "size") as i64);
                    let m = if x == 0 { ok() } else { err() };
                    libc::close(fd);
                    m
                }
                "fallocate" => {
                    let Some(fd) = self.fd(op) else { return st("NOSLOT") };
                    if libc::fallocate64(fd, u(op, "mode") as i32, u(op, "off") as i64, u(op, "len") as i64) == 0 { ok() } else { err() }
                }
                "lseek" => {
                    let Some(fd) = self.fd(op) else { return st("NOSLOT") };
                    let p = libc::lseek64(fd, u(op, "off") as i64, u(op, "whence") as i32);
                    if p < 0 {
                        err()
                    } else {
                        let mut m = ok();
                        m.insert("pos".into(), json!(p));
                        m
                    }
                }
                "fsync" => {
                    let Some(fd) = self.fd(op) else { return st("NOSLOT") };
                    if (if u(op, "datasync") != 0 { libc::fdatasync(fd) } else { libc::fsync(fd) }) == 0 { ok() } else { err() }
                }
                "chmod" => {
                    // never through a symlink (its target lies elsewhere for every tree): by reference, like chmod of a symlink itself
                    let fd = libc::openat(r, Self::p(op, "path").as_ptr(), libc::O_PATH | libc::O_NOFOLLOW | libc::O_CLOEXEC);
                    if fd < 0 {
                        return err();
                    }
                    let pp = CString::new(format!("/proc/self/fd/{}", fd)).unwrap();
                    let m = if libc::chmod(pp.as_ptr(), u(op, "mode") as u32) == 0 { ok() } else { err() };
                    libc::close(fd);
                    m
                }
                "chown" => {
                    let un = |k: &str| if op[k].is_null() { u32::MAX } else { u(op, k) as u32 };
                    if libc::fchownat(r, Self::p(op, "path").as_ptr(), un("owner"), un("group"), libc::AT_SYMLINK_NOFOLLOW) == 0 { ok() } else { err() }
                }
                "utimens" => {
                    let tv = [libc::timespec { tv_sec: u(op, "atime") as i64, tv_nsec: u(op, "atime_ns") as i64 }, libc::timespec { tv_sec: u(op, "mtime") as i64, tv_nsec: u(op, "mtime_ns") as i64 }];
                    if libc::utimensat(r, Self::p(op, "path").as_ptr(), tv.as_ptr(), libc::AT_SYMLINK_NOFOLLOW) != 0 {
                        return err();
                    }
                    let mut stt = std::mem::MaybeUninit::<libc::stat64>::zeroed();
                    let mut m = ok();
                    if libc::fstatat64(r, Self::p(op, "path").as_ptr(), stt.as_mut_ptr(), libc::AT_SYMLINK_NOFOLLOW) == 0 {
                        m.insert("times".into(), times_json(&stt.assume_init()));
                    }
                    m
                }
                "stat" | "fstat" => {
                    let mut stt = std::mem::MaybeUninit::<libc::stat64>::zeroed();
                    let x = if o == "stat" {
                        libc::fstatat64(r, Self::p(op, "path").as_ptr(), stt.as_mut_ptr(), libc::AT_SYMLINK_NOFOLLOW)
                    } else {
                        let Some(fd) = self.fd(op) else { return st("NOSLOT") };
                        libc::fstat64(fd, stt.as_mut_ptr())
                    };
                    if x != 0 {
                        return err();
                    }
                    let stt = stt.assume_init();
                    let mut m = ok();
                    m.insert("attr".into(), stat_json(&stt));
                    m
                }
                "readdir" => {
                    let fd = libc::openat(r, Self::p(op, "path").as_ptr(), libc::O_RDONLY | libc::O_DIRECTORY | libc::O_NOFOLLOW | libc::O_CLOEXEC);
                    if fd < 0 {
                        return err();
                    }
                    let d = libc::fdopendir(fd);
                    if d.is_null() {
                        libc::close(fd);
                        return err();
                    }
                    let mut names: Vec<String> = Vec::new();
                    loop {
                        *libc::__errno_location() = 0;
                        let e = libc::readdir64(d);
                        if e.is_null() {
                            break;
                        }
                        let n = std::ffi::CStr::from_ptr((*e).d_name.as_ptr()).to_string_lossy().to_string();
                        names.push(format!("{}:{}", n, (*e).d_type));
                    }
                    let e = *libc::__errno_location();
                    libc::closedir(d);
                    if e != 0 {
                        return st(&errno_name(e));
                    }
                    names.sort();
                    let mut m = ok();
                    m.insert("names".into(), json!(names));
                    m
                }
                "statfs" => {
                    let fd = libc::openat(r, Self::p(op, "path").as_ptr(), libc::O_PATH | libc::O_NOFOLLOW | libc::O_CLOEXEC);
                    if fd < 0 {
                        return err();
                    }
                    let mut v = std::mem::MaybeUninit::<libc::statvfs64>::zeroed();
                    let x = libc::fstatvfs64(fd, v.as_mut_ptr());
                    let sv = *libc::__errno_location();
                    libc::close(fd);
                    if x != 0 {
                        return st(&errno_name(sv));
                    }
                    let v = v.assume_init();
                    let mut m = ok();
                    m.insert("statfs".into(), json!({"bsize": v.f_bsize, "frsize": v.f_frsize, "namemax": v.f_namemax}));
                    m
                }
                "readlink" => {
                    let mut buf = vec![0u8; 4096];
                    let n = libc::readlinkat(r, Self::p(op, "path").as_ptr(), buf.as_mut_ptr() as *mut libc::c_char, buf.len());
                    if n < 0 {
                        err()
                    } else {
                        let mut m = ok();
                        m.insert("tgt".into(), json!(String::from_utf8_lossy(&buf[..n as usize]).replace(&self.top, "@")));
                        m
                    }
                }
                "setxattr" | "getxattr" | "listxattr" | "removexattr" => {
                    // through /proc/self/fd of an O_PATH descriptor: the l*xattr calls relative to a directory do not exist
                    let fd = libc::openat(r, Self::p(op, "path").as_ptr(), libc::O_PATH | libc::O_NOFOLLOW | libc::O_CLOEXEC);
                    if fd < 0 {
                        return err();
                    }
                    let pp = CString::new(format!("/proc/self/fd/{}", fd)).unwrap();
                    let xn = cstr(s(op, "xname").as_bytes());
                    let m = match o.as_str() {
                        "setxattr" => {
                            let v = bytes(op, "xval");
                            if libc::setxattr(pp.as_ptr(), xn.as_ptr(), v.as_ptr() as *const libc::c_void, v.len(), u(op, "xflags") as i32) == 0 { ok() } else { err() }
                        }
                        "getxattr" => {
                            let mut buf = vec![0u8; 256];
                            let n = libc::getxattr(pp.as_ptr(), xn.as_ptr(), buf.as_mut_ptr() as *mut libc::c_void, buf.len());
                            if n < 0 {
                                err()
                            } else {
                                let mut m = ok();
                                m.insert("val".into(), json!(buf[..n as usize].to_vec()));
                                m
                            }
                        }
                        "listxattr" => {
                            let mut buf = vec![0u8; 1024];
                            let n = libc::listxattr(pp.as_ptr(), buf.as_mut_ptr() as *mut libc::c_char, buf.len());
                            if n < 0 {
                                err()
                            } else {
                                let mut v: Vec<String> = buf[..n as usize].split(|b| *b == 0).filter(|x| !x.is_empty()).map(|x| String::from_utf8_lossy(x).to_string()).collect();
                                v.sort();
                                let mut m = ok();
                                m.insert("names".into(), json!(v));
                                m
                            }
                        }
                        _ => {
                            if libc::removexattr(pp.as_ptr(), xn.as_ptr()) == 0 { ok() } else { err() }
                        }
                    };
                    libc::close(fd);
                    m
                }
                _ => st("BADOP"),
            }
        }
    }
}

// ------------------------------------------------------------------------------------------------ generator

const EXIST: &[&str] = &["f1", "f2", "f3", "big", "d1", "d2", "d3", "g", "ln", "lout_abs", "lout_rel", "ldang", "hl", "fifo"];
const FILES: &[&str] = &["f1", "f2", "f3", "g", "hl", "f1", "f3", "x", "y"];
const NEWN: &[&str] = &["x", "y", "z", "w"];
const DIRS: &[&str] = &["", "", "", "d1", "d2", "d3", "x"];
const MODES: &[u32] = &[0o644, 0o600, 0o755, 0o700, 0o777, 0o444, 0o000, 0o666, 0o640, 0o4755, 0o2755, 0o6711, 0o1777];

struct Gen {
    rng: Rng,
    fds: Vec<(bool, i32)>, // (valid on every side, open flags)
    caching: bool,
}

impl Gen {
    fn join(d: &str, n: &str) -> String {
        if d.is_empty() { n.to_string() } else { format!("{}/{}", d, n) }
    }
    fn path(&mut self, p_exist: u64) -> String {
        let d = *self.rng.pick(DIRS);
        let n = if self.rng.below(100) < p_exist { *self.rng.pick(EXIST) } else { *self.rng.pick(NEWN) };
        if n == "g" { "d1/g".to_string() } else { Self::join(d, n) }
    }
    fn file(&mut self) -> String {
        let n = *self.rng.pick(FILES);
        if n == "g" { "d1/g".to_string() } else if self.rng.chance(1, 5) { Self::join(*self.rng.pick(DIRS), n) } else { n.to_string() }
    }
    fn ids(&mut self) -> (u32, u32) {
        if self.rng.chance(3, 10) { *self.rng.pick(&[(1000u32, 1000u32), (1000, 1000), (0, 1000), (1000, 0)]) } else { (0, 0) }
    }
    fn fd(&mut self) -> i64 {
        let c: Vec<usize> = (0..self.fds.len()).filter(|k| self.fds[*k].0).collect();
        if c.is_empty() { -1 } else { *self.rng.pick(&c) as i64 }
    }
    fn data(&mut self, len: u64) -> Vec<u8> {
        (0..len).map(|_| 48 + self.rng.below(10) as u8).collect()
    }
    fn next(&mut self) -> J {
        let table: &[(&str, u64)] = &[("mkdir", 5), ("mknod", 3), ("symlink", 3), ("link", 3), ("rename", 6), ("unlink", 4), ("rmdir", 3), ("open", 12), ("close", 5),
            ("read", 4), ("pread", 5), ("write", 6), ("pwrite", 6), ("ftruncate", 3), ("truncate", 3), ("fallocate", 3), ("lseek", 2), ("fsync", 2), ("chmod", 4), ("chown", 3),
            ("utimens", 3), ("stat", 7), ("fstat", 2), ("readdir", 4), ("statfs", 1), ("readlink", 2), ("setxattr", 4), ("getxattr", 2), ("listxattr", 2), ("removexattr", 3)];
        let total: u64 = table.iter().map(|t| t.1).sum();
        let mut r = self.rng.below(total);
        let mut op = "stat";
        for t in table {
            if r < t.1 {
                op = t.0;
                break;
            }
            r -= t.1;
        }
        let (uid, gid) = self.ids();
        let needs_fd = matches!(op, "close" | "read" | "pread" | "write" | "pwrite" | "ftruncate" | "fallocate" | "lseek" | "fsync" | "fstat");
        if needs_fd && self.fd() < 0 {
            op = "open";
        }
        match op {
            "mkdir" => json!({"op": "mkdir", "path": self.path(25), "mode": *self.rng.pick(MODES), "uid": uid, "gid": gid}),
            "mknod" => {
                let (t, bits) = *self.rng.pick(&[("reg", libc::S_IFREG), ("fifo", libc::S_IFIFO), ("reg", libc::S_IFREG)]);
                json!({"op": "mknod", "path": self.path(25), "type": t, "mode": bits | *self.rng.pick(MODES), "uid": uid, "gid": gid})
            }
            "symlink" => json!({"op": "symlink", "path": self.path(20), "target": *self.rng.pick(&["f1", "d1", "../secret", "@/secret", "nowhere", "."]), "uid": uid, "gid": gid}),
            "link" => json!({"op": "link", "path": self.file(), "path2": self.path(20), "uid": uid, "gid": gid}),
            "rename" => json!({"op": "rename", "path": self.path(85), "path2": self.path(40), "flags": *self.rng.pick(&[0u32, 0, 0, 1, 2]), "uid": uid, "gid": gid}),
            "unlink" => json!({"op": "unlink", "path": self.path(85), "uid": uid, "gid": gid}),
            "rmdir" => {
                let p = if self.rng.chance(2, 3) { self.rng.pick(&["d2", "d3", "d1", "x", "y", "d2/x"]).to_string() } else { self.path(70) };
                json!({"op": "rmdir", "path": p, "uid": uid, "gid": gid})
            }
            "open" => {
                let mut fl = *self.rng.pick(&[libc::O_RDONLY, libc::O_WRONLY, libc::O_RDWR, libc::O_RDWR]);
                if self.rng.chance(1, 5) {
                    fl |= libc::O_APPEND;
                }
                if self.rng.chance(1, 5) {
                    fl |= libc::O_TRUNC;
                }
                if self.rng.chance(1, 3) {
                    fl |= libc::O_CREAT;
                    if self.rng.chance(1, 4) {
                        fl |= libc::O_EXCL;
                    }
                }
                // never a special file: the kernel serves FIFOs and devices itself
                let p = if fl & libc::O_CREAT != 0 && self.rng.chance(1, 2) { Gen::join(*self.rng.pick(DIRS), *self.rng.pick(NEWN)) } else { self.file() };
                json!({"op": "open", "path": p, "flags": fl | libc::O_NONBLOCK, "mode": *self.rng.pick(MODES), "uid": uid, "gid": gid})
            }
            "close" => json!({"op": "close", "fd": self.fd()}),
            "read" => json!({"op": "read", "fd": self.fd(), "len": *self.rng.pick(&[1u64, 4, 16, 64])}),
            "pread" => json!({"op": "pread", "fd": self.fd(), "off": *self.rng.pick(&[0u64, 1, 4, 8, 20, 4096]), "len": *self.rng.pick(&[1u64, 4, 16, 64])}),
            "write" => {
                let l = *self.rng.pick(&[1u64, 2, 5, 9]);
                json!({"op": "write", "fd": self.fd(), "data": self.data(l)})
            }
            "pwrite" => {
                let l = *self.rng.pick(&[1u64, 2, 5, 9]);
                json!({"op": "pwrite", "fd": self.fd(), "off": *self.rng.pick(&[0u64, 1, 4, 8, 13, 20, 40]), "data": self.data(l)})
            }
            "ftruncate" => json!({"op": "ftruncate", "fd": self.fd(), "size": *self.rng.pick(&[0u64, 1, 3, 8, 12, 20, 50])}),
            "truncate" => json!({"op": "truncate", "path": self.file(), "size": *self.rng.pick(&[0u64, 1, 3, 8, 12, 20, 50]), "uid": uid, "gid": gid}),
            "fallocate" => {
                let m = *self.rng.pick(&[0i32, 0, libc::FALLOC_FL_KEEP_SIZE, libc::FALLOC_FL_PUNCH_HOLE | libc::FALLOC_FL_KEEP_SIZE, libc::FALLOC_FL_ZERO_RANGE,
                                         libc::FALLOC_FL_ZERO_RANGE | libc::FALLOC_FL_KEEP_SIZE, libc::FALLOC_FL_COLLAPSE_RANGE, libc::FALLOC_FL_INSERT_RANGE, libc::FALLOC_FL_PUNCH_HOLE]);
                json!({"op": "fallocate", "fd": self.fd(), "mode": m, "off": *self.rng.pick(&[0u64, 1, 4, 8, 20]), "len": *self.rng.pick(&[0u64, 1, 3, 8, 12])})
            }
            "lseek" => json!({"op": "lseek", "fd": self.fd(), "off": *self.rng.pick(&[0u64, 1, 3, 8, 20]), "whence": *self.rng.pick(&[0u32, 1, 2])}),
            "fsync" => json!({"op": "fsync", "fd": self.fd(), "datasync": self.rng.below(2)}),
            "chmod" => json!({"op": "chmod", "path": if self.rng.chance(1, 2) { self.file() } else { self.path(80) }, "mode": *self.rng.pick(MODES), "uid": uid, "gid": gid}),
            "chown" => {
                let mut o = json!({"op": "chown", "path": self.path(85), "uid": uid, "gid": gid});
                if self.rng.chance(2, 3) {
                    o["owner"] = json!(*self.rng.pick(&[0u32, 1000, 1001]));
                }
                if self.rng.chance(2, 3) {
                    o["group"] = json!(*self.rng.pick(&[0u32, 1000, 1001]));
                }
                o
            }
            "utimens" => json!({"op": "utimens", "path": self.path(85), "atime": 1_000_000 + self.rng.below(1000), "atime_ns": 111_000_000 + self.rng.below(1000),
                                "mtime": 2_000_000 + self.rng.below(1000), "mtime_ns": 222_000_000 + self.rng.below(1000), "uid": uid, "gid": gid}),
            "stat" => json!({"op": "stat", "path": self.path(85), "uid": uid, "gid": gid}),
            "fstat" => json!({"op": "fstat", "fd": self.fd()}),
            "readdir" => json!({"op": "readdir", "path": *self.rng.pick(DIRS), "uid": uid, "gid": gid}),
            "statfs" => json!({"op": "statfs", "path": self.path(90)}),
            "readlink" => json!({"op": "readlink", "path": if self.rng.chance(3, 4) { self.rng.pick(&["ln", "lout_abs", "lout_rel", "ldang", "x"]).to_string() } else { self.path(85) }, "uid": uid, "gid": gid}),
            "setxattr" => {
                let l = self.rng.below(4);
                json!({"op": "setxattr", "path": if self.rng.chance(1, 2) { "f1".to_string() } else { self.path(85) }, "xname": *self.rng.pick(&["user.a", "user.a", "user.b"]), "xval": self.data(l), "xflags": *self.rng.pick(&[0u32, 0, 1, 2])})
            }
            "getxattr" => json!({"op": "getxattr", "path": if self.rng.chance(1, 2) { "f1".to_string() } else { self.path(85) }, "xname": *self.rng.pick(&["user.a", "user.a", "user.b"])}),
            "listxattr" => json!({"op": "listxattr", "path": if self.rng.chance(1, 2) { "f1".to_string() } else { self.path(85) }}),
            _ => json!({"op": "removexattr", "path": if self.rng.chance(1, 2) { "f1".to_string() } else { self.path(85) }, "xname": *self.rng.pick(&["user.a", "user.a", "user.b"])}),
        }
    }
}

// ------------------------------------------------------------------------------------------------ the mounted server

#[derive(Clone, Debug)]
struct Cfg {
    via: String,     // direct | vfs
    timeout_ms: u64, // attr / entry timeout
    wb: bool,
    cache: u8,
    ifh: bool,
    threads: u32,
}
impl Cfg {
    fn json(&self) -> J {
        let cache = ["never", "metadata", "auto", "always"][self.cache as usize];
        json!({"via": self.via, "timeout_ms": self.timeout_ms, "wb": self.wb, "cache": cache, "ifh": self.ifh,
               "threads": self.threads, "steps": self.timeout_ms == 0 && !self.wb})
    }
}

fn svc_loop<F>(server: Arc<Server<F>>, mut ch: FuseChannel)
where
    F: FileSystem + Sync + Send,
    F::Inode: From<u64> + Into<u64> + Copy,
    F::Handle: From<u64> + Into<u64> + Copy,
{
    loop {
        match ch.get_request() {
            Ok(Some((reader, writer))) => {
                if let Err(e) = server.handle_message(reader, writer.into(), None, None) {
                    match e {
                        fuse_backend_rs::Error::EncodeMessage(_) => break,
                        _ => continue,
                    }
                }
            }
            _ => break,
        }
    }
}

struct Trace {
    f: std::fs::File,
}
impl Trace {
    fn emit(&mut self, v: &J) {
        let mut line = serde_json::to_vec(v).unwrap();
        line.push(b'\n');
        self.f.write_all(&line).unwrap();
    }
}

/// the requests recorded since the last call, with repeated "use" entries of a step folded
fn drain(log: &Arc<Mutex<Vec<Value>>>) -> Vec<J> {
    let raw: Vec<Value> = std::mem::take(&mut *log.lock().unwrap());
    let mut seen: HashSet<u64> = HashSet::new();
    let mut out = Vec::new();
    let sx = |v: &Value| json!(v.as_u64().unwrap_or(0).to_string());
    for e in raw {
        // inode numbers and handles cross as decimal strings (TLC integers have 32 bits)
        let e = match e[0].as_str().unwrap_or("") {
            "use" => json!(["use", e[1], sx(&e[2])]),
            "ent" => json!(["ent", e[1], sx(&e[2]), sx(&e[3])]),
            "fgt" => json!(["fgt", sx(&e[1]), e[2].as_u64().unwrap_or(0).min(1 << 30)]),
            "opn" => json!(["opn", sx(&e[1]), sx(&e[2])]),
            "rel" => json!(["rel", sx(&e[1]), sx(&e[2]), e[3]]),
            _ => e,
        };
        match e[0].as_str().unwrap_or("") {
            "use" => {
                let ino = e[2].as_str().unwrap_or("0").parse::<u64>().unwrap_or(0);
                if seen.insert(ino) {
                    out.push(e);
                }
            }
            "fgt" => {
                seen.remove(&e[1].as_str().unwrap_or("0").parse::<u64>().unwrap_or(0));
                out.push(e);
            }
            _ => out.push(e),
        }
    }
    out
}

/// a fixed opening of every session: each kind of call once with a successful outcome (the random part follows)
fn prefix() -> Vec<J> {
    let r = json!({"uid": 0, "gid": 0});
    let mut v = vec![
        json!({"op": "mkdir", "path": "t", "mode": 0o755}), json!({"op": "mknod", "path": "t/n", "type": "reg", "mode": libc::S_IFREG | 0o644}),
        json!({"op": "symlink", "path": "t/s", "target": "../f1"}), json!({"op": "link", "path": "f2", "path2": "t/l"}), json!({"op": "rename", "path": "t/n", "path2": "t/m", "flags": 0}),
        json!({"op": "open", "path": "t/m", "flags": libc::O_RDWR, "mode": 0}), json!({"op": "write", "fd": 0, "data": [49, 50, 51, 52, 53]}), json!({"op": "pwrite", "fd": 0, "off": 8, "data": [54, 55]}),
        json!({"op": "lseek", "fd": 0, "off": 1, "whence": 0}), json!({"op": "read", "fd": 0, "len": 4}), json!({"op": "pread", "fd": 0, "off": 0, "len": 16}), json!({"op": "fstat", "fd": 0}),
        json!({"op": "fallocate", "fd": 0, "mode": 0, "off": 0, "len": 20}), json!({"op": "ftruncate", "fd": 0, "size": 6}), json!({"op": "fsync", "fd": 0, "datasync": 0}),
        json!({"op": "truncate", "path": "t/m", "size": 3}), json!({"op": "chmod", "path": "t/m", "mode": 0o600}), json!({"op": "chown", "path": "t/m", "owner": 1000, "group": 1000}),
        json!({"op": "utimens", "path": "t/m", "atime": 1_000_001, "atime_ns": 111_000_001, "mtime": 2_000_002, "mtime_ns": 222_000_002}),
        json!({"op": "setxattr", "path": "t/m", "xname": "user.a", "xval": [49, 50], "xflags": 0}), json!({"op": "getxattr", "path": "t/m", "xname": "user.a"}),
        json!({"op": "listxattr", "path": "t/m"}), json!({"op": "removexattr", "path": "t/m", "xname": "user.a"}), json!({"op": "stat", "path": "t/m"}),
        json!({"op": "readdir", "path": "t"}), json!({"op": "statfs", "path": "t"}), json!({"op": "readlink", "path": "t/s"}), json!({"op": "close", "fd": 0}),
        json!({"op": "unlink", "path": "t/l"}), json!({"op": "unlink", "path": "t/s"}), json!({"op": "unlink", "path": "t/m"}), json!({"op": "rmdir", "path": "t"}),
        // one write larger than a FUSE request, read back across the request boundaries; a directory larger than one READDIR reply
        json!({"op": "open", "path": "f2", "flags": libc::O_RDWR | libc::O_TRUNC, "mode": 0}), json!({"op": "fillwrite", "fd": 1, "off": 3, "len": 300_000}),
        json!({"op": "pread", "fd": 1, "off": 131_070, "len": 8}), json!({"op": "pread", "fd": 1, "off": 299_990, "len": 64}), json!({"op": "fstat", "fd": 1}),
        json!({"op": "ftruncate", "fd": 1, "size": 70_000}), json!({"op": "pread", "fd": 1, "off": 69_990, "len": 64}), json!({"op": "close", "fd": 1}),
        json!({"op": "open", "path": "f1", "flags": libc::O_WRONLY | libc::O_APPEND, "mode": 0}), json!({"op": "write", "fd": 2, "data": [65, 66]}), json!({"op": "pwrite", "fd": 2, "off": 0, "data": [67]}),
        json!({"op": "close", "fd": 2}), json!({"op": "stat", "path": "hl"}),
        json!({"op": "mkdir", "path": "many", "mode": 0o755}), json!({"op": "mkmany", "path": "many", "count": 150}), json!({"op": "readdir", "path": "many"}),
        json!({"op": "rmmany", "path": "many", "count": 150}), json!({"op": "rmdir", "path": "many"}),
        // unlink and rename of open files: the handles keep working
        json!({"op": "open", "path": "f3", "flags": libc::O_RDWR, "mode": 0}), json!({"op": "unlink", "path": "f3"}), json!({"op": "pwrite", "fd": 3, "off": 2, "data": [48]}),
        json!({"op": "pread", "fd": 3, "off": 0, "len": 16}), json!({"op": "fstat", "fd": 3}), json!({"op": "close", "fd": 3}),
        // a non-root caller: creating in a world-writable directory, refused elsewhere
        json!({"op": "mkdir", "path": "d2/u", "mode": 0o700, "uid": 1000, "gid": 1000}), json!({"op": "open", "path": "d2/u/c", "flags": libc::O_CREAT | libc::O_WRONLY, "mode": 0o640, "uid": 1000, "gid": 1000}),
        json!({"op": "mkdir", "path": "d3/u", "mode": 0o700, "uid": 1000, "gid": 1000}), json!({"op": "stat", "path": "d2/u/c"}),
    ];
    for o in v.iter_mut() {
        for k in ["uid", "gid"] {
            if o[k].is_null() {
                o[k] = r[k].clone();
            }
        }
    }
    v
}

fn rows(m: &BTreeMap<String, J>) -> Vec<&J> {
    m.values().collect()
}

#[allow(clippy::too_many_arguments)]
fn client<T, R>(seg: usize, cfg: &Cfg, base: &Path, len: usize, seed: u64, tr: &mut Trace, log: &Arc<Mutex<Vec<Value>>>, tables: T, refcount: R) -> bool
where
    T: Fn() -> Option<(usize, usize, usize)>,
    R: Fn(u64) -> Option<Option<u64>>,
{
    // every inode number the server ever handed out in this session
    let handed: std::cell::RefCell<HashSet<u64>> = std::cell::RefCell::new(HashSet::new());
    let note = |v: Vec<J>| -> Vec<J> {
        for e in &v {
            if e[0] == "ent" {
                if let Some(i) = e[3].as_str().and_then(|x| x.parse::<u64>().ok()) {
                    handed.borrow_mut().insert(i);
                }
            }
        }
        v
    };
    let mnt = base.join("mnt");
    let (e_top, a_top, b_top) = (base.join("E"), base.join("A"), base.join("B"));
    let Some(mut ms) = Side::new(&mnt, &e_top.join("S")) else { return false };
    let mut sa = Side::new(&a_top.join("S/export"), &a_top.join("S")).expect("shadow A");
    let mut sb = Side::new(&b_top.join("S/export"), &b_top.join("S")).expect("shadow B");
    let (mut eids, mut aids, mut bids, mut mids) = (Ids::new(), Ids::new(), Ids::new(), Ids::new());
    let (mut et, _) = digests(&e_top, &mut eids);
    let (mut at, _) = digests(&a_top, &mut aids);
    let (mut bt, _) = digests(&b_top, &mut bids);
    let view = |mids: &mut Ids| -> BTreeMap<String, J> {
        let mut m = BTreeMap::new();
        mids.times.clear();
        walk(&mnt, "", 0, "", mids, &e_top.join("S").to_string_lossy(), &mut m);
        m
    };
    let v0 = view(&mut mids);
    tr.emit(&json!({"e": "Reset", "seg": seg, "cfg": cfg.json(), "export": rows(&et), "shadow": rows(&at), "shadow2": rows(&bt), "view": rows(&v0), "reqs": note(drain(log))}));
    let mut g = Gen { rng: Rng::new(seed), fds: Vec::new(), caching: cfg.timeout_ms != 0 || cfg.wb };
    let view_every = 5;
    let pre = prefix();
    for step in 1..=len {
        let op = if step <= pre.len() { pre[step - 1].clone() } else { g.next() };
        tr.emit(&json!({"e": "Try", "seg": seg, "i": step, "op": op}));
        let rm = ms.exec(&op);
        let ra = sa.exec(&op);
        let rb = sb.exec(&op);
        if op["op"] == "open" {
            let okk = ms.fds.last().map(|x| x.is_some()).unwrap_or(false) && sa.fds.last().map(|x| x.is_some()).unwrap_or(false);
            g.fds.push((okk, u(&op, "flags") as i32));
        }
        if op["op"] == "close" {
            let k = op["fd"].as_i64().unwrap_or(-1);
            if k >= 0 {
                g.fds[k as usize].0 = false;
            }
        }
        let (e2, _) = digests(&e_top, &mut eids);
        let (a2, _) = digests(&a_top, &mut aids);
        let (b2, _) = digests(&b_top, &mut bids);
        let (ed, ad, bd) = (diff(&et, &e2), diff(&at, &a2), diff(&bt, &b2));
        et = e2;
        at = a2;
        bt = b2;
        let mut ev = json!({"e": "Step", "seg": seg, "i": step, "op": op, "mnt": J::Object(rm), "sh": J::Object(ra), "sh2": J::Object(rb),
                            "exp_ch": ed.0, "exp_rm": ed.1, "sh_ch": ad.0, "sh_rm": ad.1, "sh2_ch": bd.0, "sh2_rm": bd.1});
        if step % view_every == 0 || step == len {
            let v = view(&mut mids);
            ev["view"] = json!(rows(&v));
            ev["shadow"] = json!(rows(&at));
        }
        ev["reqs"] = json!(note(drain(log)));
        tr.emit(&ev);
    }
    // the server's own lookup counts against the kernel's accounting, while the client is idle and still holds everything
    {
        let reqs = note(drain(log));
        let mut server = Map::new();
        let mut have = false;
        for i in handed.borrow().iter() {
            if let Some(c) = refcount(*i) {
                have = true;
                if let Some(c) = c {
                    server.insert(i.to_string(), json!(c.min(1 << 30)));
                }
            }
        }
        tr.emit(&json!({"e": "Refs", "seg": seg, "reqs": reqs, "known": have, "server": J::Object(server)}));
    }
    // the end of the session: every descriptor of the client is closed, the kernel is asked to let go of what it caches
    ms.close_all();
    sa.close_all();
    sb.close_all();
    unsafe { libc::close(ms.root) };
    drop(mids);
    unsafe { libc::sync() };
    std::thread::sleep(Duration::from_millis(cfg.timeout_ms + 50));
    let dropped = std::fs::write("/proc/sys/vm/drop_caches", b"2").is_ok();
    // RELEASE is sent asynchronously after the last close: give it a moment
    for _ in 0..100 {
        if tables().map(|t| t.1 == 0).unwrap_or(true) {
            break;
        }
        std::thread::sleep(Duration::from_millis(10));
    }
    std::thread::sleep(Duration::from_millis(100));
    let (ef, _) = digests(&e_top, &mut eids);
    let (af, _) = digests(&a_top, &mut aids);
    let t = tables();
    tr.emit(&json!({"e": "End", "seg": seg, "export": rows(&ef), "shadow": rows(&af), "reqs": note(drain(log)), "dropped_caches": dropped,
                    "tables": t.map(|t| json!({"inodes": t.0, "handles": t.1})).unwrap_or(json!({}))}));
    true
}

fn run_segment(seg: usize, cfg: &Cfg, work: &Path, len: usize, seed: u64, tr: &mut Trace) {
    let base = work.join(format!("seg{}", seg));
    let _ = std::fs::remove_dir_all(&base);
    for d in ["E", "A", "B"] {
        std::fs::create_dir_all(base.join(d)).unwrap();
        build(&base.join(d), None);
    }
    let mnt = base.join("mnt");
    std::fs::create_dir_all(&mnt).unwrap();
    let export = base.join("E/S/export");
    let pcfg = Config {
        root_dir: export.to_string_lossy().to_string(),
        do_import: cfg.via == "direct",
        xattr: true,
        writeback: cfg.wb,
        inode_file_handles: cfg.ifh,
        entry_timeout: Duration::from_millis(cfg.timeout_ms),
        attr_timeout: Duration::from_millis(cfg.timeout_ms),
        cache_policy: match cfg.cache {
            0 => CachePolicy::Never,
            1 => CachePolicy::Metadata,
            3 => CachePolicy::Always,
            _ => CachePolicy::Auto,
        },
        ..Default::default()
    };
    let fs = PassthroughFs::<()>::new(pcfg).expect("PassthroughFs::new");
    fs.import().expect("import");
    let mut se = FuseSession::new(&mnt, "ptmounted", "", false).expect("FuseSession::new");
    if let Err(e) = se.mount() {
        eprintln!("ptmounted: cannot mount: {e:?}");
        std::process::exit(3);
    }
    let mut threads = Vec::new();
    let log;
    let okk;
    if cfg.via == "direct" {
        let fs = Arc::new(fs);
        let rec = Rec::new(fs.clone());
        log = rec.log.clone();
        let server = Arc::new(Server::new(rec));
        for _ in 0..cfg.threads {
            let (sv, ch) = (server.clone(), se.new_channel().expect("new_channel"));
            threads.push(std::thread::spawn(move || svc_loop(sv, ch)));
        }
        let f2 = fs.clone();
        let f3 = fs.clone();
        okk = client(seg, cfg, &base, len, seed, tr, &log, move || Some(f2.verif_table_sizes()), move |i| Some(f3.verif_refcount(i)));
    } else {
        let vfs = Vfs::new(VfsOptions { no_open: false, no_opendir: false, no_writeback: !cfg.wb, ..Default::default() });
        vfs.mount(Box::new(fs), "/").expect("vfs mount");
        let rec = Rec::new(Arc::new(vfs));
        log = rec.log.clone();
        let server = Arc::new(Server::new(rec));
        for _ in 0..cfg.threads {
            let (sv, ch) = (server.clone(), se.new_channel().expect("new_channel"));
            threads.push(std::thread::spawn(move || svc_loop(sv, ch)));
        }
        okk = client(seg, cfg, &base, len, seed, tr, &log, || None, |_| None);
    }
    let r = se.umount();
    let _ = se.wake();
    for t in threads {
        let _ = t.join();
    }
    tr.emit(&json!({"e": "Umount", "seg": seg, "ok": r.is_ok() && okk, "reqs": drain(&log), "left": mounts_below(&base).len()}));
    unsafe { libc::umask(0o022) };
    cleanup_below(&base);
    let _ = std::fs::remove_dir_all(&base);
}

/// one segment per forked child: an abort or a hang of the server is data, and never leaves a mount behind
fn forked(path: &str, seg: usize, work: &Path, timeout_s: u64, f: impl FnOnce(&mut Trace)) {
    let pid = unsafe { libc::fork() };
    if pid == 0 {
        unsafe { libc::prctl(libc::PR_SET_PDEATHSIG, libc::SIGKILL) };
        let file = std::fs::OpenOptions::new().append(true).open(path).expect("append trace");
        let mut tr = Trace { f: file };
        f(&mut tr);
        unsafe { libc::_exit(0) };
    }
    let mut status = 0;
    let deadline = std::time::Instant::now() + Duration::from_secs(timeout_s);
    let mut timed_out = false;
    loop {
        let r = unsafe { libc::waitpid(pid, &mut status, libc::WNOHANG) };
        if r == pid {
            break;
        }
        if std::time::Instant::now() > deadline {
            timed_out = true;
            unsafe {
                libc::kill(pid, libc::SIGKILL);
            }
            // a client blocked in a FUSE wait only dies once the connection is gone: detach, then reap
            cleanup_below(work);
            unsafe { libc::waitpid(pid, &mut status, 0) };
            break;
        }
        std::thread::sleep(Duration::from_millis(5));
    }
    cleanup_below(work);
    let code = if libc::WIFEXITED(status) { libc::WEXITSTATUS(status) } else { -1 };
    if code == 3 {
        eprintln!("ptmounted: mounting is not possible here");
        std::process::exit(3);
    }
    if code != 0 {
        let text = {
            use std::io::{Read, Seek, SeekFrom};
            let mut f = std::fs::File::open(path).expect("trace");
            let l = f.metadata().map(|m| m.len()).unwrap_or(0);
            let _ = f.seek(SeekFrom::Start(l.saturating_sub(1 << 18)));
            let mut b = Vec::new();
            let _ = f.read_to_end(&mut b);
            String::from_utf8_lossy(&b).to_string()
        };
        let last: J = text.lines().last().and_then(|l| serde_json::from_str(l).ok()).unwrap_or(json!({}));
        let sig = if libc::WIFSIGNALED(status) { libc::WTERMSIG(status) } else { -code };
        let ev = json!({"e": "Crash", "seg": seg, "signal": sig, "timeout": timed_out, "during": last["e"], "op": last["op"], "i": last["i"]});
        let mut file = std::fs::OpenOptions::new().append(true).open(path).expect("append trace");
        writeln!(file, "{}", ev).unwrap();
    }
}

fn configs() -> Vec<Cfg> {
    vec![
        Cfg { via: "direct".into(), timeout_ms: 0, wb: false, cache: 2, ifh: false, threads: 2 },
        Cfg { via: "vfs".into(), timeout_ms: 0, wb: false, cache: 2, ifh: false, threads: 2 },
        Cfg { via: "direct".into(), timeout_ms: 1000, wb: true, cache: 3, ifh: false, threads: 3 },
        Cfg { via: "direct".into(), timeout_ms: 0, wb: false, cache: 0, ifh: true, threads: 2 },
    ]
}

fn main() {
    let args: Vec<String> = std::env::args().collect();
    if args.len() >= 3 && args[1] == "cleanup" {
        println!("{}", cleanup_below(Path::new(&args[2])));
        return;
    }
    if args.len() >= 3 && args[1] == "probe" {
        if !Path::new("/dev/fuse").exists() {
            eprintln!("ptmounted: /dev/fuse does not exist");
            std::process::exit(3);
        }
        let work = PathBuf::from(&args[2]);
        std::fs::create_dir_all(&work).unwrap();
        cleanup_below(&work);
        let tp = work.join("probe.ndjson");
        drop(std::fs::File::create(&tp).unwrap());
        let w2 = work.clone();
        forked(tp.to_str().unwrap(), 0, &work, 30, move |tr| run_segment(0, &configs()[0], &w2, 1, 1, tr));
        let okk = std::fs::read_to_string(&tp).map(|t| t.contains("\"e\":\"Umount\"")).unwrap_or(false);
        let _ = std::fs::remove_file(&tp);
        std::process::exit(if okk { 0 } else { 3 });
    }
    if args.len() < 6 || args[1] != "run" {
        eprintln!("usage: ptmounted run <workdir> <out.ndjson> <segments> <len> | cleanup <dir> | probe <workdir>");
        std::process::exit(2);
    }
    let work = PathBuf::from(&args[2]);
    let nseg: usize = args[4].parse().unwrap();
    let len: usize = args[5].parse().unwrap();
    let seed = env_u64("VERIF_SEED", 1);
    let mut rng = Rng::new(seed ^ 0x6d6e74);
    std::fs::create_dir_all(&work).unwrap();
    cleanup_below(&work);
    drop(std::fs::File::create(&args[3]).expect("create trace"));
    let cfgs = configs();
    for seg in 0..nseg {
        let cfg = cfgs[seg % cfgs.len()].clone();
        let sd = rng.next();
        let w2 = work.clone();
        forked(&args[3], seg, &work, 30 + len as u64 / 2, move |tr| run_segment(seg, &cfg, &w2, len, sd, tr));
    }
    cleanup_below(&work);
}
