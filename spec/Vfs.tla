--------------------------------- MODULE Vfs ---------------------------------
(* A-level specification of the VFS (judge of C07, C14, C19).

   State = what the three properties talk about and nothing else:
     slot/mroot/given   which backend owns each 8-bit index, the root entry it reported at mount
                        time, and the id mapping *given to that mount* (NoMap if none)
     gmap               the global id mapping
     pn/nextino/mp      the pseudo directory tree with its inode numbers and the mount points
     issued             client inode numbers handed out by the current occupants of the slots
     inited/negopt/noopen/noopendir   negotiated options (C19 only)
   Operations are the public ones (mount, umount, INIT, client requests, save+restore) with their
   *results*; every operation comes as a precondition on the result (`...Pre`) and an effect
   (`...Eff`) so that the implementation-shaped spec (VfsImpl) and the trace spec (Trace_Vfs) can
   judge a result and still follow the step (monitor mode).

   Readings (the weaker one wins):
     * an inode number of a slot that has been re-used routes to the current occupant or fails;
       only numbers issued by the *current* occupant must be served (Appendix C of DESIGN.md);
     * owner ids of pseudo directories are not constrained (the property speaks of backends);
     * the index returned by mount is any vacant non-zero index; a mount fails for lack of an
       index only if all N-1 are occupied (which index is chosen matters only to C19, where the
       restored instance must choose what the unsaved one chooses);
     * ids are pairs [h, l] to base B (value h*B+l; B = 65536 for real traces, TLC integers are
       32-bit), mappings are [i, e, r] = (internal base, external base, range); for the global option range 0 = none,
       a mount's own mapping with range 0 is a mapping that translates nothing (and replaces the global one). *)
EXTENDS Integers, Sequences, FiniteSets, TLC
CONSTANTS N,     \* number of indices (256 in the code); index 0 = pseudo file system
          B      \* id base

(* ------------------------------------------------------------------------------------------ *)
(* ids and mappings *)
Id(h, l) == [h |-> h, l |-> l]
Zero == Id(0, 0)
One == Id(0, 1)
IdGe(a, b) == a.h > b.h \/ (a.h = b.h /\ a.l >= b.l)
IdLt(a, b) == ~IdGe(a, b)
IdSub(a, b) == IF a.l >= b.l THEN Id(a.h - b.h, a.l - b.l) ELSE Id(a.h - b.h - 1, a.l + B - b.l)   \* a >= b
IdAdd(a, b) == LET s == a.l + b.l IN Id((a.h + b.h + s \div B) % B, s % B)                         \* modulo B*B
\* NoMap = "no mapping" (None): distinct from every mapping a caller can give, also from one with an empty range
NoMap == [i |-> Id(-1, -1), e |-> Id(-1, -1), r |-> Zero]
Given(m) == m # NoMap              \* a mount was given its own mapping (Some), whatever its range
IsMap(m) == m.r # Zero             \* the mapping translates something
\* the global option: an empty range means that no mapping is configured (Vfs::new). A mount's OWN mapping is
\* taken as given: Some((i, e, 0)) translates nothing on that mount and still takes the place of the global one
Canon(m) == IF IsMap(m) THEN m ELSE NoMap
\* the library's arithmetic: value inside [from, from+r) moves to the same offset from `to`
Remap(v, from, to, r) == IF IdGe(v, from) /\ IdLt(IdSub(v, from), r) THEN IdAdd(IdSub(v, from), to) ELSE v
Out(m, v) == Remap(v, m.i, m.e, m.r)     \* internal -> external (what the client sees)
In(m, v)  == Remap(v, m.e, m.i, m.r)     \* external -> internal (what the backend sees)
\* neither range runs past the largest id (otherwise the translation is not defined)
NoWrap(a, r) == r = Zero \/ IdGe(IdAdd(a, IdSub(r, One)), a)
WellFormed(m) == NoWrap(m.i, m.r) /\ NoWrap(m.e, m.r)

(* ------------------------------------------------------------------------------------------ *)
VARIABLES slot,      \* [0..N-1 -> backend id (string), Vacant]
          mroot,     \* [0..N-1 -> root entry of the mount: low (decimal string), uid, gid (internal ids)]
          given,     \* [0..N-1 -> mapping given to the mount occupying the index]
          gmap,      \* global mapping
          pn,        \* pseudo tree: inode number -> [parent, name, kids (creation order)]
          nextino,   \* next pseudo inode number
          mp,        \* mount points: pseudo inode number -> index
          issued,    \* set of <<idx, low>> handed to the client by current occupants
          inited,    \* INIT done
          negopt,    \* negotiated options (opaque token learned from the INIT reply)
          noopen, noopendir   \* OPEN / OPENDIR answered ENOSYS by the VFS itself
avars == <<slot, mroot, given, gmap, pn, nextino, mp, issued, inited, negopt, noopen, noopendir>>

Vacant == ""
NoRoot == [low |-> "0", uid |-> Zero, gid |-> Zero]
RootNode == 1
Occupied(i) == slot[i] # Vacant
Full == \A i \in 1..N-1 : Occupied(i)

\* the mapping a mount uses: its own if it was given one, else the global one
AEff(idx) == IF Given(given[idx]) THEN given[idx] ELSE gmap

(* ------------------------------------------------------------------------------------------ *)
(* pseudo tree; a path is the raw list of components of the string split at '/'
   ("/a/b" = <<"", "a", "b">>): "" and "." are skipped, ".." goes to the parent *)
Child(t, node, name) ==
  LET ks == t[node].kids
      hit == {i \in 1..Len(ks) : t[ks[i]].name = name}
  IN IF hit = {} THEN 0 ELSE ks[CHOOSE i \in hit : TRUE]
RECURSIVE WalkT(_, _, _)
WalkT(t, node, comps) ==
  IF comps = <<>> THEN node
  ELSE LET c == Head(comps) IN
       IF c = "" \/ c = "." THEN WalkT(t, node, Tail(comps))
       ELSE IF c = ".." THEN WalkT(t, t[node].parent, Tail(comps))
       ELSE LET k == Child(t, node, c) IN IF k = 0 THEN 0 ELSE WalkT(t, k, Tail(comps))
Walk(comps) == WalkT(pn, RootNode, comps)
\* creates the missing directories with consecutive numbers; result [t, next, node]
RECURSIVE MkT(_, _, _, _)
MkT(t, nx, node, comps) ==
  IF comps = <<>> THEN [t |-> t, next |-> nx, node |-> node]
  ELSE LET c == Head(comps) IN
       IF c = "" \/ c = "." THEN MkT(t, nx, node, Tail(comps))
       ELSE IF c = ".." THEN MkT(t, nx, t[node].parent, Tail(comps))
       ELSE LET k == Child(t, node, c) IN
            IF k # 0 THEN MkT(t, nx, k, Tail(comps))
            ELSE LET t2 == (nx :> [parent |-> node, name |-> c, kids |-> <<>>]) @@
                           [t EXCEPT ![node].kids = Append(@, nx)]
                 IN MkT(t2, nx + 1, nx, Tail(comps))
EmptyTree == RootNode :> [parent |-> RootNode, name |-> "/", kids |-> <<>>]
IsMp(node) == node \in DOMAIN mp

(* ------------------------------------------------------------------------------------------ *)
AInit(g) ==
  /\ slot = [i \in 0..N-1 |-> Vacant] /\ mroot = [i \in 0..N-1 |-> NoRoot]
  /\ given = [i \in 0..N-1 |-> NoMap] /\ gmap = Canon(g)
  /\ pn = EmptyTree /\ nextino = 2 /\ mp = <<>> /\ issued = {}
  /\ inited = FALSE /\ negopt = "" /\ noopen = TRUE /\ noopendir = TRUE

(* mount(path, backend b reporting root entry rt, mapping m) returned index idx *)
AMountPre(idx) == idx \in 1..N-1 /\ ~Occupied(idx)
\* a failure is allowed only for: a path that is not absolute, a backend that refused, no index left
AMountFailPre(abs, backend_ok) == ~abs \/ ~backend_ok \/ Full
\* (the singleton quantifiers make TLC evaluate r and old once instead of once per array element)
AMountEff(comps, b, m, rt, idx) ==
  \E r \in {MkT(pn, nextino, RootNode, comps)} :
  \E old \in {IF r.node \in DOMAIN mp THEN mp[r.node] ELSE 0} :     \* over-mount: the previous mount loses its index
     /\ pn' = r.t /\ nextino' = r.next
     /\ slot' = [i \in 0..N-1 |-> IF i = idx THEN b ELSE IF i = old /\ old # 0 THEN Vacant ELSE slot[i]]
     /\ mroot' = [i \in 0..N-1 |-> IF i = idx THEN rt ELSE IF i = old /\ old # 0 THEN NoRoot ELSE mroot[i]]
     /\ given' = [i \in 0..N-1 |-> IF i = idx THEN m ELSE IF i = old /\ old # 0 THEN NoMap ELSE given[i]]
     /\ mp' = (r.node :> idx) @@ mp
     /\ issued' = {x \in issued : x[1] # idx /\ x[1] # old}
     /\ UNCHANGED <<gmap, inited, negopt, noopen, noopendir>>

(* umount(path) *)
AUmountPre(abs, comps) == abs /\ Walk(comps) # 0 /\ IsMp(Walk(comps))
\* rm = the instance was configured with set_remove_pseudo_root(): the pseudo directory of the mount point goes too
\* (its number is not re-used; a later mount at the path makes a new directory)
AUmountEff(comps, rm) ==
  \E node \in {Walk(comps)} : \E idx \in {mp[node]} :
  /\ slot' = [slot EXCEPT ![idx] = Vacant] /\ mroot' = [mroot EXCEPT ![idx] = NoRoot]
  /\ given' = [given EXCEPT ![idx] = NoMap]
  /\ mp' = [n \in DOMAIN mp \ {node} |-> mp[n]]
  /\ issued' = {x \in issued : x[1] # idx}
  /\ pn' = IF rm /\ node # RootNode
            THEN [n \in DOMAIN pn \ {node} |-> IF n = pn[node].parent THEN [pn[n] EXCEPT !.kids = SelectSeq(@, LAMBDA k : k # node)] ELSE pn[n]]
            ELSE pn
  /\ UNCHANGED <<gmap, nextino, inited, negopt, noopen, noopendir>>

(* restore_mount(b, idx, path) on a live instance where path is mounted at idx: the backend is re-attached in
   place; the index now holds b (with the root entry it reports), everything else is unchanged *)
ARemountPre(abs, comps, idx) == abs /\ Walk(comps) # 0 /\ IsMp(Walk(comps)) /\ mp[Walk(comps)] = idx
ARemountEff(b, rt, idx) ==
  /\ slot' = [slot EXCEPT ![idx] = b] /\ mroot' = [mroot EXCEPT ![idx] = rt]
  /\ UNCHANGED <<given, gmap, pn, nextino, mp, issued, inited, negopt, noopen, noopendir>>

(* INIT: allowed once; zmo/zmod = the client supports zero-message open / opendir *)
AInitPre == ~inited
AInitEff(opts, zmo, zmod) ==
  /\ inited' = TRUE /\ negopt' = opts
  /\ noopen' = (noopen /\ zmo) /\ noopendir' = (noopendir /\ zmod)
  /\ UNCHANGED <<slot, mroot, given, gmap, pn, nextino, mp, issued>>
\* INIT refused because a mounted backend refuses its init(): the VFS stays un-negotiated (a later INIT is a
\* first INIT again); what the code promises beyond that: the open/opendir switches have already followed the
\* client's capabilities
AInitRefusedEff(zmo, zmod) ==
  /\ noopen' = (noopen /\ zmo) /\ noopendir' = (noopendir /\ zmod)
  /\ UNCHANGED <<slot, mroot, given, gmap, pn, nextino, mp, issued, inited, negopt>>

(* save + restore into a fresh instance + re-attaching the backends: a stuttering step *)
ASaveRestore == UNCHANGED avars

AIssue(S) == issued' = issued \cup S /\ UNCHANGED <<slot, mroot, given, gmap, pn, nextino, mp, inited, negopt, noopen, noopendir>>

(* ------------------------------------------------------------------------------------------ *)
(* Where a client inode number [idx, low (decimal string), lown (the number if < 2^31 else -1)] leads:
     kind "mount"   backend slot[idx] must receive inode `low`; `live` = the number was issued by the
                    current occupant (or is its root), so the request must be served;
                    `via` = "root" when the pseudo root is covered by a mount on "/"
     kind "pseudo"  a pseudo directory: no backend is involved
     kind "none"    vacant index or unknown pseudo number: the request fails, no backend is called *)
Target(ino) ==
  IF ino.idx = 0 THEN
     IF ino.lown = RootNode /\ IsMp(RootNode)
     THEN [kind |-> "mount", idx |-> mp[RootNode], low |-> mroot[mp[RootNode]].low, live |-> TRUE, via |-> "root"]
     ELSE IF ino.lown \in DOMAIN pn THEN [kind |-> "pseudo", idx |-> 0, low |-> ino.low, live |-> TRUE, via |-> "pseudo"]
     ELSE [kind |-> "none", idx |-> 0, low |-> ino.low, live |-> FALSE, via |-> "unknown-pseudo"]
  ELSE IF ino.idx \notin 1..N-1 \/ ~Occupied(ino.idx)
       THEN [kind |-> "none", idx |-> ino.idx, low |-> ino.low, live |-> FALSE, via |-> "vacant"]
       ELSE [kind |-> "mount", idx |-> ino.idx, low |-> ino.low,
             live |-> (<<ino.idx, ino.low>> \in issued \/ ino.low = mroot[ino.idx].low), via |-> "index"]
\* what a name resolves to in a pseudo directory: 0 = no such entry
PseudoChild(node, name) ==
  IF name = "." THEN node ELSE IF name = ".." THEN pn[node].parent ELSE Child(pn, node, name)
\* the client number of a pseudo node: the root of the mount when the node is a mount point
NodeIno(node) == IF IsMp(node) THEN [idx |-> mp[node], low |-> mroot[mp[node]].low]
                 ELSE [idx |-> 0, low |-> ToString(node)]
=============================================================================
