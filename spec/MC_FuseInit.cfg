SPECIFICATION Spec
CONSTANT ExtMarker = TRUE
INVARIANT InvReply
INVARIANT InvSwitches
INVARIANT InvSecond
CHECK_DEADLOCK FALSE
