"""C20: the asynchronous request path behaves like the synchronous one (engine: asyncx).

Design level: two instances of WireFrame.tla (Async = FALSE / TRUE) over the same request class must
reach the same outcome (MC_WireFrameCmp.tla). Implementation: the same request bytes, reply capacity and
segmentation go through Server::handle_message and Server::async_handle_message of one Server<ScriptedFs>
(harness built with fuse-backend-rs's async-io feature); TLC judges every pair with Trace_Async.tla."""
import json
import os
import re

from . import common as C
from .wire import export_abi, export_cases

GENERIC_REPLAY = True   # scenarios are a deterministic function of (tier, seed); see check --replay
LEVEL = {"C20": "model_checking"}


def viols_of(out):
    return C.parse_viols(out["output"] if isinstance(out, dict) else out)


def run_c20(ctx):
    bindir = C.build_harness(bins=["asyncx"], features="async", target="target-async")
    abi = export_abi(ctx)
    mc = C.tlc_mc(ctx, "MC_WireFrameCmp", cfg="MC_WireFrameCmp.cfg", workers=6, timeout=1500, xmx="8g")
    for inv in mc["violated"]:
        ctx.violation("C20|model|" + inv, {"tlc": mc["output"][-3000:]}, replay_src={"tlc_output": mc["output"][-6000:]})
    ndiff = sum(1 for l in mc["output"].splitlines() if l.startswith('"{'))
    cases, ncls = export_cases(ctx)
    stride, kwf, nrand = (2, 3, 5000) if ctx.quick else (1, 40, 150000)
    trace = ctx.path("pairs.ndjson")
    import subprocess
    e = dict(os.environ, VERIF_SEED=str(ctx.seed), RUST_BACKTRACE="0")
    hr = subprocess.run([os.path.join(bindir, "asyncx")] + [str(a) for a in (abi, trace, cases, stride, kwf, nrand)], env=e,
                        stdout=subprocess.PIPE, stderr=subprocess.PIPE, text=True, timeout=3000)
    if hr.returncode != 0:
        # the process died inside the code under test (abort after memory corruption, stack overflow, panic outside
        # catch_unwind): a result, not a tool problem. The last "Run" line says which handler was running on which input.
        last = None
        try:
            with open(trace) as f:
                for line in f:
                    try:
                        r = json.loads(line)
                    except Exception:
                        continue
                    if r.get("e") == "Run":
                        last = r
        except OSError:
            pass
        if last is None:
            raise C.ToolError("asyncx exited %d before running anything: %s" % (hr.returncode, hr.stderr[-500:]))
        ctx.violation("C20|%s|crash|%s-handler|%s" % (last["op"], last["side"], last["tr"]),
                      {"exit": hr.returncode, "stderr": hr.stderr[-1500:], "input": last}, replay_src={"input": last, "seed": ctx.seed})
        # keep what was recorded before the crash (drop the torn last line)
        good = []
        with open(trace) as f:
            for line in f:
                try:
                    good.append(json.loads(line))
                except Exception:
                    pass
        good.append({"e": "End"})
        C.write_ndjson(trace, good)
    res = C.tlc_trace(ctx, "Trace_Async", trace, timeout=3000, xmx="8g")
    if not res["accepted"]:
        raise C.ToolError("pair trace not consumed")
    rows = C.read_ndjson(trace)
    pairs = [r for r in rows if r.get("e") == "Pair"]
    ctx.traces += len(pairs)
    ctx.events += len(rows)
    for sig, idx, detail in viols_of(res["output"]):
        ctx.violation(sig, {"pair_index": idx, "sync_vs_async": detail}, replay_src={"pair": rows[idx - 1] if idx - 1 < len(rows) else None, "seed": ctx.seed})
    # binding demo
    step = max(1, len(rows) // 3000)
    bad = [json.loads(json.dumps(r)) for r in rows[::step]]
    k = 0
    for r in bad:
        if r.get("e") == "Pair" and r["sync"]["present"] and r["async"]["present"] and k == 0:
            r["async"]["sum"] = "0" * 16
            k = 1
        elif r.get("e") == "Pair" and len(r["async"]["calls"]) == 2 and k == 1:
            r["async"]["calls"][1]["m"] = "getattr"
            k = 2
    bf = ctx.path("corrupt.ndjson")
    C.write_ndjson(bf, bad)
    bres = C.tlc_trace(ctx, "Trace_Async", bf)
    sigs = sorted({v[0].split("|")[2] for v in viols_of(bres["output"])})
    if "reply-bytes-differ" not in sigs or "filesystem-calls-differ" not in sigs:
        raise C.ToolError("binding demo failed: corrupted pair trace accepted: %s" % sigs)
    gens = {}
    for p in pairs:
        gens[p["gen"]] = gens.get(p["gen"], 0) + 1
    negl = [p for p in pairs if p["gen"] == "neg" and p["op"] == "LOOKUP" and p["cls"].get("negative")]
    if len({p["cls"]["minor"] for p in negl}) < 10:
        raise C.ToolError("coverage gate: negative LOOKUP answers were not compared on servers negotiated at all ten minors")
    ctx.extra.update({
        "distinct_nontrivial": len({(p["op"], p["tr"], p["gen"], p["cap"] < 16, p["len_huge"], p["cls"].get("minor")) for p in pairs}),
        "rule": "pairs (sync, async) over every %d-th of the %d request classes of WireFrame.tla, %d well-formed valuations per opcode and transport, %d random/mutated byte strings, and servers negotiated at minors 0,3,4,5,11,12,22,23,33,38 (negative/positive LOOKUP answers, one valuation per opcode); distinct = (opcode, transport, generator, capacity class, oversize)" % (stride, ncls, kwf, nrand),
        "pairs_by_generator": gens,
        "design_level_differing_classes": ndiff,
        "binding_demo": [{"corruption": "change the async reply digest; change the async call's method", "rejected_with": sigs}],
    })
    for p in pairs[:1] + [x for x in pairs if x["gen"] == "random"][:1]:
        ctx.sample({"op": p["op"], "tr": p["tr"], "cap": p["cap"], "hex": p["hex"][:120], "sync": p["sync"], "async": p["async"]})
    ctx.assumptions += ["the scripted filesystem's asynchronous operations are its synchronous ones; results that the asynchronous API cannot express (passthrough backing id) are not scripted",
                        "futures are polled with a no-op waker (nothing in the scripted paths waits); fusedev replies are read back from a memfd"]


PROPS = {"C20": run_c20}
