------------------------------- MODULE PtRefs -------------------------------
(* A-level specification (the judge) for the passthrough properties
     C08  an inode stays valid exactly as long as the client holds lookup references      (object Refs)
     C15  handles and descriptors are released when the client releases them              (object Resources)
     C16  directory listing returns each entry exactly once across chunking/resumption    (object DirStream)

   The state is what the properties talk about, as the CLIENT can know it: which entries it was given,
   what it forgot, which handles it holds, which stream positions it has seen. It is written as pure
   operators over one state record S so that the same text is used
     * by Trace_PtRefs.tla to judge logs of the real code (monitor mode), and
     * by PtRefsImpl.tla, where TLC checks that the implementation-shaped model never produces an
       observation A rejects (S.viol stays empty).
   A never disables a step: an observation A does not allow adds a signature "Cxx|...|what" to S.viol.

   Readings (the weaker one wins):
     * file identity is the host's (file-handle bytes = inode + generation), numbers are the server's;
       "one number per file, one file per number" is required among files with a positive count only.
     * forget is addressed to a number; it is charged to every valid file carrying that number (exactly
       one, if the server is right).
     * file-handle mode pins nothing on the host: once a referenced file has lost its last name there
       (S.ghost, a set of FILES) requests on its number need not behave as on the host any more -- the
       property text exempts it ("or (when inodes are tracked by open descriptors) unlinked"). Its count
       is still held and still has to be released, and its number still denotes no OTHER file: a new host
       file delivered under the number of a ghost is a violation -- except with use_host_ino, where the
       number is a function of the host inode number and a new file that re-uses the host inode number of
       the vanished one inherits it; A then says nothing more about that number (S.taint).
     * destroy ends the session: counts, numbers and handles start over.
     * resources: only quiescent states are constrained, componentwise "no more than" the values logged
       for the freshly started server of the same configuration in the same process (S.base).
     * a handle is "usable" if a request carrying it succeeds; a request on a live handle with its own,
       still valid inode must not be refused with EBADF.
     * directory streams: A LEARNS the order from the replies (succ), per unchanged directory, and
       requires every later observation to agree; "buffer that can hold at least the next entry" is a
       precondition: with less room an error or an empty reply is accepted and teaches nothing. *)
EXTENDS Naturals, Integers, Sequences, FiniteSets, TLC

ROOT == 1          \* number id of the root (ids are assigned by first appearance; the root is known first)
RootF == 1         \* file id of the exported directory (first row of the first stat walk)
NoEnt == <<"", "END">>

Get(f, x, d) == IF x \in DOMAIN f THEN f[x] ELSE d
Max(a, b) == IF a > b THEN a ELSE b
Upd(f, x, v) == [y \in DOMAIN f \cup {x} |-> IF y = x THEN v ELSE f[y]]
Range(s) == {s[i] : i \in DOMAIN s}

\* signatures may carry a "#detail" suffix (numbers involved) for the reader of a trace verdict; model checking
\* configurations switch it off (CONSTANT WithDetail <- ...) so that signatures are a finite set
WithDetail == TRUE
Det(s) == IF WithDetail THEN s ELSE ""
Sig3(p, a, b) == p \o "|" \o a \o "|" \o b
Sig4(p, a, b, c) == p \o "|" \o a \o "|" \o b \o "|" \o c

(* ------------------------------------------------------------------------------------------- *)
Init(c) ==
  [ cfg   |-> c,             \* [fh, hostino, no_open, no_opendir, via, tag, kind, base[fds,inodes,handles,cookies]]
    refs  |-> <<>>,          \* file id -> entries delivered minus forgotten (saturating)
    num   |-> <<>>,          \* file id -> number id (sticky)
    at    |-> <<>>,          \* number id -> files that were ever delivered under it (index of num)
    alive |-> {},            \* files that have a name on the host now
    nl    |-> {},            \* their link counts: set of <<file id, nlink>>
    ghost |-> {},            \* files that lost their last host name while referenced, file-handle mode
    taint |-> {},            \* numbers A says nothing about any more (use_host_ino take-over of a ghost's number)
    hnd   |-> <<>>,          \* live handles: handle id -> number id
    hro   |-> {},            \* those not opened for writing (opendir, O_RDONLY): the host itself answers EBADF to a write through them
    base  |-> c.base,
    susp  |-> "-",           \* operation blamed for a surplus found at the next quiescent point
    rank  |-> 0,
    up    |-> TRUE,          \* FALSE between destroy and the next successful init: nothing is claimed
    leakop|-> "-",           \* operation after which an unexplained inode object first appeared
    seen  |-> {},            \* numbers probed so far
    slack |-> 0,             \* inode objects beyond root + valid numbers that were already reported
    lastop|-> "start",
    succ  |-> <<>>,          \* directory number id -> (cookie -> <<name, offset>> | NoEnt)
    nameoff |-> <<>>,        \* directory -> name -> offset   (pairwise distinct names / offsets)
    offname |-> <<>>,        \* directory -> offset -> name
    lst   |-> <<>>,          \* directory -> set of <<name, type>> on the host (logged)
    names |-> <<>>,          \* directory -> set of names on the host
    raw   |-> <<>>,          \* directory -> raw host stream incl. "." and ".." (classification only)
    viol  |-> {} ]

FilesAt(S, k) == {f \in Get(S.at, k, {}) : S.num[f] = k /\ Get(S.refs, f, 0) > 0} \cup (IF k = ROOT THEN {RootF} ELSE {})
Valid(S, k) == FilesAt(S, k) # {}
ValidNums(S) == {S.num[f] : f \in {g \in DOMAIN S.num : Get(S.refs, g, 0) > 0}} \ {ROOT}
Quiescent(S) == DOMAIN S.hnd = {} /\ \A f \in DOMAIN S.refs : S.refs[f] = 0
Tracked(S) == S.cfg.via # "pseudo"      \* pseudo directories have no lookup counts

(* ---------------------------------------- Refs (C08) ---------------------------------------- *)
\* an entry for host file f carrying number k was delivered to the client by operation op
Entry(S, op, f, k) ==
  LET others == FilesAt(S, k) \ {f}
      \* use_host_ino: a new file that re-uses the host inode number of vanished files inherits their number
      takeover == S.cfg.hostino /\ others # {} /\ others \subseteq S.ghost /\ f \notin S.ghost
      bad0 == (IF f = 0 THEN {Sig3("C08", op, "entry-for-no-host-file")} ELSE {})
         \cup (IF f # 0 /\ f \in DOMAIN S.num /\ S.num[f] # k /\ k \notin S.taint /\ S.num[f] \notin S.taint
               THEN {Sig3("C08", op, "number-changed")} ELSE {})
         \cup (IF f # 0 /\ k \notin S.taint /\ others # {} /\ ~takeover
               THEN {Sig3("C08", op, "number-shared")} ELSE {})
      bad == {x \o Det("#file " \o ToString(f) \o " number " \o ToString(k)) : x \in bad0}
  IN IF ~Tracked(S) THEN S
     ELSE IF f = 0 \/ f = RootF THEN [S EXCEPT !.viol = @ \cup bad]
     ELSE [S EXCEPT !.refs = Upd(@, f, Get(@, f, 0) + 1), !.num = Upd(@, f, k), !.at = Upd(@, k, Get(@, k, {}) \cup {f}), !.viol = @ \cup bad,
                    !.taint = IF takeover THEN @ \cup {k} ELSE @]

\* forget(k, c): saturating, root exempt
Forget(S, k, c) ==
  LET RECURSIVE Dec(_, _)
      Dec(r, X) == IF X = {} THEN r
                   ELSE LET f == CHOOSE x \in X : TRUE
                        IN Dec(IF S.num[f] = k THEN [r EXCEPT ![f] = IF @ > c THEN @ - c ELSE 0] ELSE r, X \ {f})
  IN IF k = ROOT THEN S ELSE [S EXCEPT !.refs = Dec(@, Get(S.at, k, {}))]

RECURSIVE ForgetAll(_, _)
ForgetAll(S, items) == IF items = <<>> THEN S ELSE ForgetAll(Forget(S, Head(items)[1], Head(items)[2]), Tail(items))

\* the stat walk of the host tree: rows <<file id, nlink>>
HostSet(S, rows) ==
  LET al == {r[1] : r \in Range(rows)}
      g  == IF S.cfg.fh THEN {x \in DOMAIN S.num : Get(S.refs, x, 0) > 0 /\ x \notin al} ELSE {}
  IN [S EXCEPT !.alive = al, !.nl = Range(rows), !.ghost = @ \cup g]

\* getattr on number k after operation S.lastop: row = <<k, status, refcount | -1, file id of the attributes | -1, nlink>>
\* After a discrepancy has been reported A adopts the server's count for that number (one defect = one report,
\* attributed to the operation after which it was first seen).
ProbeRow(S, row) ==
  LET k == row[1]  st == row[2]  rc == row[3]  af == row[4]  nlk == row[5]
      op == S.lastop
      fs == FilesAt(S, k)
      RECURSIVE Sum(_)
      Sum(X) == IF X = {} THEN 0 ELSE LET x == CHOOSE y \in X : TRUE IN Get(S.refs, x, 0) + Sum(X \ {x})
      want == IF fs \ {RootF} = {} THEN -1 ELSE Sum(fs \ {RootF})
      rdp == op \in {"readdir", "readdirplus"}
      refsig == {Sig3("C08", op, "refcount")} \cup (IF rdp THEN {Sig3("C16", S.cfg.via, IF op = "readdirplus" THEN "plus-refs" ELSE "plain-refs")} ELSE {})
      skip == k \in S.taint \/ ~Tracked(S) \/ ~S.up
      live == fs \ S.ghost            \* files under this number that still exist on the host
      \* a number seen for the first time whose count is too high while an already reported surplus inode object is
      \* unexplained: that object has become visible, it is not reported a second time
      absorb == k \notin S.seen /\ S.slack > 0 /\ want >= 1 /\ rc > want
      bad0 ==
        IF skip THEN {}
        ELSE IF k = ROOT THEN (IF st # "OK" THEN {Sig3("C08", op, "root-unresolvable")} ELSE {})
        ELSE IF fs # {} /\ live = {} THEN       \* only vanished files: the count is still held, the answer is free
               (IF rc # want /\ ~absorb THEN refsig ELSE {})
        ELSE IF fs # {} THEN
               (IF st # "OK" THEN {Sig3("C08", op, "valid-number-fails")} ELSE {})
          \cup (IF st = "OK" /\ af # -1 /\ af \notin live THEN {Sig3("C08", op, "wrong-file")} ELSE {})
          \cup (IF st = "OK" /\ af \in fs /\ af \in S.alive /\ <<af, nlk>> \notin S.nl THEN {Sig3("C08", op, "wrong-attr")} ELSE {})
          \cup (IF rc # want /\ st = "OK" /\ ~absorb THEN refsig ELSE {})
        ELSE IF st # "EBADF" THEN {Sig3("C08", op, "stale-number-resolves")} \cup (IF rdp THEN refsig ELSE {})
        ELSE IF rc # -1 THEN {Sig3("C08", op, "inode-not-released")} ELSE {}
      bad == {x \o Det("#number " \o ToString(k) \o " count " \o ToString(rc) \o " expected " \o ToString(want)) : x \in bad0}
      owners == {f \in Get(S.at, k, {}) : S.num[f] = k}
      tgt == IF fs \ {RootF} # {} THEN CHOOSE f \in fs \ {RootF} : TRUE
             ELSE IF af > 0 /\ af # RootF THEN af
             ELSE IF owners # {} THEN CHOOSE f \in owners : TRUE ELSE 0
      resync == ~skip /\ k # ROOT /\ rc # want
  IN IF ~resync THEN [S EXCEPT !.viol = @ \cup bad, !.seen = @ \cup {k}]
     ELSE IF tgt = 0 THEN [S EXCEPT !.viol = @ \cup bad, !.taint = @ \cup {k}, !.seen = @ \cup {k}]
     ELSE [S EXCEPT !.viol = @ \cup bad, !.seen = @ \cup {k},
                    !.refs = [f \in DOMAIN @ \cup {tgt} |-> IF f = tgt THEN Max(rc, 0) ELSE IF f \in owners THEN 0 ELSE @[f]],
                    !.num = Upd(@, tgt, k), !.at = Upd(@, k, Get(@, k, {}) \cup {tgt})]

RECURSIVE ProbeRows(_, _)
ProbeRows(S, rows) == IF rows = <<>> THEN S ELSE ProbeRows(ProbeRow(S, Head(rows)), Tail(rows))

(* -------------------------------------- Resources (C15) ------------------------------------- *)
DirOps == {"readdir", "readdirplus", "releasedir", "opendir", "fsyncdir"}
HandleMode(S, op) == Tracked(S) /\ (IF op \in DirOps THEN ~S.cfg.no_opendir ELSE ~S.cfg.no_open)
\* blame for a surplus found at the next quiescent point: injected operation > destroy > first failed operation
Rank(S, op, status, failat) == IF failat >= 0 THEN 3 ELSE IF op \in {"destroy", "init"} THEN 2 ELSE IF status # "OK" THEN 1 ELSE 0
Label(op, status) == IF status = "OK" THEN op ELSE op \o "-failed"
Noted(S, op, status, failat) ==
  LET r == Rank(S, op, status, failat) IN
  [S EXCEPT !.lastop = Label(op, status), !.susp = IF r > S.rank THEN Label(op, status) ELSE @, !.rank = Max(@, r)]

\* open / opendir / create returned handle h (0 = none) for number k
OpenH(S, op, k, h, ro) ==
  IF h = 0 THEN S
  ELSE [S EXCEPT !.hnd = Upd(@, h, k), !.hro = IF ro THEN @ \cup {h} ELSE @ \ {h},
                 !.viol = @ \cup (IF h \in DOMAIN S.hnd THEN {Sig4("C15", S.cfg.tag, op, "handle-not-distinct")} ELSE {})]

\* a request carrying (k, h) answered st
UseH(S, op, k, h, st) ==
  IF ~HandleMode(S, op) THEN S
  ELSE LET live == h \in DOMAIN S.hnd /\ S.hnd[h] = k
           bad == (IF ~live /\ st = "OK" THEN {Sig4("C15", S.cfg.tag, op, IF h \in DOMAIN S.hnd THEN "handle-accepted-with-other-inode" ELSE "released-handle-accepted")} ELSE {})
             \cup (IF live /\ st = "EBADF" /\ FilesAt(S, k) \ S.ghost # {} /\ k \notin S.taint /\ ~(op = "write" /\ h \in S.hro)
                   THEN {Sig4("C15", S.cfg.tag, op, "live-handle-refused")} ELSE {})
       IN [S EXCEPT !.viol = @ \cup bad]

\* fstat through handle h of number k answered st with the attributes of host file af (-1: cannot tell): a handle
\* keeps denoting the file it was opened on until it is released
HandleFile(S, op, k, h, st, af) ==
  IF ~HandleMode(S, op) THEN S
  ELSE LET live == h \in DOMAIN S.hnd /\ S.hnd[h] = k
           bad == IF live /\ st = "OK" /\ af # -1 /\ k \notin S.taint /\ af \notin FilesAt(S, k) /\ Valid(S, k)
                  THEN {Sig4("C15", S.cfg.tag, op, "handle-denotes-other-file")} ELSE {}
       IN [S EXCEPT !.viol = @ \cup bad]

\* RELEASE / RELEASEDIR of (k, h) answered st. A release of a handle the client holds ALWAYS ends the handle, whatever the
\* answer (the client does not look at it): what the server still holds for it afterwards shows in the census. Only EBADF
\* -- "no such handle" -- for a handle the client does hold is itself an answer A rejects.
ReleaseH(S, op, k, h, st) ==
  IF ~HandleMode(S, op) THEN S
  ELSE LET live == h \in DOMAIN S.hnd /\ S.hnd[h] = k
           bad == (IF ~live /\ st = "OK" THEN {Sig4("C15", S.cfg.tag, op, IF h \in DOMAIN S.hnd THEN "handle-accepted-with-other-inode" ELSE "released-handle-accepted")} ELSE {})
             \cup (IF live /\ st = "EBADF" THEN {Sig4("C15", S.cfg.tag, op, "release-refused")} ELSE {})
       IN [S EXCEPT !.viol = @ \cup bad,
                    !.hnd = IF (live \/ st = "OK") /\ h \in DOMAIN @ THEN [x \in DOMAIN @ \ {h} |-> @[x]] ELSE @]

Destroy(S) ==
  [S EXCEPT !.up = FALSE, !.susp = "destroy", !.rank = 2, !.leakop = "-", !.hnd = <<>>, !.hro = {}, !.refs = <<>>, !.num = <<>>, !.at = <<>>, !.ghost = {}, !.taint = {}, !.slack = 0, !.seen = {}, !.succ = <<>>, !.nameoff = <<>>, !.offname = <<>>]

\* init answered st. After destroy it opens the next session. A second INIT without a DESTROY changes nothing the client
\* holds: inodes, counts and open handles stay as they are (handles stay valid and distinct); only DESTROY releases them.
Inited(S, st) == IF st = "OK" THEN [S EXCEPT !.up = TRUE] ELSE S

\* which operation a surplus found at a quiescent point is blamed on (a label for the reader; model-checking
\* configurations replace it by a constant so that the set of signatures does not depend on the heuristic)
BlameLabel(lk, susp) == IF lk # "-" THEN lk ELSE susp

\* census r = [fds, inodes, handles, cookies] after the last operation
ResCheck(S, r) ==
  IF ~S.up THEN S ELSE
  LET q == Quiescent(S)
      over == {x \in {"fds", "inodes", "handles", "cookies"} : r[x] > S.base[x]}
      \* "its resources are released": live inode objects = root + numbers with a positive count (S.slack: already reported)
      delta == r.inodes - (1 + Cardinality(ValidNums(S)))
      chk08 == Tracked(S) /\ S.taint = {}
      newleak == chk08 /\ delta > S.slack
      lk == IF newleak /\ S.leakop = "-" THEN S.lastop ELSE S.leakop
      b15 == IF q THEN {Sig4("C15", S.cfg.tag, BlameLabel(lk, S.susp), x) : x \in over} ELSE {}
      b08 == IF chk08 /\ delta > S.slack THEN {Sig3("C08", S.lastop, "inode-objects-surplus")}
             ELSE IF chk08 /\ delta < 0 /\ delta < S.slack THEN {Sig3("C08", S.lastop, "inode-objects-missing")} ELSE {}
  IN [S EXCEPT !.viol = @ \cup b15 \cup b08,
               \* a surplus is reported once: it becomes part of the baseline; a clean quiescent point clears the blame
               !.base = IF q THEN [x \in DOMAIN @ |-> Max(@[x], r[x])] ELSE @,
               !.slack = IF chk08 THEN delta ELSE @,
               !.leakop = IF q THEN "-" ELSE lk,
               !.susp = IF q THEN "-" ELSE @, !.rank = IF q THEN 0 ELSE @]

(* -------------------------------------- DirStream (C16) ------------------------------------- *)
Packed(name, plus) == ((24 + Len(name) + 7) \div 8) * 8 + (IF plus THEN 128 ELSE 0)
MaxPacked(plus) == 280 + (IF plus THEN 128 ELSE 0)      \* a 255-byte name
LinuxRecLen(name) == ((20 + Len(name) + 7) \div 8) * 8
IsDot(n) == n = "." \/ n = ".."

\* the host listing of directory d was (re)logged: names = <<name, type>>, raw = host getdents order <<name, type, off>>
HostDir(S, d, names, raw) ==
  [S EXCEPT !.lst = Upd(@, d, Range(names)), !.raw = Upd(@, d, raw), !.names = Upd(@, d, {x[1] : x \in Range(names)}),
            !.succ = Upd(@, d, <<>>), !.nameoff = Upd(@, d, <<>>), !.offname = Upd(@, d, <<>>)]

\* classification of a premature empty reply at cookie c with buffer size: the raw host records that follow c are
\* "." / ".." and together with the next real record they exceed the buffer (the server reads the host directory
\* with a buffer of the same size and drops the dot records)
DotsFill(S, d, c, size) ==
  LET rw == Get(S.raw, d, <<>>)
      at == IF c = "0" THEN 0 ELSE IF \E i \in DOMAIN rw : rw[i][3] = c THEN CHOOSE i \in DOMAIN rw : rw[i][3] = c ELSE Len(rw)
      RECURSIVE Dots(_)
      Dots(i) == IF i <= Len(rw) /\ IsDot(rw[i][1]) THEN 1 + Dots(i + 1) ELSE 0
      k == Dots(at + 1)
      nx == at + k + 1
  IN k >= 1 /\ nx <= Len(rw) /\ size >= 24 /\ size < 24 * k + LinuxRecLen(rw[nx][1])

\* a readdir/readdirplus reply: ev = [d, off, size, plus, status, bytes, ents = << <<name, type, off, ino id, file id>> >>]
DirReply(S, ev) ==
  LET d == ev.d   c0 == ev.off   es == ev.ents   via == S.cfg.via
      sc == Get(S.succ, d, <<>>)  no == Get(S.nameoff, d, <<>>)  on == Get(S.offname, d, <<>>)
      known == d \in DOMAIN S.lst
      nms == Get(S.names, d, {})
      Pos(i) == IF i = 1 THEN c0 ELSE es[i - 1][3]
      Lnk(i) == <<es[i][1], es[i][3]>>
      I == DOMAIN es
      need == IF c0 \in DOMAIN sc /\ sc[c0] # NoEnt THEN Packed(sc[c0][1], ev.plus) ELSE MaxPacked(ev.plus)
      enough == ev.size >= need
      V(what) == {Sig3("C16", via, what)}
      badErr == IF ev.status # "OK" /\ known /\ S.cfg.kind \in {"dir", "dirpat"} /\ enough /\ ev.fail_at < 0 THEN V("error-reply") ELSE {}
      bad ==
        IF ev.status # "OK" \/ ~known THEN badErr
        ELSE (IF ev.bytes > ev.size THEN V("reply-exceeds-size") ELSE {})
        \cup (IF \E i \in I : IsDot(es[i][1]) THEN V("dot-entry") ELSE {})
        \cup (IF \E i \in I : es[i][3] = "0" THEN V("zero-offset") ELSE {})
        \cup (IF \E i \in I : Pos(i) \in DOMAIN sc /\ sc[Pos(i)] # Lnk(i) THEN V("stream-order-changed") ELSE {})
        \cup (IF \E i \in I : es[i][1] \in DOMAIN no /\ no[es[i][1]] # es[i][3] THEN V("entry-twice") ELSE {})
        \cup (IF \E i \in I : es[i][3] \in DOMAIN on /\ on[es[i][3]] # es[i][1] THEN V("offset-twice") ELSE {})
        \cup (IF Cardinality({es[i][1] : i \in I}) # Len(es) THEN V("entry-twice") ELSE {})
        \cup (IF Cardinality({es[i][3] : i \in I}) # Len(es) THEN V("offset-twice") ELSE {})
        \cup (IF \E i \in I : ~IsDot(es[i][1]) /\ es[i][1] \notin nms THEN V("unknown-name") ELSE {})
        \cup (IF \E i \in I : es[i][1] \in nms /\ <<es[i][1], es[i][2]>> \notin S.lst[d] /\ ~(via = "pseudo" /\ es[i][2] = 0)
              THEN V("wrong-type") ELSE {})
        \cup (IF es = <<>> /\ c0 \in DOMAIN sc /\ sc[c0] # NoEnt /\ enough
              THEN {Sig3("C16", via, IF DotsFill(S, d, c0, ev.size) THEN "empty-before-end|dots-fill-buffer" ELSE "empty-before-end")} ELSE {})
      NI == {i \in I : Pos(i) \notin DOMAIN sc}                  \* links seen for the first time
      NN == {i \in I : es[i][1] \notin DOMAIN no}
      NO == {i \in I : es[i][3] \notin DOMAIN on}
      newl == [c \in {Pos(i) : i \in NI} |-> Lnk(CHOOSE i \in NI : Pos(i) = c)]
      endl == IF es = <<>> /\ c0 \notin DOMAIN sc /\ ev.size >= MaxPacked(ev.plus) THEN (c0 :> NoEnt) ELSE <<>>
      S1 == IF ev.status # "OK" \/ ~known THEN [S EXCEPT !.viol = @ \cup bad]
            ELSE [S EXCEPT !.viol = @ \cup bad,
                           !.succ = IF NI = {} /\ endl = <<>> THEN @ ELSE Upd(@, d, sc @@ newl @@ endl),
                           !.nameoff = IF NN = {} THEN @ ELSE Upd(@, d, no @@ [n \in {es[i][1] : i \in NN} |-> es[CHOOSE i \in NN : es[i][1] = n][3]]),
                           !.offname = IF NO = {} THEN @ ELSE Upd(@, d, on @@ [o \in {es[i][3] : i \in NO} |-> es[CHOOSE i \in NO : es[i][3] = o][1]])]
      RECURSIVE Taken(_, _)
      Taken(T, i) == IF i > Len(es) THEN T ELSE Taken(Entry(T, "readdirplus", es[i][5], es[i][4]), i + 1)
  IN IF ev.status = "OK" /\ ev.plus THEN Taken(S1, 1) ELSE S1

\* the scenario is over for directory d: the chain from the start must list the host directory exactly once
DirEnd(S, d) ==
  LET sc == Get(S.succ, d, <<>>)
      names == Get(S.names, d, {})
      bound == Cardinality(names) + 2
      RECURSIVE Walk(_, _, _)
      \* result: <<"ok"|"open"|"cycle", names seen>>
      Walk(c, acc, n) ==
        IF n > bound THEN <<"cycle", acc>>
        ELSE IF c \notin DOMAIN sc THEN <<"open", acc>>
        ELSE IF sc[c] = NoEnt THEN <<"ok", acc>>
        ELSE Walk(sc[c][2], Append(acc, sc[c][1]), n + 1)
      w == Walk("0", <<>>, 0)
      V(what) == {Sig3("C16", S.cfg.via, what)}
      bad == IF w[1] = "cycle" THEN V("chain-cycle")
             ELSE IF w[1] = "open" THEN V("chain-incomplete")
             ELSE (IF Range(w[2]) # names THEN V("listing-mismatch") ELSE {})
               \cup (IF Len(w[2]) # Cardinality(Range(w[2])) THEN V("entry-twice") ELSE {})
  IN [S EXCEPT !.viol = @ \cup bad]
=============================================================================
