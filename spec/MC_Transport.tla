------------------------------ MODULE MC_Transport ------------------------------
(* Model-checking instance of TransportImpl (I x A product) for C04 / C17.  Page size 2 so that
   every alignment of short runs against page borders occurs. *)
EXTENDS TransportImpl
MC_Bases4 == 0..3
MC_Bases6 == 0..5
MC_KindsAll == {"R", "W", "F"}
MC_KindsR == {"R"}
MC_KindsW == {"W"}
MC_KindsF == {"F"}
MC_FLens == 0..3
MC_FLens4 == 0..4
MC_Chunks == {1, 9}
MC_Chunks9 == {9}
=============================================================================
