//! The shadow: the same history executed with plain system calls on a second copy of the tree.
//! References to inodes are O_PATH descriptors (the host's way to name an object independently of
//! its path), open handles are ordinary descriptors.  Requests the property itself defines
//! (name gates, ".." at the export root, special files never opened, xattr switched off) are not
//! forwarded to the host: the shadow answers them with `gated` and the A-level rule decides.
use crate::tree::*;
use serde_json::{json, Map};
use std::ffi::CString;
use std::os::unix::ffi::OsStrExt;
use std::path::Path;

pub struct StepRes {
    pub st: String,
    pub stat: Option<libc::stat64>,
    pub r: Map<String, J>,
    pub gated: bool,
}

impl StepRes {
    pub fn new(st: &str) -> Self {
        StepRes { st: st.to_string(), stat: None, r: Map::new(), gated: false }
    }
    pub fn ok() -> Self {
        Self::new("OK")
    }
    pub fn err() -> Self {
        Self::new(&last_err())
    }
    pub fn gate(st: &str) -> Self {
        let mut s = Self::new(st);
        s.gated = true;
        s
    }
    pub fn with_stat(mut self, st: libc::stat64) -> Self {
        self.stat = Some(st);
        self
    }
    pub fn set(mut self, k: &str, v: J) -> Self {
        self.r.insert(k.to_string(), v);
        self
    }
}

pub struct HostH {
    pub fd: i32,
    pub node: usize,
}

pub struct HostSide {
    pub ns: Vec<Option<i32>>,
    pub hs: Vec<Option<HostH>>,
    root_key: (u64, u64),
    pub xattr: bool,
    pub no_open: bool,
    pub no_opendir: bool,
    /// writeback caching negotiated: the client kernel owns O_APPEND (it sends every WRITE with the offset the data
    /// has to go to); the host equivalent of a handle never has O_APPEND
    pub wb: bool,
}

pub fn fstat(fd: i32) -> Option<libc::stat64> {
    let mut st = std::mem::MaybeUninit::<libc::stat64>::zeroed();
    let e = CString::new("").unwrap();
    let r = unsafe { libc::fstatat64(fd, e.as_ptr(), st.as_mut_ptr(), libc::AT_EMPTY_PATH | libc::AT_SYMLINK_NOFOLLOW) };
    if r == 0 {
        Some(unsafe { st.assume_init() })
    } else {
        None
    }
}

pub fn s(op: &J, k: &str) -> String {
    op[k].as_str().unwrap_or("").to_string()
}
pub fn u(op: &J, k: &str) -> u64 {
    op[k].as_u64().unwrap_or(0)
}
pub fn i(op: &J, k: &str) -> i64 {
    op[k].as_i64().unwrap_or(-1)
}
pub fn name_bytes(op: &J, k: &str) -> Vec<u8> {
    // names that are not UTF-8 travel as bytes next to their lossy text: <k>b = [bytes]
    if let Some(a) = op[format!("{}b", k)].as_array() {
        return a.iter().map(|x| x.as_u64().unwrap_or(0) as u8).collect();
    }
    // "long" names are sent as a short description: {"rep": "n", "len": 300}
    match &op[k] {
        J::String(x) => x.as_bytes().to_vec(),
        J::Object(o) => {
            let c = o["rep"].as_str().unwrap_or("n").as_bytes()[0];
            vec![c; o["len"].as_u64().unwrap_or(300) as usize]
        }
        _ => Vec::new(),
    }
}
pub fn bytes(op: &J, k: &str) -> Vec<u8> {
    op[k].as_array().map(|a| a.iter().map(|x| x.as_u64().unwrap_or(0) as u8).collect()).unwrap_or_default()
}
pub fn gated_name(nk: &str, lookup: bool) -> bool {
    nk == "slash" || (!lookup && (nk == "dot" || nk == "dotdot"))
}

/// per-thread credential switch, exactly like a file server has to do it
pub struct Creds(bool, bool);
pub fn switch(uid: u32, gid: u32) -> Option<Creds> {
    let mut g = false;
    let mut us = false;
    unsafe {
        if gid != 0 {
            if libc::syscall(libc::SYS_setresgid, -1i32, gid, -1i32) != 0 {
                return None;
            }
            g = true;
        }
        if uid != 0 {
            if libc::syscall(libc::SYS_setresuid, -1i32, uid, -1i32) != 0 {
                if g {
                    libc::syscall(libc::SYS_setresgid, -1i32, 0, -1i32);
                }
                return None;
            }
            us = true;
        }
    }
    Some(Creds(us, g))
}
impl Drop for Creds {
    fn drop(&mut self) {
        unsafe {
            if self.0 {
                libc::syscall(libc::SYS_setresuid, -1i32, 0, -1i32);
            }
            if self.1 {
                libc::syscall(libc::SYS_setresgid, -1i32, 0, -1i32);
            }
        }
    }
}

fn proc_path(fd: i32) -> CString {
    CString::new(format!("/proc/self/fd/{}", fd)).unwrap()
}

pub const SETFL_MASK: i32 = libc::O_APPEND | libc::O_NONBLOCK | libc::O_NOATIME | libc::O_DIRECT | libc::O_ASYNC;

impl HostSide {
    pub fn new(export: &Path) -> Self {
        let c = cstr(export.as_os_str().as_bytes());
        let fd = hi(unsafe { libc::open(c.as_ptr(), libc::O_PATH | libc::O_NOFOLLOW | libc::O_CLOEXEC) });
        assert!(fd >= 0, "open shadow export");
        let st = fstat(fd).unwrap();
        HostSide { ns: vec![Some(fd)], hs: Vec::new(), root_key: (st.st_dev, st.st_ino), xattr: true, no_open: false, no_opendir: false, wb: false }
    }

    fn node(&self, op: &J, k: &str) -> Option<i32> {
        let x = i(op, k);
        if x < 0 {
            return None;
        }
        self.ns.get(x as usize).and_then(|v| *v)
    }
    fn handle(&self, op: &J) -> Option<i32> {
        let x = i(op, "h");
        if x < 0 {
            return None;
        }
        self.hs.get(x as usize).and_then(|v| v.as_ref()).map(|h| h.fd)
    }
    fn is_root(&self, fd: i32) -> bool {
        fstat(fd).map(|st| (st.st_dev, st.st_ino) == self.root_key).unwrap_or(false)
    }
    fn safe_type(fd: i32) -> bool {
        fstat(fd).map(|st| matches!(st.st_mode & libc::S_IFMT, libc::S_IFREG | libc::S_IFDIR)).unwrap_or(false)
    }

    fn lookup_raw(&mut self, pfd: i32, name: &[u8]) -> StepRes {
        let name: &[u8] = if self.is_root(pfd) && name == b".." { b"." } else { name };
        let c = cstr(name);
        let fd = unsafe { libc::openat(pfd, c.as_ptr(), libc::O_PATH | libc::O_NOFOLLOW | libc::O_CLOEXEC) };
        if fd < 0 {
            return StepRes::err();
        }
        let fd = hi(fd);
        let st = fstat(fd).unwrap();
        self.ns.push(Some(fd));
        StepRes::ok().with_stat(st)
    }

    /// a transient or permanent re-open of the object behind a reference
    fn reopen(fd: i32, flags: i32) -> i32 {
        let p = proc_path(fd);
        let n = unsafe { libc::open(p.as_ptr(), (flags & !libc::O_NOFOLLOW & !libc::O_CREAT) | libc::O_CLOEXEC) };
        if n < 0 {
            return n;
        }
        // keep errno of a failing open intact (hi() is only reached on success)
        hi(n)
    }

    /// descriptor to do I/O on: the handle, or (no_open) a transient re-open of the node
    fn io_fd(&self, op: &J, acc: i32) -> Result<(i32, bool), StepRes> {
        if i(op, "h") >= 0 {
            if self.node(op, "n").is_none() {
                return Err(StepRes::new("NOSLOT"));
            }
            return match self.handle(op) {
                Some(fd) => Ok((fd, false)),
                None => Err(StepRes::new("NOSLOT")),
            };
        }
        let nfd = match self.node(op, "n") {
            Some(fd) => fd,
            None => return Err(StepRes::new("NOSLOT")),
        };
        if !Self::safe_type(nfd) {
            return Err(StepRes::gate("special"));
        }
        let fd = Self::reopen(nfd, acc);
        if fd < 0 {
            return Err(StepRes::err());
        }
        Ok((fd, true))
    }

    pub fn step(&mut self, op: &J) -> StepRes {
        let stripped;
        let op = if self.wb && !op["flags"].is_null() && matches!(op["op"].as_str().unwrap_or(""), "open" | "create" | "read" | "write") {
            let mut o2 = op.clone();
            o2["flags"] = json!(op["flags"].as_i64().unwrap_or(0) & !(libc::O_APPEND as i64));
            stripped = o2;
            &stripped
        } else {
            op
        };
        let o = s(op, "op");
        let uid = u(op, "uid") as u32;
        let gid = u(op, "gid") as u32;
        match o.as_str() {
            "lookup" => {
                let Some(pfd) = self.node(op, "p") else { return StepRes::new("NOSLOT") };
                if gated_name(&s(op, "nk"), true) {
                    return StepRes::gate("EINVAL");
                }
                self.lookup_raw(pfd, &name_bytes(op, "name"))
            }
            "forget" => {
                let x = i(op, "n");
                if x <= 0 {
                    return StepRes::new("NOSLOT");
                }
                match self.ns.get_mut(x as usize).and_then(|v| v.take()) {
                    Some(fd) => {
                        unsafe { libc::close(fd) };
                        StepRes::ok()
                    }
                    None => StepRes::new("NOSLOT"),
                }
            }
            // the root is never forgotten: FORGET / BATCH_FORGET naming it have no effect, whatever the count
            "forget_root" => StepRes::ok(),
            "batch_forget" => {
                for it in op["items"].as_array().cloned().unwrap_or_default() {
                    let n = it[0].as_i64().unwrap_or(-1);
                    if n > 0 {
                        if let Some(fd) = self.ns.get_mut(n as usize).and_then(|v| v.take()) {
                            unsafe { libc::close(fd) };
                        }
                    }
                }
                StepRes::ok()
            }
            // DESTROY + INIT: the session ends, every reference and handle of the client is gone; the export stays as configured
            "remount" => {
                for h in self.hs.iter_mut() {
                    if let Some(x) = h.take() {
                        unsafe { libc::close(x.fd) };
                    }
                }
                for n in self.ns.iter_mut().skip(1) {
                    if let Some(fd) = n.take() {
                        unsafe { libc::close(fd) };
                    }
                }
                StepRes::ok()
            }
            "getattr" => {
                let Some(nfd) = self.node(op, "n") else { return StepRes::new("NOSLOT") };
                let fd = if i(op, "h") >= 0 {
                    match self.handle(op) {
                        Some(h) => h,
                        None => return StepRes::new("NOSLOT"),
                    }
                } else {
                    nfd
                };
                match fstat(fd) {
                    Some(st) => StepRes::ok().with_stat(st),
                    None => StepRes::err(),
                }
            }
            "mkdir" | "mknod" | "symlink" => {
                let Some(pfd) = self.node(op, "p") else { return StepRes::new("NOSLOT") };
                if gated_name(&s(op, "nk"), false) {
                    return StepRes::gate("EINVAL");
                }
                let name = name_bytes(op, "name");
                let c = cstr(&name);
                let mode = (u(op, "mode") & !u(op, "umask")) as u32;
                let r = {
                    let Some(_g) = switch(uid, gid) else { return StepRes::err() };
                    unsafe {
                        match o.as_str() {
                            "mkdir" => libc::mkdirat(pfd, c.as_ptr(), mode),
                            "mknod" => libc::mknodat(pfd, c.as_ptr(), mode, u(op, "rdev")),
                            _ => {
                                let t = cstr(&name_bytes(op, "target"));
                                libc::symlinkat(t.as_ptr(), pfd, c.as_ptr())
                            }
                        }
                    }
                };
                if r < 0 {
                    return StepRes::err();
                }
                self.lookup_raw(pfd, &name)
            }
            "create" => {
                let Some(pfd) = self.node(op, "p") else { return StepRes::new("NOSLOT") };
                if gated_name(&s(op, "nk"), false) {
                    return StepRes::gate("EINVAL");
                }
                let name = name_bytes(op, "name");
                let c = cstr(&name);
                // an existing special file or symlink is never opened
                let mut st0 = std::mem::MaybeUninit::<libc::stat64>::zeroed();
                let ex = unsafe { libc::fstatat64(pfd, c.as_ptr(), st0.as_mut_ptr(), libc::AT_SYMLINK_NOFOLLOW) };
                if ex == 0 {
                    let st0 = unsafe { st0.assume_init() };
                    if !matches!(st0.st_mode & libc::S_IFMT, libc::S_IFREG | libc::S_IFDIR) && (u(op, "flags") as i32 & libc::O_EXCL) == 0 {
                        return StepRes::gate("special");
                    }
                }
                let flags = u(op, "flags") as i32;
                let mode = (u(op, "mode") & !(u(op, "umask") & 0o777)) as u32;
                let fd = {
                    let Some(_g) = switch(uid, gid) else { return StepRes::err() };
                    unsafe { libc::openat(pfd, c.as_ptr(), flags | libc::O_CREAT | libc::O_NOFOLLOW | libc::O_CLOEXEC, mode) }
                };
                if fd < 0 {
                    return StepRes::err();
                }
                let fd = hi(fd);
                let r = self.lookup_raw(pfd, &name);
                if r.st != "OK" {
                    unsafe { libc::close(fd) };
                    return r;
                }
                if self.no_open {
                    unsafe { libc::close(fd) };
                } else {
                    self.hs.push(Some(HostH { fd, node: self.ns.len() - 1 }));
                }
                r
            }
            "link" => {
                let Some(nfd) = self.node(op, "n") else { return StepRes::new("NOSLOT") };
                let Some(pfd) = self.node(op, "p") else { return StepRes::new("NOSLOT") };
                if gated_name(&s(op, "nk"), false) {
                    return StepRes::gate("EINVAL");
                }
                let name = name_bytes(op, "name");
                let c = cstr(&name);
                let e = CString::new("").unwrap();
                let r = unsafe { libc::linkat(nfd, e.as_ptr(), pfd, c.as_ptr(), libc::AT_EMPTY_PATH) };
                if r < 0 {
                    return StepRes::err();
                }
                self.lookup_raw(pfd, &name)
            }
            "unlink" | "rmdir" => {
                let Some(pfd) = self.node(op, "p") else { return StepRes::new("NOSLOT") };
                if gated_name(&s(op, "nk"), false) {
                    return StepRes::gate("EINVAL");
                }
                let c = cstr(&name_bytes(op, "name"));
                let r = unsafe { libc::unlinkat(pfd, c.as_ptr(), if o == "rmdir" { libc::AT_REMOVEDIR } else { 0 }) };
                if r < 0 {
                    StepRes::err()
                } else {
                    StepRes::ok()
                }
            }
            "rename" => {
                let Some(pfd) = self.node(op, "p") else { return StepRes::new("NOSLOT") };
                let Some(p2) = self.node(op, "p2") else { return StepRes::new("NOSLOT") };
                if gated_name(&s(op, "nk"), false) || gated_name(&s(op, "nk2"), false) {
                    return StepRes::gate("EINVAL");
                }
                let a = cstr(&name_bytes(op, "name"));
                let b = cstr(&name_bytes(op, "name2"));
                let r = unsafe { libc::syscall(libc::SYS_renameat2, pfd, a.as_ptr(), p2, b.as_ptr(), u(op, "flags") as u32) };
                if r != 0 {
                    StepRes::err()
                } else {
                    StepRes::ok()
                }
            }
            "open" | "opendir" => {
                let Some(nfd) = self.node(op, "n") else { return StepRes::new("NOSLOT") };
                if (o == "open" && self.no_open) || (o == "opendir" && self.no_opendir) {
                    return StepRes::gate("ENOSYS");
                }
                if !Self::safe_type(nfd) {
                    return StepRes::gate("special");
                }
                let mut flags = u(op, "flags") as i32;
                if o == "opendir" {
                    flags |= libc::O_DIRECTORY;
                }
                let fd = Self::reopen(nfd, flags);
                if fd < 0 {
                    return StepRes::err();
                }
                self.hs.push(Some(HostH { fd, node: i(op, "n") as usize }));
                StepRes::ok()
            }
            "release" | "releasedir" => {
                if (o == "release" && self.no_open) || (o == "releasedir" && self.no_opendir) {
                    return StepRes::gate("ENOSYS");
                }
                let x = i(op, "h");
                match if x >= 0 { self.hs.get_mut(x as usize).and_then(|v| v.take()) } else { None } {
                    Some(h) => {
                        unsafe { libc::close(h.fd) };
                        StepRes::ok()
                    }
                    None => StepRes::new("NOSLOT"),
                }
            }
            "read" => {
                let (fd, tmp) = match self.io_fd(op, libc::O_RDONLY) {
                    Ok(v) => v,
                    Err(e) => return e,
                };
                let flags = u(op, "flags") as i32;
                let res = unsafe {
                    if libc::fcntl(fd, libc::F_SETFL, flags) != 0 {
                        StepRes::err()
                    } else {
                        let len = u(op, "len") as usize;
                        let mut buf = vec![0u8; len];
                        let n = libc::pread64(fd, buf.as_mut_ptr() as *mut libc::c_void, len, u(op, "off") as i64);
                        if n < 0 {
                            StepRes::err()
                        } else {
                            StepRes::ok().set("data", json!(buf[..n as usize].to_vec()))
                        }
                    }
                };
                if tmp {
                    unsafe { libc::close(fd) };
                }
                res
            }
            "write" => {
                let (fd, tmp) = match self.io_fd(op, libc::O_RDWR) {
                    Ok(v) => v,
                    Err(e) => return e,
                };
                let flags = u(op, "flags") as i32;
                let data = bytes(op, "data");
                let res = unsafe {
                    if libc::fcntl(fd, libc::F_SETFL, flags) != 0 {
                        StepRes::err()
                    } else {
                        let n = libc::pwrite64(fd, data.as_ptr() as *const libc::c_void, data.len(), u(op, "off") as i64);
                        if n < 0 {
                            StepRes::err()
                        } else {
                            StepRes::ok().set("n", json!(n))
                        }
                    }
                };
                if tmp {
                    unsafe { libc::close(fd) };
                }
                res
            }
            "fallocate" => {
                let (fd, tmp) = match self.io_fd(op, libc::O_RDWR) {
                    Ok(v) => v,
                    Err(e) => return e,
                };
                let r = unsafe { libc::fallocate64(fd, u(op, "mode") as i32, u(op, "off") as i64, u(op, "len") as i64) };
                let res = if r == 0 { StepRes::ok() } else { StepRes::err() };
                if tmp {
                    unsafe { libc::close(fd) };
                }
                res
            }
            "fsync" | "fsyncdir" => {
                let (fd, tmp) = match self.io_fd(op, libc::O_RDONLY) {
                    Ok(v) => v,
                    Err(e) => return e,
                };
                let r = unsafe { if u(op, "datasync") != 0 { libc::fdatasync(fd) } else { libc::fsync(fd) } };
                let res = if r == 0 { StepRes::ok() } else { StepRes::err() };
                if tmp {
                    unsafe { libc::close(fd) };
                }
                res
            }
            "lseek" => {
                let Some(fd) = self.handle(op) else { return StepRes::new("NOSLOT") };
                let r = unsafe { libc::lseek64(fd, u(op, "off") as i64, u(op, "whence") as i32) };
                if r < 0 {
                    StepRes::err()
                } else {
                    StepRes::ok().set("pos", json!(r))
                }
            }
            "setattr" => self.setattr(op),
            "readlink" => {
                let Some(nfd) = self.node(op, "n") else { return StepRes::new("NOSLOT") };
                let e = CString::new("").unwrap();
                let mut buf = vec![0u8; libc::PATH_MAX as usize];
                let r = unsafe { libc::readlinkat(nfd, e.as_ptr(), buf.as_mut_ptr() as *mut libc::c_char, buf.len()) };
                if r < 0 {
                    StepRes::err()
                } else {
                    StepRes::ok().set("tgt", json!(String::from_utf8_lossy(&buf[..r as usize]).to_string()))
                }
            }
            "statfs" => {
                let Some(nfd) = self.node(op, "n") else { return StepRes::new("NOSLOT") };
                let mut out = std::mem::MaybeUninit::<libc::statvfs64>::zeroed();
                let r = unsafe { libc::fstatvfs64(nfd, out.as_mut_ptr()) };
                if r != 0 {
                    return StepRes::err();
                }
                let v = unsafe { out.assume_init() };
                StepRes::ok().set("statfs", json!({"bsize": v.f_bsize, "frsize": v.f_frsize, "namemax": v.f_namemax}))
            }
            "setxattr" | "getxattr" | "listxattr" | "removexattr" => {
                let Some(nfd) = self.node(op, "n") else { return StepRes::new("NOSLOT") };
                if !self.xattr {
                    return StepRes::gate("ENOSYS");
                }
                let p = proc_path(nfd);
                let xn = cstr(s(op, "xname").as_bytes());
                unsafe {
                    match o.as_str() {
                        "setxattr" => {
                            let v = bytes(op, "xval");
                            let r = libc::setxattr(p.as_ptr(), xn.as_ptr(), v.as_ptr() as *const libc::c_void, v.len(), u(op, "xflags") as i32);
                            if r == 0 {
                                StepRes::ok()
                            } else {
                                StepRes::err()
                            }
                        }
                        "getxattr" => {
                            let size = u(op, "size") as usize;
                            let mut buf = vec![0u8; size.max(1)];
                            let r = libc::getxattr(p.as_ptr(), xn.as_ptr(), buf.as_mut_ptr() as *mut libc::c_void, size);
                            if r < 0 {
                                StepRes::err()
                            } else if size == 0 {
                                StepRes::ok().set("n", json!(r))
                            } else {
                                StepRes::ok().set("val", json!(buf[..r as usize].to_vec()))
                            }
                        }
                        "listxattr" => {
                            let size = u(op, "size") as usize;
                            let mut buf = vec![0u8; size.max(1)];
                            let r = libc::listxattr(p.as_ptr(), buf.as_mut_ptr() as *mut libc::c_char, size);
                            if r < 0 {
                                StepRes::err()
                            } else if size == 0 {
                                StepRes::ok().set("n", json!(r))
                            } else {
                                StepRes::ok().set("names", names_json(&buf[..r as usize]))
                            }
                        }
                        _ => {
                            let r = libc::removexattr(p.as_ptr(), xn.as_ptr());
                            if r == 0 {
                                StepRes::ok()
                            } else {
                                StepRes::err()
                            }
                        }
                    }
                }
            }
            _ => StepRes::new("BADOP"),
        }
    }

    fn setattr(&mut self, op: &J) -> StepRes {
        let Some(nfd) = self.node(op, "n") else { return StepRes::new("NOSLOT") };
        let hfd = if i(op, "h") >= 0 {
            match self.handle(op) {
                Some(h) => Some(h),
                None => return StepRes::new("NOSLOT"),
            }
        } else {
            None
        };
        let valid: Vec<String> = op["valid"].as_array().map(|a| a.iter().map(|x| x.as_str().unwrap_or("").to_string()).collect()).unwrap_or_default();
        let has = |k: &str| valid.iter().any(|v| v == k);
        let a = &op["attr"];
        let p = proc_path(nfd);
        unsafe {
            if has("MODE") {
                let m = u(a, "mode") as u32;
                let r = match hfd {
                    Some(h) => libc::fchmod(h, m),
                    None => libc::chmod(p.as_ptr(), m),
                };
                if r < 0 {
                    return StepRes::err();
                }
            }
            if has("UID") || has("GID") {
                let e = CString::new("").unwrap();
                let uid = if has("UID") { u(a, "uid") as u32 } else { u32::MAX };
                let gid = if has("GID") { u(a, "gid") as u32 } else { u32::MAX };
                if libc::fchownat(nfd, e.as_ptr(), uid, gid, libc::AT_EMPTY_PATH | libc::AT_SYMLINK_NOFOLLOW) < 0 {
                    return StepRes::err();
                }
            }
            if has("SIZE") {
                let sz = u(a, "size") as i64;
                let r = match hfd {
                    Some(h) => libc::ftruncate64(h, sz),
                    None => {
                        if !Self::safe_type(nfd) {
                            return StepRes::gate("special");
                        }
                        let fd = Self::reopen(nfd, libc::O_RDWR | libc::O_NONBLOCK);
                        if fd < 0 {
                            return StepRes::err();
                        }
                        let r = libc::ftruncate64(fd, sz);
                        let sv = *libc::__errno_location();
                        libc::close(fd);
                        *libc::__errno_location() = sv;
                        r
                    }
                };
                if r < 0 {
                    return StepRes::err();
                }
            }
            if has("ATIME") || has("MTIME") {
                let mut tv = [libc::timespec { tv_sec: 0, tv_nsec: libc::UTIME_OMIT }, libc::timespec { tv_sec: 0, tv_nsec: libc::UTIME_OMIT }];
                if has("ATIME_NOW") {
                    tv[0].tv_nsec = libc::UTIME_NOW;
                } else if has("ATIME") {
                    tv[0] = libc::timespec { tv_sec: u(a, "atime") as i64, tv_nsec: u(a, "atime_ns") as i64 };
                }
                if has("MTIME_NOW") {
                    tv[1].tv_nsec = libc::UTIME_NOW;
                } else if has("MTIME") {
                    tv[1] = libc::timespec { tv_sec: u(a, "mtime") as i64, tv_nsec: u(a, "mtime_ns") as i64 };
                }
                let r = match hfd {
                    Some(h) => libc::futimens(h, tv.as_ptr()),
                    None => libc::utimensat(libc::AT_FDCWD, p.as_ptr(), tv.as_ptr(), 0),
                };
                if r < 0 {
                    return StepRes::err();
                }
            }
        }
        match fstat(hfd.unwrap_or(nfd)) {
            Some(st) => StepRes::ok().with_stat(st),
            None => StepRes::err(),
        }
    }

    pub fn close_all(&mut self) {
        for h in self.hs.iter_mut() {
            if let Some(x) = h.take() {
                unsafe { libc::close(x.fd) };
            }
        }
        for n in self.ns.iter_mut() {
            if let Some(fd) = n.take() {
                unsafe { libc::close(fd) };
            }
        }
    }
}

pub fn names_json(buf: &[u8]) -> J {
    let mut v: Vec<String> = buf.split(|b| *b == 0).filter(|x| !x.is_empty()).map(|x| String::from_utf8_lossy(x).to_string()).collect();
    v.sort();
    json!(v)
}
