SPECIFICATION Spec
CONSTANTS
  P = 4096
  M = 251
CHECK_DEADLOCK FALSE
