SPECIFICATION TSpec
CONSTANT ExtMarker = TRUE
CONSTANT StickySw = FALSE
CHECK_DEADLOCK FALSE
