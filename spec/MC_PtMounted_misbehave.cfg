SPECIFICATION Spec
CONSTANTS
  Inos = {"2", "3"}
  Handles = {"1", "2"}
  MaxOps = 3
  Misbehave = TRUE
INVARIANTS NoFalseAlarm
CHECK_DEADLOCK FALSE
