SPECIFICATION Spec
CONSTANTS
  Prog <- P_3S3RC
  Procs = {1,2,3,4,5,6,7}
  Fixed = FALSE
  EnableFirst = TRUE
INVARIANTS LinWeak QuiescentAgrees AtMostOnceI NoInventionI NoLostWakeupQ ParkedRegistered WaitersSane
