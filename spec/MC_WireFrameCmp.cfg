SPECIFICATION Spec
INVARIANT Agree
INVARIANT Report
CHECK_DEADLOCK FALSE
