SPECIFICATION Spec
CONSTANTS
  NameSeq <- NamesAB
  MaxFile = 3
  MaxLen = 5
  Counts <- Counts12
  CfgSet <- CfgDir
  MODE = "dir"
  Fails <- NoFail
  MAXHOST = 2
  BUG_CREATE_LEAK = TRUE
  BUG_PROBE_LEAK = TRUE
  BUG_DOTS = TRUE
  DirN <- Dir04
  MAXSEEK = 35
  SPECIAL_A = FALSE
  Sample = 12
  WithDetail <- NoDetail
  BlameLabel <- AnyBlame
INVARIANTS NoViol Resolves
CONSTRAINT Export
VIEW View
CHECK_DEADLOCK FALSE
