------------------------------- MODULE Session -------------------------------
(* X03 - A level of the /dev/fuse session layer: fuse_backend_rs::transport::fusedev::{FuseSession, FuseChannel}
   (src/transport/fusedev/linux_session.rs) together with the part of the kernel it talks to.

   The module has no variables. It defines
     (1) the SEQUENTIAL object: a state record S (the session, its channels, the kernel connections it created and
         the mounts stacked on its mountpoint) and one operator per public operation giving result and successor
         state, as read from the code. Used by MC_Session (exhaustive API-state exploration, history export,
         requirement invariants) and by Trace_SessionSeq (judge of sequential histories run on real mounts);
     (2) the REQUIREMENTS (what the code promises) as predicates on states / steps;
     (3) the CONCURRENT contract of get_request / wake / umount (token rules), used by SessionImpl (step model of
         the epoll loop) and Trace_Session (judge of recorded concurrent runs).

   What the code promises, as read (doc comments + code), and how it is read here:
     R1  delivery      a request read from the kernel is handed to exactly one get_request call, whole: the Reader
                       holds exactly in_header.len bytes of that request and nothing of another one.
     R2  wake          wake() makes every channel created (new_channel returned) before the call leave get_request
                       with Ok(None): the call in progress, or else the next call. WEAKER READING (judge): one
                       Ok(None) per channel and wake (wakes before it is consumed coalesce). The comment in
                       get_request ("We don't read the event fd so that a LEVEL triggered event can still be
                       delivered") promises more - every later call returns Ok(None) - but mio registers the
                       eventfd edge-triggered: the stronger reading is monitored separately (constant Sticky).
                       A channel created after wake() is not woken by it (its own eventfd is fresh).
     R3  unmount       after umount() -> Ok the session holds no descriptor, the mount it made is detached, and once
                       the kernel has destroyed the connection every get_request on its channels returns Ok(None)
                       (ENODEV). umount() without a mount is Ok(()) (idempotent). Drop = umount, result ignored.
     R4  wrong state   new_channel / clone_fuse_file / try_with_writer without a fuse file fail with SessionFailure,
                       with_writer does not call its closure, wake without channels is Ok; nothing panics or hangs.
     R5  resources     descriptors: one /dev/fuse descriptor for the session, one per channel and clone; one epoll
                       instance per live channel; one eventfd per channel, kept by the session's waker list until
                       the session is dropped; all gone when session and channels are dropped.
   Two places where the code as found breaks R3/R4 are modelled as found, switched by AsFoundAbort / AsFoundRemount
   (TRUE = the code as found; FALSE = the repaired behaviour of findings/session-*.diff):
     - umount() on a connection that was aborted (/sys/fs/fuse/connections/N/abort, umount -f): the POLLERR
       shortcut of fuse_kern_umount returns Ok(()) without detaching: the dead mount stays on the mountpoint;
     - mount() on a session that is mounted: it stats its own mountpoint (blocks until one of its own channels
       answers GETATTR; for ever if none does), then stacks a second mount; umount()/Drop detach only the top one. *)
EXTENDS Naturals, Sequences, FiniteSets

CONSTANTS Chans,            \* channel ids
          MaxConn,          \* kernel connections (mount() calls) per history
          AsFoundAbort,     \* TRUE: umount() of an aborted connection does not detach (as found)
          AsFoundRemount    \* TRUE: mount() on a mounted session stats + stacks (as found); FALSE: fails "already-mounted"

Conns == 1..MaxConn

\* ---------------------------------------------------------------------------------------------------------
\* (1) the sequential object

NoConn == [st |-> "unused", att |-> FALSE, fds |-> 0, q |-> <<>>, inited |-> FALSE]
   \* st: "unused" | "live" | "dead" (fc->connected = 0: aborted / superblock destroyed / last descriptor closed)
   \* att: its mount is in the stack on the mountpoint; fds: open descriptors; q: pending request kinds
NoChan == [st |-> "none", k |-> 0, tok |-> FALSE, blk |-> FALSE, exited |-> FALSE]
   \* st: "none" | "live" | "dropped"; k: connection of its descriptor; tok: exit event pending (eventfd written,
   \* not yet reported by epoll); blk: a get_request call is in progress; exited: has returned None for a token
NoCli == [st |-> "idle", k |-> 0, res |-> ""]
   \* the one client (statfs on the mountpoint): "idle" | "winit" (waits for INIT) | "wreq" (request queued or being
   \* served) | "fin" (answered, result res not yet observed)

S0 == [ses |-> "none",                 \* "none" | "live" | "dropped"
       file |-> 0,                     \* connection of FuseSession.file (0 = None)
       conn |-> [k \in Conns |-> NoConn],
       stack |-> <<>>,                 \* connections mounted on the mountpoint, top last
       ch |-> [c \in Chans |-> NoChan],
       wk |-> {},                      \* channels whose waker the session keeps (FuseSession.wakers)
       clone |-> 0,                    \* connection of the descriptor returned by clone_fuse_file and still held
       forced |-> FALSE,               \* the fuse file was replaced by set_fuse_file ("force setting") since the last mount()
       cli |-> NoCli]

Top(S) == IF S.stack = <<>> THEN 0 ELSE S.stack[Len(S.stack)]
FreshConn(S) == IF \E k \in Conns : S.conn[k].st = "unused" THEN CHOOSE k \in Conns : S.conn[k].st = "unused" /\ \A j \in Conns : j < k => S.conn[j].st # "unused" ELSE 0
Live(S, k) == k # 0 /\ S.conn[k].st = "live"
Dead(S, k) == k # 0 /\ S.conn[k].st = "dead"
BlockedOn(S, k) == {c \in Chans : S.ch[c].st = "live" /\ S.ch[c].blk /\ S.ch[c].k = k}

\* the kernel aborts connection k (fuse_abort_conn): queued and in-flight requests end with ECONNABORTED (103); a client
\* still waiting for INIT finds the connection gone (ENOTCONN, 107), like every later client
Kill(S, k) ==
  IF ~Live(S, k) THEN S
  ELSE [S EXCEPT !.conn[k].st = "dead", !.conn[k].q = <<>>,
                 !.cli = IF S.cli.k = k /\ S.cli.st = "wreq" THEN [st |-> "fin", k |-> k, res |-> "err103"]
                         ELSE IF S.cli.k = k /\ S.cli.st = "winit" THEN [st |-> "fin", k |-> k, res |-> "err107"] ELSE S.cli]
\* one descriptor of connection k is closed; the last one aborts the connection
CloseFd(S, k) ==
  IF k = 0 THEN S
  ELSE LET S1 == [S EXCEPT !.conn[k].fds = S.conn[k].fds - 1] IN
       IF S1.conn[k].fds = 0 THEN Kill(S1, k) ELSE S1
\* umount2(mountpoint, MNT_DETACH): the top mount leaves the stack; the connection dies unless a client still uses it
DetachTop(S) ==
  LET j == Top(S) IN
  LET S1 == [S EXCEPT !.stack = SubSeq(S.stack, 1, Len(S.stack) - 1), !.conn[j].att = FALSE] IN
  IF S1.cli.k = j /\ S1.cli.st \in {"winit", "wreq", "fin"} THEN S1 ELSE Kill(S1, j)

R(s, res) == [s |-> s, res |-> res]

\* FuseSession::new(mountpoint): kind of path given
DoNew(S, kind) ==
  IF kind = "dir" THEN R([S EXCEPT !.ses = "live"], "ok")
  ELSE IF kind = "file" THEN R(S, "not-a-directory") ELSE R(S, "invalid-mountpoint")

\* mount(): what the mountpoint currently is decides (fuse_kern_mount: open /dev/fuse, stat the mountpoint, mount(2))
\*   "hang": the stat needs an answer from this very session and nobody is reading (the harness' watchdog then
\*   aborts the mounted connections; the call returns the stat error)
MountCase(S) ==
  LET t == Top(S) IN
  IF ~AsFoundRemount /\ S.file # 0 /\ Live(S, S.file) THEN "already"      \* repaired: a connected fuse file = mounted
  ELSE IF t = 0 THEN "free"
  ELSE IF Dead(S, t) THEN "dead-top"
  ELSE IF S.conn[t].inited /\ BlockedOn(S, t) # {} THEN "served" ELSE "hang"
\* (the harness releases a hung call by aborting every connection that is mounted on the mountpoint)
KillAll(S) == LET RECURSIVE F(_, _)
                  F(T, ks) == IF ks = {} THEN T ELSE LET k == CHOOSE x \in ks : TRUE IN F(Kill(T, k), ks \ {k})
              IN F(S, {k \in Conns : S.conn[k].att})
MountNew(S) ==
  LET k == FreshConn(S) IN
  LET S1 == CloseFd(S, S.file) IN
  [S1 EXCEPT !.file = k, !.forced = FALSE, !.stack = Append(S1.stack, k),
             !.conn[k] = [st |-> "live", att |-> TRUE, fds |-> 1, q |-> <<"INIT">>, inited |-> FALSE]]
DoMount(S) ==
  LET mc == MountCase(S) IN
  CASE mc = "free" -> R(MountNew(S), "ok")
    [] mc = "dead-top" -> R(S, "stat-mountpoint")
    [] mc = "already" -> R(S, "already-mounted")
    [] mc = "served" -> \* the stat of the root is queued (STATX, then GETATTR on kernels >= 6.6 because the server answers
                        \* ENOSYS), channels that are reading answer, then the second mount is stacked. The sequential
                        \* histories never go here (kernel dependent request sequence; one request per get_request call):
                        \* the concurrent runs with live service threads do (scenario "remount", Trace_Session).
                        LET t == Top(S) IN R([MountNew(S) EXCEPT !.conn[t].q = Append(S.conn[t].q, "GETATTR")], "ok")
    [] mc = "hang" -> R(KillAll(S), "hang")

\* umount(): (keep_alive is never set without auto_unmount)
UmountCase(S) == IF S.file = 0 THEN "nofile" ELSE IF Dead(S, S.file) THEN "dead" ELSE "live"
DoUmount(S) ==
  LET uc == UmountCase(S) IN
  LET k == S.file IN
  CASE uc = "nofile" -> R(S, "ok")
    [] uc = "dead" -> \* POLLERR: "already umounted, or aborted": descriptor closed, nothing detached (as found)
                      LET S1 == [CloseFd(S, k) EXCEPT !.file = 0] IN
                      IF ~AsFoundAbort /\ S1.stack # <<>> THEN R(DetachTop(S1), "ok") ELSE R(S1, "ok")
    [] uc = "live" -> LET S1 == [CloseFd(S, k) EXCEPT !.file = 0] IN
                      IF S1.stack = <<>> THEN R(S1, "umount-failed") ELSE R(DetachTop(S1), "ok")

DoDrop(S) == LET u == DoUmount(S) IN R([u.s EXCEPT !.ses = "dropped", !.wk = {}], "ok")

DoWake(S) == R([S EXCEPT !.ch = [c \in Chans |-> IF c \in S.wk /\ S.ch[c].st = "live" THEN [S.ch[c] EXCEPT !.tok = TRUE] ELSE S.ch[c]]], "ok")

DoNc(S, c) ==
  IF S.file = 0 THEN R(S, "invalid-session")
  ELSE R([S EXCEPT !.ch[c] = [st |-> "live", k |-> S.file, tok |-> FALSE, blk |-> FALSE, exited |-> FALSE],
                   !.conn[S.file].fds = S.conn[S.file].fds + 1, !.wk = S.wk \cup {c}], "ok")
DoDc(S, c) == R(CloseFd([S EXCEPT !.ch[c].st = "dropped", !.ch[c].tok = FALSE], S.ch[c].k), "ok")

DoClone(S) ==
  IF S.file = 0 THEN R(S, "no-fuse-file")
  ELSE LET S1 == [S EXCEPT !.conn[S.file].fds = S.conn[S.file].fds + 1] IN
       R([CloseFd(S1, S.clone) EXCEPT !.clone = S.file], "ok")
DoSetf(S) == R(CloseFd([S EXCEPT !.file = S.clone, !.clone = 0, !.forced = TRUE], S.file), "ok")      \* the old file is dropped
DoDclone(S) == R([CloseFd(S, S.clone) EXCEPT !.clone = 0], "ok")

DoBufsize(S) == R(S, "ok")
DoWw(S) == R(S, IF S.file = 0 THEN "not-called" ELSE "called")
DoTww(S) == R(S, IF S.file = 0 THEN "invalid-session" ELSE "ok")

\* environment: the connection is aborted through fusectl
DoAbort(S, k) == R(Kill(S, k), "ok")

\* get_request is started on channel c (a thread of its own); it completes through GrReady/GrComplete
DoGrStart(S, c) == R([S EXCEPT !.ch[c].blk = TRUE], "started")
\* the client starts statfs(mountpoint)
DoCli(S) ==
  LET t == Top(S) IN
  IF t = 0 THEN R([S EXCEPT !.cli = [st |-> "fin", k |-> 0, res |-> "ok-other"]], "started")
  ELSE IF Dead(S, t) THEN R([S EXCEPT !.cli = [st |-> "fin", k |-> t, res |-> "err107"]], "started")
  ELSE IF S.conn[t].inited THEN R([S EXCEPT !.cli = [st |-> "wreq", k |-> t, res |-> ""], !.conn[t].q = Append(S.conn[t].q, "STATFS")], "started")
  ELSE R([S EXCEPT !.cli = [st |-> "winit", k |-> t, res |-> ""]], "started")

\* --- completions of the calls in progress
\* what a get_request in progress on c returns now ("" = it stays blocked). `Sticky`: the exit event is level-triggered
GrReady(S, c, Sticky) ==
  LET h == S.ch[c] IN
  IF h.st # "live" \/ ~h.blk THEN ""
  ELSE IF h.tok \/ (Sticky /\ h.exited) THEN "none"
  ELSE IF Dead(S, h.k) THEN "none"
  ELSE IF Live(S, h.k) /\ S.conn[h.k].q # <<>> THEN Head(S.conn[h.k].q)
  ELSE ""
\* a lazily detached connection dies when its last user (the client) is gone
ReapCli(S) == IF S.cli.st = "fin" /\ S.cli.k # 0 /\ ~S.conn[S.cli.k].att THEN Kill(S, S.cli.k) ELSE S
\* the request of kind `rq` was handed to channel c and answered by Server::handle_message
Served(S, c, rq) ==
  LET k == S.ch[c].k IN
  LET S1 == [S EXCEPT !.conn[k].q = Tail(S.conn[k].q)] IN
  CASE rq = "INIT" -> IF S1.cli.st = "winit" /\ S1.cli.k = k
                      THEN [S1 EXCEPT !.conn[k].inited = TRUE, !.cli.st = "wreq", !.conn[k].q = Append(S1.conn[k].q, "STATFS")]
                      ELSE [S1 EXCEPT !.conn[k].inited = TRUE]
    [] rq = "STATFS" -> [S1 EXCEPT !.cli = [st |-> "fin", k |-> k, res |-> "ok-fuse"]]
    [] OTHER -> S1
GrComplete(S, c, res) ==
  LET S1 == [S EXCEPT !.ch[c].blk = FALSE] IN
  IF res = "none"
  THEN IF S.ch[c].tok THEN [S1 EXCEPT !.ch[c].tok = FALSE, !.ch[c].exited = TRUE] ELSE S1
  ELSE Served(S1, c, res)
\* the client's result is observed; its reference on the mount is gone
CliComplete(S) == [ReapCli(S) EXCEPT !.cli = NoCli]

\* ---------------------------------------------------------------------------------------------------------
\* observable projection (what the harness reads from /proc): descriptors and mounts
NFuse(S) == LET RECURSIVE Sum(_) Sum(ks) == IF ks = {} THEN 0 ELSE LET k == CHOOSE x \in ks : TRUE IN S.conn[k].fds + Sum(ks \ {k}) IN Sum(Conns)
LiveChans(S) == {c \in Chans : S.ch[c].st = "live"}
NEvent(S) == Cardinality((IF S.ses = "live" THEN S.wk ELSE {}) \cup LiveChans(S))
NEpoll(S) == Cardinality(LiveChans(S))
NMount(S) == Len(S.stack)

\* ---------------------------------------------------------------------------------------------------------
\* (2) requirements on the sequential object
\* R3: after umount() -> Ok (and after Drop) of a session that held a fuse file (T: state before, S: after) no mount
\* made by this session is left on the mountpoint (a call without fuse file has nothing to do and is Ok; after
\* set_fuse_file the session refers to whatever descriptor was forced on it: weaker reading, nothing is demanded)
NoStaleMount(T, S, op, res) == (op \in {"umount", "drop"} /\ res = "ok" /\ T.file # 0 /\ ~T.forced) => S.stack = <<>>
\* which defect leaves one (for the signature): judged on the state BEFORE the call
StaleClass(S) == IF S.file # 0 /\ Dead(S, S.file) /\ S.conn[S.file].att THEN "conn-aborted"
                 ELSE IF Len(S.stack) > 1 THEN "mounted-twice" ELSE "other"
\* R4: no operation hangs (T: state before). After set_fuse_file on a mounted session the fuse file no longer tells
\* whether the session is mounted: weaker reading, nothing is demanded of mount() then
NoHang(T, res) == ~T.forced => res # "hang"
\* R5: when the session and every channel and clone are gone nothing is left open
Quiescent(S) == S.ses # "live" /\ LiveChans(S) = {} /\ S.clone = 0
NoLeak(S) == Quiescent(S) => NFuse(S) = 0 /\ NEvent(S) = 0 /\ NEpoll(S) = 0
\* consistency of the model itself
TypeOK(S) == /\ \A k \in Conns : S.conn[k].st = "unused" => S.conn[k].fds = 0
             /\ \A i \in 1..Len(S.stack) : S.conn[S.stack[i]].att
             /\ NFuse(S) = (IF S.file # 0 THEN 1 ELSE 0) + (IF S.clone # 0 THEN 1 ELSE 0) + Cardinality(LiveChans(S))

\* ---------------------------------------------------------------------------------------------------------
\* (3) the concurrent contract (R1, R2) in terms of per-channel exit tokens
\* A get_request call on a channel may return
\*   none   if an exit token is pending for the channel at some moment of the call (it takes it), or the connection
\*          is (being) destroyed;
\*   some u if at some moment of the call no token is pending, the connection is not known dead, and u was not
\*          delivered before;
\* and it must return (not stay blocked) once a token is pending.
GrNoneOK(tok, maydie) == tok \/ maydie
GrSomeOK(tok, surelydead, fresh) == ~tok /\ ~surelydead /\ fresh
=============================================================================
