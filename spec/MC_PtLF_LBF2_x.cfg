SPECIFICATION Spec
CONSTANTS
  Ops <- Ops_LBF
  R0Set <- R0_2
  Eager = TRUE
  SkipZeroRetry = FALSE
  NoReprobe = FALSE
  BlindStore = FALSE
INVARIANTS Refines Final RetInMap NoZeroVisible OneNumber LockSane Export

