//! X03 - the /dev/fuse session layer (FuseSession / FuseChannel) driven on REAL mounts.
//!
//!   session probe <dir>                                  can we mount at all? exit 0 yes / 3 no (message on stderr)
//!   session cleanup <dir>                                abort + lazily detach every fuse mount below <dir>
//!   session seq  <histories.ndjson> <trace.ndjson> <dir> sequential API histories exported by TLC (MC_Session)
//!   session conc <trace.ndjson> <dir> <seed> <runs> [wd_ms] concurrent runs: channel threads + clients + wake/umount
//!
//! Dumb projection: every event is the raw result of a call into fuse-backend-rs plus counts read from /proc
//! (descriptors on /dev/fuse, eventfds, epoll instances, mounts stacked on the mountpoint). All judging is TLC's.
//! Exit codes: 0 done, 3 = environment unusable (no /dev/fuse, mount refused, cleanup failed) -> the check exits 2.
//!
//! Safety: every mount lives below <dir>; stale mounts are removed at start; every exit path (also panics of the
//! harness itself and the global timer) aborts the connections through /sys/fs/fuse/connections/<dev>/abort and
//! detaches the mounts with umount2(MNT_DETACH).
use fuse_backend_rs::abi::fuse_abi::{stat64, FsOptions, OpenOptions};
use fuse_backend_rs::api::filesystem::{Context, Entry, FileSystem, ZeroCopyWriter};
use fuse_backend_rs::api::server::Server;
use fuse_backend_rs::transport::{FuseChannel, FuseSession, FuseSessionExt};
use serde_json::{json, Value};
use std::ffi::{CStr, CString};
use std::io;
use std::panic::{catch_unwind, AssertUnwindSafe};
use std::path::{Path, PathBuf};
use std::sync::atomic::{AtomicBool, AtomicU64, Ordering};
use std::sync::mpsc::{channel, Receiver, Sender, TryRecvError};
use std::sync::{Arc, Mutex};
use std::time::{Duration, Instant};
use vharness::util::{Rng, Trace};

// ------------------------------------------------------------------------------------------------
// a trivial filesystem: the root directory and files "f<N>" (any N), content "f<N>:" repeated to 64 bytes

const FILE_SIZE: usize = 64;

struct TinyFs {
    delay_us: AtomicU64,
}

impl TinyFs {
    fn attr(ino: u64) -> stat64 {
        let mut st: stat64 = unsafe { std::mem::zeroed() };
        st.st_ino = ino;
        st.st_nlink = 1;
        st.st_blksize = 4096;
        if ino == 1 {
            st.st_mode = libc::S_IFDIR | 0o755;
            st.st_nlink = 2;
        } else {
            st.st_mode = libc::S_IFREG | 0o444;
            st.st_size = FILE_SIZE as i64;
            st.st_blocks = 1;
        }
        st
    }
    fn content(ino: u64) -> Vec<u8> {
        let tag = format!("f{}:", ino - 2);
        let mut v = Vec::with_capacity(FILE_SIZE);
        while v.len() < FILE_SIZE {
            v.extend_from_slice(tag.as_bytes());
        }
        v.truncate(FILE_SIZE);
        v
    }
    fn content_of_tag(tag: &str) -> Vec<u8> {
        let t = format!("{tag}:");
        let mut v = Vec::with_capacity(FILE_SIZE);
        while v.len() < FILE_SIZE && !t.is_empty() {
            v.extend_from_slice(t.as_bytes());
        }
        v.truncate(FILE_SIZE);
        v
    }
    fn pause(&self) {
        let d = self.delay_us.load(Ordering::Relaxed);
        if d > 0 {
            std::thread::sleep(Duration::from_micros(d));
        }
    }
}

const LONG: Duration = Duration::from_secs(3600);

impl FileSystem for TinyFs {
    type Inode = u64;
    type Handle = u64;

    fn init(&self, _capable: FsOptions) -> io::Result<FsOptions> {
        Ok(FsOptions::empty())
    }
    fn lookup(&self, _ctx: &Context, parent: u64, name: &CStr) -> io::Result<Entry> {
        self.pause();
        let n = name.to_bytes();
        if parent != 1 || n.len() < 2 || n[0] != b'f' {
            return Err(io::Error::from_raw_os_error(libc::ENOENT));
        }
        let idx: u64 = std::str::from_utf8(&n[1..])
            .ok()
            .and_then(|s| s.parse().ok())
            .ok_or_else(|| io::Error::from_raw_os_error(libc::ENOENT))?;
        Ok(Entry {
            inode: idx + 2,
            generation: 0,
            attr: Self::attr(idx + 2),
            attr_flags: 0,
            attr_timeout: LONG,
            entry_timeout: LONG,
        })
    }
    fn getattr(&self, _ctx: &Context, inode: u64, _h: Option<u64>) -> io::Result<(stat64, Duration)> {
        self.pause();
        Ok((Self::attr(inode), LONG))
    }
    fn open(&self, _ctx: &Context, _inode: u64, _flags: u32, _ff: u32) -> io::Result<(Option<u64>, OpenOptions, Option<u32>)> {
        Ok((Some(7), OpenOptions::empty(), None))
    }
    fn read(
        &self,
        _ctx: &Context,
        inode: u64,
        _handle: u64,
        w: &mut dyn ZeroCopyWriter,
        size: u32,
        offset: u64,
        _lock_owner: Option<u64>,
        _flags: u32,
    ) -> io::Result<usize> {
        self.pause();
        let c = Self::content(inode);
        let off = (offset as usize).min(c.len());
        let end = (off + size as usize).min(c.len());
        w.write(&c[off..end])
    }
    fn release(&self, _ctx: &Context, _inode: u64, _flags: u32, _handle: u64, _flush: bool, _fr: bool, _lo: Option<u64>) -> io::Result<()> {
        Ok(())
    }
    fn access(&self, _ctx: &Context, _inode: u64, _mask: u32) -> io::Result<()> {
        Ok(())
    }
}

// ------------------------------------------------------------------------------------------------
// /proc and /sys helpers

fn gettid() -> i64 {
    unsafe { libc::syscall(libc::SYS_gettid) as i64 }
}

/// (state letter, syscall number or -1) of a thread of this process
fn thread_state(tid: i64) -> (char, i64) {
    let st = std::fs::read_to_string(format!("/proc/self/task/{tid}/stat")).unwrap_or_default();
    // pid (comm) S ...
    let state = st.rfind(')').and_then(|p| st[p + 1..].trim_start().chars().next()).unwrap_or('?');
    let sc = std::fs::read_to_string(format!("/proc/self/task/{tid}/syscall")).unwrap_or_default();
    let nr = sc.split_whitespace().next().and_then(|s| s.parse::<i64>().ok()).unwrap_or(-1);
    (state, nr)
}

const SYS_EPOLL: [i64; 3] = [232, 281, 441]; // epoll_wait, epoll_pwait, epoll_pwait2

/// the thread sleeps inside one of the given system calls on three samples in a row. (A thread asleep inside
/// epoll_wait has nothing ready: had an event been pending at entry the call would not sleep, and a later event makes
/// the thread runnable before the write / queueing that caused it returns.)
fn sleeping_in(tid: i64, calls: &[i64], allow_d: bool) -> bool {
    for i in 0..3 {
        let (s, nr) = thread_state(tid);
        let asleep = s == 'S' || (allow_d && s == 'D');
        if !(asleep && calls.contains(&nr)) {
            return false;
        }
        if i < 2 {
            std::thread::sleep(Duration::from_millis(1));
        }
    }
    true
}

/// the thread waits for a FUSE answer (or for INIT) inside the kernel, on three samples in a row. Sleeping anywhere
/// else in the kernel (e.g. the teardown of a superblock at the end of the system call) is not "blocked".
fn waiting_for_fuse(tid: i64) -> bool {
    for i in 0..3 {
        let (s, _) = thread_state(tid);
        let wchan = std::fs::read_to_string(format!("/proc/self/task/{tid}/wchan")).unwrap_or_default();
        if !((s == 'S' || s == 'D') && (wchan.contains("fuse_get_req") || wchan.contains("request_wait_answer"))) {
            return false;
        }
        if i < 2 {
            std::thread::sleep(Duration::from_millis(1));
        }
    }
    true
}

#[derive(Default, Clone, Copy, PartialEq, Debug)]
struct FdCount {
    fuse: i64,
    event: i64,
    epoll: i64,
}

fn fd_count() -> FdCount {
    let mut c = FdCount::default();
    if let Ok(rd) = std::fs::read_dir("/proc/self/fd") {
        for e in rd.flatten() {
            if let Ok(t) = std::fs::read_link(e.path()) {
                let t = t.to_string_lossy().to_string();
                if t == "/dev/fuse" {
                    c.fuse += 1;
                } else if t == "anon_inode:[eventfd]" {
                    c.event += 1;
                } else if t == "anon_inode:[eventpoll]" {
                    c.epoll += 1;
                }
            }
        }
    }
    c
}

/// mounts whose mount point is `mp` (or below `mp` when `below`): (mount point, fstype, minor of the device)
fn mounts_at(mp: &Path, below: bool) -> Vec<(String, String, u32)> {
    let mut v = Vec::new();
    let want = mp.to_string_lossy().to_string();
    let txt = std::fs::read_to_string("/proc/self/mountinfo").unwrap_or_default();
    for line in txt.lines() {
        let f: Vec<&str> = line.split(' ').collect();
        if f.len() < 10 {
            continue;
        }
        let point = f[4].replace("\\040", " ");
        let hit = if below { point == want || point.starts_with(&(want.clone() + "/")) } else { point == want };
        if !hit {
            continue;
        }
        let minor = f[2].split(':').nth(1).and_then(|s| s.parse().ok()).unwrap_or(0);
        let sep = f.iter().position(|x| *x == "-").unwrap_or(f.len() - 1);
        let fstype = f.get(sep + 1).unwrap_or(&"").to_string();
        v.push((point, fstype, minor));
    }
    v
}

static CTL_DIR: Mutex<Option<PathBuf>> = Mutex::new(None);

/// the fusectl filesystem: /sys/fs/fuse/connections if it is mounted there, else a private mount below the work dir
fn ensure_ctl(dir: &Path) {
    let sys = PathBuf::from("/sys/fs/fuse/connections");
    let txt = std::fs::read_to_string("/proc/self/mountinfo").unwrap_or_default();
    if txt.lines().any(|l| l.split(' ').nth(4) == Some("/sys/fs/fuse/connections")) {
        *CTL_DIR.lock().unwrap() = Some(sys);
        return;
    }
    let ctl = dir.join("ctl");
    std::fs::create_dir_all(&ctl).ok();
    if !mounts_at(&ctl, false).is_empty() {
        *CTL_DIR.lock().unwrap() = Some(ctl);
        return;
    }
    let src = CString::new("fusectl").unwrap();
    let tgt = CString::new(ctl.to_string_lossy().as_bytes()).unwrap();
    let r = unsafe { libc::mount(src.as_ptr(), tgt.as_ptr(), src.as_ptr(), 0, std::ptr::null()) };
    if r != 0 {
        env_fail(&format!("cannot mount fusectl at {ctl:?}: {}", io::Error::last_os_error()));
    }
    *CTL_DIR.lock().unwrap() = Some(ctl);
}

/// Connection numbers (device minors) are recycled by the kernel, and several harness processes (and possibly other
/// FUSE users) run on this machine: a connection is only ever aborted when it is certainly ours -
///   abort_mounted: the number belongs to a fuse mount at or below our work directory right now;
///   abort_proven:  one of our threads is provably asleep waiting on that connection (a channel thread inside
///                  epoll_wait, a client inside a FUSE wait), so the connection and its number are still alive.
fn minor_mounted_here(minor: u32) -> bool {
    let mine = match CLEAN_DIR.lock().map(|g| g.clone()).unwrap_or(None) {
        Some(d) => d,
        None => return false,
    };
    mounts_at(&mine, true).iter().any(|m| m.2 == minor && m.1.starts_with("fuse") && m.1 != "fusectl")
}

fn abort_raw(minor: u32) -> bool {
    let d = CTL_DIR.lock().map(|g| g.clone()).unwrap_or(None).unwrap_or_else(|| PathBuf::from("/sys/fs/fuse/connections"));
    std::fs::write(d.join(format!("{minor}/abort")), b"1").is_ok()
}

fn abort_mounted(minor: u32) -> bool {
    minor_mounted_here(minor) && abort_raw(minor)
}

fn abort_proven(minor: u32) -> bool {
    abort_raw(minor)
}

fn detach(mp: &str) -> i32 {
    let c = CString::new(mp).unwrap();
    let r = unsafe { libc::umount2(c.as_ptr(), libc::MNT_DETACH) };
    if r == 0 {
        0
    } else {
        io::Error::last_os_error().raw_os_error().unwrap_or(-1)
    }
}

/// abort + detach every fuse mount at or below `dir`; returns how many mounts were removed
fn cleanup_below(dir: &Path) -> usize {
    let mut n = 0;
    for _ in 0..64 {
        let ms: Vec<_> = mounts_at(dir, true).into_iter().filter(|m| m.1 != "fusectl").collect();
        if ms.is_empty() {
            break;
        }
        // top-most first: later lines of mountinfo are mounted later
        for (point, fstype, minor) in ms.iter().rev() {
            if fstype.starts_with("fuse") && fstype != "fusectl" {
                abort_raw(*minor); // listed in mountinfo below our directory: ours
            }
            if detach(point) == 0 {
                n += 1;
            }
        }
    }
    n
}

/// the private fusectl mount (if any) goes last
fn cleanup_all(dir: &Path) -> usize {
    let n = cleanup_below(dir);
    let ctl = dir.join("ctl");
    while !mounts_at(&ctl, false).is_empty() {
        if detach(&ctl.to_string_lossy()) != 0 {
            break;
        }
    }
    n
}

static CLEAN_DIR: Mutex<Option<PathBuf>> = Mutex::new(None);

fn emergency_cleanup() {
    let d = CLEAN_DIR.lock().map(|g| g.clone()).unwrap_or(None);
    if let Some(d) = d {
        cleanup_all(&d);
    }
}

fn env_fail(msg: &str) -> ! {
    eprintln!("session: environment unusable: {msg}");
    emergency_cleanup();
    std::process::exit(3);
}

fn install_guards(dir: &Path, limit_s: u64) {
    *CLEAN_DIR.lock().unwrap() = Some(dir.to_path_buf());
    cleanup_below(dir);
    ensure_ctl(dir);
    let prev = std::panic::take_hook();
    std::panic::set_hook(Box::new(move |info| {
        // panics inside catch_unwind (code under test) are data; the hook only prints when asked to
        if std::env::var("SESSION_PANIC_MSG").is_ok() {
            prev(info);
        }
    }));
    std::thread::spawn(move || {
        std::thread::sleep(Duration::from_secs(limit_s));
        eprintln!("session: global time limit of {limit_s}s reached");
        emergency_cleanup();
        std::process::exit(3);
    });
}

// ------------------------------------------------------------------------------------------------
// error strings -> model tokens (a table; the raw string is logged next to the token)

fn err_class(msg: &str) -> &'static str {
    const TABLE: &[(&str, &str)] = &[
        ("fuse session failure: invalid fuse session", "invalid-session"),
        ("fuse session failure: fuse session file doesn't exist", "no-fuse-file"),
        ("fuse session failure: invalid mountpoint", "invalid-mountpoint"),
        ("fuse session failure: failed to umount", "umount-failed"),
        ("fuse session failure: failed to mount", "mount-failed"),
        ("fuse session failure: stat ", "stat-mountpoint"),
        ("fuse session failure: fuse session is already mounted", "already-mounted"),
        ("fuse session failure: read new request: ECONNABORTED", "read-ECONNABORTED"),
        ("fuse session failure: read new request", "read-failed"),
        ("fuse session failure: epoll wait", "epoll-failed"),
        ("fuse session failure: failed to clone fuse file", "clone-failed"),
        ("fuse session failure: open /dev/fuse", "open-dev-fuse"),
        ("fuse session failure: dup fd", "dup-failed"),
    ];
    for (p, c) in TABLE {
        if msg.starts_with(p) {
            return c;
        }
    }
    if msg.starts_with("fuse session failure: ") && msg.ends_with("is not a directory") {
        return "not-a-directory";
    }
    "other"
}

fn res_unit<E: std::fmt::Display>(r: std::thread::Result<Result<(), E>>) -> Value {
    match r {
        Ok(Ok(())) => json!({"res": "ok"}),
        Ok(Err(e)) => {
            let m = e.to_string();
            json!({"res": "err", "cls": err_class(&m), "msg": m})
        }
        Err(_) => json!({"res": "panic"}),
    }
}

fn merge(mut a: Value, b: Value) -> Value {
    if let (Some(x), Some(y)) = (a.as_object_mut(), b.as_object()) {
        for (k, v) in y {
            x.insert(k.clone(), v.clone());
        }
    }
    a
}

// ------------------------------------------------------------------------------------------------
// one get_request + handle_message on a channel, reported as raw data

fn header_of(r: &fuse_backend_rs::transport::Reader<'_>) -> (u32, u32, u64, u64) {
    let mut c = r.clone();
    let mut h = [0u8; 40];
    let mut got = 0;
    while got < 40 {
        match io::Read::read(&mut c, &mut h[got..]) {
            Ok(0) | Err(_) => break,
            Ok(n) => got += n,
        }
    }
    let len = u32::from_le_bytes(h[0..4].try_into().unwrap());
    let opc = u32::from_le_bytes(h[4..8].try_into().unwrap());
    let unique = u64::from_le_bytes(h[8..16].try_into().unwrap());
    let nodeid = u64::from_le_bytes(h[16..24].try_into().unwrap());
    (len, opc, unique, nodeid)
}

/// get_request; `on_some` is called between the request being returned and the reply being produced
fn serve_one(ch: &mut FuseChannel, server: &Server<Arc<TinyFs>>, mut on_some: impl FnMut(&Value)) -> Value {
    let r = catch_unwind(AssertUnwindSafe(|| match ch.get_request() {
        Ok(Some((reader, writer))) => {
            let avail = reader.available_bytes();
            let (hlen, opc, unique, nodeid) = header_of(&reader);
            let got = json!({"res": "some", "len": avail, "hlen": hlen, "opc": opc, "unique": unique.to_string(), "node": nodeid.to_string()});
            on_some(&got);
            let hm = catch_unwind(AssertUnwindSafe(|| server.handle_message(reader, writer.into(), None, None)));
            let hmv = match hm {
                Ok(Ok(n)) => json!({"hm": "ok", "hmn": n}),
                Ok(Err(e)) => json!({"hm": "err", "hmmsg": format!("{e:?}")}),
                Err(_) => json!({"hm": "panic"}),
            };
            merge(got, hmv)
        }
        Ok(None) => json!({"res": "none"}),
        Err(e) => {
            let m = e.to_string();
            json!({"res": "err", "cls": err_class(&m), "msg": m})
        }
    }));
    r.unwrap_or_else(|_| json!({"res": "panic"}))
}

// ------------------------------------------------------------------------------------------------
// hang watchdog for calls made on the main thread: a call into the library that is still asleep in the kernel
// after the grace period is released by aborting every fuse connection below the work directory; the fact is logged
// with the call ("hung": true) and judged by TLC.

static OP_START_MS: AtomicU64 = AtomicU64::new(0); // 0 = no library call in progress
static OP_HUNG: AtomicBool = AtomicBool::new(false);
static WORKER_TIDS: Mutex<Vec<i64>> = Mutex::new(Vec::new());
static CONN_MINORS: Mutex<Vec<u32>> = Mutex::new(Vec::new());

fn now_ms() -> u64 {
    static T0: Mutex<Option<Instant>> = Mutex::new(None);
    let mut g = T0.lock().unwrap();
    let t0 = *g.get_or_insert_with(Instant::now);
    t0.elapsed().as_millis() as u64 + 1
}

fn start_hang_watchdog(dir: PathBuf, main_tid: i64, grace_ms: u64) {
    std::thread::spawn(move || loop {
        std::thread::sleep(Duration::from_millis(50));
        let st = OP_START_MS.load(Ordering::SeqCst);
        if st == 0 || now_ms() < st + grace_ms {
            continue;
        }
        // a deadlock, not a slow machine: on three samples the calling thread sleeps in a FUSE wait of the kernel
        // (fuse_get_req: connection not initialised; request_wait_answer: no answer yet) and every channel thread
        // is asleep too (idle or inside epoll_wait), so nobody is going to answer
        let mut asleep = true;
        for _ in 0..3 {
            let (s, _) = thread_state(main_tid);
            let wchan = std::fs::read_to_string(format!("/proc/self/task/{main_tid}/wchan")).unwrap_or_default();
            let in_fuse = wchan.contains("fuse") || wchan.contains("request_wait_answer");
            let workers: Vec<i64> = WORKER_TIDS.lock().map(|g| g.clone()).unwrap_or_default();
            let others_asleep = workers.iter().all(|t| {
                let (ws, _) = thread_state(*t);
                ws == 'S' || ws == '?'
            });
            if !((s == 'S' || s == 'D') && in_fuse && others_asleep) {
                asleep = false;
                break;
            }
            std::thread::sleep(Duration::from_millis(10));
        }
        if asleep && OP_START_MS.load(Ordering::SeqCst) == st {
            OP_HUNG.store(true, Ordering::SeqCst);
            // the caller waits on the mount on top of the mountpoint: everything mounted below our directory
            for m in mounts_at(&dir, true) {
                if m.1.starts_with("fuse") && m.1 != "fusectl" {
                    abort_raw(m.2);
                }
            }
            // wait for the call to come back before looking again
            let t0 = Instant::now();
            while OP_START_MS.load(Ordering::SeqCst) == st && t0.elapsed() < Duration::from_secs(30) {
                std::thread::sleep(Duration::from_millis(20));
            }
        }
    });
}

/// run a call into the library under the hang watchdog
fn guarded<T>(f: impl FnOnce() -> T) -> T {
    OP_START_MS.store(now_ms(), Ordering::SeqCst);
    let r = f();
    OP_START_MS.store(0, Ordering::SeqCst);
    r
}

// ------------------------------------------------------------------------------------------------
// sequential histories

enum Cmd {
    Gr,
    Drop,
}

struct Worker {
    minor: u32, // connection (device minor) of the channel's descriptor
    tx: Sender<Cmd>,
    rx: Receiver<Value>,
    tid: i64,
    busy: bool,
    join: Option<std::thread::JoinHandle<()>>,
}

fn spawn_worker(ch: FuseChannel, server: Arc<Server<Arc<TinyFs>>>) -> Worker {
    let (tx, crx) = channel::<Cmd>();
    let (rtx, rx) = channel::<Value>();
    let (ttx, trx) = channel::<i64>();
    let join = std::thread::spawn(move || {
        ttx.send(gettid()).ok();
        let mut ch = ch;
        while let Ok(c) = crx.recv() {
            match c {
                Cmd::Gr => {
                    let v = serve_one(&mut ch, &server, |_| {});
                    if rtx.send(v).is_err() {
                        break;
                    }
                }
                Cmd::Drop => break,
            }
        }
        drop(ch);
        rtx.send(json!({"dropped": true})).ok();
    });
    let tid = trx.recv().unwrap_or(0);
    WORKER_TIDS.lock().unwrap().push(tid);
    Worker { minor: 0, tx, rx, tid, busy: false, join: Some(join) }
}

struct Client {
    minor: u32, // connection mounted on top of the mountpoint when the call started (0: none)
    rx: Receiver<Value>,
    tid: i64,
}

fn spawn_client(mp: PathBuf) -> Client {
    let (rtx, rx) = channel::<Value>();
    let (ttx, trx) = channel::<i64>();
    std::thread::spawn(move || {
        ttx.send(gettid()).ok();
        let c = CString::new(mp.to_string_lossy().as_bytes()).unwrap();
        let mut st: libc::statfs = unsafe { std::mem::zeroed() };
        let r = unsafe { libc::statfs(c.as_ptr(), &mut st) };
        let v = if r == 0 {
            json!({"res": if st.f_type as i64 == 0x65735546 { "ok-fuse" } else { "ok-other" }})
        } else {
            json!({"res": "err", "errno": io::Error::last_os_error().raw_os_error().unwrap_or(0)})
        };
        rtx.send(v).ok();
    });
    let tid = trx.recv().unwrap_or(0);
    Client { minor: 0, rx, tid }
}

struct SeqWorld {
    mp: PathBuf,
    server: Arc<Server<Arc<TinyFs>>>,
    ses: Option<FuseSession>,
    workers: std::collections::BTreeMap<i64, Worker>,
    clone: Option<std::fs::File>,
    client: Option<Client>,
    conns: Vec<u32>, // device minors of the connections this history created, in mount order
    cur_minor: u32,   // connection of the session's fuse file
    clone_minor: u32, // connection of the clone the harness holds
    base: FdCount,
    leaked_threads: usize,
}

impl SeqWorld {
    fn state(&self) -> Value {
        let c = fd_count();
        let ms = mounts_at(&self.mp, false);
        json!({"nfuse": c.fuse - self.base.fuse, "nevent": c.event - self.base.event, "nepoll": c.epoll - self.base.epoll,
               "nmount": ms.len(), "nfusemount": ms.iter().filter(|m| m.1.starts_with("fuse")).count()})
    }

    /// wait until every pending activity has either completed or is provably asleep in the kernel;
    /// returns the completions in the order they were noticed
    fn settle(&mut self) -> Vec<Value> {
        let mut done = Vec::new();
        let t0 = Instant::now();
        loop {
            let mut unsettled = false;
            // the client first: its completion may kill a lazily detached connection, which releases readers
            if let Some(cl) = &self.client {
                match cl.rx.try_recv() {
                    Ok(v) => {
                        done.push(merge(json!({"e": "done", "what": "cli"}), v));
                        self.client = None;
                    }
                    Err(TryRecvError::Disconnected) => {
                        done.push(json!({"e": "done", "what": "cli", "res": "panic"}));
                        self.client = None;
                    }
                    Err(TryRecvError::Empty) => {
                        if !waiting_for_fuse(cl.tid) {
                            unsettled = true;
                        }
                    }
                }
            }
            let keys: Vec<i64> = self.workers.keys().cloned().collect();
            for c in keys {
                let w = self.workers.get_mut(&c).unwrap();
                if !w.busy {
                    continue;
                }
                match w.rx.try_recv() {
                    Ok(v) => {
                        w.busy = false;
                        done.push(merge(json!({"e": "done", "what": "gr", "c": c}), v));
                        unsettled = true; // a reply may have completed the client
                    }
                    Err(TryRecvError::Disconnected) => {
                        w.busy = false;
                        done.push(json!({"e": "done", "what": "gr", "c": c, "res": "panic"}));
                    }
                    Err(TryRecvError::Empty) => {
                        if !sleeping_in(w.tid, &SYS_EPOLL, false) {
                            unsettled = true;
                        }
                    }
                }
            }
            if !unsettled {
                // the completions of one settling period are concurrent; they are logged in a canonical order:
                // requests handed out, then the client's result, then channels that returned None
                let key = |d: &Value| -> i32 {
                    if d["what"] == "gr" && d["res"] == "some" {
                        0
                    } else if d["what"] == "cli" {
                        1
                    } else {
                        2
                    }
                };
                done.sort_by_key(key);
                return done;
            }
            if t0.elapsed() > Duration::from_secs(20) {
                env_fail("a thread of a sequential history neither finished nor went to sleep within 20 s");
            }
            std::thread::sleep(Duration::from_millis(2));
        }
    }

    fn finish(&mut self) {
        // not part of the model: release everything that may still be blocked, then drop. A connection that is not
        // mounted any more is aborted only if one of our threads provably still waits on it (see abort_proven).
        for w in self.workers.values() {
            if w.busy && w.minor != 0 && sleeping_in(w.tid, &SYS_EPOLL, false) {
                abort_proven(w.minor);
            }
        }
        if let Some(cl) = &self.client {
            if cl.minor != 0 && waiting_for_fuse(cl.tid) {
                abort_proven(cl.minor);
            }
        }
        cleanup_below(&self.mp);
        self.clone = None;
        self.ses = None;
        for (_, mut w) in std::mem::take(&mut self.workers) {
            w.tx.send(Cmd::Drop).ok();
            let t0 = Instant::now();
            let j = w.join.take().unwrap();
            while !j.is_finished() && t0.elapsed() < Duration::from_secs(5) {
                std::thread::sleep(Duration::from_millis(2));
            }
            if j.is_finished() {
                j.join().ok();
            } else {
                self.leaked_threads += 1;
            }
        }
        if let Some(cl) = self.client.take() {
            let _ = cl.rx.recv_timeout(Duration::from_secs(5));
        }
        self.conns.clear();
        self.cur_minor = 0;
        self.clone_minor = 0;
        WORKER_TIDS.lock().unwrap().clear();
        CONN_MINORS.lock().unwrap().clear();
        if !mounts_at(&self.mp, true).is_empty() {
            env_fail("a mount could not be removed after a history");
        }
    }
}

fn run_seq(hist_file: &str, trace_file: &str, dir: &Path) {
    let mp = dir.join("mnt");
    std::fs::create_dir_all(&mp).unwrap();
    let notdir = dir.join("plainfile");
    std::fs::write(&notdir, b"x").unwrap();
    let fs = Arc::new(TinyFs { delay_us: AtomicU64::new(0) });
    let mut tr = Trace::create(trace_file);
    let txt = std::fs::read_to_string(hist_file).expect("history file");
    start_hang_watchdog(dir.to_path_buf(), gettid(), vharness::util::env_u64("SESSION_HANG_MS", 300));
    let mut w = SeqWorld {
        mp: mp.clone(),
        server: Arc::new(Server::new(fs.clone())),
        ses: None,
        workers: Default::default(),
        clone: None,
        client: None,
        conns: vec![],
        cur_minor: 0,
        clone_minor: 0,
        base: fd_count(),
        leaked_threads: 0,
    };
    for line in txt.lines().filter(|l| !l.trim().is_empty()) {
        let h: Value = serde_json::from_str(line).expect("history json");
        let hid = h["id"].as_i64().unwrap_or(0);
        // every history gets its own Server: the negotiated state (INIT) belongs to one connection
        w.server = Arc::new(Server::new(fs.clone()));
        w.base = fd_count();
        tr.emit(&json!({"e": "Reset", "h": hid, "sticky": h.get("sticky").cloned().unwrap_or(json!(false))}));
        let ops = h["ops"].as_array().cloned().unwrap_or_default();
        for (i, op) in ops.iter().enumerate() {
            let name = op["op"].as_str().unwrap_or("");
            let c = op["c"].as_i64().unwrap_or(0);
            let mut ev = json!({"e": "op", "i": i + 1, "op": name, "c": c});
            let res: Value = match name {
                "new" => {
                    let kind = op["kind"].as_str().unwrap_or("dir");
                    ev["kind"] = json!(kind);
                    let p = match kind {
                        "dir" => mp.clone(),
                        "file" => notdir.clone(),
                        _ => dir.join("does-not-exist"),
                    };
                    match guarded(|| catch_unwind(AssertUnwindSafe(|| FuseSession::new(&p, "x03", "", false)))) {
                        Ok(Ok(s)) => {
                            w.ses = Some(s);
                            json!({"res": "ok"})
                        }
                        Ok(Err(e)) => {
                            let m = e.to_string();
                            json!({"res": "err", "cls": err_class(&m), "msg": m})
                        }
                        Err(_) => json!({"res": "panic"}),
                    }
                }
                "mount" => {
                    let s = w.ses.as_mut().expect("model: session exists");
                    let r = res_unit(guarded(|| catch_unwind(AssertUnwindSafe(|| s.mount()))));
                    if r["res"] == "ok" {
                        // the connection id is the minor of the top-most mount
                        if let Some(m) = mounts_at(&mp, false).last() {
                            w.conns.push(m.2);
                            w.cur_minor = m.2;
                            CONN_MINORS.lock().unwrap().push(m.2);
                        }
                    } else if r["cls"] == "open-dev-fuse" || r["cls"] == "mount-failed" {
                        env_fail(&format!("mount failed: {}", r["msg"]));
                    }
                    r
                }
                "umount" => {
                    let s = w.ses.as_mut().expect("model: session exists");
                    res_unit(guarded(|| catch_unwind(AssertUnwindSafe(|| s.umount()))))
                }
                "wake" => {
                    let s = w.ses.as_ref().expect("model: session exists");
                    res_unit(guarded(|| catch_unwind(AssertUnwindSafe(|| s.wake()))))
                }
                "bufsize" => {
                    let s = w.ses.as_ref().expect("model: session exists");
                    match catch_unwind(AssertUnwindSafe(|| FuseSession::bufsize(s))) {
                        Ok(n) => json!({"res": "ok", "n": n}),
                        Err(_) => json!({"res": "panic"}),
                    }
                }
                "ww" => {
                    let s = w.ses.as_mut().expect("model: session exists");
                    let mut called = false;
                    let mut avail = 0usize;
                    match catch_unwind(AssertUnwindSafe(|| {
                        s.with_writer(|wr| {
                            called = true;
                            avail = wr.available_bytes();
                        })
                    })) {
                        Ok(()) => json!({"res": if called { "called" } else { "not-called" }, "n": avail}),
                        Err(_) => json!({"res": "panic"}),
                    }
                }
                "tww" => {
                    let s = w.ses.as_mut().expect("model: session exists");
                    let mut avail = 0usize;
                    let r = catch_unwind(AssertUnwindSafe(|| {
                        s.try_with_writer(|wr| -> Result<(), fuse_backend_rs::transport::Error> {
                            avail = wr.available_bytes();
                            Ok(())
                        })
                    }));
                    merge(res_unit(r), json!({"n": avail}))
                }
                "nc" => {
                    let s = w.ses.as_ref().expect("model: session exists");
                    match guarded(|| catch_unwind(AssertUnwindSafe(|| s.new_channel()))) {
                        Ok(Ok(ch)) => {
                            let mut wk = spawn_worker(ch, w.server.clone());
                            wk.minor = w.cur_minor;
                            w.workers.insert(c, wk);
                            json!({"res": "ok"})
                        }
                        Ok(Err(e)) => {
                            let m = e.to_string();
                            json!({"res": "err", "cls": err_class(&m), "msg": m})
                        }
                        Err(_) => json!({"res": "panic"}),
                    }
                }
                "dc" => {
                    let mut wk = w.workers.remove(&c).expect("model: channel exists");
                    assert!(!wk.busy, "model: channel not blocked");
                    wk.tx.send(Cmd::Drop).ok();
                    let _ = wk.rx.recv_timeout(Duration::from_secs(10));
                    wk.join.take().map(|j| j.join());
                    json!({"res": "ok"})
                }
                "gr" => {
                    let wk = w.workers.get_mut(&c).expect("model: channel exists");
                    assert!(!wk.busy, "model: channel not blocked");
                    wk.tx.send(Cmd::Gr).ok();
                    wk.busy = true;
                    json!({"res": "started"})
                }
                "clone" => {
                    let s = w.ses.as_ref().expect("model: session exists");
                    match guarded(|| catch_unwind(AssertUnwindSafe(|| s.clone_fuse_file()))) {
                        Ok(Ok(f)) => {
                            w.clone_minor = w.cur_minor;
                            w.clone = Some(f);
                            json!({"res": "ok"})
                        }
                        Ok(Err(e)) => {
                            let m = e.to_string();
                            json!({"res": "err", "cls": err_class(&m), "msg": m})
                        }
                        Err(_) => json!({"res": "panic"}),
                    }
                }
                "setf" => {
                    let s = w.ses.as_mut().expect("model: session exists");
                    let f = w.clone.take().expect("model: clone exists");
                    w.cur_minor = w.clone_minor;
                    match guarded(|| catch_unwind(AssertUnwindSafe(|| s.set_fuse_file(f)))) {
                        Ok(()) => json!({"res": "ok"}),
                        Err(_) => json!({"res": "panic"}),
                    }
                }
                "dclone" => {
                    w.clone = None;
                    json!({"res": "ok"})
                }
                "drop" => {
                    let s = w.ses.take().expect("model: session exists");
                    match guarded(|| catch_unwind(AssertUnwindSafe(move || drop(s)))) {
                        Ok(()) => json!({"res": "ok"}),
                        Err(_) => json!({"res": "panic"}),
                    }
                }
                "abort" => {
                    // environment: /sys/fs/fuse/connections/<dev>/abort of the k-th connection of this history
                    let k = op["k"].as_i64().unwrap_or(1) as usize;
                    ev["k"] = json!(k);
                    let ok = w.conns.get(k - 1).map(|m| abort_mounted(*m)).unwrap_or(false);
                    json!({"res": if ok { "ok" } else { "no-entry" }})
                }
                "cli" => {
                    assert!(w.client.is_none(), "model: one client at a time");
                    let top = mounts_at(&mp, false).last().filter(|m| m.1.starts_with("fuse")).map(|m| m.2).unwrap_or(0);
                    let mut cl = spawn_client(mp.clone());
                    cl.minor = top;
                    w.client = Some(cl);
                    json!({"res": "started"})
                }
                other => panic!("unknown op {other}"),
            };
            let hung = OP_HUNG.swap(false, Ordering::SeqCst);
            let nmount = mounts_at(&mp, false).len();
            let mut ev = merge(json!({"c": 0, "k": 0, "kind": "", "cls": "", "n": 0}), merge(ev, res));
            ev["hung"] = json!(hung);
            ev["nmount"] = json!(nmount);
            tr.emit(&ev);
            for d in w.settle() {
                tr.emit(&merge(json!({"c": 0, "cls": "", "opc": 0, "unique": "", "len": 0, "hlen": 0, "hm": "", "errno": 0}), d));
            }
            tr.emit(&merge(json!({"e": "st"}), w.state()));
            if std::env::var("SESSION_FLUSH").is_ok() {
                tr.flush();
            }
        }
        w.finish();
        tr.emit(&json!({"e": "End", "h": hid, "leaked_threads": w.leaked_threads}));
        tr.flush();
    }
    tr.flush();
    if w.leaked_threads > 0 {
        eprintln!("session: {} worker thread(s) could not be released", w.leaked_threads);
    }
}

// ------------------------------------------------------------------------------------------------
// probe / cleanup

fn probe(dir: &Path) -> Result<(), String> {
    // (SESSION_FUSE_DEV only exists to exercise this exit path of the check)
    let dev = std::env::var("SESSION_FUSE_DEV").unwrap_or_else(|_| "/dev/fuse".to_string());
    if !Path::new(&dev).exists() {
        return Err(format!("{dev} does not exist"));
    }
    let mp = dir.join("probe-mnt");
    std::fs::create_dir_all(&mp).map_err(|e| e.to_string())?;
    let mut s = FuseSession::new(&mp, "x03probe", "", false).map_err(|e| e.to_string())?;
    s.mount().map_err(|e| format!("mount: {e}"))?;
    let n = mounts_at(&mp, false).len();
    let r = s.umount().map_err(|e| format!("umount: {e}"));
    cleanup_below(dir);
    r?;
    if n != 1 {
        return Err(format!("after mount() the mount table shows {n} mounts at the mountpoint"));
    }
    Ok(())
}

fn main() {
    // a panic of the harness itself (not of the code under test, which is caught where it is called) must not
    // leave mounts behind
    if catch_unwind(real_main).is_err() {
        eprintln!("session: internal error (harness panic)");
        emergency_cleanup();
        std::process::exit(4);
    }
}

fn real_main() {
    // never outlive the check that started us: an orphan could keep a mount alive (and unserved) below the work
    // directory; when the process dies its descriptors close and the kernel aborts its connections
    unsafe {
        libc::prctl(libc::PR_SET_PDEATHSIG, libc::SIGKILL);
    }
    let a: Vec<String> = std::env::args().collect();
    let mode = a.get(1).map(|s| s.as_str()).unwrap_or("");
    match mode {
        "probe" => {
            let dir = PathBuf::from(&a[2]);
            std::fs::create_dir_all(&dir).ok();
            let dir = dir.canonicalize().unwrap();
            install_guards(&dir, 60);
            if let Err(e) = probe(&dir) {
                env_fail(&e);
            }
            cleanup_all(&dir);
            println!("probe ok");
        }
        "cleanup" => {
            let dir = PathBuf::from(&a[2]);
            if let Ok(dir) = dir.canonicalize() {
                *CLEAN_DIR.lock().unwrap() = Some(dir.clone());
                ensure_ctl(&dir);
                let n = cleanup_all(&dir);
                println!("cleanup: {n} mount(s) removed");
            }
        }
        "seq" => {
            let dir = PathBuf::from(&a[4]);
            std::fs::create_dir_all(&dir).ok();
            let dir = dir.canonicalize().unwrap();
            install_guards(&dir, vharness::util::env_u64("SESSION_LIMIT_S", 1500));
            run_seq(&a[2], &a[3], &dir);
            cleanup_all(&dir);
        }
        "conc" => {
            let dir = PathBuf::from(&a[3]);
            std::fs::create_dir_all(&dir).ok();
            let dir = dir.canonicalize().unwrap();
            install_guards(&dir, vharness::util::env_u64("SESSION_LIMIT_S", 1500));
            let seed: u64 = a[4].parse().unwrap();
            let runs: usize = a[5].parse().unwrap();
            let wd_ms: u64 = a.get(6).and_then(|s| s.parse().ok()).unwrap_or(3000);
            start_hang_watchdog(dir.clone(), gettid(), 5000);
            conc::run(&a[2], &dir, seed, runs, wd_ms);
            cleanup_all(&dir);
        }
        _ => {
            eprintln!("usage: session probe|cleanup|seq|conc ...");
            std::process::exit(3);
        }
    }
}

mod conc {
    //! concurrent runs: channel threads serve TinyFs through Server::handle_message while client threads read
    //! files on the mountpoint; a controller calls wake() / umount() / new_channel() / mount() at seeded points.
    //! Every call is logged before it is made (*_call) and after it returned (*_ret), under one lock, so the order
    //! of the log is consistent with real time.
    use super::*;
    use std::collections::HashMap;
    use std::sync::RwLock;

    pub struct Log {
        tr: Trace,
        seq: HashMap<String, u64>,
    }

    fn ev(log: &Mutex<Log>, t: &str, v: Value) {
        let mut g = log.lock().unwrap();
        let n = {
            let e = g.seq.entry(t.to_string()).or_insert(0);
            *e += 1;
            *e
        };
        let base = json!({"t": t, "n": n, "c": 0, "cl": 0, "res": "", "cls": "", "unique": "", "opc": 0, "len": 0, "hlen": 0, "hm": "",
                          "name": "", "tag": "", "errno": 0, "nmount": 0, "ms": 0, "kind": "", "nfuse": 0, "nevent": 0, "nepoll": 0});
        let v = merge(base, v);
        g.tr.emit(&v);
    }

    struct Chan {
        c: i64,
        tid: Arc<AtomicU64>,
        ingr: Arc<AtomicU64>, // now_ms() at which the thread entered get_request, 0 outside
        join: Option<std::thread::JoinHandle<()>>,
    }

    fn spawn_chan(c: i64, ch: FuseChannel, server: Arc<Server<Arc<TinyFs>>>, log: Arc<Mutex<Log>>, served: Arc<AtomicU64>, reenter: bool) -> Chan {
        let tid = Arc::new(AtomicU64::new(0));
        let ingr = Arc::new(AtomicU64::new(0));
        let (tid2, ingr2) = (tid.clone(), ingr.clone());
        let join = std::thread::spawn(move || {
            tid2.store(gettid() as u64, Ordering::SeqCst);
            let t = format!("ch{c}");
            let mut ch = ch;
            let mut nones = 0;
            loop {
                ev(&log, &t, json!({"e": "gr_call", "c": c}));
                ingr2.store(now_ms(), Ordering::SeqCst);
                let v = serve_one(&mut ch, &server, |got| {
                    ingr2.store(0, Ordering::SeqCst);
                    ev(&log, &t, merge(json!({"e": "gr_ret", "c": c}), got.clone()));
                });
                ingr2.store(0, Ordering::SeqCst);
                if v["res"] == "some" {
                    ev(&log, &t, json!({"e": "hm_ret", "c": c, "unique": v["unique"], "opc": v["opc"], "res": v["hm"]}));
                    served.fetch_add(1, Ordering::SeqCst);
                    continue;
                }
                ev(&log, &t, merge(json!({"e": "gr_ret", "c": c}), v.clone()));
                if v["res"] == "none" && reenter && nones == 0 {
                    nones += 1;
                    continue;
                }
                break;
            }
            drop(ch);
            ev(&log, &t, json!({"e": "ch_drop", "c": c}));
        });
        Chan { c, tid, ingr, join: Some(join) }
    }

    fn spawn_client(j: i64, mp: PathBuf, log: Arc<Mutex<Log>>, stop: Arc<AtomicBool>, nops: u64, busy: Arc<AtomicU64>, counter: Arc<AtomicU64>) -> std::thread::JoinHandle<()> {
        std::thread::spawn(move || {
            let t = format!("cl{j}");
            for _ in 0..nops {
                if stop.load(Ordering::SeqCst) {
                    break;
                }
                let n = counter.fetch_add(1, Ordering::SeqCst);
                let name = format!("f{n}");
                ev(&log, &t, json!({"e": "cl_call", "cl": j, "name": name}));
                busy.store(now_ms(), Ordering::SeqCst);
                let r = std::fs::read(mp.join(&name));
                busy.store(0, Ordering::SeqCst);
                match r {
                    Ok(data) => {
                        let tag: String = data.iter().take_while(|b| **b != b':').map(|b| *b as char).collect();
                        let uniform = data.len() == FILE_SIZE && data == TinyFs::content_of_tag(&tag);
                        ev(&log, &t, json!({"e": "cl_ret", "cl": j, "name": name, "res": "ok", "tag": if uniform { tag } else { format!("{tag}?mixed") }, "len": data.len()}));
                    }
                    Err(e) => {
                        ev(&log, &t, json!({"e": "cl_ret", "cl": j, "name": name, "res": "err", "errno": e.raw_os_error().unwrap_or(0)}));
                        break;
                    }
                }
            }
        })
    }

    const PLANS: &[&str] = &["wake", "umount-wake", "wake-umount", "umount", "race", "late", "rewake", "remount", "abort", "wake", "late", "race"];

    pub fn run(trace: &str, dir: &Path, seed: u64, runs: usize, wd_ms: u64) {
        let log = Arc::new(Mutex::new(Log { tr: Trace::create(trace), seq: HashMap::new() }));
        let mut rng = Rng::new(seed);
        let mp = dir.join("mnt");
        std::fs::create_dir_all(&mp).unwrap();
        let only = std::env::var("SESSION_PLAN").ok();
        for run in 0..runs {
            let plan = match &only {
                Some(p) => p.clone(),
                None => PLANS[(run + seed as usize) % PLANS.len()].to_string(),
            };
            one_run(&log, &mp, &mut rng, run, &plan, wd_ms);
            log.lock().unwrap().tr.flush();
            log.lock().unwrap().seq.clear();
        }
    }

    fn one_run(log: &Arc<Mutex<Log>>, mp: &Path, rng: &mut Rng, run: usize, plan: &str, wd_ms: u64) {
        let base = fd_count();
        let nchan = rng.range(1, 3) as i64;
        let nclients = rng.range(1, 3) as i64;
        let nops = rng.range(2, 10);
        let delay = *rng.pick(&[0u64, 0, 50, 300]);
        let trigger = rng.range(0, 12);
        let jitter_us = rng.range(0, 400);
        ev(log, "main", json!({"e": "Reset", "run": run, "plan": plan, "nchan": nchan, "nclients": nclients, "nops": nops, "delay": delay, "trigger": trigger}));
        let fs = Arc::new(TinyFs { delay_us: AtomicU64::new(delay) });
        let server = Arc::new(Server::new(fs.clone()));
        let mut s = match FuseSession::new(mp, "x03", "", false) {
            Ok(s) => s,
            Err(e) => env_fail(&format!("FuseSession::new: {e}")),
        };
        ev(log, "main", json!({"e": "mount_call"}));
        if let Err(e) = s.mount() {
            env_fail(&format!("mount: {e}"));
        }
        let mut minors: Vec<u32> = mounts_at(mp, false).last().map(|m| vec![m.2]).unwrap_or_default();
        *CONN_MINORS.lock().unwrap() = minors.clone();
        ev(log, "main", json!({"e": "mount_ret", "res": "ok", "nmount": mounts_at(mp, false).len()}));
        let ses = Arc::new(RwLock::new(s));
        let served = Arc::new(AtomicU64::new(0));
        let reenter = plan == "rewake";
        let chans: Arc<Mutex<Vec<Chan>>> = Arc::new(Mutex::new(Vec::new()));
        for c in 1..=nchan {
            ev(log, "main", json!({"e": "nc_call", "c": c}));
            match ses.read().unwrap().new_channel() {
                Ok(ch) => {
                    ev(log, "main", json!({"e": "nc_ret", "c": c, "res": "ok"}));
                    chans.lock().unwrap().push(spawn_chan(c, ch, server.clone(), log.clone(), served.clone(), reenter));
                }
                Err(e) => env_fail(&format!("new_channel: {e}")),
            }
        }
        // clients
        let stop = Arc::new(AtomicBool::new(false));
        let counter = Arc::new(AtomicU64::new(run as u64 * 1000));
        let mut busy = Vec::new();
        let mut clients = Vec::new();
        for j in 1..=nclients {
            let b = Arc::new(AtomicU64::new(0));
            busy.push(b.clone());
            clients.push(spawn_client(j, mp.to_path_buf(), log.clone(), stop.clone(), nops, b, counter.clone()));
        }
        // safety net: a client operation that hangs is released by aborting the connection(s)
        let run_over = Arc::new(AtomicBool::new(false));
        {
            let (busy, log, run_over) = (busy.clone(), log.clone(), run_over.clone());
            std::thread::spawn(move || {
                while !run_over.load(Ordering::SeqCst) {
                    std::thread::sleep(Duration::from_millis(100));
                    let now = now_ms();
                    if busy.iter().any(|b| {
                        let t = b.load(Ordering::SeqCst);
                        t != 0 && now > t + 15_000
                    }) {
                        ev(&log, "net", json!({"e": "abort", "kind": "client-timeout"}));
                        // (already a violation by then) first what is mounted here, then - a client of ours has been
                        // waiting for 15 s, its connection is alive - the connections of this run
                        for m in CONN_MINORS.lock().map(|g| g.clone()).unwrap_or_default() {
                            if !abort_mounted(m) {
                                abort_proven(m);
                            }
                        }
                        std::thread::sleep(Duration::from_secs(2));
                    }
                }
            });
        }
        // trigger: some requests served (or 200 ms), plus a little jitter
        let t0 = Instant::now();
        while served.load(Ordering::SeqCst) < trigger && t0.elapsed() < Duration::from_millis(200) {
            std::thread::sleep(Duration::from_micros(50));
        }
        std::thread::sleep(Duration::from_micros(jitter_us));

        let do_wake = |who: &str| {
            ev(log, who, json!({"e": "wake_call"}));
            let r = res_unit(catch_unwind(AssertUnwindSafe(|| ses.read().unwrap().wake())));
            ev(log, who, merge(json!({"e": "wake_ret"}), r));
        };
        let do_umount = |who: &str| {
            ev(log, who, json!({"e": "um_call"}));
            let r = res_unit(guarded(|| catch_unwind(AssertUnwindSafe(|| ses.write().unwrap().umount()))));
            ev(log, who, merge(json!({"e": "um_ret", "nmount": mounts_at(mp, false).len()}), r));
        };
        // every channel thread that is still inside get_request and provably asleep in epoll_wait `patience` ms
        // after the last wake/umount returned is reported; threads that are merely slow are waited for
        let watch = |kind: &str, patience: u64| {
            let t0 = Instant::now();
            loop {
                let all_done = chans.lock().unwrap().iter().all(|c| c.join.as_ref().map(|j| j.is_finished()).unwrap_or(true));
                if all_done {
                    return;
                }
                if t0.elapsed() >= Duration::from_millis(patience) {
                    let mut undecided = false;
                    for c in chans.lock().unwrap().iter() {
                        if c.join.as_ref().map(|j| j.is_finished()).unwrap_or(true) {
                            continue;
                        }
                        let since = c.ingr.load(Ordering::SeqCst);
                        if since != 0 && sleeping_in(c.tid.load(Ordering::SeqCst) as i64, &SYS_EPOLL, false) && c.ingr.load(Ordering::SeqCst) == since {
                            ev(log, "wd", json!({"e": "watchdog", "c": c.c, "kind": kind, "ms": t0.elapsed().as_millis() as u64}));
                        } else {
                            undecided = true;
                        }
                    }
                    if !undecided {
                        return;
                    }
                    if t0.elapsed() > Duration::from_secs(30) {
                        env_fail("a channel thread neither finished nor went to sleep within 30 s");
                    }
                }
                std::thread::sleep(Duration::from_millis(5));
            }
        };
        let clients_idle = |max_ms: u64| {
            let t0 = Instant::now();
            while busy.iter().any(|b| b.load(Ordering::SeqCst) != 0) && t0.elapsed() < Duration::from_millis(max_ms) {
                std::thread::sleep(Duration::from_millis(2));
            }
        };

        match plan {
            "wake" => {
                do_wake("main");
                watch("wake", wd_ms);
                do_umount("main");
            }
            "umount-wake" => {
                do_umount("main");
                do_wake("main");
                watch("wake", wd_ms);
            }
            "wake-umount" => {
                do_wake("main");
                do_umount("main");
                watch("wake", wd_ms);
            }
            "umount" => {
                stop.store(true, Ordering::SeqCst);
                do_umount("main");
                clients_idle(5000);
                watch("umount", wd_ms);
                do_wake("main");
                watch("wake", wd_ms);
            }
            "race" => {
                std::thread::scope(|sc| {
                    sc.spawn(|| do_wake("ctlA"));
                    sc.spawn(|| do_umount("ctlB"));
                });
                watch("wake", wd_ms);
            }
            "late" => {
                let c = nchan + 1;
                std::thread::scope(|sc| {
                    sc.spawn(|| {
                        ev(log, "ctlB", json!({"e": "nc_call", "c": c}));
                        match ses.read().unwrap().new_channel() {
                            Ok(ch) => {
                                ev(log, "ctlB", json!({"e": "nc_ret", "c": c, "res": "ok"}));
                                chans.lock().unwrap().push(spawn_chan(c, ch, server.clone(), log.clone(), served.clone(), false));
                            }
                            Err(e) => {
                                let m = e.to_string();
                                ev(log, "ctlB", json!({"e": "nc_ret", "c": c, "res": "err", "cls": err_class(&m)}));
                            }
                        }
                    });
                    sc.spawn(|| do_wake("ctlA"));
                });
                watch("wake", wd_ms);
                do_wake("main");
                watch("wake", wd_ms);
                do_umount("main");
            }
            "rewake" => {
                do_wake("main");
                watch("wake", wd_ms);
                do_wake("main");
                watch("wake", wd_ms);
                do_umount("main");
            }
            "remount" => {
                // mount() on the mounted session while the channels are serving
                ev(log, "main", json!({"e": "mount_call"}));
                let r = res_unit(guarded(|| catch_unwind(AssertUnwindSafe(|| ses.write().unwrap().mount()))));
                let hung = OP_HUNG.swap(false, Ordering::SeqCst);
                if let Some(m) = mounts_at(mp, false).last() {
                    if !minors.contains(&m.2) {
                        minors.push(m.2);
                        CONN_MINORS.lock().unwrap().push(m.2);
                    }
                }
                ev(log, "main", merge(json!({"e": "mount_ret", "nmount": mounts_at(mp, false).len(), "kind": if hung { "hung" } else { "" }}), r));
                stop.store(true, Ordering::SeqCst);
                do_umount("main");
                do_wake("main");
                watch("wake", wd_ms);
            }
            "abort" => {
                ev(log, "main", json!({"e": "abort", "kind": "fusectl"}));
                for m in &minors {
                    abort_mounted(*m);
                }
                do_umount("main");
                watch("umount", wd_ms);
                do_wake("main");
                watch("wake", wd_ms);
            }
            other => panic!("unknown plan {other}"),
        }
        // epilogue (not judged as part of the plan): stop the clients, release whatever is left, drop everything
        stop.store(true, Ordering::SeqCst);
        let still: Vec<i64> = chans.lock().unwrap().iter().filter(|c| !c.join.as_ref().map(|j| j.is_finished()).unwrap_or(true)).map(|c| c.c).collect();
        if !still.is_empty() {
            ev(log, "main", json!({"e": "abort", "kind": "release"}));
            // every channel of a run was created on the first connection; a channel thread asleep in epoll_wait
            // proves that this connection is still alive (and its number still ours)
            let proven = chans.lock().unwrap().iter().any(|c| {
                !c.join.as_ref().map(|j| j.is_finished()).unwrap_or(true) && sleeping_in(c.tid.load(Ordering::SeqCst) as i64, &SYS_EPOLL, false)
            });
            if proven {
                abort_proven(minors[0]);
            }
            if let Ok(g) = ses.read() {
                let _ = g.wake();
            }
        }
        let mut leaked = 0;
        for mut c in std::mem::take(&mut *chans.lock().unwrap()) {
            let j = c.join.take().unwrap();
            let t0 = Instant::now();
            while !j.is_finished() && t0.elapsed() < Duration::from_secs(10) {
                std::thread::sleep(Duration::from_millis(2));
            }
            if j.is_finished() {
                j.join().ok();
            } else {
                leaked += 1;
            }
        }
        drop(ses); // Drop = umount (the session is not shared any more); with the last descriptor the connection goes
        for c in clients {
            let t0 = Instant::now();
            while !c.is_finished() && t0.elapsed() < Duration::from_secs(20) {
                std::thread::sleep(Duration::from_millis(2));
            }
            if c.is_finished() {
                c.join().ok();
            } else {
                leaked += 1;
            }
        }
        run_over.store(true, Ordering::SeqCst);
        let f = fd_count();
        ev(log, "main", json!({"e": "end", "nfuse": f.fuse - base.fuse, "nevent": f.event - base.event, "nepoll": f.epoll - base.epoll,
                               "nmount": mounts_at(mp, false).len(), "kind": if leaked > 0 { "leaked-threads" } else { "" }}));
        cleanup_below(mp);
        CONN_MINORS.lock().unwrap().clear();
        if !mounts_at(mp, true).is_empty() {
            env_fail("a mount could not be removed after a concurrent run");
        }
        if leaked > 0 {
            env_fail("threads of a concurrent run could not be released");
        }
    }
}
