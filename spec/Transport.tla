------------------------------ MODULE Transport ------------------------------
(* A-level (property) specification for C04 / C17: what the transport readers and writers of
   fuse-backend-rs must do, said over the FLAT sequence of byte addresses of a buffer chain.

   A chain is a sequence of runs <<addr, len>> (zero-length runs allowed, any order of addresses,
   several regions).  Its meaning is Flat(chain): the sequence of byte addresses it supplies.
   Everything the property says is said about that sequence:

     InOrderOnce  an operation that moves d bytes through object o moves exactly the next d
                  addresses Take(rem[o], d) of o, in order; afterwards rem[o] = Drop(rem[o], d)
     Placed       a writer puts the k-th source byte at the k-th of those addresses and nowhere else
                  (fusedev: the device fd receives content(self) \o content(other) as ONE message)
     Counters     available = Len(rem[o]),  available + done = size  at all times; a split at off
                  gives Take/Drop of the remaining sequence
     FailClean    a writer operation asking for more than the remaining space fails and moves nothing
     NoOOB        no address outside the supplied runs is touched
     PlainView    container reads do not modify the bytes, container writes place exactly the bytes
     DirtyExact   (C17) when the reply is complete: dirty pages = pages of the modified bytes

   Two renderings of the same semantics live here:
     * the per-byte one (Flat/Take/Drop/Pages) is the reference, used by TLC on small constants
       (TransportImpl.tla checks the code-shaped algorithms against it);
     * the interval one (TakeR/DropR/ZipR/PagesR/Ramps...) computes on runs so that 64 KiB segments
       cost nothing; Trace_Transport.tla judges logs of the real code with it.  TransportImpl's
       `Lemmas` invariant makes TLC check that both renderings agree on every reachable value.

   What A deliberately does NOT say (weaker reading wins): which error kind is returned; that a
   count-returning read/write moves as much as it could (short transfers are allowed); that a reader
   whose read_obj/read_exact_to fails has consumed nothing (the text only forbids writing); when
   the dirty bits are set (only that they are right once the reply is complete). *)
EXTENDS Naturals, Sequences, FiniteSets, TLC

CONSTANTS P,      \* page size of the dirty bitmap (2 in MC, 4096 for traces)
          M       \* modulus of the byte-value ramps used by the harness (251); MC uses per-byte tokens

Min(a, b) == IF a < b THEN a ELSE b
Max(a, b) == IF a < b THEN b ELSE a

(* ------------------------------- per-byte reference view ------------------------------- *)
Range(b, l) == [i \in 1..l |-> b + i - 1]
RECURSIVE Flat(_)
Flat(s) == IF s = <<>> THEN <<>> ELSE Range(Head(s)[1], Head(s)[2]) \o Flat(Tail(s))
Take(s, n) == SubSeq(s, 1, Min(n, Len(s)))
Drop(s, n) == SubSeq(s, Min(n, Len(s)) + 1, Len(s))
Pages(addrs) == {addrs[i] \div P : i \in 1..Len(addrs)}
SetOf(s) == {s[i] : i \in 1..Len(s)}

(* ------------------------------- interval rendering ------------------------------------ *)
RECURSIVE LenR(_)
LenR(r) == IF r = <<>> THEN 0 ELSE Head(r)[2] + LenR(Tail(r))

RECURSIVE TakeR(_, _)
TakeR(r, n) ==
  IF r = <<>> \/ n = 0 THEN <<>>
  ELSE LET h == Head(r) IN
       IF h[2] <= n THEN <<h>> \o TakeR(Tail(r), n - h[2]) ELSE << <<h[1], n>> >>

RECURSIVE DropR(_, _)
DropR(r, n) ==
  IF r = <<>> THEN <<>>
  ELSE LET h == Head(r) IN
       IF n = 0 THEN r
       ELSE IF h[2] <= n THEN DropR(Tail(r), n - h[2])
       ELSE << <<h[1] + n, h[2] - n>> >> \o Tail(r)

\* canonical form of a run list: no empty runs, address-contiguous neighbours merged
RECURSIVE Norm(_)
Norm(r) ==
  IF r = <<>> THEN <<>>
  ELSE LET h == Head(r) t == Norm(Tail(r)) IN
       IF h[2] = 0 THEN t
       ELSE IF t # <<>> /\ h[1] + h[2] = Head(t)[1] THEN << <<h[1], h[2] + Head(t)[2]>> >> \o Tail(t)
       ELSE <<h>> \o t

PageSpan(a, l) == IF l = 0 THEN {} ELSE (a \div P)..((a + l - 1) \div P)
PagesR(r) == UNION {PageSpan(r[i][1], r[i][2]) : i \in 1..Len(r)}

\* pair target runs with source runs of the same total length: pieces <<addr, len, src>>
RECURSIVE ZipR(_, _)
ZipR(t, s) ==
  IF t = <<>> \/ s = <<>> THEN <<>>
  ELSE LET ht == Head(t) hs == Head(s) IN
       IF ht[2] = 0 THEN ZipR(Tail(t), s)
       ELSE IF hs[2] = 0 THEN ZipR(t, Tail(s))
       ELSE LET m == Min(ht[2], hs[2]) IN
            << <<ht[1], m, hs[1]>> >> \o
            ZipR(IF m = ht[2] THEN Tail(t) ELSE << <<ht[1] + m, ht[2] - m>> >> \o Tail(t),
                 IF m = hs[2] THEN Tail(s) ELSE << <<hs[1] + m, hs[2] - m>> >> \o Tail(s))

(* The harness stores in every source location x the byte value x % M ("ramp") and logs byte
   strings run-length compressed as ramps <<v, len>> = v, v+1, ... (mod M).  Ramps / RampZ are the
   canonical compressions of an expected byte string given as source runs / as placed pieces. *)
RECURSIVE Ramps(_)
Ramps(r) ==
  IF r = <<>> THEN <<>>
  ELSE LET h == Head(r) t == Ramps(Tail(r)) v == h[1] % M IN
       IF h[2] = 0 THEN t
       ELSE IF t # <<>> /\ (v + h[2]) % M = Head(t)[1] THEN << <<v, h[2] + Head(t)[2]>> >> \o Tail(t)
       ELSE << <<v, h[2]>> >> \o t

\* z must be sorted by address; result: maximal runs <<addr, len, v>> contiguous in address AND value
RECURSIVE RampZ(_)
RampZ(z) ==
  IF z = <<>> THEN <<>>
  ELSE LET h == Head(z) t == RampZ(Tail(z)) v == h[3] % M IN
       IF h[2] = 0 THEN t
       ELSE IF t # <<>> /\ h[1] + h[2] = Head(t)[1] /\ (v + h[2]) % M = Head(t)[3]
            THEN << <<h[1], h[2] + Head(t)[2], v>> >> \o Tail(t)
       ELSE << <<h[1], h[2], v>> >> \o t

\* insertion sort of pieces by address (lists are short)
RECURSIVE InsertByAddr(_, _)
InsertByAddr(x, s) ==
  IF s = <<>> THEN <<x>>
  ELSE IF x[1] <= Head(s)[1] THEN <<x>> \o s ELSE <<Head(s)>> \o InsertByAddr(x, Tail(s))
RECURSIVE SortByAddr(_)
SortByAddr(s) == IF s = <<>> THEN <<>> ELSE InsertByAddr(Head(s), SortByAddr(Tail(s)))

\* expected memory difference of "source runs s written over the first LenR(s) addresses of t"
ExpDiff(t, s) == RampZ(SortByAddr(ZipR(TakeR(t, LenR(s)), s)))

\* replace the bytes [at, at + LenR(s)) of a content (a run list of source identities) by s
Splice(c, at, s) == TakeR(c, at) \o s \o DropR(c, at + LenR(s))

(* ------------------------------- operation classes and result rules -------------------- *)
\* the async_* names are the async-io entry points: same obligations as their synchronous counterparts
\* (async_write2/3 offer two/three slices like write_vectored)
ReaderOps   == {"read", "read_obj", "read_exact", "read_to", "read_to_at", "read_exact_to", "async_read_to_at"}
WriterOps   == {"write", "write_vectored", "write_all", "write_obj", "write_from", "write_from_at", "write_all_from",
                "async_write", "async_write2", "async_write3", "async_write_all", "async_write_from_at"}
ExactOps    == {"read_obj", "read_exact", "read_exact_to", "write_all", "write_obj", "write_all_from", "async_write_all"}
FileSrcOps  == {"write_from", "write_from_at", "write_all_from", "async_write_from_at"}
FileSinkOps == {"read_to", "read_to_at", "read_exact_to", "async_read_to_at"}
AtOps       == {"write_from_at", "read_to_at", "async_write_from_at", "async_read_to_at"}   \* explicit file offset, cursor untouched
CommitOps   == {"commit", "async_commit"}
CursorOps   == {"write_from", "write_all_from", "read_to", "read_exact_to"}   \* move the file cursor
MoveOps     == ReaderOps \cup WriterOps

(* Faults of one completed data-moving operation.
     op     operation name          n      bytes asked for
     avail  Len(rem[o]) before      res    "ok" | "err" | "panic"     ret  returned count (ok only)
     d      bytes actually moved = change of the consumed/written counter
     usable FALSE only for a never-split fusedev writer that has already sent its one message
            (documented contract: such a writer accepts exactly one write)
   The rules, in the order of the set below:
     moved      never more than asked for, never more than there is
     ret        Ok(k) of a count-returning op reports exactly the bytes moved; Ok(()) of an exact op
                means all n bytes were moved
     exceed     a writer op (or an exact read) asking for more than remains must not succeed
     unclean    a writer op asking for more than remains moves nothing
     spurious   an operation that fits does not fail (file-source ops may fail for lack of file data) *)
ResFaults(op, n, avail, res, ret, d, usable) ==
  (IF d > Min(n, avail) THEN {"moved"} ELSE {}) \cup
  (IF res = "ok" /\ op \notin ExactOps /\ ret # d THEN {"ret"} ELSE {}) \cup
  (IF res = "ok" /\ op \in ExactOps /\ d # n THEN {"ret"} ELSE {}) \cup
  (IF n > avail /\ op \in (WriterOps \cup ExactOps) /\ res = "ok" THEN {"exceed-not-failed"} ELSE {}) \cup
  (IF n > avail /\ op \in WriterOps /\ d # 0 THEN {"fail-not-clean"} ELSE {}) \cup
  (IF n <= avail /\ usable /\ op # "write_all_from" /\ res # "ok" THEN {"spurious-failure"} ELSE {})

\* split_at(off) of a window with `room` addressable bytes: succeeds iff off <= room
SplitFaults(off, room, res) ==
  (IF off <= room /\ res # "ok" THEN {"spurious-failure"} ELSE {}) \cup
  (IF off > room /\ res = "ok" THEN {"exceed-not-failed"} ELSE {})
=============================================================================
