//! mountfds engine (X07): life cycle of `MountFds` / `MountFd` (src/passthrough/mount_fd.rs) under
//! concurrency, reached through a real `PassthroughFs` with `inode_file_handles: true`: a lookup of a
//! name that is not in the inode table calls `MountFds::get`; a forget to zero drops the InodeData and
//! with it an `Arc<MountFd>`. The export root is a directory of the host file system; `m` and `n`
//! are tmpfs mounts inside it (private mount namespace), `m/a`, `m/b` files on the first mount.
//!
//!   mountfds sched  <schedules.ndjson> <workdir> <out.ndjson> [shard nshards]
//!   mountfds stress <workdir> <out.ndjson> <iterations>        (VERIF_SEED, MOUNTFDS_PERTURB=0/1)
//!
//! schedules.ndjson: first line {"cfg", "threads":[{"op","nm","n","fail"}...]}; then one line per
//! schedule {"h0": [names held at the start], "s": [[thread, "label"], ...]} (labels of
//! spec/MountFdsImpl.tla = the yield points of hooks/mountfd-yield.diff + L_probe, L_wlock, F_wlock).
//! `fail` = "open" | "reopen": while that step of the thread's `MountFds::get` runs (all other
//! threads are parked) RLIMIT_NOFILE is 0, so the descriptor allocation fails with EMFILE.
//!
//! Events (one segment per schedule / iteration), everything raw:
//!   Reset{seg, cfg, sid, h0, base_map, base_nfd}       base_* = values of a freshly imported server
//!   Call{t, op, nm, n, inject, seq} / Ret{t, op, val, kind, seq}   kind: ino | none | attr | err
//!   Probe{at, map, live, nfd, mfds, names:[{nm, ino, present, count, getattr}]}   at quiescent points:
//!        map/live = entries / referenced entries of the MountFds map (hook accessor), nfd = entries of
//!        /proc/self/fd, mfds = those that point at the mount points m or n, per known name the inode
//!        table entry (present, count) and whether getattr on the number works.
//! Thread 0 is the sequential setup / drain. Yield events and model drift go to <out>.sched.
use std::cell::RefCell;
use std::collections::BTreeMap;
use std::ffi::CString;
use std::panic::{catch_unwind, AssertUnwindSafe};
use std::sync::atomic::{AtomicBool, AtomicU64, AtomicU8, AtomicUsize, Ordering};
use std::sync::{Arc, Barrier, Mutex};
use std::time::{Duration, Instant};

use fuse_backend_rs::api::filesystem::{Context, FileSystem};
use fuse_backend_rs::passthrough::{verif_hooks, Config, PassthroughFs};
use serde_json::{json, Value};
use vharness::util::{env_u64, Rng, Trace};

type Fs = PassthroughFs<()>;
const ROOT: u64 = 1;
const WATCHDOG: Duration = Duration::from_millis(50);
const HANG: Duration = Duration::from_secs(10);
const SPIN_US: u64 = 40;
const ALL: u64 = 1000; // a forget count that exceeds every lookup count

// ------------------------------------------------------------------------------------------------
// operations (dumb drivers: call, log what came back)

#[derive(Clone, Debug)]
struct OpDesc {
    op: String, // lookup | forget | getattr
    nm: String, // m | n | a | b
    n: u64,     // forget count
    fail: String, // none | open | reopen
}

impl OpDesc {
    fn from_json(v: &Value) -> OpDesc {
        OpDesc {
            op: v["op"].as_str().unwrap().to_string(),
            nm: v["nm"].as_str().unwrap_or("").to_string(),
            n: v["n"].as_u64().unwrap_or(0),
            fail: v["fail"].as_str().unwrap_or("none").to_string(),
        }
    }
    fn call_event(&self, t: usize, seq: u64) -> Value {
        json!({"e": "Call", "t": t, "op": self.op, "nm": self.nm, "n": self.n, "inject": self.fail, "seq": seq})
    }
}

fn ret_event(t: usize, op: &str, val: &str, seq: u64) -> Value {
    let kind = if val.is_empty() {
        "none"
    } else if val.parse::<u64>().is_ok() {
        "ino"
    } else if val == "ok" {
        "attr"
    } else {
        "err"
    };
    json!({"e": "Ret", "t": t, "op": op, "val": val, "kind": kind, "seq": seq})
}

fn errval(e: &std::io::Error) -> String {
    format!("err:{}", e.raw_os_error().unwrap_or(-1))
}

/// the inode numbers the client knows the names by (numbers are sticky in this configuration)
#[derive(Clone, Default)]
struct ClientCtx {
    inos: BTreeMap<String, u64>,
}

fn run_op(fs: &Fs, op: &OpDesc, c: &ClientCtx) -> String {
    let ctx = Context::default();
    let ino = c.inos.get(&op.nm).copied().unwrap_or(0);
    let r = catch_unwind(AssertUnwindSafe(|| match op.op.as_str() {
        "lookup" => {
            let parent = if op.nm == "a" || op.nm == "b" { c.inos.get("m").copied().unwrap_or(0) } else { ROOT };
            let name = CString::new(op.nm.as_str()).unwrap();
            match fs.lookup(&ctx, parent, &name) {
                Ok(e) => e.inode.to_string(),
                Err(e) => errval(&e),
            }
        }
        "forget" => {
            fs.forget(&ctx, ino, op.n);
            String::new()
        }
        "getattr" => match fs.getattr(&ctx, ino, None) {
            Ok(_) => "ok".to_string(),
            Err(e) => errval(&e),
        },
        other => panic!("unknown op {}", other),
    }));
    r.unwrap_or_else(|_| "panic".to_string())
}

// ------------------------------------------------------------------------------------------------
// the exported tree with two mounts inside, and a fresh filesystem instance

struct Tree {
    root: String,
    mpts: Vec<String>,
}

fn sys(what: &str, r: libc::c_int) {
    if r != 0 {
        eprintln!("mountfds: {} failed: {}", what, std::io::Error::last_os_error());
        std::process::exit(2);
    }
}

impl Tree {
    /// must run before any thread is created (unshare(CLONE_NEWNS))
    fn create(workdir: &str, tag: &str) -> Tree {
        let root = format!("{}/mountfds_{}_{}", workdir, tag, std::process::id());
        let _ = std::fs::remove_dir_all(&root);
        std::fs::create_dir_all(format!("{}/m", root)).expect("mkdir m");
        std::fs::create_dir_all(format!("{}/n", root)).expect("mkdir n");
        let root = std::fs::canonicalize(&root).expect("canonicalize").to_str().unwrap().to_string();
        let none = CString::new("none").unwrap();
        let tmpfs = CString::new("tmpfs").unwrap();
        let slash = CString::new("/").unwrap();
        unsafe {
            sys("unshare(CLONE_NEWNS)", libc::unshare(libc::CLONE_NEWNS));
            sys("mount --make-rprivate /", libc::mount(std::ptr::null(), slash.as_ptr(), std::ptr::null(), libc::MS_REC | libc::MS_PRIVATE, std::ptr::null()));
        }
        let mut mpts = Vec::new();
        for d in ["m", "n"] {
            let p = format!("{}/{}", root, d);
            let cp = CString::new(p.as_str()).unwrap();
            unsafe { sys("mount tmpfs", libc::mount(none.as_ptr(), cp.as_ptr(), tmpfs.as_ptr(), 0, std::ptr::null())) };
            mpts.push(p);
        }
        std::fs::write(format!("{}/m/a", root), b"x").expect("write a");
        std::fs::write(format!("{}/m/b", root), b"y").expect("write b");
        Tree { root, mpts }
    }
    fn new_fs(&self) -> Fs {
        let cfg = Config { root_dir: self.root.clone(), do_import: true, inode_file_handles: true, ..Default::default() };
        let fs = Fs::new(cfg).expect("PassthroughFs::new");
        fs.import().expect("import");
        fs
    }
    /// (entries of /proc/self/fd, those that point at one of the mount points)
    fn count_fds(&self) -> (u64, u64) {
        let (mut n, mut m) = (0u64, 0u64);
        if let Ok(rd) = std::fs::read_dir("/proc/self/fd") {
            for e in rd.flatten() {
                n += 1;
                if let Ok(t) = std::fs::read_link(e.path()) {
                    if self.mpts.iter().any(|p| t.to_str() == Some(p.as_str())) {
                        m += 1;
                    }
                }
            }
        }
        (n.saturating_sub(1), m) // minus the descriptor of the directory stream itself
    }
}

impl Drop for Tree {
    fn drop(&mut self) {
        for p in &self.mpts {
            let cp = CString::new(p.as_str()).unwrap();
            unsafe { libc::umount2(cp.as_ptr(), libc::MNT_DETACH) };
        }
        let _ = std::fs::remove_dir_all(&self.root);
    }
}

/// get (None) or set the soft RLIMIT_NOFILE; returns the previous soft limit
fn nofile_limit(set: Option<u64>) -> u64 {
    let mut r = libc::rlimit { rlim_cur: 0, rlim_max: 0 };
    unsafe { libc::getrlimit(libc::RLIMIT_NOFILE, &mut r) };
    let old = r.rlim_cur;
    if let Some(v) = set {
        r.rlim_cur = v;
        unsafe { libc::setrlimit(libc::RLIMIT_NOFILE, &r) };
    }
    old
}

// ------------------------------------------------------------------------------------------------
// cooperative scheduler
//
// No lock is shared between the clients and the scheduler: a client that is Running can only go
// to sleep inside the code under test (a lock held by a descheduled thread), which is what the
// scheduler looks for in /proc/self/task/<tid>/stat.

const LABELS: [&str; 10] = ["start", "L_probe", "L_wlock", "F_wlock", "MF_probe", "MF_open", "MF_reopen", "MF_wlock",
    "MD_wlock", "other"];
/// yield points where a scheduled client parks (= the labels of spec/MountFdsImpl.tla); the other
/// yield points of the passthrough code (L_load, L_cas, L_locked, F_locked, F_load, F_cas, F_rm) pass through
fn parks(l: &str) -> bool {
    LABELS[1..9].contains(&l)
}
fn label_ix(l: &str) -> usize {
    LABELS.iter().position(|x| *x == l).unwrap_or(LABELS.len() - 1)
}

const PARKED: u8 = 0;
const RUNNING: u8 = 1;
const FINISHED: u8 = 2;

struct Slot {
    fl: AtomicU8,          // PARKED / RUNNING / FINISHED
    at: AtomicUsize,       // label index where the thread is parked (0 = not started)
    first: AtomicBool,     // the next yield point belongs to the first step: pass through
    passed: AtomicUsize,   // label index of that passed yield point
    log: Mutex<Vec<(u64, Value)>>, // Call/Ret/Yield events of this thread (uncontended)
}

struct Sched {
    slots: Vec<Slot>, // index = thread id (0 unused)
    seq: AtomicU64,
    threads: Vec<std::thread::Thread>,
}

thread_local! {
    static ME: RefCell<Option<(usize, Arc<Sched>)>> = const { RefCell::new(None) };
    static PERTURB: RefCell<Option<Rng>> = const { RefCell::new(None) };
}

fn hook(label: &'static str) {
    let me = ME.with(|m| m.borrow().clone());
    if let Some((t, s)) = me {
        if parks(label) {
            s.at_yield(t, label);
        }
        return;
    }
    // stress mode: random delay at the yield point
    PERTURB.with(|p| {
        if let Some(r) = p.borrow_mut().as_mut() {
            delay(r);
        }
    });
}

fn delay(r: &mut Rng) {
    match r.below(8) {
        0 => std::thread::yield_now(),
        1 => std::thread::sleep(Duration::from_micros(r.below(60))),
        2 | 3 => {
            let n = r.below(3000);
            for _ in 0..n {
                std::hint::spin_loop();
            }
        }
        _ => {}
    }
}

/// short busy wait (a futex wake-up costs far more than one step of the code under test)
fn spin_while(f: &AtomicU8, v: u8, micros: u64) {
    let t0 = Instant::now();
    let mut k = 0u32;
    while f.load(Ordering::Acquire) == v {
        std::hint::spin_loop();
        k += 1;
        if k % 64 == 0 && t0.elapsed() >= Duration::from_micros(micros) {
            break;
        }
    }
}

impl Sched {
    fn new(n: usize, seq0: u64, pool: &Pool) -> Sched {
        Sched {
            slots: (0..=n).map(|_| Slot {
                fl: AtomicU8::new(PARKED),
                at: AtomicUsize::new(0),
                first: AtomicBool::new(false),
                passed: AtomicUsize::new(0),
                log: Mutex::new(Vec::new()),
            }).collect(),
            seq: AtomicU64::new(seq0),
            threads: pool.threads.clone(),
        }
    }

    fn next_seq(&self) -> u64 {
        self.seq.fetch_add(1, Ordering::SeqCst) + 1
    }

    fn wait_grant(&self, t: usize) {
        let sl = &self.slots[t];
        spin_while(&sl.fl, PARKED, SPIN_US);
        while sl.fl.load(Ordering::Acquire) == PARKED {
            std::thread::park_timeout(Duration::from_millis(2));
        }
    }

    fn grant(&self, t: usize) {
        self.slots[t].fl.store(RUNNING, Ordering::Release);
        self.threads[t - 1].unpark();
    }

    fn at_yield(&self, t: usize, label: &'static str) {
        let sl = &self.slots[t];
        let seq = self.next_seq();
        sl.log.lock().unwrap().push((seq, json!({"e": "Yield", "t": t, "label": label, "seq": seq})));
        if sl.first.swap(false, Ordering::AcqRel) {
            sl.passed.store(label_ix(label), Ordering::Release);
            return;
        }
        sl.at.store(label_ix(label), Ordering::Release);
        sl.fl.store(PARKED, Ordering::Release);
        self.wait_grant(t);
    }

    /// body of a scheduled client thread
    fn client(self: &Arc<Sched>, t: usize, fs: &Fs, op: &OpDesc, c: &ClientCtx) {
        ME.with(|m| *m.borrow_mut() = Some((t, self.clone())));
        let sl = &self.slots[t];
        // the first granted step logs the call and runs through the first yield point
        self.wait_grant(t);
        sl.first.store(true, Ordering::Release);
        let seq = self.next_seq();
        sl.log.lock().unwrap().push((seq, op.call_event(t, seq)));
        let val = run_op(fs, op, c);
        let seq = self.next_seq();
        sl.log.lock().unwrap().push((seq, ret_event(t, &op.op, &val, seq)));
        ME.with(|m| *m.borrow_mut() = None);
        sl.fl.store(FINISHED, Ordering::Release);
    }

    /// all logged events in seq order: (Call/Ret, Yield)
    fn take_events(&self) -> (Vec<Value>, Vec<Value>) {
        let mut all: Vec<(u64, Value)> = Vec::new();
        for sl in &self.slots {
            all.append(&mut sl.log.lock().unwrap());
        }
        all.sort_by_key(|x| x.0);
        let (mut ev, mut ys) = (Vec::new(), Vec::new());
        for (_, e) in all {
            if e["e"] == "Yield" {
                ys.push(e);
            } else {
                ev.push(e);
            }
        }
        (ev, ys)
    }
}

#[derive(Default)]
struct Drift {
    label_mismatch: u64,
    skipped: u64,     // schedule step of a thread that had finished / could not be granted
    leftover: u64,    // grants after the schedule was exhausted
    watchdog: u64,    // granted thread did not reach a yield point: found asleep on a lock, or WATCHDOG expired
    timeouts: u64,    // ... of which WATCHDOG expiries
    hang: bool,
}

impl Drift {
    fn steps(&self) -> u64 {
        self.label_mismatch + self.skipped + self.leftover
    }
}

fn real_label(l: &str) -> Option<&str> {
    Some(l)
}

/// Wait until client `t` leaves Running: it parked at a yield point or finished -> true.
/// false = it is blocked: found asleep in the kernel on three consecutive polls (a lock held by a
/// descheduled thread), or WATCHDOG expired.
fn settle(s: &Sched, pool: &Pool, t: usize, lim: Duration, d: &mut Drift) -> bool {
    let deadline = Instant::now() + lim;
    let mut sleeps = 0;
    loop {
        spin_while(&s.slots[t].fl, RUNNING, 100);
        if s.slots[t].fl.load(Ordering::Acquire) != RUNNING {
            return true;
        }
        if Instant::now() >= deadline {
            d.timeouts += 1;
            return false;
        }
        if asleep(pool, t) {
            sleeps += 1;
            if sleeps >= 3 {
                if std::env::var("PTCONC_DEBUG").is_ok() {
                    eprintln!("asleep t={} syscall={:?}", t,
                        std::fs::read_to_string(format!("/proc/self/task/{}/syscall", pool.tids[t - 1])));
                }
                return false;
            }
        } else {
            sleeps = 0;
            std::thread::yield_now();
        }
    }
}

/// Grant the steps of `sched` in order; returns drift accounting.
fn drive(s: &Arc<Sched>, pool: &Pool, n: usize, sched: &[(usize, String)], ops: &[OpDesc]) -> (Drift, Vec<Value>) {
    let mut d = Drift::default();
    let mut followed: Vec<Value> = Vec::new();
    let fl = |t: usize| s.slots[t].fl.load(Ordering::Acquire);
    for (t, lbl) in sched.iter() {
        let t = *t;
        let want = match real_label(lbl) {
            None => continue,
            Some(w) => w,
        };
        if fl(t) == RUNNING && !settle(s, pool, t, WATCHDOG, &mut d) {
            d.skipped += 1;
            continue;
        }
        if fl(t) == FINISHED {
            d.skipped += 1;
            continue;
        }
        let at = LABELS[s.slots[t].at.load(Ordering::Acquire)];
        let from_start = at == "start";
        if !from_start && at != want {
            d.label_mismatch += 1;
        }
        // fault injection: the step of MountFds::get that follows this yield point cannot allocate a descriptor
        let inject = (at == "MF_open" && ops[t - 1].fail == "open") || (at == "MF_reopen" && ops[t - 1].fail == "reopen");
        let saved = if inject { Some(nofile_limit(Some(0))) } else { None };
        s.grant(t);
        if !settle(s, pool, t, WATCHDOG, &mut d) {
            d.watchdog += 1;
        }
        if let Some(v) = saved {
            nofile_limit(Some(v));
        }
        if from_start {
            let p = s.slots[t].passed.load(Ordering::Acquire);
            if p != 0 && LABELS[p] != want {
                d.label_mismatch += 1;
            }
        }
        followed.push(json!([t, at, want]));
    }
    // schedule exhausted: run whatever is left, one thread at a time
    let t_end = Instant::now() + HANG;
    loop {
        if (1..=n).all(|t| fl(t) == FINISHED) {
            break;
        }
        if let Some(t) = (1..=n).find(|t| fl(*t) == PARKED) {
            d.leftover += 1;
            s.grant(t);
            if !settle(s, pool, t, WATCHDOG, &mut d) {
                d.watchdog += 1;
            }
            continue;
        }
        if Instant::now() >= t_end {
            d.hang = true;
            break;
        }
        std::thread::sleep(Duration::from_micros(200));
    }
    (d, followed)
}

/// persistent client threads (one per thread id), so that a schedule costs no thread creation
type Job = Box<dyn FnOnce() + Send>;
struct Pool {
    txs: Vec<std::sync::mpsc::Sender<Job>>,
    stat: Vec<std::fs::File>, // /proc/self/task/<tid>/stat of each client thread
    tids: Vec<i64>,
    threads: Vec<std::thread::Thread>,
}

/// Is client thread `t` asleep in the kernel (blocked on a lock inside the code under test)?
fn asleep(pool: &Pool, t: usize) -> bool {
    use std::os::unix::fs::FileExt;
    let mut buf = [0u8; 256];
    let n = pool.stat[t - 1].read_at(&mut buf, 0).unwrap_or(0);
    match buf[..n].iter().rposition(|b| *b == b')') {
        Some(i) if i + 2 < n => buf[i + 2] == b'S',
        _ => false,
    }
}

impl Pool {
    fn new(n: usize) -> Pool {
        let (mut txs, mut stat, mut tids, mut threads) = (Vec::new(), Vec::new(), Vec::new(), Vec::new());
        for i in 0..n {
            let (tx, rx) = std::sync::mpsc::channel::<Job>();
            let (ttx, trx) = std::sync::mpsc::channel::<i64>();
            let h = std::thread::Builder::new().name(format!("client{}", i + 1)).stack_size(512 * 1024)
                .spawn(move || {
                    ttx.send(unsafe { libc::syscall(libc::SYS_gettid) } as i64).unwrap();
                    while let Ok(job) = rx.recv() {
                        job();
                    }
                }).expect("spawn");
            let tid = trx.recv().expect("tid");
            tids.push(tid);
            stat.push(std::fs::File::open(format!("/proc/self/task/{}/stat", tid)).expect("open task stat"));
            threads.push(h.thread().clone());
            txs.push(tx);
        }
        Pool { txs, stat, tids, threads }
    }
    fn run(&self, t: usize, job: Job) {
        self.txs[t - 1].send(job).expect("client thread alive");
    }
}

// ------------------------------------------------------------------------------------------------
// setup and probes (sequential, thread 0)

struct Seg {
    events: Vec<Value>,
    seq: u64,
    cc: ClientCtx,
}

fn opd(op: &str, nm: &str, n: u64) -> OpDesc {
    OpDesc { op: op.into(), nm: nm.into(), n, fail: "none".into() }
}

impl Seg {
    fn seq_op(&mut self, fs: &Fs, op: &OpDesc) -> String {
        self.seq += 1;
        self.events.push(op.call_event(0, self.seq));
        let v = run_op(fs, op, &self.cc);
        self.seq += 1;
        self.events.push(ret_event(0, &op.op, &v, self.seq));
        if op.op == "lookup" {
            if let Ok(n) = v.parse::<u64>() {
                self.cc.inos.insert(op.nm.clone(), n);
            }
        }
        v
    }
    fn probe(&mut self, fs: &Fs, tree: &Tree, at: &str) {
        let ctx = Context::default();
        let (map, live) = fs.verif_mount_fds();
        let (nfd, mfds) = tree.count_fds();
        let mut names = Vec::new();
        for (nm, ino) in self.cc.inos.iter() {
            let rc = fs.verif_refcount(*ino);
            let ga = match fs.getattr(&ctx, *ino, None) {
                Ok(_) => "ok".to_string(),
                Err(e) => errval(&e),
            };
            names.push(json!({"nm": nm, "ino": ino.to_string(), "present": rc.is_some(), "count": rc.unwrap_or(0).min(1_000_000), "getattr": ga}));
        }
        self.events.push(json!({"e": "Probe", "at": at, "map": map, "live": live, "nfd": nfd, "mfds": mfds, "names": names}));
    }
    /// the client gives back everything it may still hold
    fn drain(&mut self, fs: &Fs) {
        let names: Vec<String> = self.cc.inos.keys().cloned().collect();
        for nm in names {
            self.seq_op(fs, &opd("forget", &nm, ALL));
        }
    }
}

/// the client learns the number of every name (m first: parent of a and b) and keeps a reference on h0
fn setup(fs: &Fs, seg: &mut Seg, h0: &[String], with_n: bool) {
    seg.seq_op(fs, &opd("lookup", "m", 0));
    for nm in ["a", "b"] {
        seg.seq_op(fs, &opd("lookup", nm, 0));
        if !h0.iter().any(|x| x == nm) {
            seg.seq_op(fs, &opd("forget", nm, 1));
        }
    }
    if with_n {
        seg.seq_op(fs, &opd("lookup", "n", 0));
        if !h0.iter().any(|x| x == "n") {
            seg.seq_op(fs, &opd("forget", "n", 1));
        }
    }
    if !h0.iter().any(|x| x == "m") {
        seg.seq_op(fs, &opd("forget", "m", 1));
    }
}

fn reset_event(fs: &Fs, tree: &Tree, seg: u64, cfg: &str, sid: usize, h0: &[String], seed: u64) -> Value {
    let (map, _) = fs.verif_mount_fds();
    let (nfd, mfds) = tree.count_fds();
    json!({"e": "Reset", "seg": seg, "cfg": cfg, "sid": sid, "h0": h0, "base_map": map, "base_nfd": nfd, "base_mfds": mfds, "seed": seed})
}

// ------------------------------------------------------------------------------------------------

fn sched_mode(args: &[String]) {
    let text = std::fs::read_to_string(&args[0]).expect("read schedules");
    let workdir = &args[1];
    let out = &args[2];
    let (shard, nshards) = if args.len() >= 5 {
        (args[3].parse::<usize>().unwrap(), args[4].parse::<usize>().unwrap())
    } else {
        (0, 1)
    };
    let mut lines = text.lines().filter(|l| !l.trim().is_empty());
    let header: Value = serde_json::from_str(lines.next().expect("header")).expect("header json");
    let cfgname = header["cfg"].as_str().unwrap_or("?").to_string();
    let ops: Vec<OpDesc> = header["threads"].as_array().unwrap().iter().map(OpDesc::from_json).collect();
    let n = ops.len();
    let with_n = ops.iter().any(|o| o.nm == "n");
    let tree = Tree::create(workdir, &format!("s{}", shard)); // before the first thread
    let pool = Pool::new(n);
    let mut trace = Trace::create(out);
    let mut side = Trace::create(&format!("{}.sched", out));
    verif_hooks::set_hook(Some(Box::new(hook)));
    let t0 = Instant::now();
    let mut labels: BTreeMap<String, u64> = Default::default();
    let mut windows: BTreeMap<String, u64> = Default::default();
    let mut timeouts = 0u64;
    let (mut nsched, mut drift_scheds, mut drift_steps, mut watchdog, mut hangs, mut mism) = (0u64, 0u64, 0u64, 0u64, 0u64, 0u64);
    for (sid, line) in lines.enumerate() {
        if sid % nshards != shard {
            continue;
        }
        let v: Value = serde_json::from_str(line).expect("schedule json");
        let h0: Vec<String> = v["h0"].as_array().unwrap().iter().map(|x| x.as_str().unwrap().to_string()).collect();
        let steps: Vec<(usize, String)> = v["s"].as_array().unwrap().iter()
            .map(|x| (x[0].as_u64().unwrap() as usize, x[1].as_str().unwrap().to_string())).collect();
        let fs = Arc::new(tree.new_fs());
        let reset = reset_event(&fs, &tree, nsched, &cfgname, sid, &h0, 0);
        let mut seg = Seg { events: Vec::new(), seq: 0, cc: ClientCtx::default() };
        setup(&fs, &mut seg, &h0, with_n);
        seg.probe(&fs, &tree, "setup");
        let s = Arc::new(Sched::new(n, seg.seq, &pool));
        let cc = Arc::new(seg.cc.clone());
        for t in 1..=n {
            let (s2, fs2, op, c2) = (s.clone(), fs.clone(), ops[t - 1].clone(), cc.clone());
            pool.run(t, Box::new(move || s2.client(t, &fs2, &op, &c2)));
        }
        let (d, followed) = drive(&s, &pool, n, &steps, &ops);
        let (evs, ys) = s.take_events();
        trace.emit(&reset);
        if d.hang {
            for e in seg.events.iter().chain(evs.iter()) {
                trace.emit(e);
            }
            trace.emit(&json!({"e": "Hang", "sid": sid}));
            trace.flush();
            side.emit(&json!({"sid": sid, "hang": true, "predicted": v["s"], "yields": ys}));
            side.flush();
            println!("{}", json!({"schedules": nsched + 1, "hangs": 1, "hang_sid": sid}));
            std::process::exit(3);
        }
        seg.seq = s.seq.load(Ordering::SeqCst);
        let mut last: Vec<String> = vec![String::new(); n + 1];
        for y in &ys {
            let (t, l) = (y["t"].as_u64().unwrap() as usize, y["label"].as_str().unwrap().to_string());
            *labels.entry(l.clone()).or_insert(0u64) += 1;
            let w = match (last[t].as_str(), l.as_str()) {
                ("MF_probe", "L_wlock") => Some("get_hit"),
                ("MF_wlock", "L_wlock") => Some("get_miss"),
                ("L_wlock", "MD_wlock") => Some("dup_handle_dropped_last"),
                ("F_wlock", "MD_wlock") => Some("forget_dropped_last"),
                _ => None,
            };
            if let Some(w) = w {
                *windows.entry(w.to_string()).or_insert(0u64) += 1;
            }
            last[t] = l;
        }
        for e in evs {
            if e["e"] == "Ret" && e["op"] == "lookup" && e["kind"] == "err" {
                *windows.entry("get_failed".to_string()).or_insert(0u64) += 1;
            }
            seg.events.push(e);
        }
        if d.steps() > 0 || d.watchdog > 0 || nsched < 3 {
            side.emit(&json!({"sid": sid, "h0": h0, "label_mismatch": d.label_mismatch, "skipped": d.skipped,
                "leftover": d.leftover, "watchdog": d.watchdog, "predicted": v["s"], "followed": followed, "yields": ys}));
        }
        seg.probe(&fs, &tree, "end");
        seg.drain(&fs);
        seg.probe(&fs, &tree, "drained");
        for e in &seg.events {
            trace.emit(e);
        }
        nsched += 1;
        if d.steps() > 0 {
            drift_scheds += 1;
        }
        drift_steps += d.steps();
        mism += d.label_mismatch;
        watchdog += d.watchdog;
        timeouts += d.timeouts;
        if d.hang {
            hangs += 1;
        }
    }
    verif_hooks::set_hook(None);
    trace.flush();
    side.flush();
    println!("{}", json!({"schedules": nsched, "events": trace.n, "drift_schedules": drift_scheds, "drift_steps": drift_steps,
        "label_mismatch": mism, "watchdog": watchdog, "watchdog_timeouts": timeouts, "hangs": hangs, "labels": labels, "windows": windows,
        "wall_ms": t0.elapsed().as_millis() as u64}));
}

// ------------------------------------------------------------------------------------------------
// free-running stress: K threads x M operations each, random delays at every yield point, no scheduler

fn stress_mode(args: &[String]) {
    let workdir = &args[0];
    let out = &args[1];
    let iters: u64 = args[2].parse().unwrap();
    let seed = env_u64("VERIF_SEED", 1);
    let perturb = env_u64("MOUNTFDS_PERTURB", 1) != 0;
    let mut rng = Rng::new(seed.wrapping_mul(0x2345_6789).wrapping_add(7));
    let tree = Tree::create(workdir, "stress");
    let mut trace = Trace::create(out);
    verif_hooks::set_hook(Some(Box::new(hook)));
    let t0 = Instant::now();
    let mut nops = 0u64;
    let all = ["m", "n", "a", "b"];
    for it in 0..iters {
        let fs = Arc::new(tree.new_fs());
        let k = rng.range(2, 4) as usize;
        let mut h0: Vec<String> = Vec::new();
        for nm in all {
            if rng.chance(1, 3) {
                h0.push(nm.to_string());
            }
        }
        let reset = reset_event(&fs, &tree, it, "stress", it as usize, &h0, seed);
        let mut seg = Seg { events: Vec::new(), seq: 0, cc: ClientCtx::default() };
        setup(&fs, &mut seg, &h0, true);
        seg.probe(&fs, &tree, "setup");
        let mut plans: Vec<Vec<OpDesc>> = Vec::new();
        for _ in 0..k {
            let m = rng.range(1, 3);
            let mut p = Vec::new();
            for _ in 0..m {
                let nm = all[rng.below(4) as usize];
                p.push(match rng.below(10) {
                    0..=3 => opd("lookup", if rng.chance(1, 4) { "n" } else { "m" }, 0),
                    4..=7 => opd("forget", nm, if rng.chance(1, 3) { ALL } else { 1 }),
                    _ => opd("getattr", nm, 0),
                });
            }
            plans.push(p);
        }
        let seq = Arc::new(AtomicU64::new(seg.seq));
        let barrier = Arc::new(Barrier::new(k));
        let mut logs: Vec<Arc<Mutex<Vec<(u64, Value)>>>> = Vec::new();
        let (dtx, drx) = std::sync::mpsc::channel::<usize>();
        let cc = Arc::new(seg.cc.clone());
        let mut handles = Vec::new();
        for (i, plan) in plans.into_iter().enumerate() {
            let t = i + 1;
            let (fs2, seq2, b2, c2) = (fs.clone(), seq.clone(), barrier.clone(), cc.clone());
            let mut r = Rng::new(rng.next());
            let log = Arc::new(Mutex::new(Vec::new()));
            logs.push(log.clone());
            let dtx2 = dtx.clone();
            handles.push(std::thread::Builder::new().stack_size(256 * 1024).spawn(move || {
                if perturb {
                    PERTURB.with(|p| *p.borrow_mut() = Some(Rng::new(r.next())));
                }
                b2.wait();
                for op in &plan {
                    delay(&mut r);
                    let s1 = seq2.fetch_add(1, Ordering::SeqCst) + 1;
                    log.lock().unwrap().push((s1, op.call_event(t, s1)));
                    let val = run_op(&fs2, op, &c2);
                    let s2 = seq2.fetch_add(1, Ordering::SeqCst) + 1;
                    log.lock().unwrap().push((s2, ret_event(t, &op.op, &val, s2)));
                }
                let _ = dtx2.send(t);
            }).expect("spawn"));
        }
        let mut finished = 0;
        let deadline = Instant::now() + HANG;
        while finished < k {
            let now = Instant::now();
            if now >= deadline || drx.recv_timeout(deadline - now).is_err() {
                break;
            }
            finished += 1;
        }
        let mut all_ev: Vec<(u64, Value)> = Vec::new();
        for l in &logs {
            all_ev.extend(l.lock().unwrap().iter().cloned());
        }
        all_ev.sort_by_key(|x| x.0);
        trace.emit(&reset);
        if finished < k {
            for e in seg.events.iter().chain(all_ev.iter().map(|x| &x.1)) {
                trace.emit(e);
            }
            trace.emit(&json!({"e": "Hang", "sid": it, "finished": finished, "threads": k}));
            trace.flush();
            println!("{}", json!({"iterations": it + 1, "ops": nops, "events": trace.n, "hangs": 1, "wall_ms": t0.elapsed().as_millis() as u64}));
            std::process::exit(3);
        }
        // the client threads hold clones of the Arc<PassthroughFs>: join them, so that the descriptors of this
        // instance are closed before the baseline of the next one is taken
        for h in handles {
            let _ = h.join();
        }
        for (_, e) in all_ev {
            if e["e"] == "Ret" {
                nops += 1;
            }
            seg.events.push(e);
        }
        seg.seq = seq.load(Ordering::SeqCst);
        seg.probe(&fs, &tree, "end");
        seg.drain(&fs);
        seg.probe(&fs, &tree, "drained");
        for e in &seg.events {
            trace.emit(e);
        }
    }
    verif_hooks::set_hook(None);
    trace.flush();
    println!("{}", json!({"iterations": iters, "ops": nops, "events": trace.n, "wall_ms": t0.elapsed().as_millis() as u64}));
}

fn main() {
    let args: Vec<String> = std::env::args().skip(1).collect();
    match args.first().map(|s| s.as_str()) {
        Some("sched") => sched_mode(&args[1..]),
        Some("stress") => stress_mode(&args[1..]),
        _ => {
            eprintln!("usage: mountfds sched <schedules.ndjson> <workdir> <out.ndjson> [shard nshards] | mountfds stress <workdir> <out.ndjson> <iterations>");
            std::process::exit(2);
        }
    }
}
