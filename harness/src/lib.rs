pub mod util;
pub mod abi_gen;
