"""C04 / C17 (engine: transport).

C04  transport readers/writers move every byte exactly once, in order, within bounds
C17  guest memory written by the server is always marked dirty (and nothing else is)

One pipeline, two property filters:
  1. TLC checks the implementation-shaped model (spec/TransportImpl.tla: IoBuffers segment lists,
     FuseDevWriter's Vec view, transcribed from the Rust source) against the flat-address semantics
     of spec/Transport.tla, exhaustively within small constants, and exports one behaviour per
     distinct final state;
  2. a seeded sample of those behaviours is executed by harness/src/bin/transport on the REAL
     Reader / VirtioFsWriter / FuseDevWriter (twice: literal bytes across a page border, and
     scaled so that the model page equals the real page);
  3. a seeded random driver goes far beyond TLC's bounds (16 segments, 64 KiB lengths, several
     regions, files as sources/sinks, splits of splits, the FileVolatileSlice/FileVolatileBuf API);
  4. every log is judged by TLC with spec/Trace_Transport.tla; violations are attributed by their
     signature prefix: the C04 check reports only "C04|...", the C17 check only "C17|...";
  5. binding demonstration (corrupted / truncated real trace must be rejected) and coverage gates
     (TLC action coverage; every API entry point observed moving bytes and failing)."""
import collections
import copy
import json
import os
import random
import re

from . import common as C

READER_ACTIONS = ("DoRead", "DoReadObj", "DoReadTo", "DoReadToAt", "DoReadExactTo")

C04_INV = ["FlatAgree", "Counters", "InOrderOnce", "Placed", "FailClean", "Results", "NoOOB", "ObjCount", "Lemmas"]
C17_INV = ["DirtyExact", "FlatAgree"]

# MC configurations: (name, constants, comment)
BASE = dict(P=2, M=100000, MaxSegs=3, MaxLen=2, Bases="MC_Bases4", FLens="MC_FLens", Kinds="MC_KindsAll",
            MaxOps=2, MaxN=3, FileSize=2, Chunks="MC_Chunks", MaxAddr=6)
MC = {
    ("C04", "quick"): [("q_a", dict(BASE, MaxN=2, Chunks="MC_Chunks9", NoExport=1), "<=3 runs of length 0..2, 2 ops, all kinds, files never short per call"),
                       ("q_b", dict(BASE, MaxSegs=2, MaxOps=3, MaxN=2), "<=2 runs, 3 ops (split of split, op after split)")],
    ("C04", "thorough"): [("t_a", dict(BASE, MaxOps=3, MaxN=3, FLens="MC_FLens4"), "<=3 runs of length 0..2, 3 ops, counts 0..3"),
                          ("t_b", dict(BASE, MaxSegs=2, MaxLen=3, MaxOps=3, MaxN=4, FLens="MC_FLens4", MaxAddr=7, FileSize=3),
                           "<=2 runs of length 0..3, 3 ops, counts 0..4")],
    ("C17", "quick"): [("q_w", dict(BASE, Kinds="MC_KindsW", MaxOps=2, MaxN=3), "writers only: <=3 runs of length 0..2 at every alignment against 2-byte pages, 2 ops"),
                       ("q_w2", dict(BASE, Kinds="MC_KindsW", MaxSegs=2, MaxOps=3, MaxN=2), "writers only: <=2 runs, 3 ops (split of split, short file reads)")],
    ("C17", "thorough"): [("t_w", dict(BASE, Kinds="MC_KindsW", MaxOps=3, MaxN=3), "writers only: <=3 runs of length 0..2, 3 ops, counts 0..3"),
                          ("t_w2", dict(BASE, Kinds="MC_KindsW", MaxSegs=2, MaxLen=3, MaxOps=3, MaxN=4, MaxAddr=7, FileSize=3),
                           "writers only: <=2 runs of length 0..3, 3 ops, counts 0..4")],
}
REPLAY_SAMPLE = {"quick": 1200, "thorough": 15000}
RANDOM_STEPS = {"quick": 4000, "thorough": 100000}
ASYNC_REPLAY = {"quick": 400, "thorough": 5000}
ASYNC_RANDOM = {"quick": 2500, "thorough": 30000}


def write_cfg(ctx, name, consts, invariants, export=True):
    """cfg files are generated into the scratch directory of the run (TLC takes an absolute -config path)"""
    lines = ["SPECIFICATION Spec", "CONSTANTS"]
    for k, v in consts.items():
        lines.append("  %s %s %s" % (k, "<-" if isinstance(v, str) else "=", v))
    lines += ["VIEW View", "INVARIANTS " + " ".join(invariants + (["Export"] if export else [])), "CHECK_DEADLOCK FALSE"]
    fn = ctx.path("MC_Transport_%s_%s.cfg" % (ctx.pid, name))
    with open(fn, "w") as f:
        f.write("\n".join(lines) + "\n")
    return fn


_RE_VIOL = re.compile(r'<<\s*"VIOL",\s*"([^"]+)",\s*(\d+),\s*"((?:[^"\\]|\\.)*)"\s*>>')


def viols_of(res):
    """<<"VIOL", signature, event index, detail string>> tuples; TLC may wrap them over several lines
    and interleave progress lines, so the whole output is searched"""
    txt = res["output"].replace("\n", " ")
    out = [(m.group(1), int(m.group(2)), " ".join(m.group(3).split())[:600]) for m in _RE_VIOL.finditer(txt)]
    if len(out) != len(re.findall(r'<<\s*"VIOL"', txt)):
        raise C.ToolError("could not parse every VIOL line of the TLC output (a violation must never be dropped silently)")
    return out


def segment_of(events, idx):
    """the events of the scenario (Reset .. End) that contains event number idx (1-based)"""
    i = min(max(idx - 1, 0), len(events) - 1)
    if events[i]["e"] in ("Probe", "Crash"):
        return [events[i]]          # stand-alone events
    a = i
    while a > 0 and events[a]["e"] != "Reset":
        a -= 1
    b = i
    while b < len(events) - 1 and events[b]["e"] != "End":
        b += 1
    return events[a:b + 1]


def run_harness(ctx, bindir, args, trace_file, env):
    """run the harness; if the process is killed by a signal inside the code under test (e.g. SIGSEGV after an
    out-of-bounds access) that is data: a Crash event is appended to the partial trace and TLC judges it"""
    import subprocess
    e = dict(os.environ, RUST_BACKTRACE="0")
    e.update({k: str(v) for k, v in env.items()})
    try:
        r = subprocess.run([os.path.join(bindir, "transport")] + [str(a) for a in args], env=e,
                           stdout=subprocess.PIPE, stderr=subprocess.PIPE, text=True, timeout=3600)
    except subprocess.TimeoutExpired:
        raise C.ToolError("harness transport timed out")
    if r.returncode < 0:
        evs = []
        if os.path.exists(trace_file):
            with open(trace_file) as f:
                for line in f:
                    try:
                        evs.append(json.loads(line))
                    except ValueError:
                        break           # torn last line
        last = next((x for x in reversed(evs) if x.get("e") in ("Op", "Reset")), {})
        evs.append({"e": "Crash", "signal": -r.returncode, "op": last.get("op", "start"), "seg": last.get("seg", 0)})
        C.write_ndjson(trace_file, evs)
        C.log("harness killed by signal %d: recorded as a Crash event" % -r.returncode)
    elif r.returncode != 0:
        C.log(r.stdout[-2000:])
        C.log(r.stderr[-2000:])
        raise C.ToolError("harness transport %s exited %d" % (" ".join(map(str, args)), r.returncode))


def validate(ctx, trace_file, what, scenarios=None, rerun=None):
    """judge one log with Trace_Transport.tla; record violations of this property; return stats"""
    events = C.read_ndjson(trace_file)
    res = C.tlc_trace(ctx, "Trace_Transport", trace_file, timeout=3000, xmx="8g")
    if not res["accepted"]:
        C.log(res["output"][-3000:])
        raise C.ToolError("trace %s not consumed by Trace_Transport" % what)
    vs = viols_of(res)
    mine = [v for v in vs if v[0].startswith(ctx.pid + "|")]
    for sig, idx, detail in mine:
        seg = segment_of(events, idx)
        origin = seg[0].get("origin", "")
        model = None
        m = re.match(r"replay:(\d+):", origin)
        if m and scenarios is not None:
            model = scenarios[int(m.group(1))]
        ctx.violation(sig, {"event": events[idx - 1] if 0 < idx <= len(events) else None, "judge": detail, "origin": origin},
                      replay_src={"what": what, "origin": origin, "model_scenario": model, "rerun": rerun, "events": seg})
    segs = sum(1 for e in events if e["e"] == "Reset")
    ctx.traces += segs
    ctx.events += len(events)
    return events, vs


def op_stats(events):
    """coverage of the API: per (transport, op) how often it moved bytes / failed / returned short"""
    st = collections.defaultdict(lambda: collections.Counter())
    tr = None
    done = {}
    for e in events:
        if e["e"] == "Reset":
            tr = e["tr"]
            done = {}
        elif e["e"] == "Op":
            key = "%s:%s" % (tr, e["op"])
            c = st[key]
            c["calls"] += 1
            c[e["res"]] += 1
            if tr != "fvs":
                before = done.get(e["o"], 0)
                after = e["all"][e["o"] - 1][2]
                if after > before:
                    c["moved"] += 1
                for row in e["all"]:
                    done[row[0]] = row[2]
                if e["res"] == "ok" and "ret" in e and e["op"] not in ("commit", "async_commit") and e["ret"] < e["n"]:
                    c["short"] += 1
            else:
                if e["res"] == "ok" and e.get("ret", e.get("outlen", e["n"])) > 0:
                    c["moved"] += 1
    return {k: dict(v) for k, v in sorted(st.items())}


WRITER_ENTRY = ["write", "write_vectored", "write_obj", "write_all", "write_from", "write_from_at", "write_all_from", "split_at", "commit",
                "async_write", "async_write2", "async_write3", "async_write_all", "async_write_from_at", "async_commit"]
READER_ENTRY = ["read", "read_obj", "read_to", "read_to_at", "read_exact_to", "split_at", "async_read_to_at"]
FVS_ENTRY = ["fvs.write", "fvs.read", "fvs.write_slice", "fvs.read_slice", "fvs.store", "fvs.load", "fvs.offset", "fvs.view",
             "fvs.read_volatile_from", "fvs.read_exact_volatile_from", "fvs.write_volatile_to", "fvs.write_all_volatile_to",
             "fvs.borrow_as_buf", "buf.new", "buf.set_size", "buf.fill", "buf.peek",
             "ft.read_exact_at", "ft.write_all_at", "ft.read_exact", "ft.write_all"]


def coverage_gate(ctx, stats, events):
    need = []
    trs = ["virtio"] if ctx.pid == "C17" else ["virtio", "fusedev"]
    for tr in trs:
        for op in WRITER_ENTRY + (READER_ENTRY if ctx.pid == "C04" else []):
            c = stats.get("%s:%s" % (tr, op), {})
            if not c.get("calls"):
                need.append("%s:%s never called" % (tr, op))
            elif op not in ("split_at", "commit", "async_commit") and not c.get("moved"):
                need.append("%s:%s never moved a byte" % (tr, op))
            elif (op.startswith("write") or op.startswith("async_write")) and not (c.get("err") or c.get("panic")):
                # write_obj is write_all on the bytes of the object: one failing flavour is enough
                twin = {"write_obj": "write_all", "write_all": "write_obj"}.get(op)
                c2 = stats.get("%s:%s" % (tr, twin), {}) if twin else {}
                if not (c2.get("err") or c2.get("panic")):
                    need.append("%s:%s never failed" % (tr, op))
    if ctx.pid == "C04":
        # shapes that earlier seeded defects needed: vectored writes of four or more slices that are refused, and
        # multi-segment transfers through the crate's own async File (c = 0) in both directions
        wide = sum(1 for e in events if e["e"] == "Op" and e["op"] == "write_vectored" and len(e.get("data", [])) >= 4 and e["res"] != "ok")
        areal = sum(1 for e in events if e["e"] == "Op" and e["op"] in ("async_read_to_at", "async_write_from_at") and e["c"] == 0
                    and e.get("ret", 0) > 0 and len(e.get("fdiff") or e.get("diff") or []) >= 3)
        ctx.extra["refused_vectored_writes_of_4_or_more_slices"] = wide
        ctx.extra["multi_segment_transfers_through_async_file"] = areal
        if not wide:
            need.append("no refused write_vectored with >= 4 slices")
        if not areal:
            need.append("no multi-segment transfer through async_file::File")
        for op in FVS_ENTRY:
            if not stats.get("fvs:%s" % op, {}).get("calls"):
                need.append("fvs:%s never called" % op)
    if ctx.pid == "C17":
        # page geometry actually exercised: writes that straddle a page border, start on one, end on one
        geo = collections.Counter()
        for e in events:
            if e["e"] == "Op" and e.get("dirty") is not None:
                for a, ln, _ in e["diff"]:
                    if a // 4096 != (a + ln - 1) // 4096:
                        geo["straddles"] += 1
                    if a % 4096 == 0:
                        geo["starts_on_border"] += 1
                    if (a + ln) % 4096 == 0:
                        geo["ends_on_border"] += 1
                    if ln == 1:
                        geo["single_byte"] += 1
        ctx.extra["page_geometry_of_observed_writes"] = dict(geo)
        for k in ("straddles", "starts_on_border", "ends_on_border", "single_byte"):
            if not geo[k]:
                need.append("no observed write that %s" % k)
    if need:
        raise C.ToolError("coverage gate: " + "; ".join(need[:8]))


def binding_demo(ctx, events, bad_segs=()):
    """corrupt one field / drop one event of a real trace that the judge ACCEPTED: TLC must reject it.
    bad_segs: scenario ids in which the judge reported any violation - they are not used as corruption targets
    (after a C04 violation the rest of such a scenario is no longer judged, a corruption there proves nothing)"""
    pid = ctx.pid
    is_op = lambda e: e["e"] == "Op" and not e["op"].startswith(("fvs", "buf"))
    # whole violation-free scenarios of the transports only, up to ~400 events
    clean, cur = [], []
    for e in events:
        cur.append(e)
        if e["e"] == "End":
            if cur[0].get("tr") != "fvs" and cur[0].get("e") == "Reset" and cur[0].get("seg") not in bad_segs:
                clean += cur
            cur = []
            if len(clean) > 400:
                break
    demos = []

    def attempt(name, pred, mut, want):
        """pred(evs, i) selects the event; mut(evs, i) edits in place or returns a new list"""
        evs = copy.deepcopy(clean)
        for i in range(len(evs)):
            if pred(evs, i):
                r = mut(evs, i)
                if r is not None:
                    evs = r
                break
        else:
            return
        fn = ctx.path("corrupt_%d.ndjson" % len(demos))
        C.write_ndjson(fn, evs)
        res = C.tlc_trace(ctx, "Trace_Transport", fn)
        sigs = sorted({v[0] for v in viols_of(res) if v[0].startswith(pid + "|")})
        hit = [s for s in sigs if re.search(want, s)]
        if not hit:
            raise C.ToolError("binding demo failed: corruption '%s' was accepted (signatures: %s)" % (name, sigs))
        demos.append({"corruption": name, "rejected_with": hit[:4]})

    def setf(field, fn):
        def m(evs, i):
            evs[i][field] = fn(evs[i][field])
        return m

    def on(p):
        return lambda evs, i: p(evs[i])

    if pid == "C04":
        attempt("returned count of a read decreased by one", on(lambda e: is_op(e) and e["op"] == "read" and e.get("ret", 0) > 1),
                setf("ret", lambda v: v - 1), r"\|ret$")
        attempt("first delivered byte value + 1", on(lambda e: is_op(e) and e["op"] == "read" and e.get("ret", 0) > 1),
                setf("out", lambda v: [[(v[0][0] + 1) % 251, v[0][1]]] + v[1:]), r"\|bytes$")
        attempt("memory diff of a write shifted by one address", on(lambda e: is_op(e) and e["op"].startswith("write") and e["diff"]),
                setf("diff", lambda v: [[v[0][0] + 1, v[0][1], v[0][2]]] + v[1:]), r"\|placed")
        attempt("available counter of a split child + 1", on(lambda e: is_op(e) and e["op"] == "split_at" and e["res"] == "ok"),
                setf("all", lambda v: v[:-1] + [[v[-1][0], v[-1][1] + 1, v[-1][2]]]), r"\|counters$")
        attempt("a write that exceeds the space reported as Ok", on(lambda e: is_op(e) and e["op"] == "write" and e["res"] == "err"),
                lambda evs, i: evs[i].update(res="ok", ret=evs[i]["n"]), r"exceed-not-failed")
        attempt("one successful write event dropped (a later operation of the scenario exposes it)",
                lambda evs, i: is_op(evs[i]) and evs[i]["op"].startswith("write") and evs[i]["diff"] and evs[i + 1]["e"] == "Op",
                lambda evs, i: evs[:i] + evs[i + 1:], r"C04\|")
        attempt("device message duplicated", on(lambda e: is_op(e) and e.get("msgs") and e["msgs"][0]),
                setf("msgs", lambda v: v + [v[0]]), r"\|fd$")
    else:
        attempt("one dirty page run dropped at reply completion", on(lambda e: e["e"] == "End" and e.get("dirty")),
                setf("dirty", lambda v: v[:-1]), r"modified-not-dirty")
        attempt("one extra dirty page at reply completion", on(lambda e: e["e"] == "End" and e.get("dirty")),
                setf("dirty", lambda v: v + [[v[-1][0] + v[-1][1] + 3, 1]]), r"dirty-not-modified")

        def hide_writes(evs, i):
            j = i
            while evs[j]["e"] != "Reset":
                j -= 1
            for e in evs[j:i + 1]:
                if e["e"] in ("Op", "End"):
                    e["diff"] = []
        attempt("all memory modifications of one scenario hidden (its dirty pages are then unexplained)",
                on(lambda e: e["e"] == "End" and e.get("dirty")), hide_writes, r"dirty-not-modified")
    if len(demos) < (5 if pid == "C04" else 3):
        raise C.ToolError("binding demo: only %d corruptions could be applied to the trace" % len(demos))
    return demos


REPO = os.environ.get("VERIF_REPO", "/repo")
FVS_METHODS = {"write", "read", "write_slice", "read_slice", "read_volatile_from", "read_exact_volatile_from",
               "write_volatile_to", "write_all_volatile_to", "store", "load"}


def container_model(ctx):
    """PlainView at model level (spec/TransportFvs.tla): the delegation table of
    `impl Bytes<usize> for FileVolatileSlice` is read from the source, TLC checks it against the view semantics"""
    env = {}
    try:
        src = open(os.path.join(REPO, "src/common/file_buf.rs")).read()
        a = src.index("Bytes<usize> for FileVolatileSlice")
        body = src[a:src.index("\n}\n", a)]
        tab = {m.group(1): m.group(2) for m in re.finditer(
            r'fn (\w+)(?:<[^>]*>)?\s*\((?:[^{]|\{\s*\})*?\{\s*VolatileSlice::(\w+)\(\s*&self\.as_volatile_slice\(\)', body, re.S)}
    except (OSError, ValueError):
        tab = {}
    if set(tab) == FVS_METHODS and set(tab.values()) <= FVS_METHODS:
        tf = ctx.path("fvs_table.json")
        with open(tf, "w") as f:
            json.dump(tab, f)
        env["FVS_TABLE"] = tf
    else:
        ctx.drift.append("file_buf.rs: the Bytes impl of FileVolatileSlice is no longer a pure delegation table "
                         "(extracted %s); TransportFvs.tla checked with its default table only" % sorted(tab.items()))
    r = C.tlc_mc(ctx, "TransportFvs", cfg="MC_TransportFvs.cfg", workers=2, env=env, timeout=600)
    if "PlainView" in r["violated"]:
        i = r["output"].rfind("bad = {")
        pairs = sorted(set(re.findall(r'<<"(\w+)", "([\w-]+)">>', r["output"][i:i + 600]))) or [("container", "PlainView")]
        for m, what in pairs:
            ctx.violation("C04|fvs.%s|%s" % (m, what), {"model": "TransportFvs.tla", "delegation_table": tab, "tlc": r["output"][-1500:]},
                          replay_src={"what": "TLC counterexample of PlainView", "delegation_table": tab, "output": r["output"][-4000:]})
    return {"delegation_table": tab, "distinct": r["distinct"], "generated": r["generated"], "from_source": bool(env)}


def keep_evidence(ctx):
    """--replay judges ONE scenario: it must not replace evidence/<id>.json of the last full run (a replay has no
    model-checking part, its numbers would not be evidence for the level claimed). The result lines and the exit code
    are produced as usual; the evidence of the replay run goes to a scratch directory that is removed."""
    import shutil
    orig = ctx.finish

    def fin():
        keep = C.EVIDENCE
        C.EVIDENCE = os.path.join(C.WORK, "_replay_evidence_" + ctx.pid)
        try:
            return orig()
        finally:
            shutil.rmtree(C.EVIDENCE, ignore_errors=True)
            C.EVIDENCE = keep
    ctx.finish = fin


def run(ctx):
    pid, tier = ctx.pid, ctx.tier
    rnd = random.Random(ctx.seed)
    bindir = C.build_harness(bins=["transport"])
    # second build with the cargo feature `async` (fuse-backend-rs/async-io): drives the async entry points
    bindir_async = C.build_harness(bins=["transport"], features="async", target="target-async")

    if getattr(ctx, "replay", None):
        keep_evidence(ctx)
        return run_replay_file(ctx, bindir)

    # ---- 1. model checking I => A, export of behaviours
    scenarios = []
    inv = C04_INV if pid == "C04" else C17_INV
    coverage = {}
    for name, consts, comment in MC[(pid, tier)]:
        consts = dict(consts)
        export = not consts.pop("NoExport", 0)
        cfg = write_cfg(ctx, name, consts, inv, export=export)
        ign = READER_ACTIONS if consts["Kinds"] == "MC_KindsW" else ()
        r = C.tlc_mc(ctx, "MC_Transport", cfg=cfg, workers=8, timeout=1800 if ctx.quick else 7200, ignore_uncovered=ign)
        for v in r["violated"]:
            if v != "Export":
                # a counterexample of I => A: a design-level defect candidate of the modelled algorithm
                ctx.violation("%s|model|%s" % (pid, v), {"config": comment, "tlc": r["output"][-2500:]},
                              replay_src={"what": "TLC counterexample", "config": consts, "output": r["output"][-6000:]})
        n0 = len(scenarios)
        for m in re.finditer(r'<<"REPLAY", (".*?")>>\s*$', r["output"], re.M):
            scenarios.append(json.loads(json.loads(m.group(1))))
        coverage[name] = {"comment": comment, "distinct": r["distinct"], "generated": r["generated"], "wall_s": r["wall_s"],
                          "behaviours_exported": len(scenarios) - n0,
                          "actions": {k.split("!")[1]: v for k, v in r.get("actions", {}).items() if k.startswith("TransportImpl!")}}
        C.log("MC %s (%s): %d distinct states, %d generated, %.0fs, %d behaviours" % (
            name, comment, r["distinct"], r["generated"], r["wall_s"], len(scenarios) - n0))
    if not scenarios:
        raise C.ToolError("TLC exported no behaviours")
    if pid == "C04":
        coverage["containers"] = container_model(ctx)

    # ---- 2. replay of a seeded sample on the real code
    k = min(REPLAY_SAMPLE[tier], len(scenarios))
    # stratified by the operation sequence so that rare operations are kept
    by_ops = collections.defaultdict(list)
    for i, s in enumerate(scenarios):
        by_ops[(s["kind"],) + tuple(o["op"] for o in s["ops"])].append(i)
    keys = sorted(by_ops)
    rnd.shuffle(keys)
    chosen = []
    while len(chosen) < k:
        progressed = False
        for key in keys:
            if by_ops[key] and len(chosen) < k:
                lst = by_ops[key]
                chosen.append(lst.pop(rnd.randrange(len(lst))))
                progressed = True
        if not progressed:
            break
    sample = [scenarios[i] for i in chosen]
    sf = ctx.path("scenarios.ndjson")
    C.write_ndjson(sf, sample)
    rt = ctx.path("replay.ndjson")
    run_harness(ctx, bindir, ["replay", sf, rt], rt, {"VERIF_SEED": ctx.seed})
    ev_replay, _ = validate(ctx, rt, "replay of TLC behaviours", scenarios=sample)

    # ---- 3. seeded random driver far beyond the model's bounds, in chunks of whole runs
    steps = RANDOM_STEPS[tier]
    chunk = 25000
    ev_random = []
    bad_random = set()       # scenarios of the first chunk in which the judge reported anything
    part = 0
    while steps > 0:
        n = min(chunk, steps)
        rf = ctx.path("random_%d.ndjson" % part)
        run_harness(ctx, bindir, ["random", rf, n], rf, {"VERIF_SEED": ctx.seed * 1000 + part})
        evs, vs = validate(ctx, rf, "random driver seed %d" % (ctx.seed * 1000 + part),
                           rerun={"cmd": "random", "steps": n, "seed": ctx.seed * 1000 + part})
        ev_random += evs if part == 0 else []
        if part == 0:
            bad_random = {evs[i - 1].get("seg") for _, i, _ in vs if 0 < i <= len(evs)}
        if part > 0:
            # keep the statistics of every chunk without holding all events
            for kx, vx in op_stats(evs).items():
                agg = ctx.extra.setdefault("_more_stats", {}).setdefault(kx, collections.Counter())
                agg.update(vx)
        steps -= n
        part += 1

    # ---- 3b. the async-io entry points (async_write/2/3/_all, async_write_from_at, async_commit of both writers,
    # Reader::async_read_to_at): part of the replay sample with the operations mapped to their async counterparts,
    # and a random run mixing synchronous and async operations; same observations, same judge
    asample = sample[:ASYNC_REPLAY[tier]]
    asf = ctx.path("scenarios_async.ndjson")
    C.write_ndjson(asf, asample)
    art = ctx.path("replay_async.ndjson")
    run_harness(ctx, bindir_async, ["replay-async", asf, art], art, {"VERIF_SEED": ctx.seed})
    ev_areplay, _ = validate(ctx, art, "replay of TLC behaviours through the async entry points", scenarios=asample)
    arf = ctx.path("random_async.ndjson")
    run_harness(ctx, bindir_async, ["random-async", arf, ASYNC_RANDOM[tier]], arf, {"VERIF_SEED": ctx.seed * 1000 + 777})
    ev_arandom, _ = validate(ctx, arf, "random driver (async entry points) seed %d" % (ctx.seed * 1000 + 777),
                             rerun={"cmd": "random-async", "steps": ASYNC_RANDOM[tier], "seed": ctx.seed * 1000 + 777})
    ev_replay = ev_replay + ev_areplay + ev_arandom

    # ---- 3c. deterministic targeted scenarios: every (transport x entry point x outcome) pair the coverage gates ask
    # for, wide vectored refusals, multi-segment transfers through the crate's async File, the page geometries of
    # C17 and every container entry point are produced on purpose, so that no gate depends on the seed
    tf, taf = ctx.path("targeted.ndjson"), ctx.path("targeted_async.ndjson")
    run_harness(ctx, bindir, ["targeted", tf], tf, {})
    ev_t, vs_t = validate(ctx, tf, "targeted scenarios")
    run_harness(ctx, bindir_async, ["targeted-async", taf], taf, {})
    ev_ta, _ = validate(ctx, taf, "targeted scenarios (async entry points)")
    ev_replay = ev_replay + ev_t + ev_ta
    # the binding demonstration draws its targets from the targeted scenarios first (renumbered, so that their
    # scenario ids cannot collide with those of the random run)
    bad_t = {ev_t[i - 1].get("seg") for _, i, _ in vs_t if 0 < i <= len(ev_t)}
    demo_src = [dict(e, seg=e["seg"] + 10 ** 6) for e in ev_t if e.get("seg") not in bad_t] + ev_random

    # ---- 4. coverage and binding
    stats = op_stats(ev_replay + ev_random)
    for kx, vx in ctx.extra.pop("_more_stats", {}).items():
        d = collections.Counter(stats.get(kx, {}))
        d.update(vx)
        stats[kx] = dict(d)
    # A tool error must never mask a detected violation: once violations (or known findings) are on record, a
    # failing coverage gate / binding demonstration is written into the evidence as a note and the check exits 1.
    def guarded(name, fn):
        try:
            return fn()
        except C.ToolError as e:
            if ctx.violations or ctx.known_hit:
                ctx.extra.setdefault("gates_not_passed_while_violations_were_reported", []).append("%s: %s" % (name, e))
                C.log("NOTE %s not passed (violations are reported, so this is not a tool error): %s" % (name, e))
                return None
            raise
    guarded("coverage gate", lambda: coverage_gate(ctx, stats, ev_replay + ev_random))
    demos = guarded("binding demo", lambda: binding_demo(ctx, demo_src, bad_random)) or []

    shapes = collections.Counter()
    for e in ev_replay + ev_random:
        if e["e"] == "Reset":
            shapes[(e["tr"], len(e["segs"]), tuple(sorted(set(s[1] for s in e["segs"]))))] += 1
    ctx.extra.update({
        "action_coverage": coverage,
        "api_coverage": stats,
        "binding_demo": demos,
        "behaviours_exported_by_tlc": len(scenarios),
        "behaviours_replayed": len(sample),
        "random_steps": RANDOM_STEPS[tier],
        "distinct_nontrivial": len(shapes),
        "rule": "distinct (transport, number of segments, set of segment lengths) among the scenarios executed on the real code; "
                "every scenario is judged event by event by Trace_Transport.tla",
    })
    firstop = next((e for e in ev_random if e["e"] == "Op" and e.get("diff")), None)
    ctx.sample({"tlc_behaviour": sample[0]})
    ctx.sample({"replayed_as": [e for e in ev_replay[:4]]})
    if firstop:
        ctx.sample({"random_event": firstop})
    ctx.assumptions += [
        "byte identity is observed through ramps modulo 251: a misplacement by a multiple of 251 bytes inside one source would not be seen (no segment length used is a multiple of 251)",
        "a never-split FuseDevWriter is used as documented: one write, then only commit (check_available_space asserts this); split_at of a FuseDevWriter is judged with the window reading (offset counted from the start of its buffer), which coincides with the documented one when nothing was written before the split",
        "files never fail; short transfers come from end-of-file and from a per-call limit of the harness's file wrapper",
        "descriptor chains are well formed (readable descriptors before writable ones); virtio-queue / vm-memory are trusted as the source of chains and bitmaps",
    ]
    if pid == "C17":
        # C17 through whole requests (every opcode with a payload, every request class) is decided by the wire
        # engine's machinery on the same ctx: its C17| violations and counts are part of this check
        from . import wire
        ctx.extra["whole_request_transactions_over_virtiofs"] = wire.c17_requests(ctx)
        ctx.assumptions.append("'reply complete' = all writers of the scenario dropped; dirty bits are compared with the byte diff of guest memory at that point only (P = 4096)")


def run_replay_file(ctx, bindir):
    """./check <id> --replay <file>: re-execute (TLC behaviours) or re-judge (recorded events) one scenario"""
    try:
        with open(ctx.replay) as f:
            rp = json.load(f)
    except (OSError, ValueError) as e:
        raise C.ToolError("cannot read replay file %s: %s" % (ctx.replay, e))
    sc = rp.get("scenario") or {}
    if "delegation_table" in sc:
        container_model(ctx)          # TLC counterexample of the container model: check the current source again
    elif sc.get("config"):
        consts = dict(sc["config"])
        consts.pop("NoExport", None)
        cfg = write_cfg(ctx, "replay", consts, C04_INV if ctx.pid == "C04" else C17_INV, export=False)
        r = C.tlc_mc(ctx, "MC_Transport", cfg=cfg, workers=8, timeout=3000,
                     ignore_uncovered=READER_ACTIONS if consts.get("Kinds") == "MC_KindsW" else ())
        for v in r["violated"]:
            ctx.violation("%s|model|%s" % (ctx.pid, v), {"tlc": r["output"][-2500:]}, replay_src=sc)
    elif sc.get("model_scenario"):
        sf = ctx.path("scenarios.ndjson")
        C.write_ndjson(sf, [sc["model_scenario"]])
        rt = ctx.path("replay.ndjson")
        if "async" in sc.get("what", ""):
            bd = C.build_harness(bins=["transport"], features="async", target="target-async")
            run_harness(ctx, bd, ["replay-async", sf, rt], rt, {"VERIF_SEED": ctx.seed})
        else:
            run_harness(ctx, bindir, ["replay", sf, rt], rt, {"VERIF_SEED": ctx.seed})
        validate(ctx, rt, "re-execution of " + sc.get("origin", "?") + (" (async)" if "async" in sc.get("what", "") else ""),
                 scenarios=[sc["model_scenario"]])
    elif sc.get("rerun") and sc.get("events"):
        # the random driver is deterministic in (seed, steps): run it again on the current tree and
        # judge the same scenario
        rr = sc["rerun"]
        full = ctx.path("random_full.ndjson")
        bd = C.build_harness(bins=["transport"], features="async", target="target-async") if rr.get("cmd") == "random-async" else bindir
        run_harness(ctx, bd, [rr.get("cmd", "random"), full, rr["steps"]], full, {"VERIF_SEED": rr["seed"]})
        segid = sc["events"][0]["seg"]
        evs = [e for e in C.read_ndjson(full) if e.get("seg") == segid]
        if not evs:
            raise C.ToolError("scenario %s not reproduced by the random driver" % sc.get("origin"))
        rt = ctx.path("rerun.ndjson")
        C.write_ndjson(rt, evs)
        validate(ctx, rt, "re-execution of " + sc.get("origin", "?"), rerun=rr)
    elif sc.get("events"):
        rt = ctx.path("recorded.ndjson")
        C.write_ndjson(rt, sc["events"])
        validate(ctx, rt, "recorded events of " + sc.get("origin", "?"))
    else:
        raise C.ToolError("replay file has no scenario")
    ctx.extra["rule"] = "replay of one recorded scenario"


PROPS = {"C04": run, "C17": run}
