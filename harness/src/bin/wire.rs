//! Wire-family driver (C02, C03, and the well-formed part of C01): for every opcode of the
//! specification's table (abi.json exported by TLC) x every subset of the flag bits Decode
//! inspects x k random field valuations x both transports, encodes a request with the
//! spec-driven codec, runs it through the real `Server<ScriptedFs>::handle_message`, and logs one
//! `Tx` event: request fields, the calls the filesystem received, the result it returned and the
//! reply decoded by the kernel layouts. Judge: spec/Trace_Wire.tla.
use fuse_backend_rs::api::filesystem::{Entry, FileLock};
use fuse_backend_rs::api::server::Server;
use serde_json::{json, Map, Value};
use std::sync::Arc;
use std::time::Duration;
use vharness::scripted::{NullCache, OwnedDirent, Ret, ScriptedFs};
use vharness::util::{env_u64, Rng, Trace};
use vharness::wirecodec::{pay, Abi, Vals};
use vharness::xport::{run_fusedev, run_virtio, Outcome, SeqPair};

pub fn boundary(rng: &mut Rng, w: usize) -> u64 {
    let max = if w >= 8 { u64::MAX } else { (1u64 << (8 * w)) - 1 };
    match rng.below(10) {
        0 => 0,
        1 => 1,
        2 => max,
        3 => max - 1,
        4 => (max >> 1) + 1,
        5 => max >> 1,
        // small values: enumerations (lock types, whence, type codes) live here
        6 => 2 + rng.below(7),
        _ => rng.next() & max,
    }
}

pub fn rname(rng: &mut Rng, maxlen: usize) -> Vec<u8> {
    const AL: &[u8] = b"abcdefghijklmnopqrstuvwxyzABCDEFGHIJKLMNOPQRSTUVWXYZ0123456789._-+=,@";
    let len = match rng.below(8) {
        0 => 1,
        1 => 2,
        2 => 7,
        3 => 8,
        4 => 9,
        5 => 255,
        6 => rng.range(1, maxlen as u64) as usize,
        _ => rng.range(1, 40) as usize,
    }
    .min(maxlen)
    .max(1);
    if rng.chance(1, 4) {
        // arbitrary bytes (no NUL): names are byte strings, not text
        return (0..len).map(|_| rng.range(1, 255) as u8).collect();
    }
    (0..len).map(|_| *rng.pick(AL)).collect()
}

pub fn rstat(rng: &mut Rng) -> libc::stat64 {
    // values the wire format can carry: 64-bit fields full range, 32-bit wire fields below 2^32
    let mut st: libc::stat64 = unsafe { std::mem::zeroed() };
    st.st_ino = boundary(rng, 8);
    st.st_size = boundary(rng, 8) as i64;
    st.st_blocks = boundary(rng, 8) as i64;
    st.st_atime = boundary(rng, 8) as i64;
    st.st_mtime = boundary(rng, 8) as i64;
    st.st_ctime = boundary(rng, 8) as i64;
    st.st_atime_nsec = boundary(rng, 4) as i64;
    st.st_mtime_nsec = boundary(rng, 4) as i64;
    st.st_ctime_nsec = boundary(rng, 4) as i64;
    st.st_mode = boundary(rng, 4) as u32;
    st.st_nlink = boundary(rng, 4);
    st.st_uid = boundary(rng, 4) as u32;
    st.st_gid = boundary(rng, 4) as u32;
    st.st_rdev = boundary(rng, 4);
    st.st_blksize = boundary(rng, 4) as i64;
    st
}

pub fn rdur(rng: &mut Rng) -> Duration {
    Duration::new(boundary(rng, 8), rng.below(1_000_000_000) as u32)
}

pub fn rentry(rng: &mut Rng) -> Entry {
    Entry {
        inode: boundary(rng, 8).max(1),
        generation: boundary(rng, 8),
        attr: rstat(rng),
        attr_flags: boundary(rng, 4) as u32,
        attr_timeout: rdur(rng),
        entry_timeout: rdur(rng),
    }
}

pub fn rerr(rng: &mut Rng) -> Ret {
    use std::io::ErrorKind::*;
    if rng.chance(2, 3) {
        Ret::Err { os: rng.range(1, 133) as i32, kind: None }
    } else {
        let k = *rng.pick(&[NotFound, AlreadyExists, WouldBlock, Interrupted, PermissionDenied, TimedOut, InvalidInput, Other, UnexpectedEof]);
        Ret::Err { os: 0, kind: Some(k) }
    }
}

pub struct Built {
    pub bytes: Vec<u8>,
    pub req: Value,
    pub script: Ret,
    /// reply capacity needed beyond the fixed part
    pub cap_hint: usize,
}

pub fn build(abi: &Abi, rng: &mut Rng, opname: &str, bits_on: &[String], want_err: bool) -> Built {
    let op = abi.op(opname).clone();
    let body = op["body"].as_str().unwrap().to_string();
    let tail = op["tail"].as_str().unwrap().to_string();
    let ff = op["ff"].as_str().unwrap().to_string();
    let allbits: Vec<String> = op["bits"].as_array().unwrap().iter().map(|x| x.as_str().unwrap().to_string()).collect();
    let numf: Vec<String> = op["num"].as_array().unwrap().iter().map(|x| x.as_str().unwrap().to_string()).collect();
    let mut vals: Vals = Vals::new();
    let mut f = Map::new();
    let mut num = Map::new();
    let mut bitsj = Map::new();
    let mut cap_hint = 0usize;
    // tail first (sizes feed body fields)
    let mut names: Vec<Vec<u8>> = Vec::new();
    let mut payload: Vec<u8> = Vec::new();
    let mut tailbytes: Vec<u8> = Vec::new();
    let mut list: Value = json!([]);
    let mut listn = 0u64;
    match tail.as_str() {
        "names1" => names.push(rname(rng, 4000)),
        "names2" => {
            names.push(rname(rng, 2000));
            names.push(rname(rng, 2000));
        }
        "payload" => {
            // up to max_write (1 MiB, what INIT advertises) and its neighbourhood
            let n = *rng.pick(&[0usize, 1, 2, 7, 8, 9, 100, 4095, 4096, 4097, 65536, 131072, (1 << 20) - 81, (1 << 20) - 41,
                                (1 << 20) - 40, (1 << 20) - 39, (1 << 20) - 1, 1 << 20]);
            payload = vec![0u8; n];
            rng.fill(&mut payload);
        }
        "name+payload" => {
            names.push(rname(rng, 255));
            let n = *rng.pick(&[0usize, 1, 2, 7, 8, 100, 4096, 65536]);
            payload = vec![0u8; n];
            rng.fill(&mut payload);
        }
        t if t.starts_with("list:") => {
            let st = &t[5..];
            // the largest list a maximum-size request can carry, and one less (1 in 5 requests)
            let maxn: u64 = if opname == "BATCH_FORGET" { ((1 << 20) + 0x1000 - 48) / 16 } else { (1 << 20) / 16 };
            listn = *rng.pick(&[0u64, 1, 1, 2, 2, 3, 3, 17, 64, 65, 200, 200]);
            if rng.chance(1, 5) {
                listn = if rng.chance(3, 4) { maxn } else { maxn - 1 };
            }
            let fls = abi.flat_fields(st);
            let mut rows: Vec<(u64, u64)> = Vec::with_capacity(listn as usize);
            for _ in 0..listn {
                let mut v = Vals::new();
                let mut row = Vec::new();
                for fl in &fls {
                    let x = boundary(rng, fl.w);
                    v.insert(fl.name.clone(), x);
                    row.push(x);
                }
                tailbytes.extend(abi.encode(st, &v));
                rows.push((row[0], row[1]));
            }
            list = vharness::scripted::pairs_json(&rows);
        }
        _ => {}
    }
    for n in &names {
        tailbytes.extend_from_slice(n);
        tailbytes.push(0);
    }
    if tail == "payload" || tail == "name+payload" {
        tailbytes.extend_from_slice(&payload);
    }
    // READDIR / READDIRPLUS: the entries the file system will offer are drawn first, so that the buffer size can be put on
    // and next to the packing boundaries (end of an entry with and without its padding)
    let mut pre_dirents: Option<Vec<OwnedDirent>> = None;
    let mut dirent_sizes: Vec<u64> = Vec::new();
    let dirents_then_err = (opname == "READDIR" || opname == "READDIRPLUS") && want_err && rng.chance(1, 2);
    if (opname == "READDIR" || opname == "READDIRPLUS") && (!want_err || dirents_then_err) {
        let n = rng.range(0, 12) as usize;
        let mut v = Vec::new();
        let mut cum = 0u64;
        let extra = if opname == "READDIRPLUS" { abi.size("fuse_entry_out") as u64 } else { 0 };
        let dsz = abi.size("fuse_dirent") as u64;
        for i in 0..n {
            let name = rname(rng, 300);
            let unpadded = cum + extra + dsz + name.len() as u64;
            cum += extra + ((dsz + name.len() as u64 + 7) & !7);
            for d in [-1i64, 0, 1] {
                dirent_sizes.push((unpadded as i64 + d).max(0) as u64);
                dirent_sizes.push((cum as i64 + d).max(0) as u64);
            }
            v.push(OwnedDirent {
                ino: boundary(rng, 8),
                offset: boundary(rng, 8).max(1) ^ (i as u64),
                type_: boundary(rng, 4) as u32,
                name,
                entry: rentry(rng),
            });
        }
        pre_dirents = Some(v);
    }
    // body fields
    if !body.is_empty() {
        for fl in abi.flat_fields(&body) {
            let mut v = boundary(rng, fl.w);
            if fl.name == ff {
                // chosen bits on, the other inspected bits off, uninspected bits random
                let mut known = 0u64;
                for b in &allbits {
                    known |= abi.konst(b);
                }
                v &= !known;
                for b in bits_on {
                    v |= abi.konst(b);
                }
            }
            if numf.contains(&fl.name) {
                v &= 0x7fff_ffff;
            }
            // size-carrying fields
            match (opname, fl.name.as_str()) {
                ("WRITE", "size") | ("SETXATTR", "size") => v = payload.len() as u64,
                ("IOCTL", "in_size") => v = payload.len() as u64,
                ("BATCH_FORGET", "count") | ("REMOVEMAPPING", "count") => v = listn,
                ("READ", "size") | ("READDIR", "size") | ("READDIRPLUS", "size") => {
                    v = *rng.pick(&[0u64, 1, 16, 24, 31, 32, 33, 100, 152, 160, 161, 1000, 4096, 8192, 65536]);
                    if !dirent_sizes.is_empty() && rng.chance(1, 2) {
                        v = *rng.pick(&dirent_sizes);
                    }
                    cap_hint = v as usize;
                    num.insert("size".into(), json!(v));
                }
                ("GETXATTR", "size") | ("LISTXATTR", "size") => {
                    v = *rng.pick(&[0u64, 0, 1, 100, 4096, 65536]);
                    cap_hint = v as usize;
                }
                ("IOCTL", "out_size") => {
                    v = *rng.pick(&[0u64, 1, 100, 4096]);
                    cap_hint = v as usize;
                }
                _ => {}
            }
            // the library's 8-byte setxattr_in: the 7.33+ extension fields do not exist on the wire
            if opname == "SETXATTR" && (fl.name == "setxattr_flags" || fl.name == "padding") {
                continue;
            }
            vals.insert(fl.name.clone(), v);
            f.insert(fl.name.clone(), json!(v.to_string()));
            if numf.contains(&fl.name) {
                num.insert(fl.name.clone(), json!(v));
            }
            if fl.name == ff {
                let mut all: Vec<String> = allbits.clone();
                // bits named by Decode but not enumerated (e.g. release) are in allbits already
                all.sort();
                bitsj.insert(fl.name.clone(), json!(abi.bits_set(v, &all)));
            }
        }
    }
    let mut bodybytes = if body.is_empty() { vec![] } else { abi.encode(&body, &vals) };
    if opname == "SETXATTR" {
        bodybytes.truncate(abi.konst("FUSE_COMPAT_SETXATTR_IN_SIZE") as usize);
    }
    // header
    let total = 40 + bodybytes.len() + tailbytes.len();
    let mut h = Vals::new();
    h.insert("len".into(), total as u64);
    h.insert("opcode".into(), abi.konst(op["code"].as_str().unwrap()));
    h.insert("unique".into(), boundary(rng, 8));
    h.insert("nodeid".into(), boundary(rng, 8));
    h.insert("uid".into(), boundary(rng, 4));
    h.insert("gid".into(), boundary(rng, 4));
    h.insert("pid".into(), boundary(rng, 4));
    let mut bytes = abi.encode("fuse_in_header", &h);
    bytes.extend_from_slice(&bodybytes);
    bytes.extend_from_slice(&tailbytes);
    let hj: Map<String, Value> = h.iter().map(|(k, v)| (k.clone(), json!(v.to_string()))).collect();
    // script
    let kinds: Vec<String> = op["kinds"].as_array().unwrap().iter().map(|x| x.as_str().unwrap().to_string()).collect();
    let script = if dirents_then_err {
        // the file system fails after it has already added entries: the answer is still its error
        Ret::DirentsErr(pre_dirents.take().unwrap_or_default(), rng.range(1, 133) as i32)
    } else if want_err {
        rerr(rng)
    } else {
        let kind = if (opname == "GETXATTR" || opname == "LISTXATTR") && vals.get("size").copied().unwrap_or(0) == 0 {
            "xcount".to_string()
        } else if opname == "GETXATTR" || opname == "LISTXATTR" {
            "bytes".to_string()
        } else {
            rng.pick(&kinds).clone()
        };
        match kind.as_str() {
            "entry" => Ret::Entry(rentry(rng)),
            "create" => Ret::Create {
                entry: rentry(rng),
                handle: if rng.chance(3, 4) { Some(boundary(rng, 8)) } else { None },
                opts: boundary(rng, 4) as u32,
                passthrough: if rng.chance(1, 2) { Some(boundary(rng, 4) as u32) } else { None },
            },
            "attr" => Ret::Attr(rstat(rng), rdur(rng)),
            "bytes" => {
                let lim = if opname == "READLINK" { 4095 } else { cap_hint };
                let n = if lim == 0 { 0 } else { rng.range(0, lim as u64) as usize };
                let mut b = vec![0u8; n];
                rng.fill(&mut b);
                if opname == "READLINK" {
                    cap_hint = 4096;
                }
                Ret::Bytes(b)
            }
            "open" => Ret::Open {
                handle: if rng.chance(3, 4) { Some(boundary(rng, 8)) } else { None },
                opts: boundary(rng, 4) as u32,
                passthrough: if rng.chance(1, 2) { Some(boundary(rng, 4) as u32) } else { None },
            },
            "count" => Ret::Count(boundary(rng, 4) as usize),
            "statfs" => {
                let mut st: libc::statvfs64 = unsafe { std::mem::zeroed() };
                st.f_bsize = boundary(rng, 4);
                st.f_frsize = boundary(rng, 4);
                st.f_blocks = boundary(rng, 8);
                st.f_bfree = boundary(rng, 8);
                st.f_bavail = boundary(rng, 8);
                st.f_files = boundary(rng, 8);
                st.f_ffree = boundary(rng, 8);
                st.f_namemax = boundary(rng, 4);
                Ret::Statfs(st)
            }
            "xcount" => Ret::XCount(boundary(rng, 4) as u32),
            "lock" => Ret::Lock(FileLock { start: boundary(rng, 8), end: boundary(rng, 8), lock_type: boundary(rng, 4) as u32, pid: boundary(rng, 4) as u32 }),
            "bmap" | "lseek" => Ret::U64(boundary(rng, 8)),
            "poll" => Ret::U32(boundary(rng, 4) as u32),
            "ioctl" => {
                let n = if cap_hint == 0 { 0 } else { rng.range(0, cap_hint as u64) as usize };
                let mut b = vec![0u8; n];
                rng.fill(&mut b);
                Ret::Ioctl { result: boundary(rng, 4) as i32, data: b }
            }
            "dirents" => Ret::Dirents(pre_dirents.take().unwrap_or_default()),
            _ => Ret::Unit,
        }
    };
    let namesj: Vec<Value> = names.iter().map(|n| vharness::scripted::name_json(n)).collect();
    let req = json!({"h": hj, "f": f, "bits": bitsj, "num": num, "names": namesj, "pay": pay(&payload), "list": list});
    Built { bytes, req, script, cap_hint }
}

pub fn u32le(b: &[u8], o: usize) -> u32 {
    u32::from_le_bytes([b[o], b[o + 1], b[o + 2], b[o + 3]])
}
pub fn u64le(b: &[u8], o: usize) -> u64 {
    let mut a = [0u8; 8];
    a.copy_from_slice(&b[o..o + 8]);
    u64::from_le_bytes(a)
}

/// Decode a reply message by the kernel layouts. `kind` = result kind the filesystem returned.
pub fn decode_reply(abi: &Abi, msg: &[u8], kind: &str, plus: bool) -> Value {
    if msg.len() < 16 {
        return json!({"present": true, "short": true, "msglen": msg.len(), "len": 0, "error": 0, "unique": "0", "body": {}, "bodylen": 0,
                      "pay": pay(&[]), "dirents": [], "parse_ok": false});
    }
    let len = u32le(msg, 0);
    let error = u32le(msg, 4) as i32;
    let unique = u64le(msg, 8);
    let mut body = Map::new();
    let mut pos = 16usize;
    let mut parse_ok = true;
    let mut dirents: Vec<Value> = Vec::new();
    let mut payload: &[u8] = &[];
    if error == 0 {
        let shape: Vec<String> = abi.doc["replyshape"][kind].as_array().map(|a| a.iter().map(|x| x.as_str().unwrap().to_string()).collect()).unwrap_or_default();
        for s in &shape {
            let sz = abi.size(s);
            if pos + sz <= msg.len() {
                abi.decode(s, &msg[pos..pos + sz], &format!("{s}."), &mut body);
                pos += sz;
            } else {
                parse_ok = false;
            }
        }
        if kind == "dirents" {
            let eo = abi.size("fuse_entry_out");
            while pos < msg.len() {
                let mut ent = Map::new();
                if plus {
                    if pos + eo > msg.len() {
                        parse_ok = false;
                        break;
                    }
                    abi.decode("fuse_entry_out", &msg[pos..pos + eo], "fuse_entry_out.", &mut ent);
                    pos += eo;
                }
                if pos + 24 > msg.len() {
                    parse_ok = false;
                    break;
                }
                let ino = u64le(msg, pos);
                let off = u64le(msg, pos + 8);
                let namelen = u32le(msg, pos + 16) as usize;
                let typ = u32le(msg, pos + 20);
                let padded = (24 + namelen + 7) & !7;
                if pos + padded > msg.len() {
                    parse_ok = false;
                    break;
                }
                let name = &msg[pos + 24..pos + 24 + namelen];
                let padzero = msg[pos + 24 + namelen..pos + padded].iter().all(|b| *b == 0);
                ent.insert("ino".into(), json!(ino.to_string()));
                ent.insert("off".into(), json!(off.to_string()));
                ent.insert("type".into(), json!((typ as u64).to_string()));
                ent.insert("namelen".into(), json!(namelen));
                ent.insert("name".into(), vharness::scripted::name_json(name));
                ent.insert("padzero".into(), json!(padzero));
                ent.insert("start".into(), json!(pos - 16 - if plus { eo } else { 0 }));
                dirents.push(Value::Object(ent));
                pos += padded;
            }
        } else {
            payload = &msg[pos.min(msg.len())..];
        }
    } else {
        payload = &msg[16..];
    }
    json!({"present": true, "short": false, "msglen": msg.len(), "len": len, "error": error, "unique": unique.to_string(),
           "body": body, "bodylen": msg.len() - 16, "pay": pay(payload), "dirents": dirents, "parse_ok": parse_ok})
}

pub fn no_reply() -> Value {
    json!({"present": false, "short": false, "msglen": 0, "len": 0, "error": 0, "unique": "0", "body": {}, "bodylen": 0, "pay": pay(&[]),
           "dirents": [], "parse_ok": true})
}

pub fn split_lens(rng: &mut Rng, total: usize, pad: usize) -> Vec<usize> {
    // random segmentation of total(+pad) bytes: 1 segment, split inside the header, many small, ...
    let t = total + pad;
    match rng.below(5) {
        0 => vec![t],
        1 => {
            let a = rng.range(1, 39.min(t.max(2) as u64 - 1).max(1)) as usize;
            vec![a.min(t), t - a.min(t)]
        }
        2 => {
            let mut v = Vec::new();
            let mut left = t;
            while left > 0 && v.len() < 60 {
                let s = (rng.range(1, 64) as usize).min(left);
                v.push(s);
                left -= s;
            }
            if left > 0 {
                v.push(left);
            }
            v
        }
        3 => vec![40.min(t), t - 40.min(t)],
        _ => {
            let a = rng.range(0, t as u64) as usize;
            vec![a, 0, t - a]
        }
    }
    .into_iter()
    .collect()
}

fn emit_tx(tr: &mut Trace, abi: &Abi, fs: &ScriptedFs, transport: &str, opname: &str, gen: &str, b: &Built, o: &Outcome, extra: Value) {
    let calls = fs.take_log();
    let kind = calls
        .iter()
        .rev()
        .find(|c| c["m"] != "id_remap")
        .map(|c| c["ret"]["kind"].as_str().unwrap_or("unit").to_string())
        .unwrap_or_else(|| "unit".to_string());
    let reply = if o.msgs.is_empty() { no_reply() } else { decode_reply(abi, &o.msgs[0], &kind, opname == "READDIRPLUS") };
    // guest ranges the server is known to have modified: the emitted message (prefix of the flattened
    // writable space) united with every byte that no longer holds the poison pattern
    let mut flat_ranges: Vec<(usize, usize)> = o.written.clone();
    if let Some(m) = o.msgs.first() {
        if !o.wsegs.is_empty() && !m.is_empty() {
            flat_ranges.push((0, m.len()));
        }
    }
    let mut touched: Vec<Value> = Vec::new();
    for (fo, fl) in flat_ranges {
        let (mut pos, mut left, mut base) = (fo, fl, 0usize);
        for (a, l) in &o.wsegs {
            if left == 0 {
                break;
            }
            if pos < base + *l {
                let inseg = pos - base;
                let n = left.min(*l - inseg);
                touched.push(json!([*a + inseg as u64, n]));
                pos += n;
                left -= n;
            }
            base += *l;
        }
    }
    let written: Vec<Value> = o.written.iter().map(|(a, l)| json!([a, l])).collect();
    let wsegs: Vec<Value> = o.wsegs.iter().map(|(a, l)| json!([a, l])).collect();
    // raw observation: every name the file system received is a run of bytes of the request that was supplied (a name
    // made of anything else was read from memory outside the supplied buffers)
    let mut names_from_request = true;
    for c in calls.iter().filter(|c| c["m"] != "id_remap") {
        if let Some(a) = c["args"].as_object() {
            for (k, v) in a {
                if !(k.contains("name")) {
                    continue;
                }
                if let Some(sv) = v.as_str() {
                    let nb: Vec<u8> = if let Some(h) = sv.strip_prefix("hex:") {
                        (0..h.len() / 2).map(|i| u8::from_str_radix(&h[2 * i..2 * i + 2], 16).unwrap_or(0)).collect()
                    } else {
                        sv.as_bytes().to_vec()
                    };
                    if !nb.is_empty() && !b.bytes.windows(nb.len()).any(|w| w == &nb[..]) {
                        names_from_request = false;
                    }
                }
            }
        }
    }
    let ev = json!({"e": "Tx", "tr": transport, "op": opname, "gen": gen, "req": b.req, "calls": calls,
        "out": {"ret": o.ret, "retc": if o.ret.starts_with("ok") { "Ok" } else if o.ret.starts_with("err") { "Err" } else { "panic" }, "nmsgs": o.msgs.len(), "canary_ok": o.canary_ok, "tail_untouched": o.tail_untouched, "names_from_request": names_from_request,
                "written": written, "touched": touched, "dirty_reply": o.dirty_reply, "dirty_req": o.dirty_req, "wsegs": wsegs,
                "msglens": o.msgs.iter().map(|m| m.len()).collect::<Vec<_>>()},
        "reply": reply, "x": extra});
    tr.emit(&ev);
}

fn run_wf(args: &[String]) {
    let abi = Abi::load(&args[1]);
    let out = &args[2];
    let k = args.get(3).map(|s| s.parse::<usize>().unwrap()).unwrap_or(2);
    let seed = env_u64("VERIF_SEED", 1);
    let mut rng = Rng::new(seed);
    let mut tr = Trace::create(out);
    let fs = Arc::new(ScriptedFs { remap_xor: 0x0055_00aa, ..ScriptedFs::new("s") });
    let server = Server::new(fs.clone());
    let pair = SeqPair::new();
    let mut ops = abi.op_names();
    ops.sort();
    for opname in &ops {
        let op = abi.op(opname).clone();
        let allbits: Vec<String> = op["bits"].as_array().unwrap().iter().map(|x| x.as_str().unwrap().to_string()).collect();
        for mask in 0..(1u32 << allbits.len()) {
            let bits_on: Vec<String> = allbits.iter().enumerate().filter(|(i, _)| mask & (1 << i) != 0).map(|(_, b)| b.clone()).collect();
            for rep in 0..k {
                for transport in ["fusedev", "virtiofs"] {
                    let want_err = rep % 3 == 2;
                    let b = build(&abi, &mut rng, opname, &bits_on, want_err);
                    fs.set(b.script.clone());
                    fs.take_log();
                    let cap = 16 + 160 + b.cap_hint + 4096 + rng.below(64) as usize;
                    let mut vu = NullCache;
                    let o = if transport == "fusedev" && rep % 2 == 1 {
                        // request and reply share one buffer, as in the production FuseChannel
                        let vuo: Option<&mut dyn fuse_backend_rs::transport::FsCacheReqHandler> = Some(&mut vu);
                        let (ret, canary_ok) = vharness::xport::run_fusedev_aliased(&b.bytes, cap, pair.tx, |r, w| match server.handle_message(r, w, vuo, None) {
                            Ok(n) => format!("ok:{n}"),
                            Err(e) => format!("err:{}", vharness::xport::err_name(&e)),
                        });
                        Outcome { ret, msgs: pair.drain(), canary_ok, tail_untouched: true, written: vec![], dirty_reply: vec![], dirty_req: vec![], wsegs: vec![] }
                    } else if transport == "fusedev" {
                        run_fusedev(&server, &b.bytes, cap, Some(&mut vu), &pair)
                    } else {
                        let rl = split_lens(&mut rng, b.bytes.len(), 0);
                        let wl = split_lens(&mut rng, cap, 0);
                        let roff = rng.below(4096);
                        let woff = rng.below(4096);
                        let gap = *rng.pick(&[0u64, 1, 64, 4096]);
                        run_virtio(&server, &b.bytes, &rl, &wl, roff, woff, gap, Some(&mut vu))
                    };
                    emit_tx(&mut tr, &abi, &fs, transport, opname, "wf", &b, &o, json!({"cap": cap}));
                }
            }
        }
    }
    // negative-entry LOOKUP (Entry.inode == 0) on servers negotiated at different minors: before 7.4 a zero nodeid is not
    // a valid reply, the protocol wants ENOENT
    // (minor in force, minor of a later INIT that the file system refuses): a refused INIT changes nothing
    for (minor, refused) in [(3u64, None), (4, None), (33, None), (33, Some(3u64)), (5, Some(0)), (3, Some(33)), (0, Some(4))] {
        let (fs2, server2) = negotiated_server(&abi, minor);
        if let Some(m2) = refused {
            let mut iv = Vals::new();
            iv.insert("major".into(), 7);
            iv.insert("minor".into(), m2);
            let mut body = abi.encode("fuse_init_in", &iv);
            body.truncate(16);
            let mut h = Vals::new();
            h.insert("len".into(), 56);
            h.insert("opcode".into(), abi.konst("FUSE_INIT"));
            h.insert("unique".into(), 2);
            let mut ib = abi.encode("fuse_in_header", &h);
            ib.extend(body);
            fs2.set(Ret::Err { os: libc::EINVAL, kind: None });
            let _ = run_fusedev(&server2, &ib, 4096, None, &pair);
        }
        for rep in 0..(2 * k.max(1)) {
            let mut b = build(&abi, &mut rng, "LOOKUP", &[], false);
            let mut e = rentry(&mut rng);
            if rep % 2 == 0 {
                e.inode = 0;
            }
            b.script = Ret::Entry(e);
            fs2.set(b.script.clone());
            fs2.take_log();
            let o = run_fusedev(&server2, &b.bytes, 4096, None, &pair);
            emit_tx(&mut tr, &abi, &fs2, "fusedev", "LOOKUP", "wf", &b, &o, json!({"cap": 4096, "minor": minor, "refused_init_minor": refused.map(|x| x as i64).unwrap_or(-1)}));
        }
    }
    // notification messages (fusedev only)
    for i in 0..(8 * k.max(1)) {
        use fuse_backend_rs::transport::FuseDevWriter;
        let mut buf = vec![0u8; 8192];
        let kind = ["inval_entry", "inval_inode", "resend"][i % 3];
        let (parent, name) = (boundary(&mut rng, 8), rname(&mut rng, 3000));
        let (ino, off, len) = (boundary(&mut rng, 8), boundary(&mut rng, 8), boundary(&mut rng, 8));
        let res = {
            let w = FuseDevWriter::<()>::new(pair.tx, &mut buf).unwrap();
            match kind {
                "inval_entry" => server.notify_inval_entry(w, parent, &std::ffi::CString::new(name.clone()).unwrap()).map(|_| ()),
                "inval_inode" => server.notify_inval_inode(w, ino, off, len).map(|_| ()),
                _ => server.notify_resend(w),
            }
        };
        let msgs = pair.drain();
        let mut body = Map::new();
        let mut hdr = json!({"len": 0, "code": 0, "unique": "0"});
        let mut tail = pay(&[]);
        let mut taillen = 0usize;
        if let Some(m) = msgs.first() {
            if m.len() >= 16 {
                hdr = json!({"len": u32le(m, 0), "code": u32le(m, 4) as i32, "unique": u64le(m, 8).to_string()});
                let st = match kind {
                    "inval_entry" => "fuse_notify_inval_entry_out",
                    "inval_inode" => "fuse_notify_inval_inode_out",
                    _ => "",
                };
                let mut pos = 16;
                if !st.is_empty() && m.len() >= 16 + abi.size(st) {
                    abi.decode(st, &m[16..16 + abi.size(st)], "", &mut body);
                    pos += abi.size(st);
                }
                tail = pay(&m[pos..]);
                taillen = m.len() - pos;
            }
        }
        let mut nn = name.clone();
        nn.push(0);
        tr.emit(&json!({"e": "Notify", "kind": kind, "ok": res.is_ok(), "nmsgs": msgs.len(), "msglen": msgs.first().map(|m| m.len()).unwrap_or(0),
            "args": {"parent": parent.to_string(), "namelen": name.len(), "name_nul": pay(&nn), "ino": ino.to_string(), "off": off.to_string(), "len": len.to_string()},
            "hdr": hdr, "body": body, "tail": tail, "taillen": taillen}));
    }
    tr.emit(&json!({"e": "End", "n": tr.n}));
    tr.flush();
}

// ------------------------------------------------------------------------------------------------
// class mode: every request class exported by TLC from spec/WireFrame.tla, concretised k times

/// A fresh server that has answered one INIT of a 7.<minor> client (the state later requests depend on: Server::vers).
pub fn negotiated_server(abi: &Abi, minor: u64) -> (Arc<ScriptedFs>, Server<Arc<ScriptedFs>>) {
    let fs = Arc::new(ScriptedFs::new("s"));
    let server = Server::new(fs.clone());
    let mut iv = Vals::new();
    iv.insert("major".into(), 7);
    iv.insert("minor".into(), minor);
    let mut body = abi.encode("fuse_init_in", &iv);
    body.truncate(16);
    let mut h = Vals::new();
    h.insert("len".into(), 56);
    h.insert("opcode".into(), abi.konst("FUSE_INIT"));
    h.insert("unique".into(), 1);
    let mut ib = abi.encode("fuse_in_header", &h);
    ib.extend(body);
    fs.set(Ret::Init(0));
    let pair = SeqPair::new();
    let _ = run_fusedev(&server, &ib, 4096, None, &pair);
    fs.take_log();
    (fs, server)
}

pub struct ClassReq {
    pub bytes: Vec<u8>,
    pub cap: usize,
    pub script: Ret,
    pub unique: u64,
}

pub fn success_ret(rng: &mut Rng, abi: &Abi, op: &str, size_hint: usize) -> (Ret, usize) {
    // a success result for `op` and the number of body bytes its reply carries
    let sz = |s: &str| abi.size(s);
    match op {
        "LOOKUP" | "SYMLINK" | "MKNOD" | "MKDIR" | "LINK" => (Ret::Entry(rentry(rng)), sz("fuse_entry_out")),
        "CREATE" => (Ret::Create { entry: rentry(rng), handle: Some(boundary(rng, 8)), opts: 0, passthrough: None }, sz("fuse_entry_out") + sz("fuse_open_out")),
        "GETATTR" | "SETATTR" => (Ret::Attr(rstat(rng), rdur(rng)), sz("fuse_attr_out")),
        "READLINK" => {
            let n = rng.range(2, 300) as usize;
            let mut b = vec![0u8; n];
            rng.fill(&mut b);
            (Ret::Bytes(b), n)
        }
        "GETXATTR" | "LISTXATTR" => {
            if size_hint == 0 {
                (Ret::XCount(boundary(rng, 4) as u32), sz("fuse_getxattr_out"))
            } else {
                let n = rng.range(2, size_hint.max(2) as u64) as usize;
                let mut b = vec![0u8; n];
                rng.fill(&mut b);
                (Ret::Bytes(b), n)
            }
        }
        "OPEN" | "OPENDIR" => (Ret::Open { handle: Some(boundary(rng, 8)), opts: 0, passthrough: None }, sz("fuse_open_out")),
        "READ" => {
            let mut b = vec![0u8; size_hint];
            rng.fill(&mut b);
            (Ret::Bytes(b), size_hint)
        }
        "WRITE" => (Ret::Count(boundary(rng, 4) as usize), sz("fuse_write_out")),
        "STATFS" => (Ret::Statfs(unsafe { std::mem::zeroed() }), sz("fuse_statfs_out")),
        "GETLK" => (Ret::Lock(FileLock { start: 1, end: 2, lock_type: 3, pid: 4 }), sz("fuse_lk_out")),
        "BMAP" => (Ret::U64(boundary(rng, 8)), sz("fuse_bmap_out")),
        "LSEEK" => (Ret::U64(boundary(rng, 8)), sz("fuse_lseek_out")),
        "POLL" => (Ret::U32(boundary(rng, 4) as u32), sz("fuse_poll_out")),
        "IOCTL" => (Ret::Ioctl { result: 7, data: vec![] }, sz("fuse_ioctl_out")),
        "READDIR" | "READDIRPLUS" => {
            let n = rng.range(0, 6) as usize;
            let v = (0..n)
                .map(|i| OwnedDirent { ino: boundary(rng, 8), offset: i as u64 + 1, type_: 4, name: rname(rng, 40), entry: rentry(rng) })
                .collect();
            (Ret::Dirents(v), size_hint)
        }
        "INIT" => (Ret::Init(0), size_hint),
        _ => (Ret::Unit, 0),
    }
}

pub fn concretise(abi: &Abi, rng: &mut Rng, c: &Value) -> Option<ClassReq> {
    const MAXB: u64 = (1 << 20) + 4096;
    let op = c["op"].as_str().unwrap();
    let (sup, lenf, body, capc, fsres) = (c["sup"].as_str().unwrap(), c["lenf"].as_str().unwrap(), c["body"].as_str().unwrap(), c["cap"].as_str().unwrap(), c["fsres"].as_str().unwrap());
    let unique = rng.next();
    // opcode number and request structure
    let (code, st): (u64, String) = match op {
        "HOLE" => (*rng.pick(&[0u64, 7, 19, 50, 51, 52, 53, 100, 4096, 1_048_576, 436_207_616, 0x7fff_ffff, 0x8000_0000, 0xffff_ffff]), String::new()),
        "INIT" => (abi.konst("FUSE_INIT"), "fuse_init_in_head".to_string()),
        _ => (abi.konst(abi.op(op)["code"].as_str().unwrap()), abi.op(op)["body"].as_str().unwrap().to_string()),
    };
    let mut ssize = if st.is_empty() { 0 } else { abi.size(&st) };
    if op == "SETXATTR" {
        ssize = 8;
    }
    if sup == "lt40" {
        let n = rng.below(40) as usize;
        let mut h = Vals::new();
        h.insert("len".into(), match lenf { "lt40" => rng.below(40), "eq" => n as u64, "gt" => rng.range(n as u64 + 1, MAXB), _ => rng.range(MAXB + 1, u32::MAX as u64) });
        h.insert("opcode".into(), code);
        h.insert("unique".into(), unique);
        let mut b = abi.encode("fuse_in_header", &h);
        b.truncate(n);
        return Some(ClassReq { bytes: b, cap: 4096, script: Ret::Unit, unique: if n >= 16 { unique } else { 0 } });
    }
    // reply capacity is decided last (depends on the scripted result); first the window
    let mut vals = Vals::new();
    if !st.is_empty() {
        for fl in abi.flat_fields(&st) {
            vals.insert(fl.name.clone(), boundary(rng, fl.w));
        }
    }
    let mut tail: Vec<u8> = Vec::new();
    let mut size_hint = 0usize;
    let name = |rng: &mut Rng| rname(rng, 64);
    match abi_shape(op) {
        "name1" | "st_name1" => {
            tail.extend(name(rng));
            if body != "no_nul" {
                tail.push(0);
            } else if rng.chance(1, 4) {
                tail.clear();
            }
        }
        "name2" | "st_name2" => {
            tail.extend(name(rng));
            match body {
                "no_nul" => tail.extend(name(rng)),
                "one_nul_at_end" => tail.push(0),
                _ => {
                    tail.push(0);
                    tail.extend(name(rng));
                    tail.push(0);
                }
            }
        }
        "setxattr" => {
            let vlen = rng.range(0, 64) as usize;
            let mut v = vec![1u8; vlen];
            for b in v.iter_mut() {
                *b = (rng.range(1, 255)) as u8;
            }
            tail.extend(name(rng));
            if body != "no_nul" {
                tail.push(0);
                tail.extend(&v);
                vals.insert("size".into(), if body == "size_mismatch" { vlen as u64 + rng.range(1, 9) } else { vlen as u64 });
            } else {
                vals.insert("size".into(), 0);
            }
        }
        "bforget" | "removemapping" => {
            let rec = if op == "BATCH_FORGET" { "fuse_forget_one" } else { "fuse_removemapping_one" };
            let k = rng.range(0, 5);
            for _ in 0..k {
                let mut v = Vals::new();
                for fl in abi.flat_fields(rec) {
                    v.insert(fl.name.clone(), boundary(rng, fl.w));
                }
                tail.extend(abi.encode(rec, &v));
            }
            let count = match body {
                "count_gt_payload" => k + rng.range(5, 9), // more than the tail plus any garbage behind the window supplies
                "count_over_limit" => rng.range(70_000, u32::MAX as u64),
                _ => k,
            };
            vals.insert("count".into(), count);
        }
        "write" => {
            let n = rng.range(0, 300) as usize;
            let mut v = vec![0u8; n];
            rng.fill(&mut v);
            tail.extend(&v);
            vals.insert("size".into(), if body == "size_gt_max" { rng.range((1 << 20) + 1, u32::MAX as u64) } else { n as u64 });
        }
        "ioctl" => {
            let n = rng.range(0, 64) as usize;
            let mut v = vec![0u8; n];
            rng.fill(&mut v);
            tail.extend(&v);
            vals.insert("in_size".into(), if body == "in_size_gt_avail" { n as u64 + rng.range(1, 1 << 20) } else { n as u64 });
            vals.insert("out_size".into(), 0);
        }
        "read" => {
            size_hint = rng.range(2, 5000) as usize;
            vals.insert("size".into(), size_hint as u64);
        }
        "readdir" => {
            size_hint = rng.range(0, 5000) as usize;
            vals.insert("size".into(), size_hint as u64);
        }
        "init" => {
            vals.insert("major".into(), match body { "major_lt" => rng.below(7), "major_gt" => rng.range(8, u32::MAX as u64), _ => 7 });
            let minor = *rng.pick(&[0u64, 4, 5, 22, 23, 31, 33, 38, 1000]);
            vals.insert("minor".into(), minor);
            size_hint = if body == "major_gt" { 64 } else if minor < 5 { 8 } else if minor < 23 { 24 } else { 64 };
            vals.insert("flags".into(), rng.next() & 0xbfff_ffff); // no INIT_EXT: the 16-byte form is the whole request
        }
        _ => {}
    }
    if op == "GETXATTR" || op == "LISTXATTR" {
        size_hint = *rng.pick(&[0usize, 64, 4096]);
        vals.insert("size".into(), size_hint as u64);
    }
    // scripted result and reply capacity
    let (okret, okbody) = success_ret(rng, abi, op, size_hint);
    let script = if fsres == "err" {
        Ret::Err { os: rng.range(1, 133) as i32, kind: None }
    } else if fsres == "neg" {
        // a negative entry: inode 0 with an entry timeout
        let mut e = rentry(rng);
        e.inode = 0;
        Ret::Entry(e)
    } else {
        okret
    };
    let need = 16 + okbody;
    let mut cap = match capc {
        "c0" => 0,
        "lt16" => rng.range(1, 15) as usize,
        "eq16" => 16,
        "mid" => {
            if need <= 17 {
                return None;
            }
            // anywhere between an error reply and the success reply, with the edges favoured: one byte short, the last
            // 8 / 16 bytes (a reply written in parts: header + first structure fits, the last part does not)
            if rng.chance(1, 2) {
                rng.range(17, need as u64 - 1) as usize
            } else {
                let c = *rng.pick(&[need - 1, need - 2, need.saturating_sub(8), need.saturating_sub(9), need.saturating_sub(16), need.saturating_sub(17), 17, 24]);
                c.clamp(17, need - 1)
            }
        }
        _ => need + rng.below(64) as usize,
    };
    if abi_shape(op) == "readdir" {
        // "ok" = the requested size fits the reply buffer (available_bytes >= size); "size_gt_avail" = it does not
        if body == "size_gt_avail" {
            vals.insert("size".into(), cap as u64 + rng.range(1, 4096));
        } else if body == "ok" {
            match capc {
                "c0" | "lt16" | "eq16" => {
                    vals.insert("size".into(), rng.range(0, cap as u64));
                }
                _ => cap = 16 + size_hint + rng.below(64) as usize,
            }
        }
    }
    let mut sbytes = if st.is_empty() { vec![] } else { abi.encode(&st, &vals) };
    sbytes.truncate(ssize);
    let mut window: Vec<u8> = vec![0u8; 40];
    if body == "st_short" {
        let k = rng.below(ssize as u64) as usize;
        window.extend(&sbytes[..k]);
    } else {
        window.extend(&sbytes);
        window.extend(&tail);
    }
    let w = window.len() as u64;
    let mut bytes = window.clone();
    let len: u64 = match lenf {
        "eq" => w,
        "lt" => {
            let extra = rng.range(1, 64) as usize;
            let mut g = vec![0u8; extra];
            rng.fill(&mut g);
            for b in g.iter_mut() {
                if *b == 0 {
                    *b = 1; // garbage behind the window must not supply the missing NUL
                }
            }
            bytes.extend(&g);
            w
        }
        "ltst" => rng.range(40, 40 + ssize as u64 - 1),
        "lt40" => rng.below(40),
        "gt" => if rng.chance(1, 3) { MAXB } else { rng.range(bytes.len() as u64 + 1, MAXB) },
        _ => if rng.chance(1, 3) { MAXB + 1 } else { rng.range(MAXB + 1, u32::MAX as u64) },
    };
    let mut h = Vals::new();
    h.insert("len".into(), len);
    h.insert("opcode".into(), code);
    h.insert("unique".into(), unique);
    h.insert("nodeid".into(), boundary(rng, 8));
    h.insert("uid".into(), boundary(rng, 4));
    h.insert("gid".into(), boundary(rng, 4));
    h.insert("pid".into(), boundary(rng, 4));
    bytes[..40].copy_from_slice(&abi.encode("fuse_in_header", &h));
    Some(ClassReq { bytes, cap, script, unique })
}

pub fn abi_shape(op: &str) -> &'static str {
    match op {
        "LOOKUP" | "UNLINK" | "RMDIR" | "REMOVEXATTR" => "name1",
        "MKNOD" | "MKDIR" | "LINK" | "CREATE" | "GETXATTR" => "st_name1",
        "SYMLINK" => "name2",
        "RENAME" | "RENAME2" => "st_name2",
        "SETXATTR" => "setxattr",
        "BATCH_FORGET" => "bforget",
        "REMOVEMAPPING" => "removemapping",
        "WRITE" => "write",
        "IOCTL" => "ioctl",
        "READ" => "read",
        "READDIR" | "READDIRPLUS" => "readdir",
        "INIT" => "init",
        _ => "other",
    }
}

pub fn hdr_json(bytes: &[u8], unique: u64) -> Value {
    let g32 = |o: usize| if bytes.len() >= o + 4 { u32le(bytes, o) as u64 } else { 0 };
    json!({"h": {"len": g32(0).to_string(), "opcode": g32(4).to_string(), "unique": unique.to_string(), "nodeid": "0", "uid": "0", "gid": "0", "pid": "0"},
           "f": {}, "bits": {}, "num": {}, "names": [], "pay": pay(&[]), "list": [], "nbytes": bytes.len()})
}

/// Counts the MetricsHook calls of one transaction (collect, release, on_init_params).
#[derive(Default)]
pub struct CountHook {
    pub n: std::sync::Mutex<(u32, u32, u32)>,
}
impl fuse_backend_rs::api::server::MetricsHook for CountHook {
    fn collect(&self, _ih: &fuse_backend_rs::abi::fuse_abi::InHeader) {
        self.n.lock().unwrap().0 += 1;
    }
    fn on_init_params(&self, _p: &fuse_backend_rs::api::server::InitParams) {
        self.n.lock().unwrap().2 += 1;
    }
    fn release(&self, _oh: Option<&fuse_backend_rs::abi::fuse_abi::OutHeader>) {
        self.n.lock().unwrap().1 += 1;
    }
}

fn run_one(server: &Server<Arc<ScriptedFs>>, fs: &ScriptedFs, pair: &SeqPair, rng: &mut Rng, tr: &str, bytes: &[u8], cap: usize, vu: bool) -> (Outcome, (u32, u32, u32)) {
    fs.take_log();
    let mut cache = NullCache;
    let hook = CountHook::default();
    let vuo: Option<&mut dyn fuse_backend_rs::transport::FsCacheReqHandler> = if vu { Some(&mut cache) } else { None };
    let o = if tr == "fusedev" {
        vharness::xport::run_fusedev_hook(server, bytes, cap, vuo, pair, Some(&hook))
    } else {
        let rl = split_lens(rng, bytes.len(), 0);
        let wl = split_lens(rng, cap, 0);
        let roff = rng.below(4096);
        let woff = rng.below(4096);
        let gap = *rng.pick(&[0u64, 1, 64, 4096]);
        vharness::xport::run_virtio_with(bytes, &rl, &wl, roff, woff, gap, |r, w| match server.handle_message(r, w, vuo, Some(&hook)) {
            Ok(n) => format!("ok:{n}"),
            Err(e) => format!("err:{}", vharness::xport::err_name(&e)),
        })
    };
    let n = *hook.n.lock().unwrap();
    (o, n)
}

fn run_classes(args: &[String]) {
    let abi = Abi::load(&args[1]);
    let mut tr = Trace::create(&args[2]);
    let cases = std::fs::read_to_string(&args[4]).expect("cases");
    let k = args.get(5).map(|s| s.parse::<usize>().unwrap()).unwrap_or(1);
    let stride = args.get(6).map(|s| s.parse::<usize>().unwrap()).unwrap_or(1);
    let mut rng = Rng::new(env_u64("VERIF_SEED", 1));
    let fs = Arc::new(ScriptedFs::new("s"));
    let server = Server::new(fs.clone());
    let pair = SeqPair::new();
    let pre: Vec<_> = [0u64, 1, 2, 3].iter().map(|m| negotiated_server(&abi, *m)).collect();
    let post: Vec<_> = [4u64, 5, 33].iter().map(|m| negotiated_server(&abi, *m)).collect();
    let mut skipped = 0usize;
    for (i, line) in cases.lines().enumerate() {
        if line.trim().is_empty() || (i + env_u64("VERIF_SEED", 1) as usize) % stride != 0 {
            continue;
        }
        let case: Value = serde_json::from_str(line).expect("case json");
        let c = &case["c"];
        for _ in 0..k {
            // every transaction starts from a server that has not negotiated anything unusual
            let cr = match concretise(&abi, &mut rng, c) {
                Some(x) => x,
                None => {
                    skipped += 1;
                    continue;
                }
            };
            // LOOKUP is the handler that reads the negotiated version: it runs on servers that only ever saw one INIT
            let opname = c["op"].as_str().unwrap();
            let (fs, server) = if opname == "LOOKUP" {
                let p = if c["sess"] == "pre74" { &pre[rng.below(4) as usize] } else { &post[rng.below(3) as usize] };
                (&p.0, &p.1)
            } else {
                (&fs, &server)
            };
            fs.set(cr.script.clone());
            let (o, hk) = run_one(server, fs, &pair, &mut rng, c["tr"].as_str().unwrap(), &cr.bytes, cr.cap, c["vu"].as_bool().unwrap());
            let b = Built { bytes: cr.bytes.clone(), req: hdr_json(&cr.bytes, cr.unique), script: cr.script.clone(), cap_hint: 0 };
            emit_tx(&mut tr, &abi, fs, c["tr"].as_str().unwrap(), opname, "class", &b, &o, json!({"cap": cr.cap, "cls": c, "pred": case["o"], "hooks": {"collect": hk.0, "release": hk.1, "init_params": hk.2}}));
        }
    }
    tr.emit(&json!({"e": "End", "n": tr.n, "skipped": skipped}));
    tr.flush();
}

// ------------------------------------------------------------------------------------------------
// random mode: unconstrained byte strings and bit-flipped well-formed requests

fn run_random(args: &[String]) {
    let abi = Abi::load(&args[1]);
    let mut tr = Trace::create(&args[2]);
    let n = args.get(4).map(|s| s.parse::<usize>().unwrap()).unwrap_or(1000);
    let mut rng = Rng::new(env_u64("VERIF_SEED", 1));
    let fs = Arc::new(ScriptedFs::new("s"));
    let server = Server::new(fs.clone());
    let pair = SeqPair::new();
    let mut ops = abi.op_names();
    ops.sort();
    for i in 0..n {
        // one transaction in sixteen: the file system refuses to translate the caller's ids (id_remap_with_nodeid fails
        // before anything else is looked at); the request itself is well-formed, half of them FORGET / BATCH_FORGET
        let refuse = i % 16 == 5;
        fs.remap_refuse.store(refuse, std::sync::atomic::Ordering::SeqCst);
        let (mut bytes, script, opname): (Vec<u8>, Ret, String) = if refuse {
            let opname = if i % 32 == 5 { (if i % 64 == 5 { "FORGET" } else { "BATCH_FORGET" }).to_string() } else { rng.pick(&ops).clone() };
            let b = build(&abi, &mut rng, &opname, &[], false);
            let mut bytes = b.bytes.clone();
            if bytes.len() > 70_000 && opname != "BATCH_FORGET" {
                bytes.truncate(70_000);
            }
            (bytes, b.script, opname)
        } else if i % 2 == 0 {
            // mutate a well-formed request: flip bits, truncate, extend, lie in the length field
            let opname = rng.pick(&ops).clone();
            let we = rng.chance(1, 4);
            let b = build(&abi, &mut rng, &opname, &[], we);
            let mut bytes = b.bytes.clone();
            if bytes.len() > 70_000 {
                bytes.truncate(70_000);
            }
            for _ in 0..rng.range(1, 4) {
                if bytes.is_empty() {
                    break;
                }
                match rng.below(5) {
                    0 => {
                        let p = rng.below(bytes.len() as u64) as usize;
                        bytes[p] ^= 1 << rng.below(8);
                    }
                    1 => {
                        let nl = rng.below(bytes.len() as u64 + 1) as usize;
                        bytes.truncate(nl);
                    }
                    2 => {
                        let extra = rng.range(1, 100) as usize;
                        let mut g = vec![0u8; extra];
                        rng.fill(&mut g);
                        bytes.extend(g);
                    }
                    3 => {
                        if bytes.len() >= 4 {
                            let l = boundary(&mut rng, 4) as u32;
                            bytes[..4].copy_from_slice(&l.to_le_bytes());
                        }
                    }
                    _ => {
                        let p = rng.below(bytes.len().max(1) as u64) as usize;
                        let q = (p + 8).min(bytes.len());
                        let v = boundary(&mut rng, 8).to_le_bytes();
                        bytes[p..q].copy_from_slice(&v[..q - p]);
                    }
                }
            }
            (bytes, b.script, opname)
        } else {
            let nl = *rng.pick(&[0usize, 1, 16, 39, 40, 41, 48, 56, 64, 80, 104, 128, 200, 4096]);
            let mut bytes = vec![0u8; nl];
            rng.fill(&mut bytes);
            if nl >= 8 && rng.chance(3, 4) {
                let code = rng.below(54) as u32;
                bytes[4..8].copy_from_slice(&code.to_le_bytes());
            }
            if nl >= 4 && rng.chance(1, 2) {
                bytes[..4].copy_from_slice(&(nl as u32).to_le_bytes());
            }
            (bytes, if rng.chance(1, 3) { rerr(&mut rng) } else { Ret::Unit }, "RAW".to_string())
        };
        if bytes.len() > (1 << 20) {
            bytes.truncate(1 << 20);
        }
        fs.set(script.clone());
        let cap = *rng.pick(&[0usize, 1, 15, 16, 17, 24, 100, 144, 160, 4096, 70_000]);
        let trn = if rng.chance(1, 2) { "fusedev" } else { "virtiofs" };
        let vu = rng.chance(1, 2);
        let (o, hk) = run_one(&server, &fs, &pair, &mut rng, trn, &bytes, cap, vu);
        // the opcode the server saw (if a whole header was supplied) names the transaction
        let code = if bytes.len() >= 40 { u32le(&bytes, 4) as u64 } else { u64::MAX };
        let seen = ops.iter().find(|o| abi.konst(abi.op(o)["code"].as_str().unwrap()) == code).cloned()
            .unwrap_or_else(|| if code == abi.konst("FUSE_INIT") { "INIT".to_string() } else { "HOLE".to_string() });
        let unique = if bytes.len() >= 16 { u64le(&bytes, 8) } else { 0 };
        let b = Built { bytes: bytes.clone(), req: hdr_json(&bytes, unique), script, cap_hint: 0 };
        emit_tx(&mut tr, &abi, &fs, trn, &seen, "random", &b, &o, json!({"cap": cap, "from": opname, "remap_refused": refuse, "hooks": {"collect": hk.0, "release": hk.1, "init_params": hk.2}, "hex": if bytes.len() <= 256 { bytes.iter().map(|x| format!("{x:02x}")).collect::<String>() } else { String::new() }}));
    }
    tr.emit(&json!({"e": "End", "n": tr.n}));
    tr.flush();
}

#[allow(dead_code)]
pub fn main() {
    let args: Vec<String> = std::env::args().collect();
    match args.get(3).map(|s| s.as_str()) {
        Some("classes") => run_classes(&args),
        Some("random") => run_random(&args),
        _ => run_wf(&args),
    }
}
