------------------------------- MODULE MC_Vfs -------------------------------
(* Model-checking instances of VfsImpl (I => A). Ids are pairs to base 4 (16 ids). *)
EXTENDS VfsImpl
MC_Paths == {<<"">>, <<"", "a">>, <<"", "a", "b">>}
MC_Paths2 == {<<"">>, <<"", "a">>}
MC_BadPath == <<"bad">>
MC_Backends == {"b1", "b2"}
\* overlapping ranges: internal 0..7 <-> external 1..8 (translating twice moves an id twice)
M1 == [i |-> Id(0, 0), e |-> Id(0, 1), r |-> Id(2, 0)]
\* reversed, disjoint: internal 8..11 <-> external 4..7
M2 == [i |-> Id(2, 0), e |-> Id(1, 0), r |-> Id(1, 0)]
\* touches the top of the id space: internal 12..15 <-> external 0..3
M3 == [i |-> Id(3, 0), e |-> Id(0, 0), r |-> Id(1, 0)]
MC_Maps == {M1, M2}
MC_Maps3 == {M1, M2, M3}
MC_GMaps == {NoMap, M1}
MC_NoMaps == {}
MC_NoGMaps == {NoMap}
MC_GMaps3 == {NoMap, M1, M3}
MC_RootUid == Zero
MC_TestUid == Id(0, 1)
\* all subsets of the modelled defects (S6a S6b S7a S7b RM), named by bit mask, for the generated configs
D_00000 == {}
D_10000 == {"S6a"}
D_01000 == {"S6b"}
D_11000 == {"S6a", "S6b"}
D_00100 == {"S7a"}
D_10100 == {"S6a", "S7a"}
D_01100 == {"S6b", "S7a"}
D_11100 == {"S6a", "S6b", "S7a"}
D_00010 == {"S7b"}
D_10010 == {"S6a", "S7b"}
D_01010 == {"S6b", "S7b"}
D_11010 == {"S6a", "S6b", "S7b"}
D_00110 == {"S7a", "S7b"}
D_10110 == {"S6a", "S7a", "S7b"}
D_01110 == {"S6b", "S7a", "S7b"}
D_11110 == {"S6a", "S6b", "S7a", "S7b"}
D_00001 == {"RM"}
D_10001 == {"S6a", "RM"}
D_01001 == {"S6b", "RM"}
D_11001 == {"S6a", "S6b", "RM"}
D_00101 == {"S7a", "RM"}
D_10101 == {"S6a", "S7a", "RM"}
D_01101 == {"S6b", "S7a", "RM"}
D_11101 == {"S6a", "S6b", "S7a", "RM"}
D_00011 == {"S7b", "RM"}
D_10011 == {"S6a", "S7b", "RM"}
D_01011 == {"S6b", "S7b", "RM"}
D_11011 == {"S6a", "S6b", "S7b", "RM"}
D_00111 == {"S7a", "S7b", "RM"}
D_10111 == {"S6a", "S7a", "S7b", "RM"}
D_01111 == {"S6b", "S7a", "S7b", "RM"}
D_11111 == {"S6a", "S6b", "S7a", "S7b", "RM"}
MC_AllDefects == D_11111
MC_None == D_00000
ASSUME \A m \in MC_Maps3 : WellFormed(m)
\* C14: "ids outside the mapped range pass unchanged and translation there and back is the identity on the range",
\* for every id of the (small) id space and every candidate mapping
Ids == {Id(h, l) : h \in 0..B-1, l \in 0..B-1}
InRange(x, base, r) == IdGe(x, base) /\ IdLt(IdSub(x, base), r)
RoundTrip == \A m \in MC_Maps3 \cup {NoMap}, x \in Ids :
   /\ InRange(x, m.e, m.r) => InRange(In(m, x), m.i, m.r) /\ Out(m, In(m, x)) = x
   /\ InRange(x, m.i, m.r) => InRange(Out(m, x), m.e, m.r) /\ In(m, Out(m, x)) = x
   /\ ~InRange(x, m.e, m.r) => In(m, x) = x
   /\ ~InRange(x, m.i, m.r) => Out(m, x) = x
ASSUME RoundTrip
=============================================================================
