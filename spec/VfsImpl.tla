------------------------------- MODULE VfsImpl -------------------------------
(* I-level (implementation-shaped) model of src/api/vfs/mod.rs + sync_io.rs + pseudo_fs.rs
   (+ server/mod.rs remap_ctx_ids), transcribed from the Rust source, one action per public
   operation (all of them run under Vfs.lock). It carries the A-level state of Vfs.tla as ghost
   variables updated by the A effects with the results the implementation produced; the
   invariants compare what the implementation would answer with what A prescribes.

     sb       superblocks[256]            mnt    mountpoints{pseudo ino -> MountPointData}
     smap     mount_id_mappings[256]      nexts  next_super (u8, wraps)
     cmap     Vfs.id_mapping (fixed at construction from opts.id_mapping, None when range = 0)
     omap     opts.id_mapping (what options() reports; saved and restored)
     ipn/inext  PseudoFs inodes / next_inode
     iinit    initialized                 inempty  opts.in_opts.is_empty()

   Known findings (DESIGN 2.3 item 5) are predicates over A-level terms (section "known"); every
   invariant is checked outside the predicates listed in `Known` so that TLC keeps exploring.
   `Bugs` says which defect shapes the model has: each of S6a, S6b, RM (fixed in /repo by c658da2, 09b3f38,
   5f19fd8), S7a, S7b (the two restore findings, still in the code) is modelled before and after its patch;
   the configs of the checks use Bugs = Known = {S7a, S7b} = the code as it is. Anti-vacuity: each check runs
   TLC once more with one fixed defect switched back on (XU = a seeded one for C07: umount leaves the
   superblock) and must find the counterexample again. *)
EXTENDS Vfs, Json
CONSTANTS Paths,        \* set of raw component lists, e.g. <<"", "a">> for "/a"
          BadPath,      \* a path that is not absolute
          Backends,     \* backend ids (strings)
          Maps,         \* candidate mappings
          GMaps,        \* candidate global mappings (NoMap allowed)
          RootUid,      \* root uid every backend reports (internal id)
          TestUid,      \* caller uid used for the context observation
          MaxOps,
          Bugs,         \* defect shapes in the model, subset of {"S6a", "S6b", "S7a", "S7b", "RM", "XU"} (section "known")
          Known,        \* known-finding predicates in force (subset of the same ids)
          WithPersist,  \* BOOLEAN: save/restore steps enabled (C19)
          RefuseBeforeInit, \* BOOLEAN: backends that refuse init() are also mounted before INIT (then INIT fails)
          KeepHist,     \* BOOLEAN: record the history (scenario export / counterexamples)
          Wrap,         \* modulus of next_super (= N, or 256 with filler mounts at N..255, see Alloc)
          LoopAlloc,    \* BOOLEAN: evaluate allocate_fs_idx as the loop of the source (else its closed form)
          NextSuper0, NextIno0
VARIABLES sb, mnt, smap, nexts, cmap, omap, ipn, inext, iinit, inempty,
          refuse,     \* [idx -> the backend in the slot fails its init()]  (a property of the mounted backend)
          aok,        \* the last result was allowed by A
          dirty,      \* [idx -> a mapping was left in the slot by an over-mount / failed mount]   (history)
          restored,   \* a save/restore happened                                                 (history)
          hist, nops
ivars == <<sb, mnt, smap, nexts, cmap, omap, ipn, inext, iinit, inempty, refuse>>
vars == <<avars, ivars, aok, dirty, restored, hist, nops>>
View == <<avars, ivars, aok, dirty, restored, nops>>

RootLow == "1"
RootRec == [low |-> RootLow, uid |-> RootUid, gid |-> RootUid]

(* ---------------- the code ---------------- *)
\* get_effective_id_mapping
EffW(sm, cm, idx) == IF Given(sm[idx]) THEN sm[idx] ELSE cm      \* Some(m) of any range, else the global one
IEff(idx) == EffW(smap, cmap, idx)

\* allocate_fs_idx: fetch_add loop over a u8 (modulo Wrap); `found` marks the second visit of `start`.
\* Indices N..Wrap-1 (none when Wrap = N) are occupied for ever by filler mounts: this is how a replay
\* makes the real 256-entry table behave like an N-entry one (the prologue mounts the fillers).
Occ(s, i) == i >= N \/ s[i] # Vacant
RECURSIVE AllocLoop(_, _, _, _)
AllocLoop(s, nx, start, found) ==
  LET index == nx  nn == (nx + 1) % Wrap IN
  IF index = start /\ found THEN [idx |-> N, next |-> nn]
  ELSE LET f2 == found \/ index = start IN
       IF index = 0 \/ Occ(s, index) THEN AllocLoop(s, nn, start, f2)
       ELSE [idx |-> index, next |-> nn]
\* the same in closed form (first vacant index in cyclic order from next_super; a failed search
\* leaves next_super one further); AllocSame checks the equivalence wherever the loop is affordable
AllocCF(s, nx) ==
  LET cand == {i \in 1..N-1 : s[i] = Vacant}
      d(i) == (i - nx) % Wrap
  IN IF cand = {} THEN [idx |-> N, next |-> (nx + 1) % Wrap]
     ELSE LET best == CHOOSE i \in cand : \A j \in cand : d(i) <= d(j) IN [idx |-> best, next |-> (best + 1) % Wrap]
Alloc == IF LoopAlloc THEN AllocLoop(sb, nexts, nexts, FALSE) ELSE AllocCF(sb, nexts)
AllocSame == LoopAlloc => AllocLoop(sb, nexts, nexts, FALSE) = AllocCF(sb, nexts)

PathStr(p) == IF p = BadPath THEN "bad" ELSE IF Len(p) = 1 THEN "/" ELSE
              LET RECURSIVE J(_)  J(i) == IF i > Len(p) THEN "" ELSE "/" \o p[i] \o J(i + 1) IN J(2)
MapRec(m) == IF m = NoMap THEN [i |-> 0, e |-> 0, r |-> 0, some |-> FALSE]
             ELSE [i |-> m.i.h * B + m.i.l, e |-> m.e.h * B + m.e.l, r |-> m.r.h * B + m.r.l, some |-> TRUE]
IdN(x) == x.h * B + x.l

\* what the code answers for the three id observations at a mounted path (predictions exported
\* with the scenario so that a replay can tell model drift from a defect)
LookupUid(node) == IF "S6a" \in Bugs THEN Out(IEff(mnt[node].idx), mnt[node].ruid)   \* lookup_pseudo: root_entry converted again
                   ELSE mnt[node].ruid
GetattrUid(idx) == Out(IEff(idx), RootUid)                           \* convert_attr
CtxIdx(n) == IF n = RootNode /\ "RM" \in Bugs THEN 0 ELSE mnt[n].idx               \* remap_ctx_ids: index bits of the node id
CtxUid(n) == In(IEff(CtxIdx(n)), TestUid)
\* the lookup of a mount point goes through lookup_pseudo; for a mount on "/" that is only reachable as ".." of a
\* pseudo directory below the root (`via` = such a directory, 0 if there is none: then no client can observe it)
Via(n) == IF n # RootNode THEN n ELSE IF ipn[RootNode].kids = <<>> THEN 0 ELSE ipn[RootNode].kids[1]
Obs == [n \in DOMAIN mnt |-> [idx |-> mnt[n].idx, par |-> ipn[n].parent, name |-> ipn[n].name, via |-> Via(n), lk |-> IdN(LookupUid(n)), ga |-> IdN(GetattrUid(mnt[n].idx)),
                              rp |-> IdN(mnt[n].ruid),
                              cx |-> IdN(CtxUid(n))]]
ObsSeq == LET D == DOMAIN mnt
              RECURSIVE S(_)  S(X) == IF X = {} THEN <<>> ELSE LET n == CHOOSE y \in X : \A z \in X : y <= z
                                                          IN <<[node |-> n] @@ Obs[n]>> \o S(X \ {n})
          IN S(D)

Log(step) == /\ hist' = IF KeepHist THEN Append(hist, step @@ [obs |-> ObsSeq']) ELSE hist
             /\ nops' = nops + 1

\* mount_with_id_mapping (fs.mount() succeeded, max inode fits)
\* rf = the backend's init() fails. Once negotiated, fs.init(out_opts) is the first thing done under the lock:
\* the mount is refused before an index is allocated, nothing changes
IMount(p, b, m, rf) ==
  IF iinit /\ rf
  THEN /\ aok' = AMountFailPre(TRUE, FALSE)
       /\ UNCHANGED <<avars, ivars, dirty, restored>>
       /\ Log([op |-> "mount", path |-> PathStr(p), b |-> b, m |-> MapRec(m), idx |-> -1, init_fail |-> TRUE])
  ELSE
  \E a \in {Alloc} :
  IF a.idx = N
  THEN \* "vfs maximum mountpoints reached"; next_super has moved on
       /\ nexts' = a.next /\ aok' = AMountFailPre(TRUE, TRUE)
       /\ UNCHANGED <<avars, sb, mnt, smap, cmap, omap, ipn, inext, iinit, inempty, refuse, dirty, restored>>
       /\ Log([op |-> "mount", path |-> PathStr(p), b |-> b, m |-> MapRec(m), idx |-> -1, init_fail |-> rf])
  ELSE \E idx \in {a.idx} :
       \E sm1 \in {IF Given(m) \/ "S6b" \notin Bugs THEN [smap EXCEPT ![idx] = m] ELSE smap} :   \* stored only for Some
          IF p = BadPath
          THEN \* insert_mount_locked: self.root.mount(path)? fails with EINVAL; index and mapping already taken
               /\ nexts' = a.next /\ aok' = AMountFailPre(FALSE, TRUE)
               /\ smap' = IF "S6b" \in Bugs THEN sm1 ELSE [smap EXCEPT ![idx] = NoMap]     \* (patched: cleared again)
               /\ dirty' = [dirty EXCEPT ![idx] = @ \/ Given(m)]
               /\ UNCHANGED <<avars, sb, mnt, cmap, omap, ipn, inext, iinit, inempty, refuse, restored>>
               /\ Log([op |-> "mount", path |-> PathStr(p), b |-> b, m |-> MapRec(m), idx |-> -1, init_fail |-> rf])
          ELSE \E r \in {MkT(ipn, inext, RootNode, p)} :
               \E node \in {r.node} :
               \E ruid \in {Out(EffW(sm1, cmap, idx), RootUid)} :               \* convert_entry at mount time
               \E over \in {node \in DOMAIN mnt} :
               \E oldi \in {IF over THEN mnt[node].idx ELSE 0} :
                  /\ nexts' = a.next
                  /\ smap' = IF over /\ "S6b" \notin Bugs THEN [sm1 EXCEPT ![oldi] = NoMap] ELSE sm1
                  /\ ipn' = r.t /\ inext' = r.next
                  /\ sb' = [i \in 0..N-1 |-> IF i = idx THEN b ELSE IF over /\ i = oldi THEN Vacant ELSE sb[i]]   \* mapping of that slot stays
                  /\ mnt' = (node :> [idx |-> idx, root |-> RootLow, ruid |-> ruid]) @@ mnt
                  /\ aok' = AMountPre(idx)
                  /\ AMountEff(p, b, m, RootRec, idx)
                  /\ dirty' = [i \in 0..N-1 |->
                                 IF i = idx THEN (dirty[i] /\ ~Given(m))                  \* a given mapping overwrites
                                 ELSE IF over /\ i = oldi THEN (Given(given[i]) \/ dirty[i])   \* left behind by the over-mount
                                 ELSE dirty[i]]
                  /\ refuse' = [i \in 0..N-1 |-> IF i = idx THEN rf ELSE IF over /\ i = oldi THEN FALSE ELSE refuse[i]]
                  /\ UNCHANGED <<cmap, omap, iinit, inempty, restored>>
                  /\ Log([op |-> "mount", path |-> PathStr(p), b |-> b, m |-> MapRec(m), idx |-> idx, init_fail |-> rf])

\* umount
IUmount(p) ==
  LET node == WalkT(ipn, RootNode, p) IN
  IF node = 0 \/ node \notin DOMAIN mnt
  THEN /\ aok' = ~AUmountPre(TRUE, p)
       /\ UNCHANGED <<avars, ivars, dirty, restored>>
       /\ Log([op |-> "umount", path |-> PathStr(p), ok |-> FALSE])
  ELSE LET idx == mnt[node].idx IN
       /\ mnt' = [n \in DOMAIN mnt \ {node} |-> mnt[n]]
       /\ sb' = IF "XU" \in Bugs THEN sb ELSE [sb EXCEPT ![idx] = Vacant]     \* (XU: seeded, model only)
       /\ smap' = [smap EXCEPT ![idx] = NoMap]
       /\ dirty' = [dirty EXCEPT ![idx] = FALSE]
       /\ aok' = AUmountPre(TRUE, p)
       /\ AUmountEff(p, FALSE)
       /\ refuse' = [refuse EXCEPT ![idx] = FALSE]
       /\ UNCHANGED <<nexts, cmap, omap, ipn, inext, iinit, inempty, restored>>
       /\ Log([op |-> "umount", path |-> PathStr(p), ok |-> TRUE])

\* restore_mount(fs, idx, path) on the live instance for a path that is mounted at idx (re-attach in place):
\* insert_mount_locked vacates superblocks[mnt.fs_idx] (= idx) and then stores the new file system there; the
\* per-mount mapping stays (mnt.fs_idx = fs_idx); the root entry is converted again
IRemount(p, b) ==
  \E node \in {WalkT(ipn, RootNode, p)} :
  /\ node # 0 /\ node \in DOMAIN mnt
  /\ \E idx \in {mnt[node].idx} :
     /\ sb' = [sb EXCEPT ![idx] = b]
     /\ mnt' = [mnt EXCEPT ![node] = [idx |-> idx, root |-> RootLow, ruid |-> Out(IEff(idx), RootUid)]]
     /\ aok' = ARemountPre(TRUE, p, idx)
     /\ ARemountEff(b, RootRec, idx)
  /\ refuse' = [refuse EXCEPT ![mnt[WalkT(ipn, RootNode, p)].idx] = FALSE]          \* the re-attached instance does not refuse
  /\ UNCHANGED <<smap, nexts, cmap, omap, ipn, inext, iinit, inempty, dirty, restored>>
  /\ Log([op |-> "remount", path |-> PathStr(p), b |-> b, ok |-> TRUE])

\* S7b hit: the restored instance forgot that INIT was done (it offered no capability)
KnownS7bHit == "S7b" \in Known /\ restored /\ inited /\ inempty
\* FileSystem::init; `empty` = the client offered no capability at all
IInit(empty) ==
  IF iinit
  THEN /\ aok' = ~AInitPre
       /\ UNCHANGED <<avars, ivars, dirty, restored>>
       /\ Log([op |-> "init", empty |-> empty, ok |-> FALSE, refused |-> FALSE])
  ELSE IF \E i \in 1..N-1 : sb[i] # Vacant /\ refuse[i]
  THEN \* the options are stored (in_opts too), then the loop over the superblocks stops at the refusing backend:
       \* Err, `initialized` stays false
       /\ inempty' = empty
       /\ aok' = TRUE
       /\ IF AInitPre THEN AInitRefusedEff(~empty, ~empty) ELSE UNCHANGED avars
       /\ UNCHANGED <<sb, mnt, smap, nexts, cmap, omap, ipn, inext, iinit, refuse, dirty, restored>>
       /\ Log([op |-> "init", empty |-> empty, ok |-> FALSE, refused |-> TRUE])
  ELSE /\ iinit' = TRUE /\ inempty' = empty
       /\ aok' = (AInitPre \/ KnownS7bHit)
       /\ IF AInitPre THEN AInitEff("negotiated", ~empty, ~empty) ELSE UNCHANGED avars
       /\ UNCHANGED <<sb, mnt, smap, nexts, cmap, omap, ipn, inext, refuse, dirty, restored>>
       /\ Log([op |-> "init", empty |-> empty, ok |-> TRUE, refused |-> FALSE])

\* save_to_bytes; Vfs::new(VfsOptions::default()); restore_from_bytes; restore_mount for every mount
RCmap == IF "S7a" \in Bugs THEN NoMap ELSE Canon(omap)     \* id_mapping of the fresh instance: default options
RInit == IF "S7b" \in Bugs THEN ~inempty ELSE iinit        \* initialized := !in_opts.is_empty()
RMnt == [n \in DOMAIN mnt |-> [idx |-> mnt[n].idx, root |-> mnt[n].root,
                               ruid |-> Out(EffW(smap, RCmap, mnt[n].idx), RootUid)]]
RSb == [i \in 0..N-1 |-> IF \E n \in DOMAIN mnt : mnt[n].idx = i THEN sb[i] ELSE Vacant]
ISaveRestore ==
  /\ cmap' = RCmap /\ iinit' = RInit /\ mnt' = RMnt /\ sb' = RSb
  /\ restored' = TRUE /\ aok' = TRUE
  /\ ASaveRestore
  /\ UNCHANGED <<smap, nexts, omap, ipn, inext, inempty, refuse, dirty>>
  /\ Log([op |-> "saverestore"])

Init ==
  /\ \E g \in GMaps : gmap = Canon(g) /\ cmap = Canon(g) /\ omap = g
  /\ slot = [i \in 0..N-1 |-> Vacant]
  /\ mroot = [i \in 0..N-1 |-> NoRoot]
  /\ given = [i \in 0..N-1 |-> NoMap]
  /\ pn = EmptyTree /\ nextino = NextIno0 /\ mp = <<>> /\ issued = {}
  /\ inited = FALSE /\ negopt = "" /\ noopen = TRUE /\ noopendir = TRUE
  /\ sb = [i \in 0..N-1 |-> Vacant]
  /\ mnt = <<>> /\ smap = [i \in 0..N-1 |-> NoMap] /\ nexts = NextSuper0
  /\ ipn = EmptyTree /\ inext = NextIno0
  /\ iinit = FALSE /\ inempty = TRUE /\ refuse = [i \in 0..N-1 |-> FALSE]
  /\ aok = TRUE /\ dirty = [i \in 0..N-1 |-> FALSE] /\ restored = FALSE
  /\ hist = <<>> /\ nops = 0

DoMount == nops < MaxOps /\ \E p \in Paths \cup {BadPath}, b \in Backends, m \in Maps \cup {NoMap}, rf \in BOOLEAN :
              \* (without RefuseBeforeInit: only once negotiated with a non-empty capability set, i.e. where a
              \*  save/restore does not meet the restore-initialized finding)
              (rf => (iinit /\ ~inempty) \/ RefuseBeforeInit) /\ IMount(p, b, m, rf)
DoUmount == nops < MaxOps /\ \E p \in Paths : IUmount(p)
DoInit == nops < MaxOps /\ \E e \in BOOLEAN : IInit(e)
DoRemount == nops < MaxOps /\ \E p \in Paths, b \in Backends : IRemount(p, b)
DoSaveRestore == nops < MaxOps /\ WithPersist /\ ISaveRestore
Next == DoMount \/ DoUmount \/ DoInit \/ DoRemount \/ DoSaveRestore
Spec == Init /\ [][Next]_vars

(* ---------------- known findings, as predicates over A-level terms ---------------- *)
\* S6a: the root entry of a mount is translated at mount time and again when the mount point is looked up:
\*      visible when translating the translated root uid moves it again
KnownS6a(idx) == "S6a" \in Known /\ Out(AEff(idx), Out(AEff(idx), RootUid)) # Out(AEff(idx), RootUid)
\* S6b: a mount given no mapping takes an index in which an over-mounted (or failed) mount left its mapping
KnownS6b(idx) == "S6b" \in Known /\ ~Given(given[idx]) /\ dirty[idx]
\* S7a: after save/restore into Vfs::new(default) the global mapping is not in effect
KnownS7a(idx) == "S7a" \in Known /\ restored /\ IsMap(gmap) /\ ~Given(given[idx])
\* S7b: after save/restore `initialized` is recomputed from in_opts: lost when INIT offered no capability
KnownS7b == "S7b" \in Known /\ inited /\ inempty
\* RM: the caller ids of requests on node 1 are translated with the global mapping although the root
\*     mount ("/") has its own
KnownRM == "RM" \in Known /\ IsMp(RootNode) /\ Given(given[mp[RootNode]]) /\ (given[mp[RootNode]] # gmap \/ restored)

(* ---------------- invariants: I => A ---------------- *)
TypeOK == /\ nexts \in 0..Wrap-1 /\ \A i \in 0..N-1 : sb[i] \in Backends \cup {Vacant}
Model(i) == i \in 1..N-1
\* every result was one A allows: the allocator never returns 0 or an occupied index and gives up only
\* when all are occupied; umount/INIT succeed exactly when A says so
AOK == aok
\* a request on index i reaches exactly the backend A says owns i, none when A says vacant
Routing == \A i \in 1..N-1 : Model(i) => sb[i] = slot[i]
\* the mount table: same mount points, same index, same root inode; crossing happens exactly there
MountTable == /\ DOMAIN mnt = DOMAIN mp
              /\ \A n \in DOMAIN mnt : mnt[n].idx = mp[n] /\ mnt[n].root = mroot[mp[n]].low
OneSlot == /\ \A n1, n2 \in DOMAIN mnt : n1 # n2 => mnt[n1].idx # mnt[n2].idx
           /\ \A n \in DOMAIN mnt : sb[mnt[n].idx] # Vacant
           /\ \A i \in 1..N-1 : Model(i) /\ sb[i] # Vacant => \E n \in DOMAIN mnt : mnt[n].idx = i
PseudoNumbers == ipn = pn /\ inext = nextino
\* the mapping in effect for an occupied index is the one given to its occupant, else the global one
EffRight == \A i \in 1..N-1 : Model(i) /\ Occupied(i) /\ ~KnownS6b(i) /\ ~KnownS7a(i) => IEff(i) = AEff(i)
\* caller ids of requests on the pseudo root covered by a root mount
CtxRight == IsMp(RootNode) /\ ~KnownRM /\ ~KnownS7a(mp[RootNode]) /\ ~KnownS6b(mp[RootNode])
               => IEff(CtxIdx(RootNode)) = AEff(mp[RootNode])
\* owner of a mount root, as seen by lookup of the mount point / readdirplus of its parent / getattr
RootOnce == \A n \in DOMAIN mnt : LET i == mnt[n].idx IN
               Via(n) # 0 /\ ~KnownS6a(i) /\ ~KnownS6b(i) /\ ~KnownS7a(i) => LookupUid(n) = Out(AEff(i), RootUid)
RootPlus == \A n \in DOMAIN mnt : LET i == mnt[n].idx IN
               ~KnownS6b(i) /\ ~KnownS7a(i) => mnt[n].ruid = Out(AEff(i), RootUid)
InitRight == KnownS7bHit \/ iinit = inited
\* save/restore is a stuttering step: restoring the current state yields the current state
RestoreStutters == \/ "S7a" \in Known /\ IsMap(cmap)
                   \/ KnownS7b
                   \/ /\ RCmap = cmap /\ RInit = iinit /\ RMnt = mnt /\ RSb = sb

(* ---------------- export of behaviours (replayed on the real code) ---------------- *)
Export == nops = MaxOps => PrintT(<<"REPLAY", ToJson([g |-> MapRec(gmap), steps |-> hist])>>)
Alias == [hist |-> ToJson([g |-> MapRec(gmap), steps |-> hist]), slot |-> slot, sb |-> sb, smap |-> smap, given |-> given,
          cmap |-> cmap, gmap |-> gmap, mnt |-> mnt, nexts |-> nexts, iinit |-> iinit, inited |-> inited]
=============================================================================
