------------------------------ MODULE TransportImpl ------------------------------
(* I-level (implementation-shaped) specification for C04 / C17 and the product machine I x A.

   The operators of the first half are transcriptions of the Rust source (file and function given at
   each one): IoBuffers::{allocate_file_volatile_slice, mark_dirty, mark_used, consume, split_at}
   (src/transport/mod.rs), Reader::{read, read_obj, read_to, read_to_at, read_exact_to},
   VirtioFsWriter::{write, write_vectored, write_all/write_obj, write_from, write_from_at,
   write_all_from, split_at, commit} (src/transport/virtiofs/mod.rs) and FuseDevWriter's Vec view
   {check_available_space, write, write_vectored, write_from(_at), write_all_from, split_at, commit}
   (src/transport/fusedev/mod.rs).  They work on the segment list / (ptr, len, cap, buffered) the
   code keeps, and produce the concrete effects: memory, dirty pages, device messages, delivered bytes.

   The second half runs every operation on I and, in the same step, on the A reference of
   Transport.tla (flat address sequences, per byte).  The invariants say I => A:
     FlatAgree Counters InOrderOnce Placed FailClean Results NoOOB DirtyExact (+ Lemmas).

   One scenario = one root object of kind
     "R"  Reader over a chain            (from_descriptor_chain; with one run also from_fuse_buffer)
     "W"  VirtioFsWriter over a chain    (dirty tracking on)
     "F"  FuseDevWriter over one contiguous buffer (device fd = message sequence)
   plus the children its split_at calls create.  Files are the environment: a source file of
   FileSize bytes with a cursor, a sink that accepts everything, both transferring at most `c`
   bytes per call (c in Chunks) - this is what produces short reads/writes. *)
EXTENDS Transport, Json

CONSTANTS MaxSegs, MaxLen, Bases, FLens, Kinds, MaxOps, MaxN, FileSize, Chunks, MaxAddr

Tup(b, l) == <<b, l>>
SegSet == {Tup(b, l) : b \in Bases, l \in 0..MaxLen}
ASSUME (\A b \in Bases : b + MaxLen <= MaxAddr) /\ (\A l \in FLens : l <= MaxAddr) /\ MaxAddr < 50
AddrTok(a) == a                          \* initial content of address a: a token naming the address
FileTok(x) == 50 + x                     \* content of the source file at offset x
DataTok(j, i) == 100 * j + i             \* i-th byte of the data of operation number j
FileToks(from, n) == [i \in 1..n |-> FileTok(from + i - 1)]
DataToks(j, from, n) == [i \in 1..n |-> DataTok(j, from + i - 1)]

(* ======================= transcriptions: src/transport/mod.rs ======================= *)
\* IoBuffers::available_bytes: fold of the lengths
Avail(s) == LenR(s)

\* IoBuffers::allocate_file_volatile_slice(count): offered slices, the last one truncated to `rem`
RECURSIVE Alloc(_, _)
Alloc(s, rem) ==
  IF s = <<>> \/ rem = 0 THEN <<>>
  ELSE LET h == Head(s)
           loc == IF h[2] > rem THEN <<h[1], rem>> ELSE h
       IN <<loc>> \o Alloc(Tail(s), rem - loc[2])

\* IoBuffers::mark_dirty(count): same walk, bitmap().mark_dirty(0, local_buf.len()) on each piece
\* (AtomicBitmap::set_addr_range returns early for len = 0, otherwise marks first..=last page)
RECURSIVE MarkDirty(_, _)
MarkDirty(s, rem) ==
  IF s = <<>> \/ rem = 0 THEN {}
  ELSE LET h == Head(s)
           loc == IF h[2] > rem THEN <<h[1], rem>> ELSE h
       IN PageSpan(loc[1], loc[2]) \cup MarkDirty(Tail(s), rem - loc[2])

\* IoBuffers::mark_used(n): pop fronts while rem >= len, re-slice the partially consumed one
RECURSIVE MarkUsed(_, _)
MarkUsed(s, rem) ==
  IF s = <<>> THEN <<>>
  ELSE IF rem < Head(s)[2] THEN << <<Head(s)[1] + rem, Head(s)[2] - rem>> >> \o Tail(s)
  ELSE MarkUsed(Tail(s), rem - Head(s)[2])

\* the position() closure of IoBuffers::split_at: <<index or 0, rem>>
RECURSIVE Pos(_, _, _)
Pos(s, rem, i) ==
  IF s = <<>> THEN <<0, rem>>
  ELSE IF rem < Head(s)[2] THEN <<i, rem>> ELSE Pos(Tail(s), rem - Head(s)[2], i + 1)

\* IoBuffers::split_at(offset): <<ok, self', other>>
SplitSegs(s, off) ==
  LET pr == Pos(s, off, 1) at == pr[1] rem == pr[2] IN
  IF at # 0 THEN
     LET before == SubSeq(s, 1, at - 1) other == SubSeq(s, at, Len(s)) f == Head(other) IN
     IF rem > 0 THEN <<TRUE, before \o << <<f[1], rem>> >>, << <<f[1] + rem, f[2] - rem>> >> \o Tail(other)>>
     ELSE <<TRUE, before, other>>
  ELSE IF rem = 0 THEN <<TRUE, s, <<>> >> ELSE <<FALSE, s, <<>> >>

\* the copy loop of the read/write closures: for buf in bufs { copy_len = min(rem.len(), buf.len()) ... }
\* result: the addresses touched, in order; its length is the closure's return value
RECURSIVE CopyAddrs(_, _)
CopyAddrs(bufs, r) ==
  IF bufs = <<>> THEN <<>>
  ELSE LET h == Head(bufs) c == Min(r, h[2]) IN Range(h[1], c) \o CopyAddrs(Tail(bufs), r - c)

\* results of the transcribed operations
Res(st, res, ret) == [st |-> st, res |-> res, ret |-> ret, addrs |-> <<>>]

\* IoBuffers::consume(mark_dirty, count, f) where the closure moves at most `lim` bytes
\* (lim = the user buffer length for memcpy closures, min(file data, chunk) for file closures:
\*  readv/writev/preadv/pwritev fill the iovecs in order)
Consume(st, o, md, count, lim) ==
  LET s == st.io[o].s
      bufs == Alloc(s, count) IN
  IF bufs = <<>> THEN Res(st, "ok", 0)
  ELSE LET A == CopyAddrs(bufs, lim) k == Len(A) IN
       [st |-> [st EXCEPT !.io[o] = [s |-> MarkUsed(s, k), c |-> @.c + k],
                          !.dirty = IF md THEN @ \cup MarkDirty(s, k) ELSE @,
                          !.touched = @ \cup SetOf(A)],
        res |-> "ok", ret |-> k, addrs |-> A]

Deliver(st, A) == [st EXCEPT !.out = @ \o [i \in 1..Len(A) |-> st.mem[A[i]]]]
Place(st, A, toks) == [st EXCEPT !.mem = [a \in DOMAIN @ |-> IF \E i \in 1..Min(Len(A), Len(toks)) : A[i] = a
                                                             THEN toks[CHOOSE i \in 1..Min(Len(A), Len(toks)) : A[i] = a] ELSE @[a]]]

(* ---- Reader (src/transport/mod.rs) ---- *)
\* io::Read::read(buf): consume_for_read(buf.len(), copy closure)
RRead(st, o, n) ==
  LET r == Consume(st, o, FALSE, n, n) IN [r EXCEPT !.st = Deliver(r.st, r.addrs)]

\* read_obj = std::io::Read::read_exact: loop read until filled; Ok(0) ends the loop; unfilled => UnexpectedEof
RECURSIVE RReadExact(_, _, _)
RReadExact(st, o, w) ==
  IF w = 0 THEN Res(st, "ok", 0)
  ELSE LET r == RRead(st, o, w) IN
       IF r.ret = 0 THEN Res(r.st, "err", 0) ELSE RReadExact(r.st, o, w - r.ret)

\* read_to / read_to_at: consume_for_read(count, |bufs| dst.write_vectored[_at]_volatile(bufs))
RReadTo(st, o, n, c) ==
  LET r == Consume(st, o, FALSE, n, c) IN [r EXCEPT !.st = Deliver(r.st, r.addrs)]

\* read_exact_to: while count > 0 { match read_to(count) { Ok(0) => Err(UnexpectedEof), Ok(n) => count -= n } }
RECURSIVE RReadExactTo(_, _, _, _)
RReadExactTo(st, o, n, c) ==
  IF n = 0 THEN Res(st, "ok", 0)
  ELSE LET r == RReadTo(st, o, n, c) IN
       IF r.ret = 0 THEN Res(r.st, "err", 0) ELSE RReadExactTo(r.st, o, n - r.ret, c)

(* ---- VirtioFsWriter (src/transport/virtiofs/mod.rs) ---- *)
VCheck(st, o, n) == n <= Avail(st.io[o].s)          \* check_available_space

\* write(buf): check; consume_for_write(buf.len(), copy closure)
VWrite(st, o, toks) ==
  IF ~VCheck(st, o, Len(toks)) THEN Res(st, "err", 0)
  ELSE LET r == Consume(st, o, TRUE, Len(toks), Len(toks)) IN [r EXCEPT !.st = Place(r.st, r.addrs, toks)]

\* std::io::Write::write_all (also write_obj): while !buf.is_empty() { write: Ok(0) => WriteZero, Ok(n) => advance }
RECURSIVE VWriteAll(_, _, _)
VWriteAll(st, o, toks) ==
  IF toks = <<>> THEN Res(st, "ok", 0)
  ELSE LET r == VWrite(st, o, toks) IN
       IF r.res # "ok" THEN Res(r.st, "err", 0)
       ELSE IF r.ret = 0 THEN Res(r.st, "err", 0)
       ELSE VWriteAll(r.st, o, Drop(toks, r.ret))

\* write_vectored: check(total); for buf in bufs.filter(!empty) { count += self.write(buf)? }
RECURSIVE VWriteEach(_, _, _, _)
VWriteEach(st, o, bufs, count) ==
  IF bufs = <<>> THEN Res(st, "ok", count)
  ELSE IF Head(bufs) = <<>> THEN VWriteEach(st, o, Tail(bufs), count)
  ELSE LET r == VWrite(st, o, Head(bufs)) IN
       IF r.res # "ok" THEN Res(r.st, "err", 0) ELSE VWriteEach(r.st, o, Tail(bufs), count + r.ret)
RECURSIVE SumLen(_)
SumLen(bufs) == IF bufs = <<>> THEN 0 ELSE Len(Head(bufs)) + SumLen(Tail(bufs))
RECURSIVE Concat(_)
Concat(bufs) == IF bufs = <<>> THEN <<>> ELSE Head(bufs) \o Concat(Tail(bufs))
VWriteVectored(st, o, bufs) ==
  IF ~VCheck(st, o, SumLen(bufs)) THEN Res(st, "err", 0) ELSE VWriteEach(st, o, bufs, 0)

\* write_from / write_from_at: check(count); consume_for_write(count, |bufs| src.read_vectored[_at]_volatile(bufs))
\* the file delivers min(offered, bytes left in the file, chunk) bytes starting at `from`
VWriteFromX(st, o, n, from, c, cursor) ==
  IF ~VCheck(st, o, n) THEN Res(st, "err", 0)
  ELSE LET lim == Min(IF from < FileSize THEN FileSize - from ELSE 0, c)
           r == Consume(st, o, TRUE, n, lim)
           s2 == Place(r.st, r.addrs, FileToks(from, r.ret)) IN
       [r EXCEPT !.st = IF cursor THEN [s2 EXCEPT !.fpos = @ + r.ret] ELSE s2]
VWriteFrom(st, o, n, c) == VWriteFromX(st, o, n, st.fpos, c, TRUE)
VWriteFromAt(st, o, n, off, c) == VWriteFromX(st, o, n, off, c, FALSE)

\* write_all_from: check(count); while count > 0 { write_from: Ok(0) => WriteZero, Ok(n) => count -= n }
RECURSIVE VWriteAllFromLoop(_, _, _, _)
VWriteAllFromLoop(st, o, n, c) ==
  IF n = 0 THEN Res(st, "ok", 0)
  ELSE LET r == VWriteFrom(st, o, n, c) IN
       IF r.res # "ok" THEN Res(r.st, "err", 0)
       ELSE IF r.ret = 0 THEN Res(r.st, "err", 0)
       ELSE VWriteAllFromLoop(r.st, o, n - r.ret, c)
VWriteAllFrom(st, o, n, c) == IF ~VCheck(st, o, n) THEN Res(st, "err", 0) ELSE VWriteAllFromLoop(st, o, n, c)

\* Reader::split_at / VirtioFsWriter::split_at: IoBuffers::split_at, child bytes_consumed = 0
IoSplit(st, o, off) ==
  LET r == SplitSegs(st.io[o].s, off) IN
  IF r[1] THEN Res([st EXCEPT !.io = Append([@ EXCEPT ![o].s = r[2]], [s |-> r[3], c |-> 0])], "ok", 0)
  ELSE Res(st, "err", 0)

(* ---- FuseDevWriter (src/transport/fusedev/mod.rs): buf = Vec over borrowed memory ---- *)
\* w = [p |-> ptr, n |-> len, c |-> capacity, b |-> buffered]
\* check_available_space: assert!(buffered || buf.is_empty()); sz > capacity - len => Err
FCheck(w, sz) == IF ~(w.b \/ w.n = 0) THEN "panic" ELSE IF sz > w.c - w.n THEN "err" ELSE "ok"
FPlace(st, at, toks) ==
  [st EXCEPT !.mem = [a \in DOMAIN @ |-> IF a >= at /\ a < at + Len(toks) THEN toks[a - at + 1] ELSE @[a]],
             !.touched = @ \cup {at + i - 1 : i \in 1..Len(toks)}]
FBuf(st, w, k) == [i \in 1..k |-> st.mem[w.p + i - 1]]       \* &self.buf[..k]

\* write(data): buffered => extend_from_slice; else do_write(fd, data) then account_written
FWrite(st, o, toks) ==
  LET w == st.fw[o] ck == FCheck(w, Len(toks)) IN
  IF ck # "ok" THEN Res(st, ck, 0)
  ELSE IF w.b THEN Res([FPlace(st, w.p + w.n, toks) EXCEPT !.fw[o].n = @ + Len(toks)], "ok", Len(toks))
  ELSE Res([st EXCEPT !.fd = Append(@, toks), !.fw[o].n = @ + Len(toks)], "ok", Len(toks))

\* write_vectored: check(total); buffered => extend each non-empty, count; else bufs.is_empty() => Ok(0), writev
FWriteVectored(st, o, bufs) ==
  LET w == st.fw[o] all == Concat(bufs) ck == FCheck(w, Len(all)) IN
  IF ck # "ok" THEN Res(st, ck, 0)
  ELSE IF w.b THEN Res([FPlace(st, w.p + w.n, all) EXCEPT !.fw[o].n = @ + Len(all)], "ok", Len(all))
  ELSE IF bufs = <<>> THEN Res(st, "ok", 0)
  ELSE Res([st EXCEPT !.fd = Append(@, all), !.fw[o].n = @ + Len(all)], "ok", Len(all))

\* std write_all over FWrite
RECURSIVE FWriteAll(_, _, _)
FWriteAll(st, o, toks) ==
  IF toks = <<>> THEN Res(st, "ok", 0)
  ELSE LET r == FWrite(st, o, toks) IN
       IF r.res # "ok" THEN Res(r.st, r.res, 0)
       ELSE IF r.ret = 0 THEN Res(r.st, "err", 0)
       ELSE FWriteAll(r.st, o, Drop(toks, r.ret))

\* write_from / write_from_at: check(count); read into [ptr + len, +count); account_written(cnt);
\* buffered => Ok(cnt) else do_write(fd, &self.buf[..cnt])
FWriteFromX(st, o, n, from, c, cursor) ==
  LET w == st.fw[o] ck == FCheck(w, n) IN
  IF ck # "ok" THEN Res(st, ck, 0)
  ELSE LET k == Min(n, Min(IF from < FileSize THEN FileSize - from ELSE 0, c))
           s1 == FPlace(st, w.p + w.n, FileToks(from, k))
           s2 == [s1 EXCEPT !.fw[o].n = @ + k, !.fpos = IF cursor THEN @ + k ELSE @] IN
       IF w.b THEN Res(s2, "ok", k)
       ELSE Res([s2 EXCEPT !.fd = Append(@, FBuf(s2, w, k))], "ok", k)
FWriteFrom(st, o, n, c) == FWriteFromX(st, o, n, st.fpos, c, TRUE)
FWriteFromAt(st, o, n, off, c) == FWriteFromX(st, o, n, off, c, FALSE)

RECURSIVE FWriteAllFromLoop(_, _, _, _)
FWriteAllFromLoop(st, o, n, c) ==
  IF n = 0 THEN Res(st, "ok", 0)
  ELSE LET r == FWriteFrom(st, o, n, c) IN
       IF r.res # "ok" THEN Res(r.st, r.res, 0)
       ELSE IF r.ret = 0 THEN Res(r.st, "err", 0)
       ELSE FWriteAllFromLoop(r.st, o, n - r.ret, c)
FWriteAllFrom(st, o, n, c) ==
  LET ck == FCheck(st.fw[o], n) IN IF ck # "ok" THEN Res(st, ck, 0) ELSE FWriteAllFromLoop(st, o, n, c)

\* split_at(offset): capacity < offset => Err; (len1, len2) = if len > offset {(offset, len - offset)} else {(len, 0)};
\* cap2 = capacity - offset; self = (ptr, len1, offset, buffered); child = (ptr + offset, len2, cap2, buffered)
FSplit(st, o, off) ==
  LET w == st.fw[o] IN
  IF w.c < off THEN Res(st, "err", 0)
  ELSE LET len1 == IF w.n > off THEN off ELSE w.n
           len2 == IF w.n > off THEN w.n - off ELSE 0 IN
       Res([st EXCEPT !.fw = Append([@ EXCEPT ![o] = [p |-> w.p, n |-> len1, c |-> off, b |-> TRUE]],
                                    [p |-> w.p + off, n |-> len2, c |-> w.c - off, b |-> TRUE])], "ok", 0)

\* commit(other): !buffered => Ok(0); (0,0) => Ok(0); else one write/writev of self.buf ++ other.buf
FCommit(st, o, other) ==
  LET w == st.fw[o] IN
  IF ~w.b THEN Res(st, "ok", 0)
  ELSE LET a == FBuf(st, w, w.n)
           b == IF other = 0 THEN <<>> ELSE FBuf(st, st.fw[other], st.fw[other].n) IN
       IF a \o b = <<>> THEN Res(st, "ok", 0)
       ELSE Res([st EXCEPT !.fd = Append(@, a \o b)], "ok", Len(a \o b))

(* =============================== the product machine I x A =============================== *)
VARIABLES kind, segs0,
          io, fw, mem, dirty, fd, out, fpos, touched,                 \* I: state and effects of the code
          flat, done, size, cont, spl, memA, dirtyA, fdA, outA, fposA, \* A: the flat reference
          bad, hist, nops
ivars == <<io, fw, mem, dirty, fd, out, fpos, touched>>
avars == <<flat, done, size, cont, spl, memA, dirtyA, fdA, outA, fposA>>
vars == <<kind, segs0, ivars, avars, bad, hist, nops>>
View == <<kind, segs0, ivars, avars, bad, nops>>

St == [io |-> io, fw |-> fw, mem |-> mem, dirty |-> dirty, fd |-> fd, out |-> out, fpos |-> fpos, touched |-> touched]
SetI(st) == /\ io' = st.io /\ fw' = st.fw /\ mem' = st.mem /\ dirty' = st.dirty /\ fd' = st.fd
            /\ out' = st.out /\ fpos' = st.fpos /\ touched' = st.touched

Chains == UNION {[1..n -> SegSet] : n \in 0..MaxSegs}
NoOverlap(c) == \A i, j \in 1..Len(c) : i < j => (c[i][1] + c[i][2] <= c[j][1] \/ c[j][1] + c[j][2] <= c[i][1])
Mem0 == [a \in 0..MaxAddr |-> AddrTok(a)]

Init ==
  /\ kind \in Kinds
  /\ IF kind = "F" THEN \E l \in FLens : segs0 = << <<0, l>> >>
     ELSE \E c \in Chains : NoOverlap(c) /\ segs0 = c
  /\ io = IF kind = "F" THEN <<>> ELSE << [s |-> segs0, c |-> 0] >>
  /\ fw = IF kind = "F" THEN << [p |-> 0, n |-> 0, c |-> segs0[1][2], b |-> FALSE] >> ELSE <<>>
  /\ mem = Mem0 /\ dirty = {} /\ fd = <<>> /\ out = <<>> /\ fpos = 0 /\ touched = {}
  /\ flat = <<Flat(segs0)>> /\ done = <<0>> /\ size = <<Len(Flat(segs0))>> /\ cont = << <<>> >> /\ spl = <<FALSE>>
  /\ memA = Mem0 /\ dirtyA = {} /\ fdA = <<>> /\ outA = <<>> /\ fposA = 0
  /\ bad = {} /\ hist = <<>> /\ nops = 0

NObj == Len(flat)
IAvail(o) == IF kind = "F" THEN fw[o].c - fw[o].n ELSE Avail(io[o].s)       \* available_bytes()
IDone(o) == IF kind = "F" THEN fw[o].n ELSE io[o].c                          \* bytes_read()/bytes_written()
Usable(o) == kind # "F" \/ spl[o] \/ done[o] = 0

Log(o, op, n, x, c) == /\ nops < MaxOps
                       /\ hist' = Append(hist, [o |-> o, op |-> op, n |-> n, x |-> x, c |-> c])
                       /\ nops' = nops + 1

(* A: a data-moving operation that moved d bytes through o; src = tokens offered by the source
   (writers), direct = the bytes also go to the device as one message (never-split fusedev writer) *)
AReadStep(o, d) ==
  LET dd == Min(d, Len(flat[o])) IN
  /\ outA' = outA \o [i \in 1..dd |-> memA[flat[o][i]]]
  /\ flat' = [flat EXCEPT ![o] = Drop(@, dd)]
  /\ done' = [done EXCEPT ![o] = @ + d]
  /\ UNCHANGED <<size, cont, spl, memA, dirtyA, fdA>>
PlacedMem(o, dd, src) ==
  [a \in DOMAIN memA |-> IF \E i \in 1..dd : flat[o][i] = a THEN src[CHOOSE i \in 1..dd : flat[o][i] = a] ELSE memA[a]]
AWriteStep(o, d, src, viaFile, newmem) ==
  LET dd == Min(Min(d, Len(flat[o])), Len(src))      \* (more than offered/available is reported by ResFaults)
      direct == kind = "F" /\ ~spl[o]
      placed == PlacedMem(o, dd, src) IN
  /\ flat' = [flat EXCEPT ![o] = Drop(@, dd)]
  /\ done' = [done EXCEPT ![o] = @ + d]
  /\ cont' = [cont EXCEPT ![o] = @ \o Take(src, dd)]
  \* a never-split fusedev writer sends memory-sourced data straight to the device: its own window may
  \* or may not receive a copy (A admits both); everything else must be placed
  /\ memA' = IF direct /\ ~viaFile /\ newmem = memA THEN memA ELSE placed
  /\ dirtyA' = IF kind = "W" THEN dirtyA \cup Pages(Take(flat[o], dd)) ELSE dirtyA
  /\ fdA' = IF direct /\ dd > 0 THEN Append(fdA, Take(src, dd)) ELSE fdA
  /\ UNCHANGED <<size, spl, outA>>
NonEmpty(msgs) == SelectSeq(msgs, LAMBDA m : m # <<>>)

\* common tail of every data-moving action: run I, judge the result, step A with the observed d
Move(o, op, n, x, c, r, src, viaFile) ==
  LET d == (IF kind = "F" THEN r.st.fw[o].n ELSE r.st.io[o].c) - IDone(o) IN
  /\ SetI(r.st)
  /\ bad' = bad \cup ResFaults(op, n, Len(flat[o]), r.res, r.ret, d, Usable(o))
  /\ IF op \in ReaderOps THEN AReadStep(o, d) ELSE AWriteStep(o, d, src, viaFile, r.st.mem)
  /\ fposA' = IF op \in CursorOps /\ op \in FileSrcOps THEN fposA + d ELSE fposA
  /\ Log(o, op, n, x, c)
  /\ UNCHANGED <<kind, segs0>>

J == nops + 1
Counts == 0..MaxN

Read(o, n)            == kind = "R" /\ Move(o, "read", n, 0, 0, RRead(St, o, n), <<>>, FALSE)
ReadObj(o, n)         == kind = "R" /\ Move(o, "read_obj", n, 0, 0, RReadExact(St, o, n), <<>>, FALSE)
ReadTo(o, n, c)       == kind = "R" /\ Move(o, "read_to", n, 0, c, RReadTo(St, o, n, c), <<>>, FALSE)
ReadToAt(o, n, x, c)  == kind = "R" /\ Move(o, "read_to_at", n, x, c, RReadTo(St, o, n, c), <<>>, FALSE)
ReadExactTo(o, n, c)  == kind = "R" /\ Move(o, "read_exact_to", n, 0, c, RReadExactTo(St, o, n, c), <<>>, FALSE)

Write(o, n) ==
  /\ kind \in {"W", "F"}
  /\ LET t == DataToks(J, 1, n) IN
     Move(o, "write", n, 0, 0, IF kind = "W" THEN VWrite(St, o, t) ELSE FWrite(St, o, t), t, FALSE)
WriteAll(o, n) ==
  /\ kind \in {"W", "F"}
  /\ LET t == DataToks(J, 1, n) IN
     Move(o, "write_all", n, 0, 0, IF kind = "W" THEN VWriteAll(St, o, t) ELSE FWriteAll(St, o, t), t, FALSE)
WriteVectored(o, n, n2) ==       \* three slices: n bytes, an empty one, n2 bytes
  /\ kind \in {"W", "F"}
  /\ LET bufs == <<DataToks(J, 1, n), <<>>, DataToks(J, n + 1, n2)>> IN
     Move(o, "write_vectored", n + n2, n, 0,
          IF kind = "W" THEN VWriteVectored(St, o, bufs) ELSE FWriteVectored(St, o, bufs), Concat(bufs), FALSE)
WriteFrom(o, n, c) ==
  /\ kind \in {"W", "F"}
  /\ Move(o, "write_from", n, 0, c, IF kind = "W" THEN VWriteFrom(St, o, n, c) ELSE FWriteFrom(St, o, n, c),
          FileToks(fposA, n), TRUE)
WriteFromAt(o, n, x, c) ==
  /\ kind \in {"W", "F"}
  /\ Move(o, "write_from_at", n, x, c,
          IF kind = "W" THEN VWriteFromAt(St, o, n, x, c) ELSE FWriteFromAt(St, o, n, x, c), FileToks(x, n), TRUE)
WriteAllFrom(o, n, c) ==
  /\ kind \in {"W", "F"}
  /\ Move(o, "write_all_from", n, 0, c,
          IF kind = "W" THEN VWriteAllFrom(St, o, n, c) ELSE FWriteAllFrom(St, o, n, c), FileToks(fposA, n), TRUE)

SplitAt(o, off) ==
  \* contract: a never-split fusedev writer that has sent its message is finished (only commit is legal)
  /\ kind = "F" => (spl[o] \/ done[o] = 0)
  /\ LET r == IF kind = "F" THEN FSplit(St, o, off) ELSE IoSplit(St, o, off)
         L == done[o]
         room == IF kind = "F" THEN size[o] ELSE Len(flat[o]) IN
     /\ SetI(r.st)
     /\ bad' = bad \cup SplitFaults(off, room, r.res)
     /\ IF off <= room THEN
           IF kind = "F" THEN      \* the window [start, start + size) is cut at off from its start
             /\ flat' = Append([flat EXCEPT ![o] = IF off >= L THEN Take(@, off - L) ELSE <<>>],
                               IF off >= L THEN Drop(flat[o], off - L) ELSE flat[o])
             /\ done' = Append([done EXCEPT ![o] = Min(L, off)], IF L > off THEN L - off ELSE 0)
             /\ size' = Append([size EXCEPT ![o] = off], size[o] - off)
             /\ cont' = Append([cont EXCEPT ![o] = Take(@, off)], Drop(cont[o], off))
             /\ spl' = Append([spl EXCEPT ![o] = TRUE], TRUE)
           ELSE                    \* the remaining sequence is cut at off
             /\ flat' = Append([flat EXCEPT ![o] = Take(@, off)], Drop(flat[o], off))
             /\ done' = Append(done, 0)
             /\ size' = Append([size EXCEPT ![o] = L + off], Len(flat[o]) - off)
             /\ cont' = Append(cont, <<>>)
             /\ spl' = Append([spl EXCEPT ![o] = TRUE], TRUE)
        ELSE UNCHANGED <<flat, done, size, cont, spl>>
     /\ UNCHANGED <<memA, dirtyA, fdA, outA, fposA, kind, segs0>>
     /\ Log(o, "split_at", off, 0, 0)

Commit(o, other) ==
  /\ kind \in {"W", "F"} /\ other # o
  /\ LET r == IF kind = "F" THEN FCommit(St, o, other) ELSE Res(St, "ok", 0)
         msg == IF kind = "F" /\ spl[o] THEN cont[o] \o (IF other = 0 THEN <<>> ELSE cont[other]) ELSE <<>> IN
     /\ SetI(r.st)
     /\ fdA' = IF msg # <<>> THEN Append(fdA, msg) ELSE fdA
     /\ bad' = bad \cup (IF r.res # "ok" THEN {"spurious-failure"} ELSE {})
     /\ UNCHANGED <<flat, done, size, cont, spl, memA, dirtyA, outA, fposA, kind, segs0>>
     /\ Log(o, "commit", other, 0, 0)

\* one top-level disjunct per API entry point (TLC reports coverage per disjunct)
DoRead        == \E o \in 1..NObj, n \in Counts : Read(o, n)
DoReadObj     == \E o \in 1..NObj, n \in Counts : ReadObj(o, n)
DoReadTo      == \E o \in 1..NObj, n \in Counts, c \in Chunks : ReadTo(o, n, c)
DoReadToAt    == \E o \in 1..NObj, n \in Counts, c \in Chunks : ReadToAt(o, n, 1, c)
DoReadExactTo == \E o \in 1..NObj, n \in Counts, c \in Chunks : ReadExactTo(o, n, c)
DoWrite       == \E o \in 1..NObj, n \in Counts : Write(o, n)
DoWriteAll    == \E o \in 1..NObj, n \in Counts : WriteAll(o, n)
DoWriteVectored == \E o \in 1..NObj, n \in 0..1, n2 \in Counts : WriteVectored(o, n, n2)
DoWriteFrom   == \E o \in 1..NObj, n \in Counts, c \in Chunks : WriteFrom(o, n, c)
DoWriteFromAt == \E o \in 1..NObj, n \in Counts, c \in Chunks : WriteFromAt(o, n, 1, c)
DoWriteAllFrom == \E o \in 1..NObj, n \in Counts, c \in Chunks : WriteAllFrom(o, n, c)
DoSplitAt     == \E o \in 1..NObj, off \in Counts : SplitAt(o, off)
DoCommit      == \E o \in 1..NObj, other \in 0..NObj : Commit(o, other)
Next == \/ DoRead \/ DoReadObj \/ DoReadTo \/ DoReadToAt \/ DoReadExactTo
        \/ DoWrite \/ DoWriteAll \/ DoWriteVectored \/ DoWriteFrom \/ DoWriteFromAt \/ DoWriteAllFrom
        \/ DoSplitAt \/ DoCommit
Spec == Init /\ [][Next]_vars

(* =============================== I => A =============================== *)
Supplied == SetOf(Flat(segs0))
IFlat(o) == IF kind = "F" THEN Range(fw[o].p + fw[o].n, fw[o].c - fw[o].n) ELSE Flat(io[o].s)

FlatAgree   == \A o \in 1..NObj : IFlat(o) = flat[o]                       \* remaining addresses, in order
Counters    == \A o \in 1..NObj : /\ IAvail(o) = Len(flat[o]) /\ IDone(o) = done[o]
                                  /\ IAvail(o) + IDone(o) = size[o]
InOrderOnce == out = outA                                                   \* bytes delivered by readers
Placed      == mem = memA /\ NonEmpty(fd) = fdA                             \* bytes placed by writers / sent to the device
FailClean   == bad \cap {"exceed-not-failed", "fail-not-clean"} = {}
Results     == bad \subseteq {"exceed-not-failed", "fail-not-clean"}        \* moved / ret / spurious-failure
NoOOB       == touched \subseteq Supplied /\ \A a \in DOMAIN mem : a \notin Supplied => mem[a] = AddrTok(a)
DirtyExact  == dirty = dirtyA /\ (kind # "W" => dirty = {})
ObjCount    == Len(done) = NObj /\ Len(size) = NObj /\ (IF kind = "F" THEN Len(fw) ELSE Len(io)) = NObj

(* the interval rendering used by the trace specification agrees with the per-byte reference on
   every run list and count that occurs *)
RunLists == {segs0} \cup (IF kind = "F" THEN {} ELSE {io[o].s : o \in 1..NObj})
Lemmas ==
  \A r \in RunLists : \A n \in 0..(LenR(r) + 1) :
     /\ LenR(r) = Len(Flat(r))
     /\ Flat(TakeR(r, n)) = Take(Flat(r), n)
     /\ Flat(DropR(r, n)) = Drop(Flat(r), n)
     /\ Flat(Norm(r)) = Flat(r)
     /\ Norm(TakeR(r, n) \o DropR(r, n)) = Norm(r)
     /\ PagesR(TakeR(r, n)) = Pages(Take(Flat(r), n))
     /\ LET z == ZipR(TakeR(r, n), << <<7, n>> >>) IN          \* source run 7, 8, ... paired with the first n addresses
        /\ \A i \in 1..Len(z) : z[i][2] > 0
        /\ Concat([i \in 1..Len(z) |-> [k \in 1..z[i][2] |-> <<z[i][1] + k - 1, z[i][3] + k - 1>>]])
             = [k \in 1..Min(n, LenR(r)) |-> <<Flat(r)[k], 7 + k - 1>>]

(* export of behaviours for replay on the real code: printed once per distinct final state *)
Export == nops = MaxOps =>
  PrintT(<<"REPLAY", ToJson([kind |-> kind, segs |-> segs0, fsize |-> FileSize, ops |-> hist])>>)
=============================================================================
