SPECIFICATION Spec
VIEW StateView
CHECK_DEADLOCK FALSE
CONSTANTS
  Paths <- MCPaths
  Names = {"a", "b"}
  MaxDepth = 2
  NLower = 1
  MaxOps = 1
  HasUpper = TRUE
  Known = {}
  AsFound = {}
  UpperTypes = {"none", "file", "dir", "odir", "wh"}
  LowerTypes = {"none", "file", "dir", "odir", "wh", "sym"}
INVARIANTS LoadAgrees LiveIsView StatusAgrees RestartSame LowersFrozen
