//! Tree construction, stat-walk digests and the (dev, ino) -> model file id map.
use serde_json::{json, Map, Value};
use std::collections::{BTreeMap, HashMap};
use std::ffi::CString;
use std::os::unix::ffi::OsStrExt;
use std::os::unix::fs::{FileTypeExt, MetadataExt};
use std::path::{Path, PathBuf};

pub type J = Value;

pub fn errno_name(e: i32) -> String {
    let t: &[(i32, &str)] = &[
        (libc::EPERM, "EPERM"), (libc::ENOENT, "ENOENT"), (libc::EIO, "EIO"), (libc::ENXIO, "ENXIO"), (libc::EBADF, "EBADF"),
        (libc::EACCES, "EACCES"), (libc::EEXIST, "EEXIST"), (libc::EXDEV, "EXDEV"), (libc::ENOTDIR, "ENOTDIR"),
        (libc::EISDIR, "EISDIR"), (libc::EINVAL, "EINVAL"), (libc::EFBIG, "EFBIG"), (libc::ENOSPC, "ENOSPC"),
        (libc::ESPIPE, "ESPIPE"), (libc::EROFS, "EROFS"), (libc::EMLINK, "EMLINK"), (libc::ERANGE, "ERANGE"),
        (libc::ENAMETOOLONG, "ENAMETOOLONG"), (libc::ENOSYS, "ENOSYS"), (libc::ENOTEMPTY, "ENOTEMPTY"), (libc::ELOOP, "ELOOP"),
        (libc::ENODATA, "ENODATA"), (libc::EOPNOTSUPP, "EOPNOTSUPP"), (libc::EOVERFLOW, "EOVERFLOW"), (libc::EBUSY, "EBUSY"),
        (libc::ETXTBSY, "ETXTBSY"), (libc::E2BIG, "E2BIG"), (libc::EAGAIN, "EAGAIN"), (libc::ENOMEM, "ENOMEM"),
    ];
    for (k, v) in t {
        if *k == e {
            return v.to_string();
        }
    }
    format!("E{}", e)
}

pub fn err_status(e: &std::io::Error) -> String {
    match e.raw_os_error() {
        Some(n) => errno_name(n),
        None => format!("EKIND_{:?}", e.kind()),
    }
}

pub fn last_err() -> String {
    errno_name(std::io::Error::last_os_error().raw_os_error().unwrap_or(0))
}

/// Moves a descriptor of the harness out of the low range. The code under test may close a
/// descriptor number it no longer owns (finding: refused WRITE); everything the harness itself keeps
/// open lives above 1000 so that such a stray close cannot hit the shadow or the trace.
pub fn hi(fd: i32) -> i32 {
    if fd < 0 {
        return fd;
    }
    let n = unsafe { libc::fcntl(fd, libc::F_DUPFD_CLOEXEC, 1000) };
    if n >= 0 {
        unsafe { libc::close(fd) };
        n
    } else {
        fd
    }
}

pub fn cstr(s: &[u8]) -> CString {
    CString::new(s.to_vec()).unwrap_or_else(|_| CString::new("NUL").unwrap())
}

pub fn type_of_mode(mode: u32) -> &'static str {
    match mode & libc::S_IFMT {
        libc::S_IFDIR => "dir",
        libc::S_IFREG => "reg",
        libc::S_IFLNK => "lnk",
        libc::S_IFIFO => "fifo",
        libc::S_IFCHR => "chr",
        libc::S_IFBLK => "blk",
        libc::S_IFSOCK => "sock",
        _ => "unknown",
    }
}

/// (st_dev, st_ino) -> model file id, ids by first appearance; every file seen is pinned by an
/// O_PATH descriptor until the end of the segment so that the host never re-uses an inode number.
pub struct Ids {
    /// atime/mtime (sec, nsec) of every object at the last walk, by file id (taken by lstat before the
    /// walk reads any content, so right after a SETATTR step these are the times that step left)
    pub times: HashMap<i64, (i64, i64, i64, i64)>,
    pub map: HashMap<(u64, u64), i64>,
    /// no pinning: the host may hand the inode number of a removed file to a new one (wanted by the histories about
    /// exactly that); files are then told apart by (dev, ino, generation), `map` holds the latest file of a number
    pub nopin: bool,
    gen: HashMap<(u64, u64, u64), i64>,
    pins: Vec<i32>,
    next: i64,
}

impl Ids {
    pub fn new() -> Self {
        Ids { times: HashMap::new(), map: HashMap::new(), nopin: false, gen: HashMap::new(), pins: Vec::new(), next: 1 }
    }
    pub fn get(&self, dev: u64, ino: u64) -> i64 {
        *self.map.get(&(dev, ino)).unwrap_or(&-1)
    }
    fn learn(&mut self, dev: u64, ino: u64, path: &Path) -> i64 {
        if self.nopin {
            // i_generation of regular files and directories (FS_IOC_GETVERSION); 0 for the rest
            let c = cstr(path.as_os_str().as_bytes());
            let mut g: libc::c_long = 0;
            let fd = unsafe { libc::open(c.as_ptr(), libc::O_RDONLY | libc::O_NONBLOCK | libc::O_NOFOLLOW | libc::O_CLOEXEC) };
            if fd >= 0 {
                unsafe {
                    libc::ioctl(fd, 0x8008_7601u64 as _, &mut g as *mut libc::c_long);
                    libc::close(fd);
                }
            }
            let key = (dev, ino, g as u64);
            let id = match self.gen.get(&key) {
                Some(v) => *v,
                None => {
                    let id = self.next;
                    self.next += 1;
                    self.gen.insert(key, id);
                    id
                }
            };
            self.map.insert((dev, ino), id);
            return id;
        }
        if let Some(v) = self.map.get(&(dev, ino)) {
            return *v;
        }
        let c = cstr(path.as_os_str().as_bytes());
        let fd = hi(unsafe { libc::open(c.as_ptr(), libc::O_PATH | libc::O_NOFOLLOW | libc::O_CLOEXEC) });
        if fd >= 0 {
            self.pins.push(fd);
        }
        let id = self.next;
        self.next += 1;
        self.map.insert((dev, ino), id);
        id
    }
}

impl Drop for Ids {
    fn drop(&mut self) {
        for fd in &self.pins {
            unsafe { libc::close(*fd) };
        }
    }
}

/// stat projection shared by replies and digest rows: sizes only of regular files and symlinks
/// (directory/device sizes are file-system specific and not part of the model).
pub fn attr_json(st: &libc::stat64, ids: &Ids) -> J {
    let t = type_of_mode(st.st_mode);
    let size = if t == "reg" || t == "lnk" { st.st_size as u64 } else { 0 };
    let rdev = if t == "chr" || t == "blk" { st.st_rdev as u64 } else { 0 };
    json!({"id": ids.get(st.st_dev, st.st_ino), "t": t, "perm": st.st_mode & 0o7777, "uid": st.st_uid, "gid": st.st_gid,
           "size": size, "nlink": st.st_nlink, "rdev": rdev})
}

pub fn times_json(st: &libc::stat64) -> J {
    json!({"atime": st.st_atime.to_string(), "atime_ns": st.st_atime_nsec, "mtime": st.st_mtime.to_string(), "mtime_ns": st.st_mtime_nsec})
}

pub fn ftimes_json(ids: &Ids, id: i64) -> Option<J> {
    ids.times.get(&id).map(|t| json!({"atime": t.0.to_string(), "atime_ns": t.1, "mtime": t.2.to_string(), "mtime_ns": t.3}))
}

fn list_xattrs(path: &Path) -> J {
    let c = cstr(path.as_os_str().as_bytes());
    let mut buf = vec![0u8; 4096];
    let n = unsafe { libc::llistxattr(c.as_ptr(), buf.as_mut_ptr() as *mut libc::c_char, buf.len()) };
    let mut m = Map::new();
    if n > 0 {
        for name in buf[..n as usize].split(|b| *b == 0).filter(|s| !s.is_empty()) {
            let cn = cstr(name);
            let mut v = vec![0u8; 4096];
            let k = unsafe { libc::lgetxattr(c.as_ptr(), cn.as_ptr(), v.as_mut_ptr() as *mut libc::c_void, v.len()) };
            if k >= 0 {
                m.insert(String::from_utf8_lossy(name).to_string(), json!(v[..k as usize].to_vec()));
            }
        }
    }
    Value::Object(m)
}

/// One digest row per object below `base` (the row of `base` itself has path `label`).
pub fn walk(base: &Path, label: &str, par: i64, name: &str, ids: &mut Ids, seg_root: &str, out: &mut BTreeMap<String, J>) {
    let md = match std::fs::symlink_metadata(base) {
        Ok(m) => m,
        Err(_) => return,
    };
    let ft = md.file_type();
    let t = if ft.is_dir() {
        "dir"
    } else if ft.is_file() {
        "reg"
    } else if ft.is_symlink() {
        "lnk"
    } else if ft.is_fifo() {
        "fifo"
    } else if ft.is_char_device() {
        "chr"
    } else if ft.is_block_device() {
        "blk"
    } else if ft.is_socket() {
        "sock"
    } else {
        "unknown"
    };
    let id = ids.learn(md.dev(), md.ino(), base);
    // first visit only: reading the content through one name may move the atime seen through another hard link
    ids.times.entry(id).or_insert((md.atime(), md.atime_nsec(), md.mtime(), md.mtime_nsec()));
    let mut tgt = String::new();
    let mut data: Vec<u8> = Vec::new();
    if t == "lnk" {
        if let Ok(p) = std::fs::read_link(base) {
            tgt = p.to_string_lossy().replace(seg_root, "@");
        }
    }
    if t == "reg" {
        data = std::fs::read(base).unwrap_or_default();
        if data.len() > 64 {
            // long contents are summarised: length-preserving digest of 8 tokens + marker
            let mut h: u64 = 1469598103934665603;
            for b in &data {
                h = (h ^ *b as u64).wrapping_mul(1099511628211);
            }
            data = h.to_le_bytes().to_vec();
            data.push(255);
        }
    }
    let size = if t == "reg" || t == "lnk" { md.size() } else { 0 };
    let rdev = if t == "chr" || t == "blk" { md.rdev() } else { 0 };
    let xa = if t == "reg" || t == "dir" { list_xattrs(base) } else { json!({}) };
    out.insert(
        label.to_string(),
        json!({"p": label, "t": t, "perm": md.mode() & 0o7777, "uid": md.uid(), "gid": md.gid(), "size": size,
               "nlink": md.nlink(), "tgt": tgt, "data": data, "id": id, "xa": xa, "rdev": rdev, "par": par, "name": name}),
    );
    if t == "dir" {
        let mut names: Vec<PathBuf> = match std::fs::read_dir(base) {
            Ok(rd) => rd.filter_map(|e| e.ok()).map(|e| e.path()).collect(),
            Err(_) => Vec::new(),
        };
        names.sort();
        for p in names {
            let n = p.file_name().unwrap().to_string_lossy().to_string();
            walk(&p, &format!("{}/{}", label, n), id, &n, ids, seg_root, out);
        }
    }
}

/// changed/added rows and removed paths between two digests
pub fn diff(old: &BTreeMap<String, J>, new: &BTreeMap<String, J>) -> (Vec<J>, Vec<J>) {
    let mut ch = Vec::new();
    let mut rm = Vec::new();
    for (k, v) in new {
        if old.get(k) != Some(v) {
            ch.push(v.clone());
        }
    }
    for k in old.keys() {
        if !new.contains_key(k) {
            rm.push(json!(k));
        }
    }
    (ch, rm)
}

fn write_file(p: &Path, data: &[u8], mode: u32, uid: u32, gid: u32) {
    std::fs::write(p, data).unwrap();
    let c = cstr(p.as_os_str().as_bytes());
    unsafe {
        libc::chown(c.as_ptr(), uid, gid);
        libc::chmod(c.as_ptr(), mode);
    }
}

fn mkdir(p: &Path, mode: u32, uid: u32, gid: u32) {
    std::fs::create_dir_all(p).unwrap();
    let c = cstr(p.as_os_str().as_bytes());
    unsafe {
        libc::chown(c.as_ptr(), uid, gid);
        libc::chmod(c.as_ptr(), mode);
    }
}

/// The sentinel layout: <root>/S/export (served), <root>/S/outside/*, <root>/S/secret.
/// `spec`: optional explicit export content [[path, type, content|target, mode, uid]], else the standard tree.
pub fn build(root: &Path, spec: Option<&J>) {
    let s = root.join("S");
    let ex = s.join("export");
    mkdir(&s, 0o755, 0, 0);
    mkdir(&ex, 0o755, 0, 0);
    mkdir(&s.join("outside"), 0o755, 0, 0);
    mkdir(&s.join("outside/sub"), 0o755, 0, 0);
    write_file(&s.join("outside/o1"), b"outside1", 0o644, 0, 0);
    write_file(&s.join("outside/sub/o2"), b"o2", 0o666, 1000, 1000);
    write_file(&s.join("secret"), b"secret", 0o600, 0, 0);
    let abs_secret = s.join("secret");
    match spec {
        Some(rows) => {
            for r in rows.as_array().unwrap() {
                let p = ex.join(r[0].as_str().unwrap());
                let mode = r[3].as_u64().unwrap_or(0o644) as u32;
                let uid = r[4].as_u64().unwrap_or(0) as u32;
                match r[1].as_str().unwrap() {
                    "dir" => mkdir(&p, mode, uid, uid),
                    "reg" => {
                        let data: Vec<u8> = match &r[2] {
                            Value::Array(a) => a.iter().map(|x| x.as_u64().unwrap() as u8).collect(),
                            Value::String(t) => t.as_bytes().to_vec(),
                            _ => Vec::new(),
                        };
                        write_file(&p, &data, mode, uid, uid)
                    }
                    "lnk" => {
                        let t = r[2].as_str().unwrap().replace('@', s.to_str().unwrap());
                        std::os::unix::fs::symlink(t, &p).unwrap();
                    }
                    "hl" => {
                        std::fs::hard_link(ex.join(r[2].as_str().unwrap()), &p).unwrap();
                    }
                    "fifo" => {
                        let c = cstr(p.as_os_str().as_bytes());
                        unsafe { libc::mknod(c.as_ptr(), libc::S_IFIFO | mode, 0) };
                    }
                    "chr" => {
                        let c = cstr(p.as_os_str().as_bytes());
                        unsafe { libc::mknod(c.as_ptr(), libc::S_IFCHR | mode, libc::makedev(1, 3)) };
                    }
                    _ => {}
                }
            }
        }
        None => {
            write_file(&ex.join("f1"), b"abcdefgh", 0o644, 0, 0);
            write_file(&ex.join("f2"), b"", 0o600, 0, 0);
            write_file(&ex.join("f3"), b"mnopqrstuvwx", 0o666, 1000, 1000);
            // three file-system blocks: the only file on which collapse/insert range can succeed
            write_file(&ex.join("big"), &vec![b'B'; 3 * 4096], 0o644, 0, 0);
            mkdir(&ex.join("d1"), 0o755, 0, 0);
            write_file(&ex.join("d1/g"), b"xyz", 0o644, 0, 0);
            mkdir(&ex.join("d2"), 0o777, 0, 0);
            mkdir(&ex.join("d3"), 0o700, 0, 0);
            std::os::unix::fs::symlink("f1", ex.join("ln")).unwrap();
            std::os::unix::fs::symlink(&abs_secret, ex.join("lout_abs")).unwrap();
            std::os::unix::fs::symlink("../secret", ex.join("lout_rel")).unwrap();
            std::os::unix::fs::symlink("../outside", ex.join("lout_dir")).unwrap();
            std::os::unix::fs::symlink("nowhere", ex.join("ldang")).unwrap();
            std::fs::hard_link(ex.join("f1"), ex.join("hl")).unwrap();
            let c = cstr(ex.join("fifo").as_os_str().as_bytes());
            unsafe { libc::mknod(c.as_ptr(), libc::S_IFIFO | 0o644, 0) };
            let c = cstr(ex.join("nul").as_os_str().as_bytes());
            unsafe { libc::mknod(c.as_ptr(), libc::S_IFCHR | 0o666, libc::makedev(1, 3)) };
        }
    }
}

/// digest of the export and of everything around it
pub fn digests(root: &Path, ids: &mut Ids) -> (BTreeMap<String, J>, BTreeMap<String, J>) {
    let s = root.join("S");
    let seg_root = s.to_string_lossy().to_string();
    ids.times.clear();
    let mut ex = BTreeMap::new();
    walk(&s.join("export"), "", 0, "", ids, &seg_root, &mut ex);
    let mut out = BTreeMap::new();
    walk(&s.join("outside"), "outside", 0, "outside", ids, &seg_root, &mut out);
    walk(&s.join("secret"), "secret", 0, "secret", ids, &seg_root, &mut out);
    // the directory holding the export: its own row without descending again
    if let Ok(md) = std::fs::symlink_metadata(&s) {
        let mut names: Vec<String> = std::fs::read_dir(&s).map(|rd| rd.filter_map(|e| e.ok()).map(|e| e.file_name().to_string_lossy().to_string()).collect()).unwrap_or_default();
        names.sort();
        let id = ids.learn(md.dev(), md.ino(), &s);
        out.insert("S".into(), json!({"p": "S", "t": "dir", "perm": md.mode() & 0o7777, "uid": md.uid(), "gid": md.gid(), "size": 0,
                                      "nlink": md.nlink(), "tgt": names.join(","), "data": [], "id": id, "xa": {}, "rdev": 0, "par": 0, "name": "S"}));
    }
    (ex, out)
}
