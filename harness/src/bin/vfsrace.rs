//! vfsrace engine (X01, beyond the listed properties): mount / umount / over-mount running concurrently
//! with client requests on a real `Vfs` with `ScriptedFs` backends, under a cooperative scheduler that
//! replays the interleavings enumerated by TLC from spec/VfsRace.tla through the yield points of
//! hooks/vfs-yield.diff (`fuse_backend_rs::api::vfs::verif_hooks`). Everything observed is logged raw as
//! NDJSON; the judge is spec/Trace_VfsRace.tla (linearisability against the sequential table of
//! spec/VfsSeq.tla).
//!
//!   vfsrace <schedules.ndjson> <out.ndjson>
//!
//! schedules.ndjson: one line per interleaving, as exported by TLC (MC_VfsRace!Export):
//!   {"init": {sb, mp, map, nexts}, "prog": [{k, p, b, m}..], "reqs": [op..], "s": [[thread, label]..], "v": {..}, "res": [..]}
//! Events: Reset{seg, init, prog, reqs, model}  Call{t, op}  Ret{t, val}  (in the order they were logged; a
//! Ret logged before a Call really returned before that call started)  Sched{seg, drift..}.
//!
//! The hooks exist only once hooks/vfs-yield.diff is in the crate: the real program is compiled with
//! `--cfg vfs_yield_hooks` (checks/vfsrace.py does that when it finds src/api/vfs/verif_hooks.rs);
//! without it this is a stub, so that building all harness binaries never depends on the hook.
#![allow(unexpected_cfgs)]

#[cfg(not(vfs_yield_hooks))]
fn main() {
    eprintln!("vfsrace: hooks not present (built without --cfg vfs_yield_hooks)");
    std::process::exit(3);
}

#[cfg(vfs_yield_hooks)]
fn main() {
    real::main();
}

#[cfg(vfs_yield_hooks)]
mod real {
    use fuse_backend_rs::abi::fuse_abi::stat64;
    use fuse_backend_rs::api::filesystem::{Context, Entry, FileSystem};
    use fuse_backend_rs::api::vfs::{verif_hooks, VfsInode};
    use fuse_backend_rs::api::{Vfs, VfsOptions};
    use serde_json::{json, Value};
    use std::cell::RefCell;
    use std::ffi::CString;
    use std::panic::{catch_unwind, AssertUnwindSafe};
    use std::sync::{Arc, Condvar, Mutex};
    use std::time::Duration;
    use vharness::scripted::{OwnedDirent, Ret, ScriptedFs};
    use vharness::util::Trace;

    // concretisation of the model's tokens: every mapping sends the caller uid U and the backend uid V
    // to a different value, so the value names the mapping that was applied
    const U: u32 = 500_000;
    const V: u32 = 1000;
    fn mapping(tok: &str) -> Option<(u32, u32, u32)> {
        match tok {
            "G" => Some((1000, 100_000, 1_000_000)),
            "M0" => Some((1000, 50_000, 1_000_000)),
            "M1" => Some((1000, 20_000, 1_000_000)),
            _ => None,
        }
    }
    fn root_ino(b: &str) -> u64 {
        match b {
            "b0" => 1000,
            "b1" => 1001,
            "b2" => 1002,
            _ => 1999,
        }
    }
    fn path_of(p: &str) -> &'static str {
        if p == "R" {
            "/"
        } else {
            "/a"
        }
    }
    fn mkstat(ino: u64, uid: u32) -> stat64 {
        let mut st: stat64 = unsafe { std::mem::zeroed() };
        st.st_ino = ino;
        st.st_uid = uid;
        st.st_gid = uid;
        st.st_mode = libc::S_IFDIR | 0o755;
        st
    }
    fn mkentry(ino: u64, uid: u32) -> Entry {
        Entry { inode: ino, generation: 0, attr: mkstat(ino, uid), attr_flags: 0, attr_timeout: Duration::from_secs(1), entry_timeout: Duration::from_secs(1) }
    }
    fn backend(id: &str) -> ScriptedFs {
        let fs = ScriptedFs::new(id);
        *fs.root.lock().unwrap() = (mkentry(root_ino(id), V), 0xff_ffff);
        fs
    }

    // ---------------------------------------------------------------------------------- scheduler
    #[derive(Clone, PartialEq, Debug)]
    enum St {
        Parked(String), // at a yield point (or "start" / "next")
        Running,
        Finished,
    }
    struct Sched {
        st: Mutex<Vec<St>>,
        cv: Condvar,
        first: Mutex<Vec<bool>>,      // the next yield point belongs to the granted first step: pass through
        passed: Mutex<Vec<String>>,   // label of that passed yield point
        events: Mutex<Vec<Value>>,
    }
    thread_local! {
        static ME: RefCell<Option<(usize, Arc<Sched>)>> = const { RefCell::new(None) };
    }
    fn hook(label: &'static str) {
        let me = ME.with(|m| m.borrow().clone());
        if let Some((t, s)) = me {
            s.at_yield(t, label);
        }
    }
    impl Sched {
        fn new(n: usize) -> Sched {
            Sched {
                st: Mutex::new(vec![St::Running; n]),      // until the thread has parked itself at "start"
                cv: Condvar::new(),
                first: Mutex::new(vec![false; n]),
                passed: Mutex::new(vec![String::new(); n]),
                events: Mutex::new(Vec::new()),
            }
        }
        fn log(&self, v: Value) {
            self.events.lock().unwrap().push(v);
        }
        fn park(&self, t: usize, label: &str) {
            let mut st = self.st.lock().unwrap();
            st[t] = St::Parked(label.to_string());
            self.cv.notify_all();
            while st[t] != St::Running {
                st = self.cv.wait(st).unwrap();
            }
        }
        fn at_yield(&self, t: usize, label: &str) {
            {
                let mut f = self.first.lock().unwrap();
                if f[t] {
                    f[t] = false;
                    self.passed.lock().unwrap()[t] = label.to_string();
                    return;
                }
            }
            self.park(t, label);
        }
        /// a new operation of thread t begins with the next granted step
        fn begin_op(&self, t: usize) {
            self.first.lock().unwrap()[t] = true;
            self.passed.lock().unwrap()[t] = String::new();
        }
        fn finish(&self, t: usize) {
            let mut st = self.st.lock().unwrap();
            st[t] = St::Finished;
            self.cv.notify_all();
        }
        /// let thread t run one step; false = it neither parked nor finished within the time limit
        fn grant(&self, t: usize) -> bool {
            let mut st = self.st.lock().unwrap();
            st[t] = St::Running;
            self.cv.notify_all();
            let (g, to) = self.cv.wait_timeout_while(st, Duration::from_secs(5), |s| s[t] == St::Running).unwrap();
            drop(g);
            !to.timed_out()
        }
        fn state(&self, t: usize) -> St {
            self.st.lock().unwrap()[t].clone()
        }
    }

    // ---------------------------------------------------------------------------------- operations
    fn do_mount_op(vfs: &Vfs, o: &Value, inst: &Mutex<Vec<ScriptedFs>>, kind: &str) -> Value {
        let path = path_of(o["p"].as_str().unwrap());
        let r = catch_unwind(AssertUnwindSafe(|| {
            if o["k"] == "umount" {
                match vfs.umount(path) {
                    Ok(_) => json!({"ret": "ok", "idx": 0}),
                    Err(_) => json!({"ret": "err", "idx": 0}),
                }
            } else {
                let fs = backend(o["b"].as_str().unwrap());
                script(&fs, kind);
                inst.lock().unwrap().push(fs.clone());
                let r = match mapping(o["m"].as_str().unwrap_or("notok")) {
                    Some(m) => vfs.mount_with_id_mapping(Box::new(fs), path, Some(m)),
                    None => vfs.mount(Box::new(fs), path),
                };
                match r {
                    Ok(i) => json!({"ret": "ok", "idx": i}),
                    Err(_) => json!({"ret": "err", "idx": 0}),
                }
            }
        }));
        r.unwrap_or_else(|_| json!({"ret": "panic", "idx": 0}))
    }

    fn do_request(vfs: &Vfs, op: &str, ino_in: u64, t: usize) -> Value {
        let r = catch_unwind(AssertUnwindSafe(|| {
            let mut ctx = Context { uid: U, gid: U, pid: 100 + t as i32 }; // the pid names the requester in the backend logs
            let nodeid: u64 = if op == "getattr_in" { ino_in } else { 1 };
            // what Server::handle_message does first
            if vfs.id_remap_with_nodeid(&mut ctx, VfsInode::from(nodeid)).is_err() {
                return json!({"status": "err:remap"});
            }
            let split = |n: u64| json!({"idx": (n >> 56) as u32, "low": (n & 0xff_ffff_ffff_ffff).to_string()});
            match op {
                "getattr_in" | "getattr_root" => match vfs.getattr(&ctx, VfsInode::from(nodeid), None) {
                    Ok((st, _)) => json!({"status": "ok", "ino": split(st.st_ino), "uid": st.st_uid}),
                    Err(e) => json!({"status": format!("err:{}", e.raw_os_error().unwrap_or(-1))}),
                },
                "lookup_a" => {
                    let name = CString::new("a").unwrap();
                    match vfs.lookup(&ctx, VfsInode::from(1), &name) {
                        Ok(e) => json!({"status": "ok", "ino": split(e.inode), "uid": e.attr.st_uid}),
                        Err(e) => json!({"status": format!("err:{}", e.raw_os_error().unwrap_or(-1))}),
                    }
                }
                "rdp_root" => {
                    let mut seen: Vec<Value> = Vec::new();
                    let r = vfs.readdirplus(&ctx, VfsInode::from(1), 0, 8192, 0, &mut |de, entry| {
                        seen.push(json!({"name": String::from_utf8_lossy(de.name).to_string(), "ino": split(entry.inode), "uid": entry.attr.st_uid}));
                        Ok(1)
                    });
                    match r {
                        Ok(()) if seen.len() == 1 => json!({"status": "ok", "ino": seen[0]["ino"], "uid": seen[0]["uid"], "name": seen[0]["name"]}),
                        Ok(()) => json!({"status": format!("entries:{}", seen.len())}),
                        Err(e) => json!({"status": format!("err:{}", e.raw_os_error().unwrap_or(-1))}),
                    }
                }
                x => panic!("unknown request {x}"),
            }
        }));
        r.unwrap_or_else(|_| json!({"status": "panic"}))
    }

    /// every backend instance answers the scenario's kind of request in its own name (one script per instance:
    /// with two requesters the check replays pairs of the same kind)
    fn script(fs: &ScriptedFs, op: &str) {
        let id = fs.id.clone();
        let r = match op {
            "getattr_in" | "getattr_root" => Ret::Attr(mkstat(root_ino(&id), V), Duration::from_secs(1)),
            "lookup_a" => Ret::Entry(mkentry(root_ino(&id) + 100, V)),
            _ => Ret::Dirents(vec![OwnedDirent { ino: root_ino(&id) + 100, offset: 1, type_: libc::DT_DIR as u32, name: b"e0".to_vec(), entry: mkentry(root_ino(&id) + 100, V) }]),
        };
        fs.set(r);
    }

    /// calls the backends logged since the last drain: [{backend, m, ino, cuid}]
    fn drain(inst: &Mutex<Vec<ScriptedFs>>) -> Vec<Value> {
        let mut out = Vec::new();
        for fs in inst.lock().unwrap().iter() {
            for c in fs.take_log() {
                let m = c["m"].as_str().unwrap_or("");
                if m == "mount" || m == "init" || m == "destroy" {
                    continue;
                }
                let ino = c["args"]["inode"].as_str().or(c["args"]["parent"].as_str()).unwrap_or("").to_string();
                out.push(json!({"backend": c["fs"], "m": m, "ino": ino, "cuid": c["ctx"]["uid"].as_str().unwrap_or("").parse::<u64>().unwrap_or(0),
                    "pid": c["ctx"]["pid"].as_str().unwrap_or("").parse::<u64>().unwrap_or(0)}));
            }
        }
        out
    }

    pub fn main() {
        let args: Vec<String> = std::env::args().collect();
        let text = std::fs::read_to_string(&args[1]).expect("schedules");
        let mut tr = Trace::create(&args[2]);
        verif_hooks::set_hook(Some(Box::new(hook)));
        let mut seg = 0usize;
        for line in text.lines().filter(|l| !l.trim().is_empty()) {
            let sc: Value = serde_json::from_str(line).expect("schedule json");
            seg += 1;
            let init = &sc["init"];
            let prog: Vec<Value> = sc["prog"].as_array().cloned().unwrap_or_default();
            let reqs: Vec<String> = sc["reqs"].as_array().map(|a| a.iter().map(|x| x.as_str().unwrap().to_string()).collect()).unwrap_or_default();
            // ---- setup (sequential, no thread registered with the scheduler: the hook is a no-op)
            let mut opts = VfsOptions::default();
            opts.id_mapping = mapping("G").unwrap();
            let vfs = Arc::new(Vfs::new(opts));
            vfs.get_root_pseudofs().mount("/a").expect("pseudo dir /a");
            let inst: Arc<Mutex<Vec<ScriptedFs>>> = Arc::new(Mutex::new(Vec::new()));
            let mut ino_in = (1u64 << 56) | root_ino("b0");
            for p in ["A", "R"] {
                let m = &init["mp"][p];
                if m["idx"].as_u64().unwrap_or(0) != 0 {
                    let fs = backend(m["b"].as_str().unwrap());
                    script(&fs, reqs.first().map(|x| x.as_str()).unwrap_or("getattr_in"));
                    inst.lock().unwrap().push(fs.clone());
                    let tok = init["map"][m["idx"].as_u64().unwrap() as usize].as_str().unwrap_or("notok").to_string();
                    let idx = match mapping(&tok) {
                        Some(mm) => vfs.mount_with_id_mapping(Box::new(fs), path_of(p), Some(mm)),
                        None => vfs.mount(Box::new(fs), path_of(p)),
                    }
                    .expect("initial mount");
                    assert_eq!(idx as u64, m["idx"].as_u64().unwrap(), "initial index");
                    ino_in = ((idx as u64) << 56) | root_ino(m["b"].as_str().unwrap());
                }
            }
            drain(&inst);
            tr.emit(&json!({"e": "Reset", "seg": seg, "init": init, "prog": prog, "reqs": reqs, "model": {"v": sc["v"], "res": sc["res"]}}));
            // ---- threads: 0 = mounter, 1.. = requesters
            let n = 1 + reqs.len();
            let s = Arc::new(Sched::new(n));
            let mut hs = Vec::new();
            {
                let (s, vfs, inst, prog) = (s.clone(), vfs.clone(), inst.clone(), prog.clone());
                let kind = reqs.first().cloned().unwrap_or_else(|| "getattr_in".to_string());
                hs.push(std::thread::spawn(move || {
                    ME.with(|m| *m.borrow_mut() = Some((0, s.clone())));
                    for (i, o) in prog.iter().enumerate() {
                        s.park(0, if i == 0 { "start" } else { "next" });
                        s.begin_op(0);
                        s.log(json!({"e": "Call", "t": 0, "op": o}));
                        let v = do_mount_op(&vfs, o, &inst, &kind);
                        s.log(json!({"e": "Ret", "t": 0, "val": v}));
                    }
                    ME.with(|m| *m.borrow_mut() = None);
                    s.finish(0);
                }));
            }
            for (i, op) in reqs.iter().enumerate() {
                let t = i + 1;
                let (s, vfs, op) = (s.clone(), vfs.clone(), op.clone());
                hs.push(std::thread::spawn(move || {
                    ME.with(|m| *m.borrow_mut() = Some((t, s.clone())));
                    s.park(t, "start");
                    s.begin_op(t);
                    s.log(json!({"e": "Call", "t": t, "op": op}));
                    let v = do_request(&vfs, &op, ino_in, t);
                    s.log(json!({"e": "Ret", "t": t, "val": v, "op": op}));
                    ME.with(|m| *m.borrow_mut() = None);
                    s.finish(t);
                }));
            }
            // wait until every thread is parked at "start"
            for t in 0..n {
                while s.state(t) == St::Running {
                    std::thread::yield_now();
                }
            }
            // ---- drive the schedule
            let (mut mismatch, mut skipped, mut leftover, mut hang) = (0u64, 0u64, 0u64, false);
            let steps: Vec<(usize, String)> = sc["s"].as_array().map(|a| a.iter().map(|x| (x[0].as_u64().unwrap() as usize, x[1].as_str().unwrap().to_string())).collect()).unwrap_or_default();
            for (t, want) in steps.iter() {
                let t = *t;
                match s.state(t) {
                    St::Finished => {
                        skipped += 1;
                        continue;
                    }
                    St::Parked(at) => {
                        let from_start = at == "start" || at == "next";
                        if !from_start && &at != want {
                            mismatch += 1;
                        }
                        if !s.grant(t) {
                            hang = true;
                            break;
                        }
                        if from_start {
                            let p = s.passed.lock().unwrap()[t].clone();
                            let expect = if want == "call_ret" { "" } else { want.as_str() };
                            if p != expect {
                                mismatch += 1;
                            }
                        }
                    }
                    St::Running => {
                        hang = true;
                        break;
                    }
                }
            }
            // schedule exhausted: run whatever is left, one thread at a time
            let mut guard = 0;
            while !hang && (0..n).any(|t| s.state(t) != St::Finished) && guard < 1000 {
                guard += 1;
                if let Some(t) = (0..n).find(|t| matches!(s.state(*t), St::Parked(_))) {
                    leftover += 1;
                    if !s.grant(t) {
                        hang = true;
                    }
                }
            }
            if hang {
                // cannot join a stuck thread: report and stop (the check treats it as a tool failure)
                tr.emit(&json!({"e": "Sched", "seg": seg, "hang": true}));
                tr.flush();
                eprintln!("vfsrace: a thread neither parked nor finished in segment {seg}");
                std::process::exit(4);
            }
            for h in hs {
                let _ = h.join();
            }
            // backend calls are attached to the Ret of the request that caused them (the caller pid names the requester)
            let calls = drain(&inst);
            for mut e in std::mem::take(&mut *s.events.lock().unwrap()) {
                e["seg"] = json!(seg);
                if e["e"] == "Ret" && e["t"].as_u64().unwrap_or(0) > 0 {
                    let pid = 100 + e["t"].as_u64().unwrap_or(0);
                    let mine: Vec<Value> = calls.iter().filter(|c| c["pid"] == pid).cloned().collect();
                    e["val"]["calls"] = Value::Array(mine);
                }
                tr.emit(&e);
            }
            tr.emit(&json!({"e": "Sched", "seg": seg, "label_mismatch": mismatch, "skipped": skipped, "leftover": leftover, "hang": false}));
        }
        tr.emit(&json!({"e": "End", "seg": seg}));
        tr.flush();
    }
}
