//! X03 - the /dev/fuse session layer (FuseSession / FuseChannel) driven on REAL mounts.
//!
//!   session probe <dir>                                  can we mount at all? exit 0 yes / 3 no (message on stderr)
//!   session cleanup <dir>                                abort + lazily detach every fuse mount below <dir>
//!   session seq  <histories.ndjson> <trace.ndjson> <dir> sequential API histories exported by TLC (MC_Session)
//!   session conc <trace.ndjson> <dir> <seed> <runs> [wd_ms] concurrent runs: channel threads + clients + wake/umount
//!
//! Dumb projection: every event is the raw result of a call into fuse-backend-rs plus counts read from /proc
//! (descriptors on /dev/fuse, eventfds, epoll instances, mounts stacked on the mountpoint). All judging is TLC's.
//! Exit codes: 0 done, 3 = environment unusable (no /dev/fuse, mount refused, cleanup failed) -> the check exits 2.
//!
//! Safety: every mount lives below <dir>; stale mounts are removed at start; every exit path (also panics of the
//! harness itself and the global timer) aborts the connections through /sys/fs/fuse/connections/<dev>/abort and
//! detaches the mounts with umount2(MNT_DETACH).
use fuse_backend_rs::abi::fuse_abi::{stat64, FsOptions, OpenOptions};
use fuse_backend_rs::api::filesystem::{Context, Entry, FileSystem, ZeroCopyWriter};
use fuse_backend_rs::api::server::Server;
use fuse_backend_rs::transport::{FuseChannel, FuseSession, FuseSessionExt};
use serde_json::{json, Value};
use std::ffi::{CStr, CString};
use std::io;
use std::panic::{catch_unwind, AssertUnwindSafe};
use std::path::{Path, PathBuf};
use std::sync::atomic::{AtomicBool, AtomicU64, Ordering};
use std::sync::mpsc::{channel, Receiver, Sender, TryRecvError};
use std::sync::{Arc, Mutex};
use std::time::{Duration, Instant};
use vharness::util::{Rng, Trace};

// ------------------------------------------------------------------------------------------------
// a trivial filesystem: the root directory and files "f<N>" (any N), content "f<N>:" repeated to 64 bytes

const FILE_SIZE: usize = 64;

struct TinyFs {
    delay_us: AtomicU64,
}

impl TinyFs {
    fn attr(ino: u64) -> stat64 {
        let mut st: stat64 = unsafe { std::mem::zeroed() };
        st.st_ino = ino;
        st.st_nlink = 1;
        st.st_blksize = 4096;
        if ino == 1 {
            st.st_mode = libc::S_IFDIR | 0o755;
            st.st_nlink = 2;
        } else {
            st.st_mode = libc::S_IFREG | 0o444;
            st.st_size = FILE_SIZE as i64;
            st.st_blocks = 1;
        }
        st
    }
    fn content(ino: u64) -> Vec<u8> {
        let tag = format!("f{}:", ino - 2);
        let mut v = Vec::with_capacity(FILE_SIZE);
        while v.len() < FILE_SIZE {
            v.extend_from_slice(tag.as_bytes());
        }
        v.truncate(FILE_SIZE);
        v
    }
    fn pause(&self) {
        let d = self.delay_us.load(Ordering::Relaxed);
        if d > 0 {
            std::thread::sleep(Duration::from_micros(d));
        }
    }
}

const LONG: Duration = Duration::from_secs(3600);

impl FileSystem for TinyFs {
    type Inode = u64;
    type Handle = u64;

    fn init(&self, _capable: FsOptions) -> io::Result<FsOptions> {
        Ok(FsOptions::empty())
    }
    fn lookup(&self, _ctx: &Context, parent: u64, name: &CStr) -> io::Result<Entry> {
        self.pause();
        let n = name.to_bytes();
        if parent != 1 || n.len() < 2 || n[0] != b'f' {
            return Err(io::Error::from_raw_os_error(libc::ENOENT));
        }
        let idx: u64 = std::str::from_utf8(&n[1..])
            .ok()
            .and_then(|s| s.parse().ok())
            .ok_or_else(|| io::Error::from_raw_os_error(libc::ENOENT))?;
        Ok(Entry {
            inode: idx + 2,
            generation: 0,
            attr: Self::attr(idx + 2),
            attr_flags: 0,
            attr_timeout: LONG,
            entry_timeout: LONG,
        })
    }
    fn getattr(&self, _ctx: &Context, inode: u64, _h: Option<u64>) -> io::Result<(stat64, Duration)> {
        self.pause();
        Ok((Self::attr(inode), LONG))
    }
    fn open(&self, _ctx: &Context, _inode: u64, _flags: u32, _ff: u32) -> io::Result<(Option<u64>, OpenOptions, Option<u32>)> {
        Ok((Some(7), OpenOptions::empty(), None))
    }
    fn read(
        &self,
        _ctx: &Context,
        inode: u64,
        _handle: u64,
        w: &mut dyn ZeroCopyWriter,
        size: u32,
        offset: u64,
        _lock_owner: Option<u64>,
        _flags: u32,
    ) -> io::Result<usize> {
        self.pause();
        let c = Self::content(inode);
        let off = (offset as usize).min(c.len());
        let end = (off + size as usize).min(c.len());
        w.write(&c[off..end])
    }
    fn release(&self, _ctx: &Context, _inode: u64, _flags: u32, _handle: u64, _flush: bool, _fr: bool, _lo: Option<u64>) -> io::Result<()> {
        Ok(())
    }
    fn access(&self, _ctx: &Context, _inode: u64, _mask: u32) -> io::Result<()> {
        Ok(())
    }
}

// ------------------------------------------------------------------------------------------------
// /proc and /sys helpers

fn gettid() -> i64 {
    unsafe { libc::syscall(libc::SYS_gettid) as i64 }
}

/// (state letter, syscall number or -1) of a thread of this process
fn thread_state(tid: i64) -> (char, i64) {
    let st = std::fs::read_to_string(format!("/proc/self/task/{tid}/stat")).unwrap_or_default();
    // pid (comm) S ...
    let state = st.rfind(')').and_then(|p| st[p + 1..].trim_start().chars().next()).unwrap_or('?');
    let sc = std::fs::read_to_string(format!("/proc/self/task/{tid}/syscall")).unwrap_or_default();
    let nr = sc.split_whitespace().next().and_then(|s| s.parse::<i64>().ok()).unwrap_or(-1);
    (state, nr)
}

const SYS_EPOLL: [i64; 3] = [232, 281, 441]; // epoll_wait, epoll_pwait, epoll_pwait2

/// the thread sleeps inside one of the given system calls on three samples in a row
fn sleeping_in(tid: i64, calls: &[i64], allow_d: bool) -> bool {
    for i in 0..3 {
        let (s, nr) = thread_state(tid);
        let asleep = s == 'S' || (allow_d && s == 'D');
        if !(asleep && calls.contains(&nr)) {
            return false;
        }
        if i < 2 {
            std::thread::sleep(Duration::from_millis(8));
        }
    }
    true
}

/// the thread waits for a FUSE answer (or for INIT) inside the kernel, on three samples in a row. Sleeping anywhere
/// else in the kernel (e.g. the teardown of a superblock at the end of the system call) is not "blocked".
fn waiting_for_fuse(tid: i64) -> bool {
    for i in 0..3 {
        let (s, _) = thread_state(tid);
        let wchan = std::fs::read_to_string(format!("/proc/self/task/{tid}/wchan")).unwrap_or_default();
        if !((s == 'S' || s == 'D') && (wchan.contains("fuse_get_req") || wchan.contains("request_wait_answer"))) {
            return false;
        }
        if i < 2 {
            std::thread::sleep(Duration::from_millis(8));
        }
    }
    true
}

#[derive(Default, Clone, Copy, PartialEq, Debug)]
struct FdCount {
    fuse: i64,
    event: i64,
    epoll: i64,
}

fn fd_count() -> FdCount {
    let mut c = FdCount::default();
    if let Ok(rd) = std::fs::read_dir("/proc/self/fd") {
        for e in rd.flatten() {
            if let Ok(t) = std::fs::read_link(e.path()) {
                let t = t.to_string_lossy().to_string();
                if t == "/dev/fuse" {
                    c.fuse += 1;
                } else if t == "anon_inode:[eventfd]" {
                    c.event += 1;
                } else if t == "anon_inode:[eventpoll]" {
                    c.epoll += 1;
                }
            }
        }
    }
    c
}

/// mounts whose mount point is `mp` (or below `mp` when `below`): (mount point, fstype, minor of the device)
fn mounts_at(mp: &Path, below: bool) -> Vec<(String, String, u32)> {
    let mut v = Vec::new();
    let want = mp.to_string_lossy().to_string();
    let txt = std::fs::read_to_string("/proc/self/mountinfo").unwrap_or_default();
    for line in txt.lines() {
        let f: Vec<&str> = line.split(' ').collect();
        if f.len() < 10 {
            continue;
        }
        let point = f[4].replace("\\040", " ");
        let hit = if below { point == want || point.starts_with(&(want.clone() + "/")) } else { point == want };
        if !hit {
            continue;
        }
        let minor = f[2].split(':').nth(1).and_then(|s| s.parse().ok()).unwrap_or(0);
        let sep = f.iter().position(|x| *x == "-").unwrap_or(f.len() - 1);
        let fstype = f.get(sep + 1).unwrap_or(&"").to_string();
        v.push((point, fstype, minor));
    }
    v
}

static CTL_DIR: Mutex<Option<PathBuf>> = Mutex::new(None);

/// the fusectl filesystem: /sys/fs/fuse/connections if it is mounted there, else a private mount below the work dir
fn ensure_ctl(dir: &Path) {
    let sys = PathBuf::from("/sys/fs/fuse/connections");
    let txt = std::fs::read_to_string("/proc/self/mountinfo").unwrap_or_default();
    if txt.lines().any(|l| l.split(' ').nth(4) == Some("/sys/fs/fuse/connections")) {
        *CTL_DIR.lock().unwrap() = Some(sys);
        return;
    }
    let ctl = dir.join("ctl");
    std::fs::create_dir_all(&ctl).ok();
    if !mounts_at(&ctl, false).is_empty() {
        *CTL_DIR.lock().unwrap() = Some(ctl);
        return;
    }
    let src = CString::new("fusectl").unwrap();
    let tgt = CString::new(ctl.to_string_lossy().as_bytes()).unwrap();
    let r = unsafe { libc::mount(src.as_ptr(), tgt.as_ptr(), src.as_ptr(), 0, std::ptr::null()) };
    if r != 0 {
        env_fail(&format!("cannot mount fusectl at {ctl:?}: {}", io::Error::last_os_error()));
    }
    *CTL_DIR.lock().unwrap() = Some(ctl);
}

fn abort_conn(minor: u32) -> bool {
    let d = CTL_DIR.lock().map(|g| g.clone()).unwrap_or(None).unwrap_or_else(|| PathBuf::from("/sys/fs/fuse/connections"));
    std::fs::write(d.join(format!("{minor}/abort")), b"1").is_ok()
}

fn detach(mp: &str) -> i32 {
    let c = CString::new(mp).unwrap();
    let r = unsafe { libc::umount2(c.as_ptr(), libc::MNT_DETACH) };
    if r == 0 {
        0
    } else {
        io::Error::last_os_error().raw_os_error().unwrap_or(-1)
    }
}

/// abort + detach every fuse mount at or below `dir`; returns how many mounts were removed
fn cleanup_below(dir: &Path) -> usize {
    let mut n = 0;
    for _ in 0..64 {
        let ms: Vec<_> = mounts_at(dir, true).into_iter().filter(|m| m.1 != "fusectl").collect();
        if ms.is_empty() {
            break;
        }
        // top-most first: later lines of mountinfo are mounted later
        for (point, fstype, minor) in ms.iter().rev() {
            if fstype.starts_with("fuse") && fstype != "fusectl" {
                abort_conn(*minor);
            }
            if detach(point) == 0 {
                n += 1;
            }
        }
    }
    n
}

/// the private fusectl mount (if any) goes last
fn cleanup_all(dir: &Path) -> usize {
    let n = cleanup_below(dir);
    let ctl = dir.join("ctl");
    while !mounts_at(&ctl, false).is_empty() {
        if detach(&ctl.to_string_lossy()) != 0 {
            break;
        }
    }
    n
}

static CLEAN_DIR: Mutex<Option<PathBuf>> = Mutex::new(None);

fn emergency_cleanup() {
    let d = CLEAN_DIR.lock().map(|g| g.clone()).unwrap_or(None);
    if let Some(d) = d {
        cleanup_all(&d);
    }
}

fn env_fail(msg: &str) -> ! {
    eprintln!("session: environment unusable: {msg}");
    emergency_cleanup();
    std::process::exit(3);
}

fn install_guards(dir: &Path, limit_s: u64) {
    *CLEAN_DIR.lock().unwrap() = Some(dir.to_path_buf());
    cleanup_below(dir);
    ensure_ctl(dir);
    let prev = std::panic::take_hook();
    std::panic::set_hook(Box::new(move |info| {
        // panics inside catch_unwind (code under test) are data; the hook only prints when asked to
        if std::env::var("SESSION_PANIC_MSG").is_ok() {
            prev(info);
        }
    }));
    std::thread::spawn(move || {
        std::thread::sleep(Duration::from_secs(limit_s));
        eprintln!("session: global time limit of {limit_s}s reached");
        emergency_cleanup();
        std::process::exit(3);
    });
}

// ------------------------------------------------------------------------------------------------
// error strings -> model tokens (a table; the raw string is logged next to the token)

fn err_class(msg: &str) -> &'static str {
    const TABLE: &[(&str, &str)] = &[
        ("fuse session failure: invalid fuse session", "invalid-session"),
        ("fuse session failure: fuse session file doesn't exist", "no-fuse-file"),
        ("fuse session failure: invalid mountpoint", "invalid-mountpoint"),
        ("fuse session failure: failed to umount", "umount-failed"),
        ("fuse session failure: failed to mount", "mount-failed"),
        ("fuse session failure: stat ", "stat-mountpoint"),
        ("fuse session failure: read new request: ECONNABORTED", "read-ECONNABORTED"),
        ("fuse session failure: read new request", "read-failed"),
        ("fuse session failure: epoll wait", "epoll-failed"),
        ("fuse session failure: failed to clone fuse file", "clone-failed"),
        ("fuse session failure: open /dev/fuse", "open-dev-fuse"),
        ("fuse session failure: dup fd", "dup-failed"),
    ];
    for (p, c) in TABLE {
        if msg.starts_with(p) {
            return c;
        }
    }
    if msg.starts_with("fuse session failure: ") && msg.ends_with("is not a directory") {
        return "not-a-directory";
    }
    "other"
}

fn res_unit<E: std::fmt::Display>(r: std::thread::Result<Result<(), E>>) -> Value {
    match r {
        Ok(Ok(())) => json!({"res": "ok"}),
        Ok(Err(e)) => {
            let m = e.to_string();
            json!({"res": "err", "cls": err_class(&m), "msg": m})
        }
        Err(_) => json!({"res": "panic"}),
    }
}

fn merge(mut a: Value, b: Value) -> Value {
    if let (Some(x), Some(y)) = (a.as_object_mut(), b.as_object()) {
        for (k, v) in y {
            x.insert(k.clone(), v.clone());
        }
    }
    a
}

// ------------------------------------------------------------------------------------------------
// one get_request + handle_message on a channel, reported as raw data

fn header_of(r: &fuse_backend_rs::transport::Reader<'_>) -> (u32, u32, u64, u64) {
    let mut c = r.clone();
    let mut h = [0u8; 40];
    let mut got = 0;
    while got < 40 {
        match io::Read::read(&mut c, &mut h[got..]) {
            Ok(0) | Err(_) => break,
            Ok(n) => got += n,
        }
    }
    let len = u32::from_le_bytes(h[0..4].try_into().unwrap());
    let opc = u32::from_le_bytes(h[4..8].try_into().unwrap());
    let unique = u64::from_le_bytes(h[8..16].try_into().unwrap());
    let nodeid = u64::from_le_bytes(h[16..24].try_into().unwrap());
    (len, opc, unique, nodeid)
}

/// get_request; `on_some` is called between the request being returned and the reply being produced
fn serve_one(ch: &mut FuseChannel, server: &Server<Arc<TinyFs>>, mut on_some: impl FnMut(&Value)) -> Value {
    let r = catch_unwind(AssertUnwindSafe(|| match ch.get_request() {
        Ok(Some((reader, writer))) => {
            let avail = reader.available_bytes();
            let (hlen, opc, unique, nodeid) = header_of(&reader);
            let got = json!({"res": "some", "len": avail, "hlen": hlen, "opc": opc, "unique": unique.to_string(), "node": nodeid.to_string()});
            on_some(&got);
            let hm = catch_unwind(AssertUnwindSafe(|| server.handle_message(reader, writer.into(), None, None)));
            let hmv = match hm {
                Ok(Ok(n)) => json!({"hm": "ok", "hmn": n}),
                Ok(Err(e)) => json!({"hm": "err", "hmmsg": format!("{e:?}")}),
                Err(_) => json!({"hm": "panic"}),
            };
            merge(got, hmv)
        }
        Ok(None) => json!({"res": "none"}),
        Err(e) => {
            let m = e.to_string();
            json!({"res": "err", "cls": err_class(&m), "msg": m})
        }
    }));
    r.unwrap_or_else(|_| json!({"res": "panic"}))
}

// ------------------------------------------------------------------------------------------------
// hang watchdog for calls made on the main thread: a call into the library that is still asleep in the kernel
// after the grace period is released by aborting every fuse connection below the work directory; the fact is logged
// with the call ("hung": true) and judged by TLC.

static OP_START_MS: AtomicU64 = AtomicU64::new(0); // 0 = no library call in progress
static OP_HUNG: AtomicBool = AtomicBool::new(false);
static WORKER_TIDS: Mutex<Vec<i64>> = Mutex::new(Vec::new());
static CONN_MINORS: Mutex<Vec<u32>> = Mutex::new(Vec::new());

fn now_ms() -> u64 {
    static T0: Mutex<Option<Instant>> = Mutex::new(None);
    let mut g = T0.lock().unwrap();
    let t0 = *g.get_or_insert_with(Instant::now);
    t0.elapsed().as_millis() as u64 + 1
}

fn start_hang_watchdog(dir: PathBuf, main_tid: i64, grace_ms: u64) {
    std::thread::spawn(move || loop {
        std::thread::sleep(Duration::from_millis(50));
        let st = OP_START_MS.load(Ordering::SeqCst);
        if st == 0 || now_ms() < st + grace_ms {
            continue;
        }
        // a deadlock, not a slow machine: on three samples the calling thread sleeps in a FUSE wait of the kernel
        // (fuse_get_req: connection not initialised; request_wait_answer: no answer yet) and every channel thread
        // is asleep too (idle or inside epoll_wait), so nobody is going to answer
        let mut asleep = true;
        for _ in 0..3 {
            let (s, _) = thread_state(main_tid);
            let wchan = std::fs::read_to_string(format!("/proc/self/task/{main_tid}/wchan")).unwrap_or_default();
            let in_fuse = wchan.contains("fuse") || wchan.contains("request_wait_answer");
            let workers: Vec<i64> = WORKER_TIDS.lock().map(|g| g.clone()).unwrap_or_default();
            let others_asleep = workers.iter().all(|t| {
                let (ws, _) = thread_state(*t);
                ws == 'S' || ws == '?'
            });
            if !((s == 'S' || s == 'D') && in_fuse && others_asleep) {
                asleep = false;
                break;
            }
            std::thread::sleep(Duration::from_millis(10));
        }
        if asleep && OP_START_MS.load(Ordering::SeqCst) == st {
            OP_HUNG.store(true, Ordering::SeqCst);
            // every connection of the running history (also lazily detached ones), then whatever is mounted
            for m in CONN_MINORS.lock().map(|g| g.clone()).unwrap_or_default() {
                abort_conn(m);
            }
            for m in mounts_at(&dir, true) {
                if m.1.starts_with("fuse") && m.1 != "fusectl" {
                    abort_conn(m.2);
                }
            }
            // wait for the call to come back before looking again
            let t0 = Instant::now();
            while OP_START_MS.load(Ordering::SeqCst) == st && t0.elapsed() < Duration::from_secs(30) {
                std::thread::sleep(Duration::from_millis(20));
            }
        }
    });
}

/// run a call into the library under the hang watchdog
fn guarded<T>(f: impl FnOnce() -> T) -> T {
    OP_START_MS.store(now_ms(), Ordering::SeqCst);
    let r = f();
    OP_START_MS.store(0, Ordering::SeqCst);
    r
}

// ------------------------------------------------------------------------------------------------
// sequential histories

enum Cmd {
    Gr,
    Drop,
}

struct Worker {
    tx: Sender<Cmd>,
    rx: Receiver<Value>,
    tid: i64,
    busy: bool,
    join: Option<std::thread::JoinHandle<()>>,
}

fn spawn_worker(ch: FuseChannel, server: Arc<Server<Arc<TinyFs>>>) -> Worker {
    let (tx, crx) = channel::<Cmd>();
    let (rtx, rx) = channel::<Value>();
    let (ttx, trx) = channel::<i64>();
    let join = std::thread::spawn(move || {
        ttx.send(gettid()).ok();
        let mut ch = ch;
        while let Ok(c) = crx.recv() {
            match c {
                Cmd::Gr => {
                    let v = serve_one(&mut ch, &server, |_| {});
                    if rtx.send(v).is_err() {
                        break;
                    }
                }
                Cmd::Drop => break,
            }
        }
        drop(ch);
        rtx.send(json!({"dropped": true})).ok();
    });
    let tid = trx.recv().unwrap_or(0);
    WORKER_TIDS.lock().unwrap().push(tid);
    Worker { tx, rx, tid, busy: false, join: Some(join) }
}

struct Client {
    rx: Receiver<Value>,
    tid: i64,
}

fn spawn_client(mp: PathBuf) -> Client {
    let (rtx, rx) = channel::<Value>();
    let (ttx, trx) = channel::<i64>();
    std::thread::spawn(move || {
        ttx.send(gettid()).ok();
        let c = CString::new(mp.to_string_lossy().as_bytes()).unwrap();
        let mut st: libc::statfs = unsafe { std::mem::zeroed() };
        let r = unsafe { libc::statfs(c.as_ptr(), &mut st) };
        let v = if r == 0 {
            json!({"res": if st.f_type as i64 == 0x65735546 { "ok-fuse" } else { "ok-other" }})
        } else {
            json!({"res": "err", "errno": io::Error::last_os_error().raw_os_error().unwrap_or(0)})
        };
        rtx.send(v).ok();
    });
    let tid = trx.recv().unwrap_or(0);
    Client { rx, tid }
}

struct SeqWorld {
    mp: PathBuf,
    server: Arc<Server<Arc<TinyFs>>>,
    ses: Option<FuseSession>,
    workers: std::collections::BTreeMap<i64, Worker>,
    clone: Option<std::fs::File>,
    client: Option<Client>,
    conns: Vec<u32>, // device minors of the connections this history created, in mount order
    base: FdCount,
    leaked_threads: usize,
}

impl SeqWorld {
    fn state(&self) -> Value {
        let c = fd_count();
        let ms = mounts_at(&self.mp, false);
        json!({"nfuse": c.fuse - self.base.fuse, "nevent": c.event - self.base.event, "nepoll": c.epoll - self.base.epoll,
               "nmount": ms.len(), "nfusemount": ms.iter().filter(|m| m.1.starts_with("fuse")).count()})
    }

    /// wait until every pending activity has either completed or is provably asleep in the kernel;
    /// returns the completions in the order they were noticed
    fn settle(&mut self) -> Vec<Value> {
        let mut done = Vec::new();
        let t0 = Instant::now();
        loop {
            let mut unsettled = false;
            // the client first: its completion may kill a lazily detached connection, which releases readers
            if let Some(cl) = &self.client {
                match cl.rx.try_recv() {
                    Ok(v) => {
                        done.push(merge(json!({"e": "done", "what": "cli"}), v));
                        self.client = None;
                    }
                    Err(TryRecvError::Disconnected) => {
                        done.push(json!({"e": "done", "what": "cli", "res": "panic"}));
                        self.client = None;
                    }
                    Err(TryRecvError::Empty) => {
                        if !waiting_for_fuse(cl.tid) {
                            unsettled = true;
                        }
                    }
                }
            }
            let keys: Vec<i64> = self.workers.keys().cloned().collect();
            for c in keys {
                let w = self.workers.get_mut(&c).unwrap();
                if !w.busy {
                    continue;
                }
                match w.rx.try_recv() {
                    Ok(v) => {
                        w.busy = false;
                        done.push(merge(json!({"e": "done", "what": "gr", "c": c}), v));
                        unsettled = true; // a reply may have completed the client
                    }
                    Err(TryRecvError::Disconnected) => {
                        w.busy = false;
                        done.push(json!({"e": "done", "what": "gr", "c": c, "res": "panic"}));
                    }
                    Err(TryRecvError::Empty) => {
                        if !sleeping_in(w.tid, &SYS_EPOLL, false) {
                            unsettled = true;
                        }
                    }
                }
            }
            if !unsettled {
                // the completions of one settling period are concurrent; they are logged in a canonical order:
                // requests handed out, then the client's result, then channels that returned None
                let key = |d: &Value| -> i32 {
                    if d["what"] == "gr" && d["res"] == "some" {
                        0
                    } else if d["what"] == "cli" {
                        1
                    } else {
                        2
                    }
                };
                done.sort_by_key(key);
                return done;
            }
            if t0.elapsed() > Duration::from_secs(20) {
                env_fail("a thread of a sequential history neither finished nor went to sleep within 20 s");
            }
            std::thread::sleep(Duration::from_millis(2));
        }
    }

    fn finish(&mut self) {
        // not part of the model: release everything that may still be blocked, then drop
        for m in &self.conns {
            abort_conn(*m);
        }
        cleanup_below(&self.mp);
        self.clone = None;
        self.ses = None;
        for (_, mut w) in std::mem::take(&mut self.workers) {
            w.tx.send(Cmd::Drop).ok();
            let t0 = Instant::now();
            let j = w.join.take().unwrap();
            while !j.is_finished() && t0.elapsed() < Duration::from_secs(5) {
                std::thread::sleep(Duration::from_millis(2));
            }
            if j.is_finished() {
                j.join().ok();
            } else {
                self.leaked_threads += 1;
            }
        }
        if let Some(cl) = self.client.take() {
            let _ = cl.rx.recv_timeout(Duration::from_secs(5));
        }
        self.conns.clear();
        WORKER_TIDS.lock().unwrap().clear();
        CONN_MINORS.lock().unwrap().clear();
        if !mounts_at(&self.mp, true).is_empty() {
            env_fail("a mount could not be removed after a history");
        }
    }
}

fn run_seq(hist_file: &str, trace_file: &str, dir: &Path) {
    let mp = dir.join("mnt");
    std::fs::create_dir_all(&mp).unwrap();
    let notdir = dir.join("plainfile");
    std::fs::write(&notdir, b"x").unwrap();
    let fs = Arc::new(TinyFs { delay_us: AtomicU64::new(0) });
    let mut tr = Trace::create(trace_file);
    let txt = std::fs::read_to_string(hist_file).expect("history file");
    start_hang_watchdog(dir.to_path_buf(), gettid(), vharness::util::env_u64("SESSION_HANG_MS", 300));
    let mut w = SeqWorld {
        mp: mp.clone(),
        server: Arc::new(Server::new(fs.clone())),
        ses: None,
        workers: Default::default(),
        clone: None,
        client: None,
        conns: vec![],
        base: fd_count(),
        leaked_threads: 0,
    };
    for line in txt.lines().filter(|l| !l.trim().is_empty()) {
        let h: Value = serde_json::from_str(line).expect("history json");
        let hid = h["id"].as_i64().unwrap_or(0);
        // every history gets its own Server: the negotiated state (INIT) belongs to one connection
        w.server = Arc::new(Server::new(fs.clone()));
        w.base = fd_count();
        tr.emit(&json!({"e": "Reset", "h": hid, "sticky": h.get("sticky").cloned().unwrap_or(json!(false))}));
        let ops = h["ops"].as_array().cloned().unwrap_or_default();
        for (i, op) in ops.iter().enumerate() {
            let name = op["op"].as_str().unwrap_or("");
            let c = op["c"].as_i64().unwrap_or(0);
            let mut ev = json!({"e": "op", "i": i + 1, "op": name, "c": c});
            let res: Value = match name {
                "new" => {
                    let kind = op["kind"].as_str().unwrap_or("dir");
                    ev["kind"] = json!(kind);
                    let p = match kind {
                        "dir" => mp.clone(),
                        "file" => notdir.clone(),
                        _ => dir.join("does-not-exist"),
                    };
                    match guarded(|| catch_unwind(AssertUnwindSafe(|| FuseSession::new(&p, "x03", "", false)))) {
                        Ok(Ok(s)) => {
                            w.ses = Some(s);
                            json!({"res": "ok"})
                        }
                        Ok(Err(e)) => {
                            let m = e.to_string();
                            json!({"res": "err", "cls": err_class(&m), "msg": m})
                        }
                        Err(_) => json!({"res": "panic"}),
                    }
                }
                "mount" => {
                    let s = w.ses.as_mut().expect("model: session exists");
                    let r = res_unit(guarded(|| catch_unwind(AssertUnwindSafe(|| s.mount()))));
                    if r["res"] == "ok" {
                        // the connection id is the minor of the top-most mount
                        if let Some(m) = mounts_at(&mp, false).last() {
                            w.conns.push(m.2);
                            CONN_MINORS.lock().unwrap().push(m.2);
                        }
                    } else if r["cls"] == "open-dev-fuse" || r["cls"] == "mount-failed" {
                        env_fail(&format!("mount failed: {}", r["msg"]));
                    }
                    r
                }
                "umount" => {
                    let s = w.ses.as_mut().expect("model: session exists");
                    res_unit(guarded(|| catch_unwind(AssertUnwindSafe(|| s.umount()))))
                }
                "wake" => {
                    let s = w.ses.as_ref().expect("model: session exists");
                    res_unit(guarded(|| catch_unwind(AssertUnwindSafe(|| s.wake()))))
                }
                "bufsize" => {
                    let s = w.ses.as_ref().expect("model: session exists");
                    match catch_unwind(AssertUnwindSafe(|| FuseSession::bufsize(s))) {
                        Ok(n) => json!({"res": "ok", "n": n}),
                        Err(_) => json!({"res": "panic"}),
                    }
                }
                "ww" => {
                    let s = w.ses.as_mut().expect("model: session exists");
                    let mut called = false;
                    let mut avail = 0usize;
                    match catch_unwind(AssertUnwindSafe(|| {
                        s.with_writer(|wr| {
                            called = true;
                            avail = wr.available_bytes();
                        })
                    })) {
                        Ok(()) => json!({"res": if called { "called" } else { "not-called" }, "n": avail}),
                        Err(_) => json!({"res": "panic"}),
                    }
                }
                "tww" => {
                    let s = w.ses.as_mut().expect("model: session exists");
                    let mut avail = 0usize;
                    let r = catch_unwind(AssertUnwindSafe(|| {
                        s.try_with_writer(|wr| -> Result<(), fuse_backend_rs::transport::Error> {
                            avail = wr.available_bytes();
                            Ok(())
                        })
                    }));
                    merge(res_unit(r), json!({"n": avail}))
                }
                "nc" => {
                    let s = w.ses.as_ref().expect("model: session exists");
                    match guarded(|| catch_unwind(AssertUnwindSafe(|| s.new_channel()))) {
                        Ok(Ok(ch)) => {
                            let wk = spawn_worker(ch, w.server.clone());
                            w.workers.insert(c, wk);
                            json!({"res": "ok"})
                        }
                        Ok(Err(e)) => {
                            let m = e.to_string();
                            json!({"res": "err", "cls": err_class(&m), "msg": m})
                        }
                        Err(_) => json!({"res": "panic"}),
                    }
                }
                "dc" => {
                    let mut wk = w.workers.remove(&c).expect("model: channel exists");
                    assert!(!wk.busy, "model: channel not blocked");
                    wk.tx.send(Cmd::Drop).ok();
                    let _ = wk.rx.recv_timeout(Duration::from_secs(10));
                    wk.join.take().map(|j| j.join());
                    json!({"res": "ok"})
                }
                "gr" => {
                    let wk = w.workers.get_mut(&c).expect("model: channel exists");
                    assert!(!wk.busy, "model: channel not blocked");
                    wk.tx.send(Cmd::Gr).ok();
                    wk.busy = true;
                    json!({"res": "started"})
                }
                "clone" => {
                    let s = w.ses.as_ref().expect("model: session exists");
                    match guarded(|| catch_unwind(AssertUnwindSafe(|| s.clone_fuse_file()))) {
                        Ok(Ok(f)) => {
                            w.clone = Some(f);
                            json!({"res": "ok"})
                        }
                        Ok(Err(e)) => {
                            let m = e.to_string();
                            json!({"res": "err", "cls": err_class(&m), "msg": m})
                        }
                        Err(_) => json!({"res": "panic"}),
                    }
                }
                "setf" => {
                    let s = w.ses.as_mut().expect("model: session exists");
                    let f = w.clone.take().expect("model: clone exists");
                    match guarded(|| catch_unwind(AssertUnwindSafe(|| s.set_fuse_file(f)))) {
                        Ok(()) => json!({"res": "ok"}),
                        Err(_) => json!({"res": "panic"}),
                    }
                }
                "dclone" => {
                    w.clone = None;
                    json!({"res": "ok"})
                }
                "drop" => {
                    let s = w.ses.take().expect("model: session exists");
                    match guarded(|| catch_unwind(AssertUnwindSafe(move || drop(s)))) {
                        Ok(()) => json!({"res": "ok"}),
                        Err(_) => json!({"res": "panic"}),
                    }
                }
                "abort" => {
                    // environment: /sys/fs/fuse/connections/<dev>/abort of the k-th connection of this history
                    let k = op["k"].as_i64().unwrap_or(1) as usize;
                    ev["k"] = json!(k);
                    let ok = w.conns.get(k - 1).map(|m| abort_conn(*m)).unwrap_or(false);
                    json!({"res": if ok { "ok" } else { "no-entry" }})
                }
                "cli" => {
                    assert!(w.client.is_none(), "model: one client at a time");
                    w.client = Some(spawn_client(mp.clone()));
                    json!({"res": "started"})
                }
                other => panic!("unknown op {other}"),
            };
            let hung = OP_HUNG.swap(false, Ordering::SeqCst);
            let nmount = mounts_at(&mp, false).len();
            let mut ev = merge(json!({"c": 0, "k": 0, "kind": "", "cls": "", "n": 0}), merge(ev, res));
            ev["hung"] = json!(hung);
            ev["nmount"] = json!(nmount);
            tr.emit(&ev);
            for d in w.settle() {
                tr.emit(&merge(json!({"c": 0, "cls": "", "opc": 0, "unique": "", "len": 0, "hlen": 0, "hm": "", "errno": 0}), d));
            }
            tr.emit(&merge(json!({"e": "st"}), w.state()));
            if std::env::var("SESSION_FLUSH").is_ok() {
                tr.flush();
            }
        }
        w.finish();
        tr.emit(&json!({"e": "End", "h": hid, "leaked_threads": w.leaked_threads}));
        tr.flush();
    }
    tr.flush();
    if w.leaked_threads > 0 {
        eprintln!("session: {} worker thread(s) could not be released", w.leaked_threads);
    }
}

// ------------------------------------------------------------------------------------------------
// probe / cleanup

fn probe(dir: &Path) -> Result<(), String> {
    if !Path::new("/dev/fuse").exists() {
        return Err("/dev/fuse does not exist".into());
    }
    let mp = dir.join("probe-mnt");
    std::fs::create_dir_all(&mp).map_err(|e| e.to_string())?;
    let mut s = FuseSession::new(&mp, "x03probe", "", false).map_err(|e| e.to_string())?;
    s.mount().map_err(|e| format!("mount: {e}"))?;
    let n = mounts_at(&mp, false).len();
    let r = s.umount().map_err(|e| format!("umount: {e}"));
    cleanup_below(dir);
    r?;
    if n != 1 {
        return Err(format!("after mount() the mount table shows {n} mounts at the mountpoint"));
    }
    Ok(())
}

fn main() {
    // a panic of the harness itself (not of the code under test, which is caught where it is called) must not
    // leave mounts behind
    if catch_unwind(real_main).is_err() {
        eprintln!("session: internal error (harness panic)");
        emergency_cleanup();
        std::process::exit(4);
    }
}

fn real_main() {
    let a: Vec<String> = std::env::args().collect();
    let mode = a.get(1).map(|s| s.as_str()).unwrap_or("");
    match mode {
        "probe" => {
            let dir = PathBuf::from(&a[2]);
            std::fs::create_dir_all(&dir).ok();
            let dir = dir.canonicalize().unwrap();
            install_guards(&dir, 60);
            if let Err(e) = probe(&dir) {
                env_fail(&e);
            }
            cleanup_all(&dir);
            println!("probe ok");
        }
        "cleanup" => {
            let dir = PathBuf::from(&a[2]);
            if let Ok(dir) = dir.canonicalize() {
                *CLEAN_DIR.lock().unwrap() = Some(dir.clone());
                ensure_ctl(&dir);
                let n = cleanup_all(&dir);
                println!("cleanup: {n} mount(s) removed");
            }
        }
        "seq" => {
            let dir = PathBuf::from(&a[4]);
            std::fs::create_dir_all(&dir).ok();
            let dir = dir.canonicalize().unwrap();
            install_guards(&dir, vharness::util::env_u64("SESSION_LIMIT_S", 1500));
            run_seq(&a[2], &a[3], &dir);
            cleanup_all(&dir);
        }
        "conc" => {
            let dir = PathBuf::from(&a[3]);
            std::fs::create_dir_all(&dir).ok();
            let dir = dir.canonicalize().unwrap();
            install_guards(&dir, vharness::util::env_u64("SESSION_LIMIT_S", 1500));
            let seed: u64 = a[4].parse().unwrap();
            let runs: usize = a[5].parse().unwrap();
            let wd_ms: u64 = a.get(6).and_then(|s| s.parse().ok()).unwrap_or(3000);
            conc::run(&a[2], &dir, seed, runs, wd_ms);
            cleanup_all(&dir);
        }
        _ => {
            eprintln!("usage: session probe|cleanup|seq|conc ...");
            std::process::exit(3);
        }
    }
}

mod conc {
    use super::*;
    pub fn run(_trace: &str, _dir: &Path, _seed: u64, _runs: usize, _wd_ms: u64) {
        let _ = (Rng::new(1), AtomicBool::new(false));
        unimplemented!()
    }
}
