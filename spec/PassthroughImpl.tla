------------------------------ MODULE PassthroughImpl ------------------------------
(* I level of C05 / C06 / C18: how src/passthrough resolves inode numbers to host files and which
   system calls of HostFs it issues, request by request.  The module transcribes the code as it is
   now (/repo after 398331f, 8a1d8ff, 40f7e54, be556e3, a15b2a9):

     do_lookup          ".." at inode 1 rewritten to "."; the slash test of lookup(); one
                        openat(O_PATH|O_NOFOLLOW) of a single component; inode table keyed by host file
     mutators           validate_path_component (".", "..", "/") first; the directory file is obtained BEFORE
                        the credentials are switched (mkdir, mknod, symlink, create)
     create             two steps: openat(O_CREAT|O_EXCL); on EEXIST (no O_EXCL asked): sealed + O_TRUNC refused,
                        lookup, EISDIR for a directory, open_inode_as (O_PATH file as root, re-open through /proc
                        as the caller), attributes re-read after a truncating open; the lookup reference is
                        given back when the second step fails
     open_inode         is_safe_inode gate (type remembered at lookup), get_writeback_open_flags, re-open by reference;
                        do_open refuses O_TRUNC on a sealed export
     read/write         get_data (handle, or a transient open in no_open mode), check_fd_flags: F_SETFL with the
                        request's flags when they differ from the remembered ones; sealed: O_APPEND refused,
                        seal_size_check; early returns leave the handle's descriptor alone
     setattr            SIZE refused when sealed; ftruncate through the handle or a transient O_RDWR open
     fallocate          seal_size_check mode table

   AsFound (a set of names, empty in every configuration that counts as evidence) switches the code as it
   was found back on, one defect per name; the anti-vacuity configurations MC_Pt_asfound_*.cfg must
   find the old violations again:
     "fd-close"          a WRITE refused by seal_size_check closes the handle's descriptor        (398331f)
     "seal-holes"        O_APPEND writes and O_TRUNC opens/creates are not refused when sealed     (8a1d8ff)
     "ifh-creds"         inode_file_handles: directory/inode file opened inside the credentials scope (40f7e54)
     "create-dir"        create of an existing directory opens the directory                       (be556e3)
     "create-stale-attr" create(O_TRUNC) replies with the attributes read before the truncation    (a15b2a9)
     "seeded:nofollow"   NOT a finding: O_NOFOLLOW lost in the lookup (seeded defect, anti-vacuity of C06)
     "seeded:destroy-unseals"  NOT a finding: destroy() resets the sealing switch and init() does not set it again
     "seeded:root-keeps-group"  NOT a finding: set_creds does not switch the group for a caller with uid 0
     "seeded:wb-append"  NOT a finding: the sealed refusal of O_APPEND writes is skipped under writeback
     "seeded:batch-root" NOT a finding: BATCH_FORGET naming the root removes the root from the inode table

   DESTROY + INIT on the same object (PtRemount): handles and inodes are dropped, the root is imported again, the
   switches that come from the configuration (sealing: `sw`) stay as configured -- SwitchesOK.

   References: the model gives every reference slot of the client its own O_PATH entry in S.of (the code
   keeps one descriptor per inode and a count -- the same thing for the environment).  The A level
   (Passthrough!Expect) is evaluated on the same pre-state; `bad` collects the A-level obligations a step
   breaks.  `taint` (DESIGN 2.3 item 5) is kept for findings recorded instead of repaired: none at present. *)
EXTENDS Passthrough, Json

CONSTANTS PlainNames,     \* names used for lookups and new objects
          HostileNames,   \* set of [s, k] : adversarial names with their kind
          MaxOps, MaxIno,
          Cfg,            \* [seal, no_open, ifh, wb]
          Mode,           \* "c05" | "c06" | "c18": which requests are generated
          AsFound,        \* set of as-found defects switched back on (see above); {} = the code as it is
          InitS,          \* initial HostFs state: inode 1 = directory holding the export, inode 2 = the export
          ScenCfg, ScenTree  \* configuration and initial export content in the harness' scenario format (exported with every history)

VARIABLES S,       \* HostFs state
          slots,   \* reference slots of the client: sequence of fuse inode numbers (0 = empty slot); slot k = slots[k + 1]
          hslots,  \* handle slots: sequence of handle numbers (0 = empty)
          itab,    \* inode table: [fuse ino -> [i: host file, t: type seen at lookup, ref]]
          htab,    \* handle table: [handle -> [ino, flags: remembered request flags]]
          nexti, nexth,
          size0,   \* sizes of the pre-existing regular files
          sw,      \* run-time switches the code consults: [seal] (set from the configuration when the object is built)
          taint,   \* known findings this history went through
          bad,     \* A-level obligations broken by an untainted history
          nops, hist, last
vars == <<S, slots, hslots, itab, htab, nexti, nexth, size0, sw, taint, bad, nops, hist, last>>
View == <<S, slots, hslots, itab, htab, nexti, nexth, sw, taint, bad, nops>>

Export == 2
X == [root |-> Export, no_open |-> Cfg.no_open, no_opendir |-> FALSE, xattr |-> TRUE, big |-> {}, wb |-> Cfg.wb]
FlOrder == <<"WR", "RDWR", "APPEND", "TRUNC", "EXCL">>
FlSeq(fs) == SelectSeq(FlOrder, LAMBDA f : f \in fs)
FlNum(fs) == (IF "WR" \in fs THEN 1 ELSE 0) + (IF "RDWR" \in fs THEN 2 ELSE 0) + (IF "APPEND" \in fs THEN 1024 ELSE 0)
             + (IF "TRUNC" \in fs THEN 512 ELSE 0) + (IF "EXCL" \in fs THEN 128 ELSE 0)
FmOrder == <<"KEEP", "PUNCH", "COLLAPSE", "ZERO", "INSERT">>
FmSeq(ms) == SelectSeq(FmOrder, LAMBDA f : f \in ms)
FmNum(ms) == (IF "KEEP" \in ms THEN 1 ELSE 0) + (IF "PUNCH" \in ms THEN 2 ELSE 0) + (IF "COLLAPSE" \in ms THEN 8 ELSE 0)
             + (IF "ZERO" \in ms THEN 16 ELSE 0) + (IF "INSERT" \in ms THEN 32 ELSE 0)
FreshId(T) == CHOOSE i \in 1..MaxIno : i \notin Ids(T) /\ \A j \in 1..(i - 1) : j \in Ids(T)
HasFresh(T) == \E i \in 1..MaxIno : i \notin Ids(T)
ErrOf(r) == IF r.errs = {} THEN "EGEN" ELSE CHOOSE x \in r.errs : TRUE
NSlot == Len(slots)            \* number of the next reference slot (slot 0 is the root)
HSlot == Len(hslots)
SlotIno(k) == IF k >= 0 /\ k < Len(slots) THEN slots[k + 1] ELSE 0
SlotH(j) == IF j >= 0 /\ j < Len(hslots) THEN hslots[j + 1] ELSE 0
Res(st, ret) == [st |-> st, ret |-> ret]

(* ---------------- code-shaped helpers ---------------- *)
IsSafeType(t) == t \in {"reg", "dir"}
\* get_writeback_open_flags
WbFlags(fl) == IF ~Cfg.wb THEN fl ELSE
  (IF "WR" \in fl THEN (fl \ {"WR"}) \cup {"RDWR"} ELSE fl) \ {"APPEND"}
\* do_lookup on the host: returns [ok, st, T, itab, nexti, ino, id]
DoLookup(T, it, nx, pino, name, nk, slot) ==
  LET k == IF pino = 1 /\ nk = "dotdot" THEN "dot" ELSE nk IN
  IF pino \notin DOMAIN it THEN [ok |-> FALSE, st |-> "EBADF", T |-> T, itab |-> it, nexti |-> nx, ino |-> 0, id |-> 0]
  ELSE LET r0 == Lookup(T, it[pino].i, name, k)
           \* seeded defect: without O_NOFOLLOW a symlink found under the name is followed
           w == IF "seeded:nofollow" \in AsFound /\ r0.ok /\ T.ino[r0.ret.id].t = "lnk"
                THEN Walk(T, 1, it[pino].i, T.ino[r0.ret.id].tgt, FALSE, 8) ELSE [ok |-> FALSE, i |-> 0]
           r == IF w.ok THEN Succ(T, [id |-> w.i]) ELSE r0 IN
    IF ~r.ok THEN [ok |-> FALSE, st |-> ErrOf(r), T |-> T, itab |-> it, nexti |-> nx, ino |-> 0, id |-> 0]
    ELSE LET id == r.ret.id
             known == {n \in DOMAIN it : it[n].i = id}
             n == IF known # {} THEN CHOOSE x \in known : TRUE ELSE nx
             it2 == IF known # {} THEN [it EXCEPT ![n].ref = @ + 1] ELSE (n :> [i |-> id, t |-> T.ino[id].t, ref |-> 1]) @@ it
         IN [ok |-> TRUE, st |-> "OK", T |-> OpenPath(T, id, slot), itab |-> it2, nexti |-> IF known # {} THEN nx ELSE nx + 1, ino |-> n, id |-> id]
\* open_inode: gate on the remembered type, flag rewriting, re-open by reference (as credentials c)
OpenInode(T, it, ino, c, fl, key) ==
  IF ino \notin DOMAIN it THEN Fail(T, {"EBADF"})
  ELSE IF ~IsSafeType(it[ino].t) THEN Fail(T, {"EBADF"})
  ELSE IF "ifh-creds" \in AsFound /\ Cfg.ifh /\ c.uid # 0 THEN Fail(T, {"EPERM"})   \* as found: open_by_handle_at inside set_creds
  ELSE OpenIno(T, c, it[ino].i, WbFlags(fl) \ {"CREAT"}, key)

(* ---------------- finishing a step: compare with the A level ---------------- *)
\* findings recorded instead of repaired (taint): none at present -- every finding of this engine is fixed in /repo
KnownOf(q, got) == {}
\* `cur`: size of the addressed regular file before the request (for the sealing class)
CurOf(q) ==
  IF "h" \in DOMAIN q /\ q.h >= 0 /\ HasHandle(S, q.h) THEN SizeOf(S.ino[IdOf(S, HKey(q.h))])
  ELSE IF "n" \in DOMAIN q /\ HasRef(S, q.n) /\ S.ino[IdOf(S, q.n)].t = "reg" THEN SizeOf(S.ino[IdOf(S, q.n)])
  ELSE 0
Broken(q, got, T2, e) ==
  LET gated == "nk" \in DOMAIN q /\ q.op \in NameTakers /\ (GatedName(q.nk, q.op = "lookup") \/ ("nk2" \in DOMAIN q /\ GatedName(q.nk2, FALSE)))
      stOK == IF e.kind = "gate" THEN got.st # "OK" /\ (e.errs = {} \/ got.st \in e.errs)
              ELSE IF e.ok THEN got.st = "OK" ELSE got.st # "OK" /\ (Cardinality(e.errs) # 1 \/ got.st \in e.errs)
      mirror == e.kind = "noslot" \/ (stOK /\ T2 = e.S /\ (~e.ok \/ got.ret = e.ret))
      neutral == Neutral(q, CurOf(q))
  IN (IF ~Cfg.seal /\ ~mirror THEN {"mirror"} ELSE {})
     \cup (IF gated /\ e.kind # "noslot" /\ ~(got.st = "EINVAL" /\ T2 = S) THEN {"namegate"} ELSE {})
     \cup (IF Cfg.seal /\ neutral /\ ~mirror THEN {"seal-neutral"} ELSE {})
     \cup (IF Cfg.seal /\ ~neutral /\ got.st # "OK" /\ [ino |-> T2.ino, dent |-> T2.dent] # [ino |-> S.ino, dent |-> S.dent] THEN {"seal-refused-effect"} ELSE {})
Fin(q, got, T2, it2, ht2, nx, nh, entry, handle, ino, h) ==
  LET e == Expect(S, X, q, NSlot, HSlot, IF HasFresh(S) THEN FreshId(S) ELSE 0)
      kf == KnownOf(q, got)
      t2 == taint \cup kf
  IN /\ S' = T2 /\ itab' = it2 /\ htab' = ht2 /\ nexti' = nx /\ nexth' = nh
     /\ slots' = IF entry THEN Append(slots, ino) ELSE slots
     /\ hslots' = IF handle THEN Append(hslots, h) ELSE hslots
     /\ taint' = t2
     /\ bad' = IF t2 = {} THEN bad \cup Broken(q, got, T2, e) ELSE bad
     /\ last' = [q |-> q, got |-> got, exp |-> [kind |-> e.kind, ok |-> e.ok, errs |-> e.errs, ret |-> e.ret], same |-> T2 = e.S]
     /\ hist' = Append(hist, q @@ [st |-> got.st])
     /\ nops' = nops + 1
     /\ UNCHANGED <<size0, sw>>
Keep(q, got) == Fin(q, got, S, itab, htab, nexti, nexth, q.op \in {"lookup", "mkdir", "mknod", "symlink", "create", "link"}, q.op \in {"open"} \/ (q.op = "create" /\ ~Cfg.no_open), 0, 0)

(* ---------------- requests ---------------- *)
NameArgs(nm) == [name |-> nm.s, nk |-> nm.k]
PtLookup(ps, nm) ==
  LET q == [op |-> "lookup", p |-> ps, name |-> nm.s, nk |-> nm.k, uid |-> 0, gid |-> 0] IN
  IF SlotIno(ps) = 0 THEN Keep(q, Res("NOSLOT", NoRet))
  ELSE IF nm.k = "slash" THEN Keep(q, Res("EINVAL", NoRet))
  ELSE LET r == DoLookup(S, itab, nexti, SlotIno(ps), nm.s, nm.k, NSlot) IN
       IF ~r.ok THEN Keep(q, Res(r.st, NoRet))
       ELSE Fin(q, Res("OK", Attr(r.T, r.id)), r.T, r.itab, htab, r.nexti, nexth, TRUE, FALSE, r.ino, 0)
ForgetOne(it, ino) == IF it[ino].ref = 1 THEN [n \in DOMAIN it \ {ino} |-> it[n]] ELSE [it EXCEPT ![ino].ref = @ - 1]
PtForget(ns) ==
  LET q == [op |-> "forget", n |-> ns, uid |-> 0, gid |-> 0]  ino == SlotIno(ns) IN
  IF ns = 0 \/ ino = 0 THEN Keep(q, Res("NOSLOT", NoRet))
  ELSE /\ slots' = [slots EXCEPT ![ns + 1] = 0]
       /\ LET e == Expect(S, X, q, NSlot, HSlot, 0)  T2 == Close(S, ns) IN
          /\ S' = T2 /\ itab' = (IF ino = 1 THEN itab ELSE ForgetOne(itab, ino))
          /\ bad' = IF taint = {} /\ T2 # e.S THEN bad \cup {"mirror"} ELSE bad
          /\ last' = [q |-> q, got |-> Res("OK", NoRet), exp |-> [kind |-> e.kind, ok |-> e.ok, errs |-> e.errs, ret |-> e.ret], same |-> T2 = e.S]
       /\ hist' = Append(hist, q @@ [st |-> "OK"]) /\ nops' = nops + 1
       /\ UNCHANGED <<hslots, htab, nexti, nexth, size0, sw, taint>>
\* FORGET / BATCH_FORGET naming the root: forget_one() returns at once for ROOT_ID, whatever the count
PtForgetRoot(count, batch) ==
  LET q == IF batch THEN [op |-> "batch_forget", items |-> <<<<0, count>>>>, uid |-> 0, gid |-> 0] ELSE [op |-> "forget_root", count |-> count, uid |-> 0, gid |-> 0] IN
  IF batch /\ "seeded:batch-root" \in AsFound
  THEN Fin(q, Res("OK", NoRet), S, [n \in DOMAIN itab \ {1} |-> itab[n]], htab, nexti, nexth, FALSE, FALSE, 0, 0)
  ELSE Keep(q, Res("OK", NoRet))
\* DESTROY then INIT: handle_map and inode_map cleared, import() registers the root again; configured switches stay
PtRemount ==
  LET q == [op |-> "remount", uid |-> 0, gid |-> 0]
      e == Expect(S, X, q, NSlot, HSlot, 0)
      T2 == Gc([S EXCEPT !.of = Restrict(S.of, DOMAIN S.of \cap {0})]) IN
  /\ S' = T2
  /\ slots' = [k \in 1..Len(slots) |-> IF k = 1 THEN 1 ELSE 0]
  /\ hslots' = [k \in 1..Len(hslots) |-> 0]
  /\ itab' = (1 :> [i |-> Export, t |-> "dir", ref |-> 2]) /\ htab' = <<>>
  /\ sw' = IF "seeded:destroy-unseals" \in AsFound THEN [sw EXCEPT !.seal = FALSE] ELSE sw
  /\ bad' = IF taint = {} /\ T2 # e.S THEN bad \cup {"mirror"} ELSE bad
  /\ last' = [q |-> q, got |-> Res("OK", NoRet), exp |-> [kind |-> e.kind, ok |-> e.ok, errs |-> e.errs, ret |-> e.ret], same |-> T2 = e.S]
  /\ hist' = Append(hist, q @@ [st |-> "OK"]) /\ nops' = nops + 1
  /\ UNCHANGED <<nexti, nexth, size0, taint>>
\* mkdir / symlink: validate, then (inside the credentials scope) fetch the directory file and call the host
PtMk(ps, nm, kind, cl, tgt) ==
  LET uid == cl[1]  gid == cl[2]
      q == IF kind = "mkdir" THEN [op |-> "mkdir", p |-> ps, name |-> nm.s, nk |-> nm.k, mode |-> 493, umask |-> 0, emode |-> 493, uid |-> uid, gid |-> gid]
           ELSE IF kind = "mknod" THEN [op |-> "mknod", p |-> ps, name |-> nm.s, nk |-> nm.k, type |-> "reg", mode |-> 33188, rdev |-> 0, umask |-> 0, emode |-> 420, uid |-> uid, gid |-> gid]
           ELSE [op |-> "symlink", p |-> ps, name |-> nm.s, nk |-> nm.k, target |-> tgt, tsize |-> Len(tgt), uid |-> uid, gid |-> gid]
      pino == SlotIno(ps)
      \* set_creds: the group is switched for every non-zero gid, the user for every non-zero uid, independently
      c == IF "seeded:root-keeps-group" \in AsFound /\ uid = 0 THEN Root0 ELSE [uid |-> uid, gid |-> gid, groups |-> {}] IN
  IF pino = 0 THEN Keep(q, Res("NOSLOT", NoRet))
  ELSE IF nm.k \in {"slash", "dot", "dotdot"} THEN Keep(q, Res("EINVAL", NoRet))          \* validate_path_component
  ELSE IF pino \notin DOMAIN itab THEN Keep(q, Res("EBADF", NoRet))
  ELSE IF "ifh-creds" \in AsFound /\ Cfg.ifh /\ uid # 0 /\ kind \in {"mkdir", "symlink"} THEN Keep(q, Res("EPERM", NoRet))   \* as found: get_file() inside set_creds
  ELSE IF ~HasFresh(S) THEN Keep(q, Res("ENOSPC", NoRet))
  ELSE LET nid == FreshId(S)
           d == itab[pino].i
           r == IF kind = "mkdir" THEN Mkdir(S, c, d, nm.s, nm.k, 493, nid)
                ELSE IF kind = "mknod" THEN Mknod(S, c, d, nm.s, nm.k, "reg", 420, 0, nid)
                ELSE Symlink(S, c, d, nm.s, nm.k, tgt, Len(tgt), nid) IN
       IF ~r.ok THEN Keep(q, Res(ErrOf(r), NoRet))
       ELSE LET l == DoLookup(r.S, itab, nexti, pino, nm.s, nm.k, NSlot) IN
            IF ~l.ok THEN Fin(q, Res(l.st, NoRet), r.S, itab, htab, nexti, nexth, TRUE, FALSE, 0, 0)
            ELSE Fin(q, Res("OK", Attr(l.T, l.id)), l.T, l.itab, htab, l.nexti, nexth, TRUE, FALSE, l.ino, 0)
PtCreate(ps, nm, fl, cl) ==
  LET uid == cl[1]  gid == cl[2]
      q == [op |-> "create", p |-> ps, name |-> nm.s, nk |-> nm.k, fl |-> FlSeq(fl), flags |-> FlNum(fl), mode |-> 33188, umask |-> 0, emode |-> 420, uid |-> uid, gid |-> gid]
      pino == SlotIno(ps)
      c == IF "seeded:root-keeps-group" \in AsFound /\ uid = 0 THEN Root0 ELSE [uid |-> uid, gid |-> gid, groups |-> {}]
      wantH == ~Cfg.no_open IN
  IF pino = 0 THEN Keep(q, Res("NOSLOT", NoRet))
  ELSE IF nm.k \in {"slash", "dot", "dotdot"} THEN Keep(q, Res("EINVAL", NoRet))
  ELSE IF pino \notin DOMAIN itab THEN Keep(q, Res("EBADF", NoRet))
  ELSE IF ~HasFresh(S) THEN Keep(q, Res("ENOSPC", NoRet))
  ELSE LET nid == FreshId(S)
           d == itab[pino].i
           \* step 1: create_file_excl = openat(O_CREAT | O_EXCL | rewritten flags)
           r1 == OpenCreate(S, c, d, nm.s, nm.k, WbFlags(fl) \cup {"EXCL"}, 420, nid, HKey(HSlot)) IN
       IF r1.ok THEN
            LET l == DoLookup(r1.S, itab, nexti, pino, nm.s, nm.k, NSlot)
                T3 == IF wantH THEN l.T ELSE Close(l.T, HKey(HSlot)) IN
            Fin(q, Res("OK", Attr(T3, l.id)), T3, l.itab, IF wantH THEN (nexth :> [ino |-> l.ino, flags |-> fl]) @@ htab ELSE htab,
                l.nexti, IF wantH THEN nexth + 1 ELSE nexth, TRUE, wantH, l.ino, nexth)
       ELSE IF r1.errs # {"EEXIST"} \/ "EXCL" \in fl THEN Keep(q, Res(ErrOf(r1), NoRet))
       ELSE IF sw.seal /\ "TRUNC" \in fl /\ "seal-holes" \notin AsFound THEN Keep(q, Res("EPERM", NoRet))   \* existing file, sealed: no truncating open
       ELSE \* step 2: the name exists: lookup, EISDIR for a directory, open_inode_as(args.flags, caller)
            LET l == DoLookup(S, itab, nexti, pino, nm.s, nm.k, NSlot) IN
            IF ~l.ok THEN Keep(q, Res(l.st, NoRet))
            ELSE LET o == IF S.ino[l.id].t = "dir" /\ "create-dir" \notin AsFound THEN Fail(l.T, {"EISDIR"})
                          ELSE OpenInode(l.T, l.itab, l.ino, c, fl, HKey(HSlot)) IN
                 IF ~o.ok THEN \* nothing is returned to the client: the reference taken by the lookup is given back (forget_one)
                      Fin(q, Res(ErrOf(o), NoRet), Close(l.T, NSlot), itab, htab, l.nexti, nexth, TRUE, wantH, 0, 0)
                 ELSE LET T3 == IF wantH THEN o.S ELSE Close(o.S, HKey(HSlot))
                          \* the entry was built by do_lookup before the open: re-read after a truncating open
                          at == IF "TRUNC" \in fl /\ "create-stale-attr" \notin AsFound THEN Attr(T3, l.id) ELSE Attr(l.T, l.id) IN
                      Fin(q, Res("OK", at), T3, l.itab, IF wantH THEN (nexth :> [ino |-> l.ino, flags |-> fl]) @@ htab ELSE htab,
                          l.nexti, IF wantH THEN nexth + 1 ELSE nexth, TRUE, wantH, l.ino, nexth)
PtLink(ns, ps, nm) ==
  LET q == [op |-> "link", n |-> ns, p |-> ps, name |-> nm.s, nk |-> nm.k, uid |-> 0, gid |-> 0] IN
  IF SlotIno(ns) = 0 \/ SlotIno(ps) = 0 THEN Keep(q, Res("NOSLOT", NoRet))
  ELSE IF nm.k \in {"slash", "dot", "dotdot"} THEN Keep(q, Res("EINVAL", NoRet))
  ELSE LET r == Link(S, itab[SlotIno(ns)].i, itab[SlotIno(ps)].i, nm.s, nm.k) IN
       IF ~r.ok THEN Keep(q, Res(ErrOf(r), NoRet))
       ELSE LET l == DoLookup(r.S, itab, nexti, SlotIno(ps), nm.s, nm.k, NSlot) IN
            Fin(q, Res("OK", Attr(l.T, l.id)), l.T, l.itab, htab, l.nexti, nexth, TRUE, FALSE, l.ino, 0)
PtRemove(ps, nm, dir) ==
  LET q == [op |-> IF dir THEN "rmdir" ELSE "unlink", p |-> ps, name |-> nm.s, nk |-> nm.k, uid |-> 0, gid |-> 0] IN
  IF SlotIno(ps) = 0 THEN Keep(q, Res("NOSLOT", NoRet))
  ELSE IF nm.k \in {"slash", "dot", "dotdot"} THEN Keep(q, Res("EINVAL", NoRet))
  ELSE LET d == itab[SlotIno(ps)].i
           r == IF dir THEN Rmdir(S, d, nm.s, nm.k) ELSE Unlink(S, d, nm.s, nm.k) IN
       IF ~r.ok THEN Keep(q, Res(ErrOf(r), NoRet))
       ELSE Fin(q, Res("OK", NoRet), r.S, itab, htab, nexti, nexth, FALSE, FALSE, 0, 0)
PtRename(ps, nm, ps2, nm2, rf) ==
  LET q == [op |-> "rename", p |-> ps, name |-> nm.s, nk |-> nm.k, p2 |-> ps2, name2 |-> nm2.s, nk2 |-> nm2.k, rf |-> rf,
            flags |-> IF rf = "NOREPLACE" THEN 1 ELSE IF rf = "EXCHANGE" THEN 2 ELSE 0, uid |-> 0, gid |-> 0] IN
  IF SlotIno(ps) = 0 \/ SlotIno(ps2) = 0 THEN Keep(q, Res("NOSLOT", NoRet))
  ELSE IF nm.k \in {"slash", "dot", "dotdot"} \/ nm2.k \in {"slash", "dot", "dotdot"} THEN Keep(q, Res("EINVAL", NoRet))
  ELSE LET r == Rename(S, itab[SlotIno(ps)].i, nm.s, nm.k, itab[SlotIno(ps2)].i, nm2.s, nm2.k, rf) IN
       IF ~r.ok THEN Keep(q, Res(ErrOf(r), NoRet))
       ELSE Fin(q, Res("OK", NoRet), r.S, itab, htab, nexti, nexth, FALSE, FALSE, 0, 0)
PtOpen(ns, fl) ==
  LET q == [op |-> "open", n |-> ns, fl |-> FlSeq(fl), flags |-> FlNum(fl), uid |-> 0, gid |-> 0]  ino == SlotIno(ns) IN
  IF ino = 0 THEN Keep(q, Res("NOSLOT", NoRet))
  ELSE IF Cfg.no_open THEN Keep(q, Res("ENOSYS", NoRet))
  ELSE IF sw.seal /\ "TRUNC" \in fl /\ "seal-holes" \notin AsFound THEN Keep(q, Res("EPERM", NoRet))     \* do_open: sealed, no truncating open
  ELSE LET o == OpenInode(S, itab, ino, Root0, fl, HKey(HSlot)) IN
       IF ~o.ok THEN Keep(q, Res(ErrOf(o), NoRet))
       ELSE Fin(q, Res("OK", NoRet), o.S, itab, (nexth :> [ino |-> ino, flags |-> fl]) @@ htab, nexti, nexth + 1, FALSE, TRUE, 0, nexth)
PtRelease(hs) ==
  LET q == [op |-> "release", h |-> hs, n |-> 0, uid |-> 0, gid |-> 0]  h == SlotH(hs) IN
  IF Cfg.no_open THEN Keep(q, Res("ENOSYS", NoRet))
  ELSE IF h = 0 THEN Keep(q, Res("NOSLOT", NoRet))
  ELSE /\ hslots' = [hslots EXCEPT ![hs + 1] = 0]
       /\ LET e == Expect(S, X, q, NSlot, HSlot, 0)  T2 == Close(S, HKey(hs)) IN
          /\ S' = T2 /\ htab' = [x \in DOMAIN htab \ {h} |-> htab[x]]
          /\ bad' = IF taint = {} /\ T2 # e.S THEN bad \cup {"mirror"} ELSE bad
          /\ last' = [q |-> q, got |-> Res("OK", NoRet), exp |-> [kind |-> e.kind, ok |-> e.ok, errs |-> e.errs, ret |-> e.ret], same |-> T2 = e.S]
       /\ hist' = Append(hist, q @@ [st |-> "OK"]) /\ nops' = nops + 1
       /\ UNCHANGED <<slots, itab, nexti, nexth, size0, sw, taint>>
\* get_data + check_fd_flags: [ok, T, key, tmp, ht]
GetData(ns, hs, acc, reqfl) ==
  IF hs >= 0 THEN
       LET h == SlotH(hs) IN
       IF h = 0 \/ h \notin DOMAIN htab \/ htab[h].ino # SlotIno(ns) THEN [ok |-> FALSE, st |-> "EBADF", T |-> S, key |-> 0, tmp |-> FALSE, ht |-> htab]
       ELSE IF htab[h].flags = reqfl THEN [ok |-> TRUE, st |-> "OK", T |-> S, key |-> HKey(hs), tmp |-> FALSE, ht |-> htab]
       ELSE LET f == SetFl(S, HKey(hs), "APPEND" \in reqfl) IN
            IF ~f.ok THEN [ok |-> FALSE, st |-> ErrOf(f), T |-> S, key |-> 0, tmp |-> FALSE, ht |-> htab]
            ELSE [ok |-> TRUE, st |-> "OK", T |-> f.S, key |-> HKey(hs), tmp |-> FALSE, ht |-> [htab EXCEPT ![h].flags = reqfl]]
  ELSE LET o == OpenInode(S, itab, SlotIno(ns), Root0, acc, TmpKey) IN
       IF ~o.ok THEN [ok |-> FALSE, st |-> ErrOf(o), T |-> S, key |-> 0, tmp |-> FALSE, ht |-> htab]
       ELSE IF acc = reqfl THEN [ok |-> TRUE, st |-> "OK", T |-> o.S, key |-> TmpKey, tmp |-> TRUE, ht |-> htab]
       ELSE LET f == SetFl(o.S, TmpKey, "APPEND" \in reqfl) IN [ok |-> TRUE, st |-> "OK", T |-> f.S, key |-> TmpKey, tmp |-> TRUE, ht |-> htab]
Drop(T, g) == IF g.tmp THEN Close(T, TmpKey) ELSE T
PtRead(ns, hs, off, len, reqfl) ==
  LET q == [op |-> "read", n |-> ns, h |-> hs, off |-> off, len |-> len, fl |-> FlSeq(reqfl), flags |-> FlNum(reqfl), uid |-> 0, gid |-> 0] IN
  IF SlotIno(ns) = 0 \/ (hs >= 0 /\ SlotH(hs) = 0) THEN Keep(q, Res("NOSLOT", NoRet))
  ELSE LET g == GetData(ns, hs, {}, reqfl) IN
       IF ~g.ok THEN Keep(q, Res(g.st, NoRet))
       ELSE LET r == PRead(g.T, g.key, off, len) IN
            Fin(q, IF r.ok THEN Res("OK", r.ret) ELSE Res(ErrOf(r), NoRet), Drop(g.T, g), itab, g.ht, nexti, nexth, FALSE, FALSE, 0, 0)
PtWrite(ns, hs, off, data, reqfl) ==
  LET q == [op |-> "write", n |-> ns, h |-> hs, off |-> off, len |-> Len(data), data |-> data, fl |-> FlSeq(reqfl), flags |-> FlNum(reqfl), uid |-> 0, gid |-> 0] IN
  IF SlotIno(ns) = 0 \/ (hs >= 0 /\ SlotH(hs) = 0) THEN Keep(q, Res("NOSLOT", NoRet))
  ELSE IF sw.seal /\ "APPEND" \in reqfl /\ "seal-holes" \notin AsFound /\ ~("seeded:wb-append" \in AsFound /\ Cfg.wb) THEN Keep(q, Res("EPERM", NoRet))   \* sealed: an O_APPEND write always grows the file
  ELSE LET g == GetData(ns, hs, {"RDWR"}, reqfl) IN
       IF ~g.ok THEN Keep(q, Res(g.st, NoRet))
       ELSE IF g.key \notin DOMAIN g.T.of THEN Keep(q, Res("EBADF", NoRet))      \* (as found only) descriptor closed behind the handle's back
       ELSE LET sz == SizeOf(g.T.ino[g.T.of[g.key].i]) IN
            IF sw.seal /\ off + Len(data) > sz
            THEN \* seal_size_check refuses. As found, the early return dropped the File wrapping the handle's descriptor: closed
                 Fin(q, Res("EPERM", NoRet), IF "fd-close" \in AsFound THEN Close(g.T, g.key) ELSE Drop(g.T, g), itab, g.ht, nexti, nexth, FALSE, FALSE, 0, 0)
            ELSE LET r == PWrite(g.T, g.key, off, data) IN
                 Fin(q, IF r.ok THEN Res("OK", r.ret) ELSE Res(ErrOf(r), NoRet), Drop(r.S, g), itab, g.ht, nexti, nexth, FALSE, FALSE, 0, 0)
PtFallocate(ns, hs, mode, off, len) ==
  LET q == [op |-> "fallocate", n |-> ns, h |-> hs, fm |-> FmSeq(mode), mode |-> FmNum(mode), off |-> off, len |-> len, uid |-> 0, gid |-> 0] IN
  IF SlotIno(ns) = 0 \/ (hs >= 0 /\ SlotH(hs) = 0) THEN Keep(q, Res("NOSLOT", NoRet))
  ELSE LET g == GetData(ns, hs, {"RDWR"}, IF hs >= 0 THEN htab[SlotH(hs)].flags ELSE {"RDWR"}) IN
       IF ~g.ok THEN Keep(q, Res(g.st, NoRet))
       ELSE IF g.key \notin DOMAIN g.T.of THEN Keep(q, Res("EBADF", NoRet))
       ELSE LET sz == SizeOf(g.T.ino[g.T.of[g.key].i])
                opm == mode \ {"KEEP", "UNSHARE"}
                refuse == IF ~sw.seal THEN "OK"
                          ELSE IF opm \in {{}, {"PUNCH"}, {"ZERO"}} THEN (IF off + len > sz THEN "EPERM" ELSE "OK")
                          ELSE IF opm \in {{"COLLAPSE"}, {"INSERT"}} THEN "EPERM" ELSE "EINVAL" IN
            IF refuse # "OK" THEN Fin(q, Res(refuse, NoRet), Drop(g.T, g), itab, g.ht, nexti, nexth, FALSE, FALSE, 0, 0)
            ELSE LET r == Fallocate(g.T, g.key, mode, off, len) IN
                 Fin(q, IF r.ok THEN Res("OK", r.ret) ELSE Res(ErrOf(r), NoRet), Drop(r.S, g), itab, g.ht, nexti, nexth, FALSE, FALSE, 0, 0)
PtSetSize(ns, hs, sz) ==
  LET q == [op |-> "setattr", n |-> ns, h |-> hs, valid |-> <<"SIZE">>, attr |-> [size |-> sz], uid |-> 0, gid |-> 0]  ino == SlotIno(ns) IN
  IF ino = 0 \/ (hs >= 0 /\ SlotH(hs) = 0) THEN Keep(q, Res("NOSLOT", NoRet))
  ELSE IF hs >= 0 /\ ~Cfg.no_open /\ htab[SlotH(hs)].ino # ino THEN Keep(q, Res("EBADF", NoRet))
  ELSE IF sw.seal THEN Keep(q, Res("EPERM", NoRet))
  ELSE IF hs >= 0 /\ ~Cfg.no_open THEN
       LET r == FTruncate(S, HKey(hs), sz) IN
       IF ~r.ok THEN Keep(q, Res(ErrOf(r), NoRet)) ELSE Fin(q, Res("OK", Attr(r.S, itab[ino].i)), r.S, itab, htab, nexti, nexth, FALSE, FALSE, 0, 0)
  ELSE LET o == OpenInode(S, itab, ino, Root0, {"RDWR"}, TmpKey) IN
       IF ~o.ok THEN Keep(q, Res(ErrOf(o), NoRet))
       ELSE LET r == FTruncate(o.S, TmpKey, sz)  T3 == Close(r.S, TmpKey) IN
            Fin(q, IF r.ok THEN Res("OK", Attr(T3, itab[ino].i)) ELSE Res(ErrOf(r), NoRet), T3, itab, htab, nexti, nexth, FALSE, FALSE, 0, 0)

(* ---------------- the generator ---------------- *)
AllNames == {[s |-> n, k |-> "plain"] : n \in PlainNames} \cup HostileNames
Plain == {[s |-> n, k |-> "plain"] : n \in PlainNames}
RSlots == 0..(Len(slots) - 1)
HSlots == IF Cfg.no_open THEN {-1} ELSE 0..(Len(hslots) - 1)
Uids == IF Mode = "c05" THEN {<<0, 0>>, <<1000, 1000>>, <<0, 1000>>} ELSE {<<0, 0>>}       \* callers <<uid, gid>>
OFlags == IF Mode = "c18fd" THEN {{"RDWR"}} ELSE IF Mode = "c18" THEN {{}, {"RDWR"}, {"RDWR", "APPEND"}, {"RDWR", "TRUNC"}, {"WR"}}
          ELSE IF Mode = "c05" THEN {{}, {"RDWR"}, {"RDWR", "APPEND"}, {"WR", "TRUNC"}} ELSE {{}, {"RDWR"}}
WFlags == IF Mode = "c18fd" THEN {{"RDWR"}} ELSE IF Mode = "c18" THEN {{"RDWR"}, {"RDWR", "APPEND"}} ELSE IF Mode = "c05" THEN {{"RDWR"}, {"RDWR", "APPEND"}} ELSE {{"RDWR"}}
Targets == IF Mode = "c06" THEN {<<"..", "secret">>, <<"/", "secret">>, <<"..">>} ELSE {<<"a">>}
\* a handle is used with the inode it was opened on (IF, not \/: TLC explores both disjuncts of an action-level \/)
HOK(ns, hs) == IF hs < 0 THEN TRUE ELSE IF SlotH(hs) = 0 THEN TRUE ELSE htab[SlotH(hs)].ino = SlotIno(ns)
M18 == Mode \in {"c18", "c18fd"}         \* "c18fd": lookup / open / write only (anti-vacuity run of the descriptor defect)
Next ==
  /\ nops < MaxOps
  /\ \/ \E ps \in RSlots, nm \in AllNames : PtLookup(ps, nm)
     \/ (~M18 /\ \E ns \in RSlots : PtForget(ns))
     \/ (~M18 /\ \E c \in {1, 5}, b \in BOOLEAN : PtForgetRoot(c, b))
     \/ (Mode # "c18fd" /\ PtRemount)
     \/ (~M18 /\ \E ps \in RSlots, nm \in AllNames, kind \in {"mkdir", "mknod", "symlink"}, uid \in Uids, t \in Targets : (kind = "symlink" \/ t = CHOOSE x \in Targets : TRUE) /\ PtMk(ps, nm, kind, uid, t))
     \/ (Mode # "c18fd" /\ \E ps \in RSlots, nm \in (IF Mode = "c18" THEN Plain ELSE AllNames), fl \in OFlags, uid \in Uids : PtCreate(ps, nm, fl, uid))
     \/ (~M18 /\ \E ns \in RSlots, ps \in RSlots, nm \in AllNames : PtLink(ns, ps, nm))
     \/ (~M18 /\ \E ps \in RSlots, nm \in AllNames, d \in BOOLEAN : PtRemove(ps, nm, d))
     \/ (~M18 /\ \E ps \in RSlots, ps2 \in RSlots, nm \in AllNames, nm2 \in AllNames, rf \in (IF Mode = "c05" THEN RenFlags ELSE {""}) : PtRename(ps, nm, ps2, nm2, rf))
     \/ \E ns \in RSlots, fl \in OFlags : PtOpen(ns, fl)
     \/ (Mode \notin {"c06", "c18fd"} /\ \E hs \in 0..(Len(hslots) - 1) : PtRelease(hs))
     \/ (Mode # "c18fd") /\ \E ns \in RSlots, hs \in HSlots, off \in {0, 1}, len \in {1, 4} : HOK(ns, hs) /\ PtRead(ns, hs, off, len, IF hs >= 0 /\ SlotH(hs) # 0 THEN htab[SlotH(hs)].flags \ {"TRUNC"} ELSE {})
     \/ (Mode # "c06" /\ \E ns \in RSlots, hs \in HSlots, off \in (IF Mode = "c18fd" THEN {0, 3} ELSE 0..3), d \in (IF Mode = "c18fd" THEN {<<7>>} ELSE {<<7>>, <<8, 9>>}), fl \in WFlags : HOK(ns, hs) /\ PtWrite(ns, hs, off, d, fl))
     \/ (Mode = "c18" /\ \E ns \in RSlots, hs \in HSlots, m \in {{}, {"KEEP"}, {"PUNCH", "KEEP"}, {"ZERO"}, {"COLLAPSE"}, {"INSERT"}, {"PUNCH", "ZERO"}}, off \in {0, 1}, len \in {1, 2} :
            HOK(ns, hs) /\ PtFallocate(ns, hs, m, off, len))
     \/ (Mode \notin {"c06", "c18fd"} /\ \E ns \in RSlots, hs \in HSlots \cup {-1}, sz \in {0, 1, 3} : HOK(ns, hs) /\ PtSetSize(ns, hs, sz))
Init ==
  /\ S = OpenPath(InitS, Export, 0)
  /\ slots = <<1>> /\ hslots = <<>>
  /\ itab = (1 :> [i |-> Export, t |-> "dir", ref |-> 2]) /\ htab = <<>>
  /\ nexti = 2 /\ nexth = 1
  /\ size0 = [i \in {j \in Ids(InitS) : InitS.ino[j].t = "reg"} |-> SizeOf(InitS.ino[i])]
  /\ sw = [seal |-> Cfg.seal]
  /\ taint = {} /\ bad = {} /\ nops = 0 /\ hist = <<>>
  /\ last = [q |-> [op |-> "init"], got |-> Res("OK", NoRet), exp |-> [kind |-> "free", ok |-> TRUE, errs |-> {}, ret |-> NoRet], same |-> TRUE]
Spec == Init /\ [][Next]_vars

(* ---------------- properties ---------------- *)
RECURSIVE Inside(_, _, _)
Inside(T, d, k) == {d} \cup (IF k = 0 \/ ~IsDir(T, d) THEN {} ELSE UNION {Inside(T, T.dent[d][n], k - 1) : n \in Names(T, d)})
\* every inode the server references is (or was, for orphans) an object of the export; nothing outside changes
OutsideOf(T) == Ids(T) \ Inside(T, Export, MaxDepth)
TreeOK == TreeOKOf(S, 1)
MirrorOK == "mirror" \notin bad
NameGateOK == "namegate" \notin bad
ContainedOK == taint = {} => \A n \in DOMAIN itab : itab[n].i \notin OutsideOf(InitS) /\ (itab[n].i \in Ids(S) => itab[n].i \notin OutsideOf(S) \/ S.ino[itab[n].i].nlink = 0)
OutsideFrozen == taint = {} => \A i \in OutsideOf(InitS) : i \in Ids(S) /\ S.ino[i] = InitS.ino[i] /\ (IsDir(InitS, i) /\ i # 1 => S.dent[i] = InitS.dent[i])
Sealed == (Cfg.seal /\ taint = {}) => \A i \in DOMAIN size0 : (i \in Ids(S) /\ S.ino[i].t = "reg") => SizeOf(S.ino[i]) = size0[i]
\* a handle the client holds keeps its open file description until it is released
HandlesOK == \A j \in 0..(Len(hslots) - 1) : hslots[j + 1] # 0 => HKey(j) \in DOMAIN S.of
\* destroy + init leave the switches that come from the configuration as configured
SwitchesOK == sw = [seal |-> Cfg.seal]
SealRulesOK == bad \cap {"seal-neutral", "seal-refused-effect"} = {}
\* taint report and scenario export at the end of a history (parsed by checks/pttree.py)
Report == nops < MaxOps \/
  /\ (taint = {} \/ \A t \in taint : PrintT(<<"TAINT", t>>))
  /\ PrintT(<<"REPLAY", ToJson([mode |-> Mode, src |-> "tlc", cfg |-> ScenCfg, tree |-> ScenTree, ops |-> hist])>>)
=============================================================================
