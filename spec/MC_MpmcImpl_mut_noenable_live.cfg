SPECIFICATION FairSpec
CONSTANTS
  Prog <- P_2S2R
  Procs = {1,2,3,4}
  Fixed = FALSE
  EnableFirst = FALSE
  Mon = TRUE
INVARIANTS LinStrict
PROPERTY NoLostWakeup
