SPECIFICATION XSpec
CONSTANTS
  N = 256
  B = 65536
VIEW TraceView
CHECK_DEADLOCK FALSE
