------------------------------ MODULE MountFds ------------------------------
(* A level of specification extension X07: the sequential object behind
   /repo/src/passthrough/mount_fd.rs (`MountFds` / `MountFd`) - a reference-counted registry of
   one open descriptor per mount.

     Get(id, d)   returns the ONE descriptor registered for mount `id`; iff none is registered a
                  descriptor d is opened and registered. The caller then owns one reference.
     Put(id)      releases one reference; the descriptor is closed and unregistered exactly when
                  the last reference goes.

   State (a record, so that the I level and the trace judge can carry it as a value):
     reg  : Mounts -> descriptor registered for the mount (NoDesc = none)
     refs : Mounts -> number of references handed out and not yet released
     open : set of open descriptors

   Statements (invariants of every sequential history, obligations of the implementation):
     S1  a reference handed out denotes an OPEN descriptor until it is released
     S2  (quiescence) the registry has an entry for a mount iff references are outstanding, and
         the number of open mount descriptors equals the number of registered mounts
     S3  (quiescence, no reference outstanding) zero descriptors, empty registry *)
EXTENDS Naturals, FiniteSets

NoDesc == 0

MfInit(Mounts) == [reg |-> [m \in Mounts |-> NoDesc], refs |-> [m \in Mounts |-> 0], open |-> {}]

\* the descriptor Get returns in state s (d = the fresh descriptor used iff none is registered)
MfGetRet(s, id, d) == IF s.reg[id] # NoDesc THEN s.reg[id] ELSE d

MfGet(s, id, d) ==
  IF s.reg[id] # NoDesc
  THEN [s EXCEPT !.refs[id] = @ + 1]
  ELSE [s EXCEPT !.reg[id] = d, !.refs[id] = 1, !.open = @ \cup {d}]

MfPutEnabled(s, id) == s.refs[id] > 0

MfPut(s, id) ==
  IF s.refs[id] = 1
  THEN [s EXCEPT !.refs[id] = 0, !.open = @ \ {s.reg[id]}, !.reg[id] = NoDesc]
  ELSE [s EXCEPT !.refs[id] = @ - 1]

Registered(s) == {m \in DOMAIN s.reg : s.reg[m] # NoDesc}

\* S1: every outstanding reference denotes the registered descriptor of its mount, which is open
MfS1(s) == \A m \in DOMAIN s.reg : s.refs[m] > 0 => s.reg[m] # NoDesc /\ s.reg[m] \in s.open
\* S2: entry iff references outstanding; open descriptors = registered mounts (no leak, no dangling entry)
MfS2(s) == /\ \A m \in DOMAIN s.reg : (s.reg[m] # NoDesc) <=> (s.refs[m] > 0)
           /\ s.open = {s.reg[m] : m \in Registered(s)}
           /\ Cardinality(s.open) = Cardinality(Registered(s))
\* S3: nothing outstanding => nothing open, nothing registered
MfS3(s) == (\A m \in DOMAIN s.reg : s.refs[m] = 0) => s.open = {} /\ Registered(s) = {}

=============================================================================
